package rules

import (
	"fmt"
	"go/constant"
	"go/token"
	"go/types"
	"sort"
	"strings"

	"golang.org/x/tools/go/ssa"

	"charonverif/internal/an"
)

// ---------------------------------------------------------------------------------------------
// c02Sim — assumption-driven, path-sensitive exploration of one function with its static in-package
// callees and directly called function literals inlined.
//
// The rules of C02 are statements of the form "if this test says X, the function cannot accept" or
// "this effect is only reachable when that call answered true". Written against block shapes they
// break on every refactoring (named booleans become phis, `||` chains become several branches,
// guards move into helpers). The simulator decides them on the semantics instead: it walks the CFG,
// evaluates every branch condition from (a) the rule's assumptions ("atoms", matched on resolved
// operands, not on instructions), (b) the truth a condition was given when the walk forked on it,
// (c) the incoming edge of every phi, (d) the results of inlined callees, and reports the returns
// and instructions that stay reachable.

type c02Abs uint8

const (
	c02Unknown c02Abs = iota
	c02True
	c02False
)

func c02AbsOf(b bool) c02Abs {
	if b {
		return c02True
	}
	return c02False
}

func (a c02Abs) not() c02Abs {
	switch a {
	case c02True:
		return c02False
	case c02False:
		return c02True
	}
	return c02Unknown
}

// c02Frame is one activation in the inlined call tree.
type c02Frame struct {
	fn      *ssa.Function
	site    ssa.CallInstruction // call in parent (nil for the root)
	parent  *c02Frame
	id      int
	depth   int
	closure *ssa.MakeClosure // the closure value called (function literals), for free variables
	cframe  *c02Frame        // frame in which closure was made
}

func (f *c02Frame) under(g *c02Frame) bool {
	for x := f; x != nil; x = x.parent {
		if x == g {
			return true
		}
	}
	return false
}

// c02VF is a value together with the frame it lives in.
type c02VF struct {
	V ssa.Value
	F *c02Frame
}

type c02Key struct {
	fid int
	v   ssa.Value
	idx int // -1, or tuple index of an inlined call's result
}

type c02Val struct {
	abs c02Abs
	vf  c02VF // chosen value of a phi / result of an inlined call
}

// c02State is the path state.
type c02State struct {
	env   map[c02Key]c02Val
	flags uint32
}

func (st *c02State) clone() *c02State {
	n := &c02State{env: make(map[c02Key]c02Val, len(st.env)+2), flags: st.flags}
	for k, v := range st.env {
		n.env[k] = v
	}
	return n
}

type c02Act int

const (
	c02Go   c02Act = iota // continue
	c02Stop               // end this path
)

type c02Sim struct {
	root *c02Frame
	pkg  *ssa.Package
	// atom assigns a truth value to a boolean value by pattern (the rule's assumption).
	atom func(v ssa.Value, f *c02Frame, st *c02State) (bool, bool)
	// pre is a standing assumption of the whole rule (consulted before atom; kept by discover): e.g. "the message
	// examined is a ROUND-CHANGE" when a predicate is explored through its dispatcher.
	pre func(v ssa.Value, f *c02Frame, st *c02State) (bool, bool)
	// opaque callees are never inlined.
	opaque func(fn *ssa.Function) bool
	// want forces inlining of callees without a boolean result.
	want func(fn *ssa.Function) bool
	// onInstr is called before every instruction.
	onInstr func(in ssa.Instruction, f *c02Frame, st *c02State) c02Act
	// onBlock is called when a block is entered through an edge.
	onBlock func(b *ssa.BasicBlock, f *c02Frame, st *c02State) c02Act
	// onEdge is called when control moves along an edge of a function.
	onEdge func(from, to *ssa.BasicBlock, f *c02Frame, st *c02State)
	// onRet is called at every return of the root frame.
	onRet func(r *ssa.Return, st *c02State)

	frames     map[string]*c02Frame
	useBlocks  map[ssa.Value]map[*ssa.BasicBlock]bool
	storesMemo map[c02Cell][]*ssa.Store
	localMemo  map[*ssa.Alloc]bool
	inResolve  int
	reach      map[*ssa.BasicBlock]map[*ssa.BasicBlock]bool
	byID       []*c02Frame
	ids        map[ssa.Value]int
	seen       map[string]bool
	steps      int
	exhausted  bool
	inlineAll  bool
	// boolPhisOnly: do not track which edge a non-boolean phi took (large event loops)
	boolPhisOnly bool
	discovered   bool
}

const c02MaxSteps = 400000

// c02Undecided is the reason given when an exploration cannot be trusted: the step budget was exceeded, or a verdict
// was read from memory the exploration does not track.
const c02Undecided = "path exploration could not decide (step budget exceeded, or a verdict is read from memory the rule does not track)"

// verdict evaluates result idx of a root return; a verdict loaded from untracked memory makes the exploration undecided.
func (s *c02Sim) verdict(r *ssa.Return, idx int, st *c02State) c02Abs {
	if idx >= len(r.Results) {
		return c02Unknown
	}
	a := s.eval(r.Results[idx], s.root, st)
	if a == c02Unknown {
		if ld, ok := s.rootOf(r.Results[idx], s.root, st).V.(*ssa.UnOp); ok && ld.Op == token.MUL {
			s.exhausted = true
		}
	}
	return a
}

func c02NewSim(fn *ssa.Function) *c02Sim {
	s := &c02Sim{pkg: fn.Pkg, frames: map[string]*c02Frame{}, ids: map[ssa.Value]int{}, seen: map[string]bool{}}
	if s.pkg == nil && fn.Parent() != nil {
		for p := fn.Parent(); p != nil; p = p.Parent() {
			if p.Pkg != nil {
				s.pkg = p.Pkg
			}
		}
	}
	s.root = &c02Frame{fn: fn, id: 0}
	s.byID = []*c02Frame{s.root}
	return s
}

// reset forgets the visited states (frames are kept) so that another exploration can be run.
func (s *c02Sim) reset() {
	s.seen = map[string]bool{}
	s.steps = 0
	s.exhausted = false
}

func (s *c02Sim) frameFor(parent *c02Frame, site ssa.CallInstruction, fn *ssa.Function, mc *ssa.MakeClosure, cf *c02Frame) *c02Frame {
	key := fmt.Sprintf("%d|%p|%p", parent.id, site, fn)
	if f := s.frames[key]; f != nil {
		return f
	}
	f := &c02Frame{fn: fn, site: site, parent: parent, id: len(s.byID), depth: parent.depth + 1, closure: mc, cframe: cf}
	s.frames[key] = f
	s.byID = append(s.byID, f)
	return f
}

// allFrames lists the frames created so far (root first).
func (s *c02Sim) allFrames() []*c02Frame { return s.byID }

func c02IsBool(t types.Type) bool {
	b, ok := t.Underlying().(*types.Basic)
	return ok && b.Info()&types.IsBoolean != 0
}

func c02ParamIndex(fn *ssa.Function, p *ssa.Parameter) int {
	for i, q := range fn.Params {
		if q == p {
			return i
		}
	}
	return -1
}

func c02FreeVarIndex(fn *ssa.Function, p *ssa.FreeVar) int {
	for i, q := range fn.FreeVars {
		if q == p {
			return i
		}
	}
	return -1
}

// rootOf resolves a value to where it is defined: conversions, parameters of inlined frames (to the
// argument in the caller), free variables (to the binding), phis (to the edge chosen on this path),
// results of inlined calls, loads of single-assignment locals.
func (s *c02Sim) rootOf(v ssa.Value, f *c02Frame, st *c02State) c02VF {
	for i := 0; i < 64; i++ {
		switch x := v.(type) {
		case *ssa.ChangeType:
			v = x.X
			continue
		case *ssa.MakeInterface:
			v = x.X
			continue
		case *ssa.ChangeInterface:
			v = x.X
			continue
		case *ssa.Convert:
			v = x.X
			continue
		case *ssa.Parameter:
			if f.parent != nil && f.site != nil {
				if k := c02ParamIndex(f.fn, x); k >= 0 && k < len(f.site.Common().Args) {
					v, f = f.site.Common().Args[k], f.parent
					continue
				}
			}
			return c02VF{v, f}
		case *ssa.FreeVar:
			if f.closure != nil {
				if k := c02FreeVarIndex(f.fn, x); k >= 0 && k < len(f.closure.Bindings) {
					v, f = f.closure.Bindings[k], f.cframe
					continue
				}
			}
			return c02VF{v, f}
		case *ssa.Phi:
			if len(x.Edges) == 1 {
				v = x.Edges[0]
				continue
			}
			if st != nil {
				if e, ok := st.env[c02Key{f.id, x, -1}]; ok && e.vf.V != nil && e.vf.V != ssa.Value(x) {
					v, f = e.vf.V, e.vf.F
					continue
				}
			}
			return c02VF{v, f}
		case *ssa.Extract:
			if st != nil {
				if e, ok := st.env[c02Key{f.id, x.Tuple, x.Index}]; ok && e.vf.V != nil {
					v, f = e.vf.V, e.vf.F
					continue
				}
			}
			if call, ok := x.Tuple.(*ssa.Call); ok && i < 48 {
				if ret, nf := s.singleReturn(call, f, st); ret != nil && x.Index < len(ret.Results) {
					v, f = ret.Results[x.Index], nf
					continue
				}
				if r, ok := s.sentinelReturn(call, x.Index, f, st); ok {
					v, f = r.V, r.F
					continue
				}
			}
			return c02VF{v, f}
		case *ssa.Call:
			if st != nil {
				if e, ok := st.env[c02Key{f.id, x, -1}]; ok && e.vf.V != nil {
					v, f = e.vf.V, e.vf.F
					continue
				}
			}
			if i < 48 {
				if ret, nf := s.singleReturn(x, f, st); ret != nil && len(ret.Results) == 1 {
					v, f = ret.Results[0], nf
					continue
				}
				if _, isTuple := x.Type().(*types.Tuple); !isTuple {
					if r, ok := s.sentinelReturn(x, 0, f, st); ok {
						v, f = r.V, r.F
						continue
					}
				}
			}
			return c02VF{v, f}
		case *ssa.UnOp:
			if x.Op == token.MUL {
				if al, ok := x.X.(*ssa.Alloc); ok && st != nil {
					if e, ok := st.env[c02Key{f.id, al, -2}]; ok && e.vf.V != nil {
						v, f = e.vf.V, e.vf.F
						continue
					}
				}
				if al, ok := x.X.(*ssa.Alloc); ok {
					if src := an.UniqueStore(al); src != nil && c02OnlyLoadsAndStore(al) {
						v = src
						continue
					}
				}
				// a variable assigned exactly once (in its function and all literals capturing it): its loads yield
				// the value stored (a load before the store would read the zero value, which no rule matches)
				if cl := c02StaticCell(x.X); cl.ok() && cl.path == "" {
					if sts := s.cellStores(cl); len(sts) == 1 && sts[0].Addr == ssa.Value(cl.al) && c02InitialisedBeforeUse(cl.al, sts[0]) {
						host := f
						if f.closure != nil || f.fn != sts[0].Parent() {
							// find the activation of the storing function on the lexical chain
							host = nil
							for x := f; x != nil; x = x.parent {
								if x.fn == sts[0].Parent() {
									host = x
									break
								}
								if x.cframe != nil && x.cframe.fn == sts[0].Parent() {
									host = x.cframe
									break
								}
							}
						}
						if host != nil {
							v, f = sts[0].Val, host
							continue
						}
					}
				}
			}
			return c02VF{v, f}
		}
		return c02VF{v, f}
	}
	return c02VF{v, f}
}

// c02OnlyLoadsAndStore: the local is never passed on by address (its single store is its value for ever).
func c02OnlyLoadsAndStore(al *ssa.Alloc) bool {
	for _, ref := range *al.Referrers() {
		switch r := ref.(type) {
		case *ssa.Store:
			if r.Addr != ssa.Value(al) {
				return false
			}
		case *ssa.UnOp:
			if r.Op != token.MUL {
				return false
			}
		case *ssa.DebugRef:
		default:
			return false
		}
	}
	return true
}

// eval computes the truth of a boolean value on the current path.
func (s *c02Sim) eval(v ssa.Value, f *c02Frame, st *c02State) c02Abs { return s.evalD(v, f, st, 0) }

func (s *c02Sim) evalD(v ssa.Value, f *c02Frame, st *c02State, d int) c02Abs {
	if d > 24 || v == nil {
		return c02Unknown
	}
	if s.pre != nil {
		if t, ok := s.pre(v, f, st); ok {
			return c02AbsOf(t)
		}
	}
	if s.atom != nil {
		if t, ok := s.atom(v, f, st); ok {
			return c02AbsOf(t)
		}
	}
	if e, ok := st.env[c02Key{f.id, v, -1}]; ok && e.abs != c02Unknown {
		return e.abs
	}
	switch x := v.(type) {
	case *ssa.Const:
		if x.Value != nil && x.Value.Kind() == constant.Bool {
			return c02AbsOf(constant.BoolVal(x.Value))
		}
	case *ssa.ChangeType:
		return s.evalD(x.X, f, st, d+1)
	case *ssa.UnOp:
		if x.Op == token.NOT {
			return s.evalD(x.X, f, st, d+1).not()
		}
		if x.Op == token.MUL {
			if al, ok := x.X.(*ssa.Alloc); ok {
				if e, ok := st.env[c02Key{f.id, al, -2}]; ok {
					if e.abs != c02Unknown {
						return e.abs
					}
					if e.vf.V != nil {
						return s.evalD(e.vf.V, e.vf.F, st, d+1)
					}
				}
			}
		}
	case *ssa.Phi:
		if len(x.Edges) == 1 {
			return s.evalD(x.Edges[0], f, st, d+1)
		}
		if e, ok := st.env[c02Key{f.id, x, -1}]; ok && e.vf.V != nil && e.vf.V != ssa.Value(x) {
			return s.evalD(e.vf.V, e.vf.F, st, d+1)
		}
	case *ssa.Parameter:
		if r := s.rootOf(x, f, st); r.V != ssa.Value(x) || r.F != f {
			return s.evalD(r.V, r.F, st, d+1)
		}
	case *ssa.Extract:
		if e, ok := st.env[c02Key{f.id, x.Tuple, x.Index}]; ok {
			if e.abs != c02Unknown {
				return e.abs
			}
			if e.vf.V != nil {
				return s.evalD(e.vf.V, e.vf.F, st, d+1)
			}
		}
	case *ssa.Call:
		if e, ok := st.env[c02Key{f.id, x, -1}]; ok && e.vf.V != nil {
			return s.evalD(e.vf.V, e.vf.F, st, d+1)
		}
	case *ssa.BinOp:
		if x.Op == token.EQL || x.Op == token.NEQ {
			if c02IsBool(x.X.Type()) {
				a, b := s.evalD(x.X, f, st, d+1), s.evalD(x.Y, f, st, d+1)
				if a != c02Unknown && b != c02Unknown {
					return c02AbsOf((a == b) == (x.Op == token.EQL))
				}
				return c02Unknown
			}
		}
		if c02IsCmp(x.Op) {
			a, b := s.rootOf(x.X, f, st), s.rootOf(x.Y, f, st)
			ka, oka := a.V.(*ssa.Const)
			kb, okb := b.V.(*ssa.Const)
			if oka && okb && ka.Value != nil && kb.Value != nil && ka.Value.Kind() == kb.Value.Kind() && ka.Value.Kind() == constant.Int {
				return c02AbsOf(constant.Compare(ka.Value, x.Op, kb.Value))
			}
		}
	}
	return c02Unknown
}

// assume records the truth a condition was given when the walk forked on it.
func (s *c02Sim) assume(v ssa.Value, f *c02Frame, st *c02State, t c02Abs, d int) {
	if d > 12 || v == nil {
		return
	}
	k := c02Key{f.id, v, -1}
	e := st.env[k]
	e.abs = t
	st.env[k] = e
	switch x := v.(type) {
	case *ssa.UnOp:
		if x.Op == token.NOT {
			s.assume(x.X, f, st, t.not(), d+1)
		}
	case *ssa.ChangeType:
		s.assume(x.X, f, st, t, d+1)
	case *ssa.Parameter:
		if r := s.rootOf(x, f, st); r.V != ssa.Value(x) || r.F != f {
			s.assume(r.V, r.F, st, t, d+1)
		}
	case *ssa.Phi:
		if e, ok := st.env[k]; ok && e.vf.V != nil && e.vf.V != ssa.Value(x) {
			s.assume(e.vf.V, e.vf.F, st, t, d+1)
		}
	case *ssa.Extract:
		k2 := c02Key{f.id, x.Tuple, x.Index}
		if e, ok := st.env[k2]; ok {
			e.abs = t
			st.env[k2] = e
			if e.vf.V != nil {
				s.assume(e.vf.V, e.vf.F, st, t, d+1)
			}
		}
	case *ssa.BinOp:
		if (x.Op == token.EQL || x.Op == token.NEQ) && c02IsBool(x.X.Type()) {
			if b, ok := c02ConstBool(x.Y); ok {
				s.assume(x.X, f, st, c02AbsOf((t == c02True) == ((x.Op == token.EQL) == b)), d+1)
			} else if b, ok := c02ConstBool(x.X); ok {
				s.assume(x.Y, f, st, c02AbsOf((t == c02True) == ((x.Op == token.EQL) == b)), d+1)
			}
		}
	}
}

func (s *c02Sim) vid(v ssa.Value) int {
	if n, ok := s.ids[v]; ok {
		return n
	}
	n := len(s.ids) + 1
	s.ids[v] = n
	return n
}

func (s *c02Sim) stateKey(f *c02Frame, b *ssa.BasicBlock, st *c02State) string {
	parts := make([]string, 0, len(st.env))
	for k, e := range st.env {
		if e.abs == c02Unknown && e.vf.V == nil {
			continue
		}
		fid := -1
		if e.vf.F != nil {
			fid = e.vf.F.id
		}
		vv := 0
		if e.vf.V != nil {
			vv = s.vid(e.vf.V)
		}
		parts = append(parts, fmt.Sprintf("%d.%d.%d=%d.%d.%d", k.fid, s.vid(k.v), k.idx, e.abs, vv, fid))
	}
	sort.Strings(parts)
	return fmt.Sprintf("%d:%d:%x:%s", f.id, b.Index, st.flags, strings.Join(parts, ","))
}

// calleeOf resolves the function executed by a call, if it is to be inlined.
func (s *c02Sim) calleeOf(call ssa.CallInstruction, f *c02Frame, st *c02State) (*ssa.Function, *ssa.MakeClosure, *c02Frame) {
	cc := call.Common()
	if cc.IsInvoke() {
		return nil, nil, nil
	}
	var fn *ssa.Function
	var mc *ssa.MakeClosure
	var cf *c02Frame
	r := s.rootOf(cc.Value, f, st)
	switch x := r.V.(type) {
	case *ssa.Function:
		fn = x
	case *ssa.MakeClosure:
		fn, _ = x.Fn.(*ssa.Function)
		mc, cf = x, r.F
	default:
		return nil, nil, nil
	}
	if fn == nil {
		return nil, nil, nil
	}
	fn = an.Orig(fn)
	if fn.Blocks == nil || len(fn.Blocks) > 120 {
		return nil, nil, nil
	}
	pk := fn.Pkg
	for p := fn; pk == nil && p != nil; p = p.Parent() {
		pk = p.Pkg
	}
	if pk != s.pkg {
		return nil, nil, nil
	}
	if s.opaque != nil && s.opaque(fn) {
		return nil, nil, nil
	}
	if f.depth >= 5 {
		return nil, nil, nil
	}
	for x := f; x != nil; x = x.parent {
		if x.fn == fn {
			return nil, nil, nil // recursion
		}
	}
	if !s.inlineAll {
		hasBool := false
		res := fn.Signature.Results()
		for i := 0; i < res.Len(); i++ {
			if c02IsBool(res.At(i).Type()) {
				hasBool = true
			}
		}
		if !hasBool && (s.want == nil || !s.want(fn)) {
			return nil, nil, nil
		}
	}
	return fn, mc, cf
}

func c02InstrIndex(in ssa.Instruction) int {
	for i, x := range in.Block().Instrs {
		if x == in {
			return i
		}
	}
	return -1
}

// run explores from instruction idx of block b in frame f.
func (s *c02Sim) run(f *c02Frame, b *ssa.BasicBlock, idx int, st *c02State) {
	for {
		if s.exhausted {
			return
		}
		s.steps++
		if s.steps > c02MaxSteps {
			s.exhausted = true
			return
		}
		if idx >= len(b.Instrs) {
			return
		}
		in := b.Instrs[idx]
		if s.onInstr != nil {
			if s.onInstr(in, f, st) == c02Stop {
				return
			}
		}
		switch x := in.(type) {
		case *ssa.Call:
			if fn, mc, cf := s.calleeOf(x, f, st); fn != nil {
				nf := s.frameFor(f, x, fn, mc, cf)
				s.enter(nf, nil, fn.Blocks[0], st)
				return
			}
		case *ssa.Store:
			// non-escaping locals that stay in memory (named results of functions with defer, address-taken
			// temporaries): remember what the path stored
			if al, ok := x.Addr.(*ssa.Alloc); ok && s.localOnly(al) {
				e := c02Val{vf: s.rootOf(x.Val, f, st)}
				if c02IsBool(x.Val.Type()) {
					e.abs = s.eval(x.Val, f, st)
				}
				st.env[c02Key{f.id, al, -2}] = e
			}
		case *ssa.If:
			switch s.eval(x.Cond, f, st) {
			case c02True:
				s.enter(f, b, b.Succs[0], st)
			case c02False:
				s.enter(f, b, b.Succs[1], st)
			default:
				st1 := st.clone()
				s.assume(x.Cond, f, st1, c02True, 0)
				s.enter(f, b, b.Succs[0], st1)
				st2 := st.clone()
				s.assume(x.Cond, f, st2, c02False, 0)
				s.enter(f, b, b.Succs[1], st2)
			}
			return
		case *ssa.Jump:
			s.enter(f, b, b.Succs[0], st)
			return
		case *ssa.Panic:
			return
		case *ssa.Return:
			if f.parent == nil {
				if s.onRet != nil {
					s.onRet(x, st)
				}
				return
			}
			// bind the results to the call in the caller and continue there
			nst := st.clone()
			site := f.site.(*ssa.Call)
			for i, rv := range x.Results {
				e := c02Val{}
				if c02IsBool(rv.Type()) {
					e.abs = s.eval(rv, f, st)
				}
				e.vf = s.rootOf(rv, f, st)
				k := c02Key{f.parent.id, site, i}
				if len(x.Results) == 1 {
					k.idx = -1
				}
				nst.env[k] = e
			}
			for k := range nst.env {
				if k.fid != f.parent.id && k.fid < len(s.byID) && s.byID[k.fid].under(f) {
					delete(nst.env, k)
				}
			}
			// values rooted in the finished frame stay meaningful only as patterns; keep them.
			s.run(f.parent, site.Block(), c02InstrIndex(site)+1, nst)
			return
		}
		idx++
	}
}

// enter moves along the edge from -> to (from == nil: function entry).
func (s *c02Sim) enter(f *c02Frame, from, to *ssa.BasicBlock, st *c02State) {
	st = st.clone()
	// phis take the value of the incoming edge (evaluated in parallel, before the block's old values are dropped)
	type upd struct {
		k c02Key
		e c02Val
	}
	var ups []upd
	if from != nil {
		ei := -1
		for i, p := range to.Preds {
			if p == from {
				ei = i
				break
			}
		}
		for _, in := range to.Instrs {
			ph, ok := in.(*ssa.Phi)
			if !ok {
				break
			}
			e := c02Val{}
			if ei >= 0 && ei < len(ph.Edges) {
				if c02IsBool(ph.Type()) {
					e.abs = s.eval(ph.Edges[ei], f, st)
					e.vf = s.rootOf(ph.Edges[ei], f, st)
				} else if !s.boolPhisOnly {
					e.vf = s.rootOf(ph.Edges[ei], f, st)
				}
			}
			ups = append(ups, upd{c02Key{f.id, ph, -1}, e})
		}
	}
	for _, in := range to.Instrs {
		v, ok := in.(ssa.Value)
		if !ok {
			continue
		}
		delete(st.env, c02Key{f.id, v, -1})
		delete(st.env, c02Key{f.id, v, -2})
		if tup, ok := v.Type().(*types.Tuple); ok {
			for i := 0; i < tup.Len(); i++ {
				delete(st.env, c02Key{f.id, v, i})
			}
		}
	}
	// SSA: a value can only be used where its definition dominates; what does not dominate the block entered is
	// dead on this path and must not distinguish states (keeps the exploration of event loops linear)
	for k := range st.env {
		if k.fid != f.id {
			continue
		}
		if in, ok := k.v.(ssa.Instruction); ok && in.Block() != nil && in.Parent() == to.Parent() && in.Block() != to {
			if !in.Block().Dominates(to) || !s.liveAt(k.v, to) {
				delete(st.env, k)
			}
		}
	}
	for _, u := range ups {
		st.env[u.k] = u.e
	}
	if s.onEdge != nil && from != nil {
		s.onEdge(from, to, f, st)
	}
	if s.onBlock != nil {
		if s.onBlock(to, f, st) == c02Stop {
			return
		}
	}
	key := s.stateKey(f, to, st)
	if s.seen[key] {
		return
	}
	s.seen[key] = true
	s.run(f, to, 0, st)
}

// start begins an exploration at the entry of the root function.
func (s *c02Sim) start() {
	s.reset()
	s.enter(s.root, nil, s.root.fn.Blocks[0], &c02State{env: map[c02Key]c02Val{}})
}

// startAt begins an exploration at the given block (as if entered on an unknown edge) with the given flags.
func (s *c02Sim) startAt(f *c02Frame, b *ssa.BasicBlock, flags uint32) {
	s.reset()
	st := &c02State{env: map[c02Key]c02Val{}, flags: flags}
	s.seen[s.stateKey(f, b, st)] = true
	s.run(f, b, 0, st)
}

// startAfter begins an exploration just after instruction in.
func (s *c02Sim) startAfter(f *c02Frame, in ssa.Instruction, flags uint32) {
	s.reset()
	st := &c02State{env: map[c02Key]c02Val{}, flags: flags}
	s.run(f, in.Block(), c02InstrIndex(in)+1, st)
}

// discover explores everything once (no assumptions) so that all frames exist.
func (s *c02Sim) discover() {
	atom, oi, ob, or, oe := s.atom, s.onInstr, s.onBlock, s.onRet, s.onEdge
	s.atom, s.onInstr, s.onBlock, s.onRet, s.onEdge = nil, nil, nil, nil, nil
	s.start()
	s.atom, s.onInstr, s.onBlock, s.onRet, s.onEdge = atom, oi, ob, or, oe
	s.reset()
}

// ---------------------------------------------------------------------------------------------
// Pattern helpers on rooted values

// msgCall: v (in frame f) is recv.<method>() on the Msg interface; returns the rooted receiver.
func (s *c02Sim) msgCall(v ssa.Value, f *c02Frame, st *c02State, method string) (c02VF, bool) {
	r := s.rootOf(v, f, st)
	call, ok := r.V.(*ssa.Call)
	if !ok || !call.Call.IsInvoke() || call.Call.Method.Name() != method {
		return c02VF{}, false
	}
	if c02Strip(an.TypeName(call.Call.Value.Type())) != c02P+".Msg" {
		return c02VF{}, false
	}
	return s.rootOf(call.Call.Value, r.F, st), true
}

// msgCallOn: v is recv.<method>() with recv rooted at the given value of the root frame.
func (s *c02Sim) msgCallOn(v ssa.Value, f *c02Frame, st *c02State, method string, recv ssa.Value) bool {
	r, ok := s.msgCall(v, f, st, method)
	return ok && r.V == recv && r.F == s.root
}

// isRootValue: v roots to the given value of the root frame.
func (s *c02Sim) isRootValue(v ssa.Value, f *c02Frame, st *c02State, want ssa.Value) bool {
	r := s.rootOf(v, f, st)
	return r.V == want && r.F == s.root
}

// staticCall: v roots to a call of the in-package function `name`.
func (s *c02Sim) staticCall(v ssa.Value, f *c02Frame, st *c02State, name string) (*ssa.Call, *c02Frame) {
	r := s.rootOf(v, f, st)
	if call := c02Static(r.V, name); call != nil {
		return call, r.F
	}
	return nil, nil
}

// c02LoopBodyEntries returns where an iteration starts: for a slice loop the in-range successor of its bound test (an
// element remains), otherwise the in-loop successors of the loop header.
func c02LoopBodyEntries(l *an.Loop) []*ssa.BasicBlock {
	if bd := c02LoopBound(l); bd != nil {
		return []*ssa.BasicBlock{bd.iff.Block().Succs[bd.inRange]}
	}
	var out []*ssa.BasicBlock
	for _, s := range l.Header.Succs {
		if l.Body[s] && s != l.Header {
			out = append(out, s)
		}
	}
	return out
}

// c02LoopFull: the loop steps through every element of its collection: a map/channel range, or a slice loop whose
// induction variable starts at the first element and advances by one on every way round. Whether the loop can be left
// for another reason while elements remain is a separate, path-based question (c02ScanLeftOnlyToReject).
func c02LoopFull(l *an.Loop) (bool, string) {
	for _, in := range l.Header.Instrs {
		if x, ok := in.(*ssa.Next); ok {
			if _, ok := x.Iter.(*ssa.Range); ok {
				return true, ""
			}
		}
	}
	bd := c02LoopBound(l)
	if bd == nil {
		return false, "no `index < len(collection)` test found that bounds the loop"
	}
	phi := bd.phi
	for i, e := range phi.Edges {
		pred := l.Header.Preds[i]
		if l.Body[pred] {
			// way round: phi + 1 (three-clause) or the incremented index itself (range form)
			if bd.start == -1 {
				if b, ok := e.(*ssa.BinOp); !ok || b.Op != token.ADD || b.X != ssa.Value(phi) {
					return false, "loop index is modified inside the loop"
				} else if k, ok := an.ConstInt(b.Y); !ok || k != 1 {
					return false, "loop index is modified inside the loop"
				}
				continue
			}
			inc, ok := e.(*ssa.BinOp)
			if !ok || inc.Op != token.ADD {
				return false, "loop index does not advance by one"
			}
			x, y := inc.X, inc.Y
			if x != ssa.Value(phi) {
				x, y = y, x
			}
			if x != ssa.Value(phi) {
				return false, "loop index does not advance by one"
			}
			if k, ok := an.ConstInt(y); !ok || k != 1 {
				return false, "loop index does not advance by one"
			}
			continue
		}
		if k, ok := an.ConstInt(e); !ok || k != bd.start {
			return false, "loop does not start at the first element"
		}
	}
	return true, ""
}

// c02ScanLeftOnlyToReject: while elements remain, loop l of frame f cannot be left towards an accepting return — neither
// from its body (break / return) nor by another clause of its condition (`for i := 0; ok && i < n; i++`). Explored from
// the loop header under "an element remains" until the next time round.
func c02ScanLeftOnlyToReject(s *c02Sim, f *c02Frame, l *an.Loop, accepting func(r *ssa.Return, st *c02State) bool) (ok bool, exhausted bool) {
	bd := c02LoopBound(l)
	oa, oi, ob, or := s.atom, s.onInstr, s.onBlock, s.onRet
	defer func() { s.atom, s.onInstr, s.onBlock, s.onRet = oa, oi, ob, or }()
	s.onInstr = nil
	s.atom = nil
	if bd != nil {
		s.atom = func(v ssa.Value, fr *c02Frame, st *c02State) (bool, bool) {
			if v == ssa.Value(bd.cmp) && fr == f {
				return bd.inRange == 0, true
			}
			return false, false
		}
	}
	s.onBlock = func(b *ssa.BasicBlock, fr *c02Frame, st *c02State) c02Act {
		if b == l.Header && fr == f {
			return c02Stop
		}
		return c02Go
	}
	bad := false
	s.onRet = func(r *ssa.Return, st *c02State) {
		if accepting(r, st) {
			bad = true
		}
	}
	if bd != nil {
		s.startAt(f, l.Header, 0)
	} else {
		for _, b := range c02LoopBodyEntries(l) {
			s.startAt(f, b, 0)
		}
	}
	return !bad, s.exhausted
}

// c02InPkgCallers returns the static call sites of fn (generic origin) in its package.
// c02PkgOf returns the package of fn (of its outermost enclosing function for literals).
func c02PkgOf(fn *ssa.Function) *ssa.Package {
	fn = an.Orig(fn)
	pk := fn.Pkg
	for p := fn; pk == nil && p != nil; p = p.Parent() {
		pk = an.Orig(p).Pkg
	}
	return pk
}

var c02CallersMemo = map[*ssa.Function][]ssa.CallInstruction{}

func c02InPkgCallers(fn *ssa.Function) []ssa.CallInstruction {
	fn = an.Orig(fn)
	if v, ok := c02CallersMemo[fn]; ok {
		return v
	}
	out := c02InPkgCallersRaw(fn)
	c02CallersMemo[fn] = out
	return out
}

func c02InPkgCallersRaw(fn *ssa.Function) []ssa.CallInstruction {
	pk := fn.Pkg
	for p := fn; pk == nil && p != nil; p = p.Parent() {
		pk = p.Pkg
	}
	if pk == nil {
		return nil
	}
	var out []ssa.CallInstruction
	for _, g := range c02PkgFuncs(pk) {
		for _, in := range an.Instrs(g, false) {
			ci, ok := in.(ssa.CallInstruction)
			if !ok || ci.Common().IsInvoke() {
				continue
			}
			if cal := ci.Common().StaticCallee(); cal != nil && an.Orig(cal) == fn {
				out = append(out, ci)
			}
		}
	}
	return out
}

// c02FnUsedAsValue: fn is referenced other than as the callee of a static call.
var c02UsedAsValueMemo = map[*ssa.Function]bool{}

func c02FnUsedAsValue(fn *ssa.Function) bool {
	fn = an.Orig(fn)
	if v, ok := c02UsedAsValueMemo[fn]; ok {
		return v
	}
	v := c02FnUsedAsValueRaw(fn)
	c02UsedAsValueMemo[fn] = v
	return v
}

func c02FnUsedAsValueRaw(fn *ssa.Function) bool {
	pk := fn.Pkg
	if pk == nil {
		return true
	}
	for _, g := range c02PkgFuncs(pk) {
		for _, in := range an.Instrs(g, false) {
			for _, op := range an.Operands(in) {
				f2, ok := op.(*ssa.Function)
				if !ok || an.Orig(f2) != fn {
					continue
				}
				if ci, ok := in.(ssa.CallInstruction); ok && ci.Common().Value == op {
					continue
				}
				return true
			}
		}
	}
	return false
}

// c02StaticBinding resolves a free variable to the value bound by the MakeClosure of its function literal.
func c02StaticBinding(fv *ssa.FreeVar) ssa.Value {
	fn := fv.Parent()
	idx := c02FreeVarIndex(fn, fv)
	if idx < 0 || fn.Parent() == nil {
		return nil
	}
	for _, in := range an.Instrs(fn.Parent(), false) {
		if mc, ok := in.(*ssa.MakeClosure); ok && mc.Fn == ssa.Value(fn) {
			b := mc.Bindings[idx]
			if f2, ok := b.(*ssa.FreeVar); ok {
				return c02StaticBinding(f2)
			}
			return b
		}
	}
	return nil
}

// c02Cell is a state variable: a local of a function (possibly captured by its literals) or a field of such a
// local when the state is grouped in a struct.
type c02Cell struct {
	al   *ssa.Alloc
	path string // ".<field index>" per level
}

func (c c02Cell) ok() bool { return c.al != nil }

// covers: a store into c overwrites d (c is d or an enclosing struct of d).
func (c c02Cell) covers(d c02Cell) bool {
	return c.al != nil && c.al == d.al && (c.path == d.path || strings.HasPrefix(d.path, c.path+"."))
}

func (c c02Cell) name() string {
	if c.al == nil {
		return "<none>"
	}
	n := c.al.Comment
	t := c.al.Type().(*types.Pointer).Elem()
	for _, p := range strings.Split(strings.TrimPrefix(c.path, "."), ".") {
		if p == "" {
			continue
		}
		var i int
		fmt.Sscan(p, &i)
		st, ok := t.Underlying().(*types.Struct)
		if !ok || i >= st.NumFields() {
			break
		}
		n += "." + st.Field(i).Name()
		t = st.Field(i).Type()
	}
	return n
}

// c02StaticCell resolves an address to the state variable it denotes: a local, a captured local, a field of one,
// or a field of the struct a single-assignment pointer variable points to.
func c02StaticCell(a ssa.Value) c02Cell { return c02StaticCellD(a, 0) }

func c02StaticCellD(a ssa.Value, d int) c02Cell {
	if d > 12 {
		return c02Cell{}
	}
	switch x := a.(type) {
	case *ssa.Alloc:
		return c02Cell{al: x}
	case *ssa.Call:
		// `r := newRunner(...)`: the state struct is made by a constructor called from exactly one place
		if al := c02CtorAlloc(x); al != nil {
			return c02Cell{al: al}
		}
	case *ssa.FreeVar:
		if b := c02StaticBinding(x); b != nil {
			return c02StaticCellD(b, d+1)
		}
	case *ssa.FieldAddr:
		base := c02StaticCellD(x.X, d+1)
		if base.ok() {
			return c02Cell{base.al, fmt.Sprintf("%s.%d", base.path, x.Field)}
		}
	case *ssa.Parameter:
		// a pointer to the state handed to a helper or method (receiver): every in-package call site must pass
		// the address of the same variable
		fn := x.Parent()
		if fn == nil || fn.Parent() != nil {
			return c02Cell{}
		}
		if _, isPtr := x.Type().Underlying().(*types.Pointer); !isPtr {
			return c02Cell{}
		}
		idx := c02ParamIndex(fn, x)
		sites := c02InPkgCallers(fn)
		if idx < 0 || len(sites) == 0 || c02FnUsedAsValue(fn) {
			return c02Cell{}
		}
		var out c02Cell
		for _, s := range sites {
			if idx >= len(s.Common().Args) {
				return c02Cell{}
			}
			c := c02StaticCellD(s.Common().Args[idx], d+1)
			if !c.ok() || (out.ok() && out != c) {
				return c02Cell{}
			}
			out = c
		}
		return out
	case *ssa.UnOp:
		// `st := &state{...}` held in a (captured) variable: the pointee is the cell
		if x.Op == token.MUL {
			v := c02StaticCellD(x.X, d+1)
			if v.ok() && v.path == "" {
				if sts := c02CellStores(v); len(sts) == 1 {
					if al, ok := sts[0].Val.(*ssa.Alloc); ok {
						return c02Cell{al: al}
					}
					if call, ok := sts[0].Val.(*ssa.Call); ok {
						if al := c02CtorAlloc(call); al != nil {
							return c02Cell{al: al}
						}
					}
				}
			}
		}
	}
	return c02Cell{}
}

// c02CtorAlloc: the call is the only call of an in-package top-level function (a constructor) every return of which
// hands out the address of one and the same struct it allocates: the pointer returned denotes that one struct.
func c02CtorAlloc(call *ssa.Call) *ssa.Alloc {
	if call.Call.IsInvoke() || call.Call.StaticCallee() == nil || call.Parent() == nil {
		return nil
	}
	fn := an.Orig(call.Call.StaticCallee())
	if fn.Parent() != nil || fn.Blocks == nil || c02PkgOf(fn) == nil || c02PkgOf(fn) != c02PkgOf(call.Parent()) {
		return nil
	}
	if pt, ok := call.Type().Underlying().(*types.Pointer); !ok {
		return nil
	} else if _, isStruct := pt.Elem().Underlying().(*types.Struct); !isStruct {
		return nil
	}
	if sites := c02InPkgCallers(fn); len(sites) != 1 || c02FnUsedAsValue(fn) {
		return nil
	}
	var out *ssa.Alloc
	rets := an.Returns(fn)
	if len(rets) == 0 {
		return nil
	}
	for _, ret := range rets {
		if len(ret.Results) != 1 {
			return nil
		}
		al, ok := an.Unwrap(ret.Results[0]).(*ssa.Alloc)
		if !ok || (out != nil && out != al) {
			return nil
		}
		out = al
	}
	// the call must not sit in a loop of its function (one activation, one struct)
	if c02BlockInCycle(call.Block()) {
		return nil
	}
	return out
}

func c02BlockInCycle(b *ssa.BasicBlock) bool {
	seen := map[*ssa.BasicBlock]bool{}
	var walk func(x *ssa.BasicBlock) bool
	walk = func(x *ssa.BasicBlock) bool {
		for _, s := range x.Succs {
			if s == b {
				return true
			}
			if !seen[s] {
				seen[s] = true
				if walk(s) {
					return true
				}
			}
		}
		return false
	}
	return walk(b)
}

// c02CellStores returns every store into the state variable (or an enclosing struct of it), in its function
// and all nested literals.
var (
	c02CellStoresMemo = map[c02Cell][]*ssa.Store{}
	c02CellStoresBusy = map[c02Cell]bool{}
	c02CellStoresCut  int
)

func c02CellStores(cell c02Cell) []*ssa.Store {
	if v, ok := c02CellStoresMemo[cell]; ok {
		return v
	}
	if c02CellStoresBusy[cell] {
		c02CellStoresCut++
		return nil
	}
	c02CellStoresBusy[cell] = true
	cut := c02CellStoresCut
	out := c02CellStoresRaw(cell)
	delete(c02CellStoresBusy, cell)
	if cut == c02CellStoresCut { // nothing below was cut short by the recursion guard
		c02CellStoresMemo[cell] = out
	}
	return out
}

func c02CellStoresRaw(cell c02Cell) []*ssa.Store {
	var out []*ssa.Store
	if !cell.ok() || cell.al.Parent() == nil {
		return nil
	}
	top := cell.al.Parent()
	for top.Parent() != nil {
		top = top.Parent()
	}
	// the variable's own function and its literals, and — the state may be handed on by address — every
	// other function of the package
	fns := an.Closure(top)
	if pk := c02PkgOf(top); pk != nil {
		seen := map[*ssa.Function]bool{}
		for _, g := range fns {
			seen[g] = true
		}
		for _, g := range c02PkgFuncs(pk) {
			if !seen[g] {
				fns = append(fns, g)
			}
		}
	}
	for _, g := range fns {
		for _, in := range an.Instrs(g, false) {
			if st, ok := in.(*ssa.Store); ok {
				if _, isAl := st.Addr.(*ssa.Alloc); isAl && st.Addr != ssa.Value(cell.al) {
					continue
				}
				if c02StaticCell(st.Addr).covers(cell) {
					out = append(out, st)
				}
			}
		}
	}
	return out
}

// cellOf: v (in frame f) is a load of a state variable; returns the variable.
func (s *c02Sim) cellOf(v ssa.Value, f *c02Frame, st *c02State) c02Cell {
	r := s.rootOf(v, f, st)
	ld, ok := r.V.(*ssa.UnOp)
	if !ok || ld.Op != token.MUL {
		return c02Cell{}
	}
	return c02StaticCell(ld.X)
}

// liveAt: some (transitive, through pure derivations) use of v lies in a block reachable from `to`.
func (s *c02Sim) liveAt(v ssa.Value, to *ssa.BasicBlock) bool {
	if s.useBlocks == nil {
		s.useBlocks = map[ssa.Value]map[*ssa.BasicBlock]bool{}
		s.reach = map[*ssa.BasicBlock]map[*ssa.BasicBlock]bool{}
	}
	ub, ok := s.useBlocks[v]
	if !ok {
		ub = map[*ssa.BasicBlock]bool{}
		seen := map[ssa.Value]bool{}
		var walk func(x ssa.Value)
		walk = func(x ssa.Value) {
			if seen[x] || x.Referrers() == nil {
				return
			}
			seen[x] = true
			for _, ref := range *x.Referrers() {
				if ref.Block() != nil {
					ub[ref.Block()] = true
				}
				switch y := ref.(type) {
				case *ssa.UnOp, *ssa.BinOp, *ssa.Phi, *ssa.ChangeType, *ssa.Convert, *ssa.MakeInterface, *ssa.ChangeInterface, *ssa.Extract:
					walk(y.(ssa.Value))
				}
			}
		}
		walk(v)
		s.useBlocks[v] = ub
	}
	rb, ok := s.reach[to]
	if !ok {
		rb = an.ReachBlocks(to, nil)
		s.reach[to] = rb
	}
	for b := range ub {
		if rb[b] {
			return true
		}
	}
	return false
}

func (s *c02Sim) cellStores(c c02Cell) []*ssa.Store {
	if s.storesMemo == nil {
		s.storesMemo = map[c02Cell][]*ssa.Store{}
	}
	if v, ok := s.storesMemo[c]; ok {
		return v
	}
	v := c02CellStores(c)
	s.storesMemo[c] = v
	return v
}

// c02InitialisedBeforeUse: the single store into the local happens in the local's own function before every load and
// before every function literal capturing it is made (so no reader can observe the zero value).
func c02InitialisedBeforeUse(al *ssa.Alloc, st *ssa.Store) bool {
	if st.Parent() != al.Parent() {
		return false
	}
	for _, ref := range *al.Referrers() {
		if ref == ssa.Instruction(st) {
			continue
		}
		if _, ok := ref.(*ssa.DebugRef); ok {
			continue
		}
		if !an.Dominates(st, ref) {
			return false
		}
	}
	return true
}

// localOnly: the local is only ever loaded and stored directly (never captured, never passed on by address).
func (s *c02Sim) localOnly(al *ssa.Alloc) bool {
	if s.localMemo == nil {
		s.localMemo = map[*ssa.Alloc]bool{}
	}
	if v, ok := s.localMemo[al]; ok {
		return v
	}
	ok := c02TrackableLocal(al)
	s.localMemo[al] = ok
	return ok
}

// c02TrackableLocal: every write of the local is a direct store of its function, except that function literals
// capturing it (deferred result handlers) may read it and may reset a boolean to false — which can only turn a
// verdict the exploration took for possibly-true into false, never the reverse.
func c02TrackableLocal(al *ssa.Alloc) bool {
	for _, ref := range *al.Referrers() {
		switch r := ref.(type) {
		case *ssa.Store:
			if r.Addr != ssa.Value(al) {
				return false
			}
		case *ssa.UnOp:
			if r.Op != token.MUL {
				return false
			}
		case *ssa.DebugRef:
		case *ssa.MakeClosure:
			fn, _ := r.Fn.(*ssa.Function)
			if fn == nil {
				return false
			}
			for i, b := range r.Bindings {
				if b != ssa.Value(al) {
					continue
				}
				if i >= len(fn.FreeVars) || fn.FreeVars[i].Referrers() == nil {
					return false
				}
				for _, fr := range *fn.FreeVars[i].Referrers() {
					switch u := fr.(type) {
					case *ssa.UnOp:
						if u.Op != token.MUL {
							return false
						}
					case *ssa.DebugRef:
					case *ssa.Store:
						if u.Addr != ssa.Value(fn.FreeVars[i]) {
							return false
						}
						if b, isC := c02ConstBool(u.Val); !isC || b {
							return false
						}
					default:
						return false
					}
				}
			}
		default:
			return false
		}
	}
	return true
}

// sentinelReturn: the call is to a followed function with several returns whose result idx is, on every return, either a
// constant (the "nothing"/nil/zero sentinel of an early exit) or one and the same value: without a path to tell which
// return was taken, that value is what the result denotes whenever it is not the sentinel.
func (s *c02Sim) sentinelReturn(call *ssa.Call, idx int, f *c02Frame, st *c02State) (c02VF, bool) {
	if s.inResolve > 6 {
		return c02VF{}, false
	}
	s.inResolve++
	defer func() { s.inResolve-- }()
	fn, mc, cf := s.calleeOf(call, f, st)
	if fn == nil {
		return c02VF{}, false
	}
	rets := an.Returns(fn)
	if len(rets) < 2 {
		return c02VF{}, false
	}
	nf := s.frameFor(f, call, fn, mc, cf)
	var pick c02VF
	for _, ret := range rets {
		if idx >= len(ret.Results) {
			return c02VF{}, false
		}
		r := s.rootOf(ret.Results[idx], nf, nil)
		if _, isC := r.V.(*ssa.Const); isC {
			continue
		}
		if pick.V != nil && (pick.V != r.V || pick.F != r.F) {
			return c02VF{}, false
		}
		pick = r
	}
	return pick, pick.V != nil
}

// singleReturn: the call is to a function the exploration follows that has exactly one return statement; its
// results are then known without a path (getter literals, one-line wrappers).
func (s *c02Sim) singleReturn(call *ssa.Call, f *c02Frame, st *c02State) (*ssa.Return, *c02Frame) {
	if s.inResolve > 6 {
		return nil, nil
	}
	s.inResolve++
	defer func() { s.inResolve-- }()
	fn, mc, cf := s.calleeOf(call, f, st)
	if fn == nil {
		return nil, nil
	}
	rets := an.Returns(fn)
	if len(rets) != 1 {
		return nil, nil
	}
	return rets[0], s.frameFor(f, call, fn, mc, cf)
}
