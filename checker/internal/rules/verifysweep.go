package rules

import (
	"fmt"
	"go/token"
	"regexp"
	"strings"

	"golang.org/x/tools/go/ssa"

	"charonverif/internal/an"
	"charonverif/internal/rt"
)

// VS — repository-wide "no verification verdict is dropped" sweep (error discipline, E1(b) applied to every
// call site): for every call, in non-test non-testutil code, to a function or function-typed field whose name
// is verify*/Verify* (the repository's convention for verification predicates) and that returns an error,
// the error is either returned as the function's own verdict or branched on with a failing edge from which no
// success return (nil error / no error result) of the enclosing function is reachable without re-running the
// verification. "Log and fall through", "log and continue", a discarded result or a weakened condition all fail.
// The sites are partitioned over the properties by the package of the calling function.

var vsCallee = regexp.MustCompile(`(^|[.:])[vV]erify[A-Za-z0-9]*$`)

// vsExempt: call sites where dropping the failing element is the specified behaviour. Key: "caller → callee".
var vsExempt = map[string]string{
	"app.filterVerifiedRegistrations → app.verifyRegistrationSignature": "filter: registrations that do not verify are skipped and never reach the returned list (the append is on the nil edge)",
	"core/bcast.Broadcaster.Broadcast → tbls.Verify":                    "trial verification used as a match predicate (which cluster validator signed this attestation); a non-match moves on to the next candidate, other errors are returned",
	"app/obolapi.Client.GetFullExit → tbls.Verify":                      "trial verification used to find the share index of a partial exit; no match at all is rejected right after the loop (shareIdx == 0)",
	"dkg.loadDefinition → cluster.Definition.VerifyHashes":              "verdict ignored only under the explicit no-verify flag; decided by C12-L5",
	"dkg.loadDefinition → cluster.Definition.VerifySignatures":          "verdict ignored only under the explicit no-verify flag; decided by C12-L5",
	"cluster.LoadClusterLock → cluster.Lock.VerifyHashes":               "verdict ignored only under the explicit no-verify flag; decided by C12-L5",
	"cluster.LoadClusterLock → cluster.Lock.VerifySignatures":           "verdict ignored only under the explicit no-verify flag; decided by C12-L5",
}

var vsPartition = map[string][]string{
	"C05": {"core/consensus/", "core/priority", "core/qbft"},
	"C09": {"core/sigagg", "core/bcast", "core", "eth2util/signing", "tbls"},
	"C10": {"core/validatorapi", "core/parsigex", "core/parsigdb"},
	"C11": {"dkg", "dkg/sync", "dkg/pedersen", "dkg/share"},
	"C12": {"cluster", "cmd", "cmd/", "eth2util/deposit", "eth2util/enr", "eth2util/keymanager", "eth2util/keystore", "app", "app/obolapi"},
	"C13": {"dkg/bcast"},
}

var vsMin = map[string]int{"C05": 5, "C09": 8, "C10": 15, "C11": 15, "C12": 38, "C13": 3}

func init() {
	for id := range vsPartition {
		Extend(id, "(VS) no verdict of a verify*/Verify* call in this property's packages is dropped: the error is returned or branched on with a failing edge that cannot reach a success return.",
			func(c *rt.Ctx) { verifySweep(c, id) }, vsMutants[id]...)
	}
}

var vsMutants = map[string][]Mutant{
	"C12": {
		{ID: "VS-C12-combine-lock-verify-logged", File: "cmd/createcluster.go", Expect: "VS",
			Old: "\tif err := def.VerifySignatures(eth1Cl); err != nil {\n\t\treturn cluster.Definition{}, err\n\t}\n\n\tif err := def.VerifyHashes(); err != nil {\n\t\treturn cluster.Definition{}, err\n\t}\n\n\tif def.NumValidators == 0 {",
			New: "\tif err := def.VerifySignatures(eth1Cl); err != nil {\n\t\tlog.Warn(ctx, \"Definition signature verification failed\", err)\n\t}\n\n\tif err := def.VerifyHashes(); err != nil {\n\t\treturn cluster.Definition{}, err\n\t}\n\n\tif def.NumValidators == 0 {"},
	},
	"C11": {
		{ID: "VS-C11-nodesig-verify-logged", File: "dkg/nodesigs.go", Expect: "VS",
			Old: "\tverified, err := k1util.Verify65(peerPubk, lockHash, sig)\n\tif err != nil {\n\t\treturn errors.Wrap(err, \"verify node signature\")",
			New: "\tverified, err := k1util.Verify65(peerPubk, lockHash, sig)\n\tif err != nil && len(sig) == 0 {\n\t\treturn errors.Wrap(err, \"verify node signature\")"},
	},
}

func vsOwner(pkgRel string) string {
	best, bestLen := "", -1
	for id, prefixes := range vsPartition {
		for _, pre := range prefixes {
			ok := pkgRel == pre || (strings.HasSuffix(pre, "/") && strings.HasPrefix(pkgRel, pre))
			if ok && len(pre) > bestLen {
				best, bestLen = id, len(pre)
			}
		}
	}
	return best
}

func verifySweep(c *rt.Ctx, prop string) {
	c.Rule("VS", vsMin[prop], func() {
		ordinal := map[string]int{}
		for _, pk := range c.P.Pkgs {
			rel := strings.TrimPrefix(strings.TrimPrefix(pk.PkgPath, "github.com/obolnetwork/charon"), "/")
			if strings.HasPrefix(rel, "testutil") || vsOwner(rel) != prop {
				continue
			}
			sp := c.P.SSAPkgs[pk.PkgPath]
			if sp == nil {
				continue
			}
			for _, fn := range an.PkgFuncs(sp) {
				if strings.HasSuffix(c.P.Fset.Position(fn.Pos()).Filename, "testutils.go") {
					continue
				}
				for _, in := range an.Instrs(fn, false) {
					call, ok := in.(*ssa.Call)
					if !ok {
						continue
					}
					name := an.CalleeName(&call.Call)
					if name == "" || !vsCallee.MatchString(name) {
						continue
					}
					res := call.Call.Signature().Results()
					hasErr := false
					for i := 0; i < res.Len(); i++ {
						if an.IsErrorType(res.At(i).Type()) {
							hasErr = true
						}
					}
					if !hasErr {
						continue
					}
					key := an.FuncName(fn) + " → " + strings.TrimPrefix(strings.TrimPrefix(name, "field:"), "iface:")
					ordinal[key]++
					k := key
					if ordinal[key] > 1 {
						k = fmt.Sprintf("%s #%d", key, ordinal[key])
					}
					if why, ok := vsExempt[key]; ok {
						c.Good(k, call.Pos(), "exempt: "+why)
						continue
					}
					ok2, why := vsChecked(fn, call)
					c.Check(k, call.Pos(), ok2, why)
				}
			}
		}
	})
}

// vsChecked: the error verdict of call is returned, or branched on with a failing edge that cannot reach
// a success return of fn.
func vsChecked(fn *ssa.Function, call *ssa.Call) (bool, string) {
	errs, _ := an.StatusOf(call, -1)
	if len(errs) == 0 {
		return false, "the error result of the verification is discarded"
	}
	// a verdict assigned to a captured / address-taken variable is read back through a load in the same block
	for _, e := range append([]ssa.Value{}, errs...) {
		for _, ref := range *e.Referrers() {
			st, ok := ref.(*ssa.Store)
			if !ok || st.Val != e {
				continue
			}
			seen := false
			for _, in := range st.Block().Instrs {
				if in == ssa.Instruction(st) {
					seen = true
					continue
				}
				if !seen {
					continue
				}
				if s2, ok := in.(*ssa.Store); ok && s2.Addr == st.Addr {
					break
				}
				if ld, ok := in.(*ssa.UnOp); ok && ld.Op == token.MUL && ld.X == st.Addr {
					errs = append(errs, ld)
				}
			}
		}
	}
	for _, e := range errs {
		// tail position: returned as the function's verdict (possibly wrapped is handled by the branch form)
		for _, r := range an.Returns(fn) {
			for _, v := range returnValues(r) {
				if v == e {
					return true, ""
				}
			}
		}
		conds := an.CondsOn(fn, e)
		branched := false
		for _, cd := range conds {
			if cd.Other == nil || !an.IsNilConst(cd.Other) || (cd.Op != token.EQL && cd.Op != token.NEQ) {
				continue
			}
			branched = true
			fail := cd.Succ(cd.Op != token.EQL) // the err != nil edge
			if !an.Dominates(call, cd.If) {
				continue
			}
			reach := false
			for b := range an.ReachBlocks(fail, map[*ssa.BasicBlock]bool{call.Block(): true}) {
				r, ok := b.Instrs[len(b.Instrs)-1].(*ssa.Return)
				if !ok {
					continue
				}
				hasErr := false
				for _, v := range returnValues(r) {
					if an.IsErrorType(v.Type()) {
						hasErr = true
						if an.IsNilConst(v) {
							reach = true
						}
					}
				}
				if !hasErr && fn.Signature.Results().Len() > 0 {
					reach = true
				}
			}
			if !reach {
				return true, ""
			}
		}
		if branched {
			return false, "after a failed verification control can still reach a success return (verdict logged/ignored or condition weakened)"
		}
	}
	return false, "the verification verdict is neither returned nor branched on"
}
