package rules

import (
	"fmt"
	"go/constant"
	"go/token"
	"go/types"
	"regexp"
	"sort"
	"strings"

	"golang.org/x/tools/go/ssa"

	"charonverif/internal/an"
	"charonverif/internal/rt"
)

// VS — repository-wide "no verification verdict is dropped" sweep (error discipline, E1(b) applied to every
// call site): for every call, in non-test non-testutil code, to a function or function-typed field whose name
// is verify*/Verify* (the repository's convention for verification predicates) and that returns an error,
// the error is either returned as the function's own verdict or branched on with a failing edge from which no
// success return (nil error / no error result) of the enclosing function is reachable without re-running the
// verification. "Log and fall through", "log and continue", a discarded result or a weakened condition all fail.
// The sites are partitioned over the properties by the package of the calling function.

var vsCallee = regexp.MustCompile(`(^|[.:])[vV]erify[A-Za-z0-9]*$`)

// vsExempt: call sites where dropping the failing element is the specified behaviour. Key: "caller → callee".
// vsTrial: exemptions that only cover a *trial* verification, i.e. a call inside a loop over candidates whose failure
// moves on to the next candidate. A verification outside any loop in the same function is not covered.
var vsTrial = map[string]bool{
	"core/bcast.Broadcaster.Broadcast → tbls.Verify": true,
	"app/obolapi.Client.GetFullExit → tbls.Verify":   true,
}

var vsExempt = map[string]string{
	"app.filterVerifiedRegistrations → app.verifyRegistrationSignature": "filter: registrations that do not verify are skipped and never reach the returned list (the append is on the nil edge)",
	"core/bcast.Broadcaster.Broadcast → tbls.Verify":                    "trial verification used as a match predicate (which cluster validator signed this attestation); a non-match moves on to the next candidate, other errors are returned",
	"app/obolapi.Client.GetFullExit → tbls.Verify":                      "trial verification used to find the share index of a partial exit; no match at all is rejected right after the loop (shareIdx == 0)",
	"dkg.loadDefinition → cluster.Definition.VerifyHashes":              "verdict ignored only under the explicit no-verify flag; decided by C12-L5",
	"dkg.loadDefinition → cluster.Definition.VerifySignatures":          "verdict ignored only under the explicit no-verify flag; decided by C12-L5",
	"cluster.LoadClusterLock → cluster.Lock.VerifyHashes":               "verdict ignored only under the explicit no-verify flag; decided by C12-L5",
	"cluster.LoadClusterLock → cluster.Lock.VerifySignatures":           "verdict ignored only under the explicit no-verify flag; decided by C12-L5",
}

var vsPartition = map[string][]string{
	"C05": {"core/consensus/", "core/priority", "core/qbft"},
	"C09": {"core/sigagg", "core/bcast", "core", "eth2util/signing", "tbls"},
	"C10": {"core/validatorapi", "core/parsigex", "core/parsigdb"},
	"C11": {"dkg", "dkg/sync", "dkg/pedersen", "dkg/share"},
	"C12": {"cluster", "cmd", "cmd/", "eth2util/deposit", "eth2util/enr", "eth2util/keymanager", "eth2util/keystore", "app", "app/obolapi"},
	"C13": {"dkg/bcast"},
}

// vsMin is a vacuity guard, not a frozen count: merging two sites into a helper or a table-driven loop is a legitimate
// refactoring (sites inside an unexported helper are additionally counted once per static caller, see vsCallers).
var vsMin = map[string]int{"C05": 5, "C09": 6, "C10": 19, "C11": 16, "C12": 40, "C13": 2}

// vsDecidedElsewhere: functions whose tolerated verification failures are decided path by path by another rule; every
// verification site inside them (also one reached through a function value or a table of checks) is left to that rule.
var vsDecidedElsewhere = map[string]string{
	"cluster.LoadClusterLock": "verdict ignored only under the explicit no-verify flag; decided by C12-L5",
	"dkg.loadDefinition":      "verdict ignored only under the explicit no-verify flag; decided by C12-L5",
}

// vsCallers: the static in-package call sites of an unexported helper (nil when fn is exported, a literal, used as a
// value, or has no static caller).
func vsCallers(fn *ssa.Function, pkgFns []*ssa.Function) []*ssa.Function {
	if fn.Parent() != nil || fn.Object() == nil || fn.Object().Exported() {
		return nil
	}
	var out []*ssa.Function
	for _, g := range pkgFns {
		for _, in := range an.Instrs(g, false) {
			if ci, ok := in.(ssa.CallInstruction); ok && an.Orig(ci.Common().StaticCallee()) == an.Orig(fn) {
				out = append(out, g)
				continue
			}
			for _, op := range an.Operands(in) {
				if f, ok := op.(*ssa.Function); ok && an.Orig(f) == an.Orig(fn) {
					if _, isCall := in.(ssa.CallInstruction); !isCall {
						return nil
					}
				}
			}
		}
	}
	return out
}

func init() {
	for id := range vsPartition {
		Extend(id, "(VS) no verdict of a verify*/Verify* call in this property's packages is dropped: the error is returned or branched on with a failing edge that cannot reach a success return.",
			func(c *rt.Ctx) { verifySweep(c, id) }, vsMutants[id]...)
	}
}

var vsMutants = map[string][]Mutant{
	"C12": {
		// the one real check of a function that also holds an exempt trial verification
		{ID: "VS-C12-fullexit-aggregate-verify-logged", File: "app/obolapi/exit.go", Expect: "VS",
			Old: "\tif err := tbls.Verify(valPubKey, sigData[:], fullSig); err != nil {\n\t\treturn ExitBlob{}, errors.Wrap(err, \"aggregated exit signature failed BLS verification\", z.Str(\"validator_pubkey\", valPubkey))\n\t}",
			New: "\tif err := tbls.Verify(valPubKey, sigData[:], fullSig); err != nil {\n\t\t_ = errors.Wrap(err, \"aggregated exit signature failed BLS verification\", z.Str(\"validator_pubkey\", valPubkey))\n\t}"},
		// single-exit form that forgets the verdict on the failing edge
		{ID: "VS-C12-lock-aggregate-verdict-dropped", File: "cluster/lock.go", Expect: "VS",
			Old: "\terr = tbls.VerifyAggregate(pubkeys, sig, hash[:])\n\tif err != nil {\n\t\treturn errors.Wrap(err, \"verify lock signature aggregate\")\n\t}\n\n\terr = l.verifyBuilderRegistrations()",
			New: "\terr = tbls.VerifyAggregate(pubkeys, sig, hash[:])\n\n\terr = l.verifyBuilderRegistrations()"},
		// a predicate with a boolean result that still answers true after a failed verification
		{ID: "VS-C12-enr-verify-switch-falls-through", File: "eth2util/enr/enr.go", Expect: "VS",
			Old: "\tif err := verify(r.PubKey, r.Signature, rlp.EncodeBytesList(elements[1:])); err != nil {\n\t\treturn Record{}, err\n\t}",
			New: "\tswitch err := verify(r.PubKey, r.Signature, rlp.EncodeBytesList(elements[1:])); {\n\tcase err != nil && len(r.Signature) == 0:\n\t\treturn Record{}, err\n\t}"},
		{ID: "VS-C12-combine-lock-verify-logged", File: "cmd/createcluster.go", Expect: "VS",
			Old: "\tif err := def.VerifySignatures(eth1Cl); err != nil {\n\t\treturn cluster.Definition{}, err\n\t}\n\n\tif err := def.VerifyHashes(); err != nil {\n\t\treturn cluster.Definition{}, err\n\t}\n\n\tif def.NumValidators == 0 {",
			New: "\tif err := def.VerifySignatures(eth1Cl); err != nil {\n\t\tlog.Warn(ctx, \"Definition signature verification failed\", err)\n\t}\n\n\tif err := def.VerifyHashes(); err != nil {\n\t\treturn cluster.Definition{}, err\n\t}\n\n\tif def.NumValidators == 0 {"},
	},
	"C05": {
		// the limit check only rejects in a corner case
		{ID: "VS-C05-limits-condition-weakened", File: "core/consensus/qbft/qbft.go", Expect: "VS",
			Old: "\tif err := verifyMsgLimits(pbMsg, len(c.pubkeys)); err != nil {", New: "\tif err := verifyMsgLimits(pbMsg, len(c.pubkeys)); err != nil && len(c.pubkeys) == 0 {"},
	},
	"C10": {
		// invalid partial signatures are skipped instead of rejecting the set
		{ID: "VS-C10-parsigex-verify-skip-invalid", File: "core/parsigex/parsigex.go", Expect: "VS",
			Old: "\t\tif err = m.verifyFunc(ctx, sender, duty, pubkey, data); err != nil {\n\t\t\treturn nil, false, errors.Wrap(err, \"invalid partial signature\")\n\t\t}",
			New: "\t\tif err = m.verifyFunc(ctx, sender, duty, pubkey, data); err != nil {\n\t\t\tlog.Warn(ctx, \"Invalid partial signature\", err)\n\n\t\t\tcontinue\n\t\t}"},
	},
	"C13": {
		// one class of verification failures is let through
		{ID: "VS-C13-server-verify-tolerated", File: "dkg/bcast/server.go", Expect: "VS",
			Old: "\tif err := s.verifyFunc(msg.GetId(), msg.GetMessage(), msg.GetSignatures()); err != nil {", New: "\tif err := s.verifyFunc(msg.GetId(), msg.GetMessage(), msg.GetSignatures()); err != nil && !errors.Is(err, context.Canceled) {"},
	},
	"C09": {
		// the verdict is overwritten by the next call before it is tested
		{ID: "VS-C09-sigagg-verdict-overwritten", File: "core/sigagg/sigagg.go", Expect: "VS",
			Old: "\t\terr = core.VerifyEth2SignedData(ctx, eth2Cl, eth2Signed, tblsPubkey)\n\t\tif err != nil {", New: "\t\terr = core.VerifyEth2SignedData(ctx, eth2Cl, eth2Signed, tblsPubkey)\n\t\t_, err = eth2Signed.MessageRoot()\n\t\tif err != nil {"},
	},
	"C11": {
		// a particular failure is tolerated and the flow continues
		{ID: "VS-C11-agg-lockhash-tolerates-mismatch", File: "dkg/dkg.go", Expect: "VS",
			Old: "\t\terr = tbls.VerifyAggregate(aggPkLockHash, aggSigLockHash, lock.LockHash)\n\t\tif err != nil {", New: "\t\terr = tbls.VerifyAggregate(aggPkLockHash, aggSigLockHash, lock.LockHash)\n\t\tif err != nil && !errors.Is(err, tbls.ErrSigNotVerified) {"},
		// tested through a named boolean, but the failing branch only logs
		{ID: "VS-C11-peer-duplicates-named-bool-logged", File: "dkg/protocol.go", Expect: "VS",
			Old: "\tif err := verifyPeerDuplicates(peers); err != nil {\n\t\treturn err\n\t}", New: "\tdupErr := verifyPeerDuplicates(peers)\n\tif failed := dupErr != nil; failed {\n\t\tlog.Warn(ctx, \"Duplicate peers\", dupErr)\n\t}"},
		{ID: "VS-C11-nodesig-verify-logged", File: "dkg/nodesigs.go", Expect: "VS",
			Old: "\tverified, err := k1util.Verify65(peerPubk, lockHash, sig)\n\tif err != nil {\n\t\treturn errors.Wrap(err, \"verify node signature\")",
			New: "\tverified, err := k1util.Verify65(peerPubk, lockHash, sig)\n\tif err != nil && len(sig) == 0 {\n\t\treturn errors.Wrap(err, \"verify node signature\")"},
	},
}

func vsOwner(pkgRel string) string {
	best, bestLen := "", -1
	for id, prefixes := range vsPartition {
		for _, pre := range prefixes {
			ok := pkgRel == pre || (strings.HasSuffix(pre, "/") && strings.HasPrefix(pkgRel, pre))
			if ok && len(pre) > bestLen {
				best, bestLen = id, len(pre)
			}
		}
	}
	return best
}

func verifySweep(c *rt.Ctx, prop string) {
	c.Rule("VS", vsMin[prop], func() {
		ordinal := map[string]int{}
		for _, pk := range c.P.Pkgs {
			rel := strings.TrimPrefix(strings.TrimPrefix(pk.PkgPath, "github.com/obolnetwork/charon"), "/")
			if strings.HasPrefix(rel, "testutil") || vsOwner(rel) != prop {
				continue
			}
			sp := c.P.SSAPkgs[pk.PkgPath]
			if sp == nil {
				continue
			}
			fns := an.PkgFuncs(sp)
			for _, fn := range fns {
				if strings.HasSuffix(c.P.Fset.Position(fn.Pos()).Filename, "testutils.go") {
					continue
				}
				for _, in := range an.Instrs(fn, false) {
					call, ok := in.(*ssa.Call)
					if !ok {
						continue
					}
					name := an.CalleeName(&call.Call)
					if name == "" || !vsCallee.MatchString(name) {
						continue
					}
					res := call.Call.Signature().Results()
					hasErr := false
					for i := 0; i < res.Len(); i++ {
						if an.IsErrorType(res.At(i).Type()) {
							hasErr = true
						}
					}
					if !hasErr {
						continue
					}
					callee := strings.TrimPrefix(strings.TrimPrefix(name, "field:"), "iface:")
					key := an.FuncName(fn) + " → " + callee
					ordinal[key]++
					k := key
					if ordinal[key] > 1 {
						k = fmt.Sprintf("%s #%d", key, ordinal[key])
					}
					st, why := vsChecked(fn, call)
					if st != 0 {
						top := fn
						for top.Parent() != nil {
							top = top.Parent()
						}
						if ex, ok := vsDecidedElsewhere[an.FuncName(top)]; ok {
							c.Good(k, call.Pos(), "exempt: "+ex)
							continue
						}
						// reasoned exemptions apply only to sites that do tolerate a failed verification
						if ex, ok := vsExemptFor(fn, call, callee, fns, 0); ok {
							c.Good(k, call.Pos(), "exempt: "+ex)
							continue
						}
						// the function is reached through function values (a table of steps, a method expression)
						// only from functions for which the site would be exempt: the callers are not positively
						// known, so neither verdict has positive evidence
						if ex, ok := vsMaybeExemptFor(fn, callee, fns, 0, map[*ssa.Function]bool{}); ok && st == 2 {
							c.Unsure(k, call.Pos(), why+"; but the function is only referenced, as a function value, from code for which this is exempt ("+ex+"), and calls through function values cannot be followed")
							continue
						}
					}
					switch st {
					case 0:
						c.Good(k, call.Pos(), why)
						// a helper shared by several callers stands for one verification per caller
						if cs := vsCallers(fn, fns); len(cs) > 1 {
							for _, g := range cs[1:] {
								c.Good(k+" (reached from "+an.FuncName(g)+")", call.Pos(), why)
							}
						}
					case 1:
						c.Unsure(k, call.Pos(), why)
					default:
						c.Bad(k, call.Pos(), why)
					}
				}
			}
		}
	})
}

// vsExemptFor: the call site is exempt when its function is listed for this callee, or when the function is a
// literal inside / an unexported helper only called (statically, in its package) from functions that are.
func vsExemptFor(fn *ssa.Function, call *ssa.Call, callee string, pkgFns []*ssa.Function, d int) (string, bool) {
	if why, ok := vsExempt[an.FuncName(fn)+" → "+callee]; ok {
		if vsTrial[an.FuncName(fn)+" → "+callee] && call != nil {
			inLoop := false
			for _, sc := range call.Block().Succs {
				if an.CanReach(sc, call.Block(), nil) {
					inLoop = true
				}
			}
			if !inLoop {
				return "", false
			}
		}
		return why, true
	}
	if d > 3 {
		return "", false
	}
	if fn.Parent() != nil {
		return vsExemptFor(fn.Parent(), nil, callee, pkgFns, d+1)
	}
	if fn.Object() != nil && fn.Object().Exported() {
		return "", false
	}
	why, n := "", 0
	for _, g := range pkgFns {
		for _, in := range an.Instrs(g, false) {
			used := false
			if ci, ok := in.(ssa.CallInstruction); ok && an.Orig(ci.Common().StaticCallee()) == an.Orig(fn) {
				used = true
			} else {
				for _, op := range an.Operands(in) {
					if f, ok := op.(*ssa.Function); ok && an.Orig(f) == an.Orig(fn) {
						return "", false // used as a value: callers unknown
					}
				}
			}
			if !used {
				continue
			}
			w, ok := vsExemptFor(g, nil, callee, pkgFns, d+1)
			if !ok {
				return "", false
			}
			why = w
			n++
		}
	}
	if n == 0 {
		return "", false
	}
	return why + " (helper only used by the exempt caller)", true
}

// vsMaybeExemptFor is vsExemptFor with uses as a function value followed: a function stored into a package-level
// table stands for "possibly called by every function that reads the table", a function used as a value inside g for
// "possibly called by g"; thunks of method expressions and bound methods stand for their method. True only when at
// least one such user exists and every user (static callers included) is exempt or possibly exempt; exported
// functions have unknown callers.
func vsMaybeExemptFor(fn *ssa.Function, callee string, pkgFns []*ssa.Function, d int, seen map[*ssa.Function]bool) (string, bool) {
	if why, ok := vsExempt[an.FuncName(fn)+" → "+callee]; ok {
		return why, true
	}
	if d > 6 || seen[fn] {
		return "", false
	}
	seen[fn] = true
	if fn.Parent() != nil {
		return vsMaybeExemptFor(fn.Parent(), callee, pkgFns, d+1, seen)
	}
	if fn.Object() != nil && fn.Object().Exported() {
		return "", false
	}
	same := func(f *ssa.Function) bool {
		if f == nil {
			return false
		}
		if an.Orig(f) == an.Orig(fn) {
			return true
		}
		if f.Synthetic != "" && f.Blocks != nil {
			for _, in := range an.Instrs(f, false) {
				if ci, ok := in.(ssa.CallInstruction); ok && an.Orig(ci.Common().StaticCallee()) == an.Orig(fn) {
					return true
				}
			}
		}
		return false
	}
	var users []*ssa.Function
	var pkg *ssa.Package
	if fn.Pkg != nil {
		pkg = fn.Pkg
	}
	scan := append([]*ssa.Function{}, pkgFns...)
	if pkg != nil {
		if ini := pkg.Func("init"); ini != nil {
			scan = append(scan, ini)
		}
	}
	for _, g := range scan {
		for _, in := range an.Instrs(g, false) {
			uses := false
			for _, op := range an.Operands(in) {
				if f, ok := op.(*ssa.Function); ok && same(f) {
					uses = true
				}
			}
			if !uses {
				continue
			}
			if g.Name() != "init" || g.Synthetic == "" {
				users = append(users, g)
				continue
			}
			// package initialiser: the value goes into a package-level variable; its readers are the users
			found := false
			into := vsGlobalsOf(in)
			for _, m := range pkg.Members {
				gl, ok := m.(*ssa.Global)
				if !ok || !vsHoldsFunc(gl.Type(), 0) || (len(into) > 0 && !into[gl]) {
					continue
				}
				for _, h := range pkgFns {
					for _, hin := range an.Instrs(h, false) {
						for _, op := range an.Operands(hin) {
							if op == ssa.Value(gl) {
								users = append(users, h)
								found = true
							}
						}
					}
				}
			}
			if !found {
				return "", false
			}
		}
	}
	if len(users) == 0 {
		return "", false
	}
	why := ""
	for _, g := range users {
		if g == fn {
			continue
		}
		w, ok := vsMaybeExemptFor(g, callee, pkgFns, d+1, seen)
		if !ok {
			return "", false
		}
		why = w
	}
	if why == "" {
		return "", false
	}
	return why, true
}

// vsGlobalsOf: the package-level variables the value written by instruction in (a store into a composite literal
// element, a map insertion) ends up in; empty when that cannot be told.
func vsGlobalsOf(in ssa.Instruction) map[*ssa.Global]bool {
	out := map[*ssa.Global]bool{}
	root := func(a ssa.Value) ssa.Value {
		for {
			switch x := a.(type) {
			case *ssa.FieldAddr:
				a = x.X
				continue
			case *ssa.IndexAddr:
				a = x.X
				continue
			}
			return a
		}
	}
	var work []ssa.Value
	switch x := in.(type) {
	case *ssa.Store:
		work = append(work, root(x.Addr))
	case *ssa.MapUpdate:
		work = append(work, x.Map)
	case ssa.Value:
		work = append(work, x)
	}
	seen := map[ssa.Value]bool{}
	for len(work) > 0 && len(seen) < 200 {
		v := work[len(work)-1]
		work = work[:len(work)-1]
		if v == nil || seen[v] {
			continue
		}
		seen[v] = true
		if g, ok := v.(*ssa.Global); ok {
			out[g] = true
			continue
		}
		refs := v.Referrers()
		if refs == nil {
			continue
		}
		for _, r := range *refs {
			switch y := r.(type) {
			case *ssa.Store:
				if y.Val == v {
					work = append(work, root(y.Addr))
				}
			case *ssa.MapUpdate:
				if y.Value == v {
					work = append(work, y.Map)
				}
			case *ssa.Slice, *ssa.ChangeType, *ssa.Convert, *ssa.MakeInterface, *ssa.MakeClosure:
				work = append(work, r.(ssa.Value))
			}
		}
	}
	return out
}

// vsHoldsFunc: does a value of type t (transitively) hold function values?
func vsHoldsFunc(t types.Type, d int) bool {
	if d > 6 {
		return false
	}
	switch u := t.Underlying().(type) {
	case *types.Signature:
		return true
	case *types.Slice:
		return vsHoldsFunc(u.Elem(), d+1)
	case *types.Array:
		return vsHoldsFunc(u.Elem(), d+1)
	case *types.Pointer:
		return vsHoldsFunc(u.Elem(), d+1)
	case *types.Map:
		return vsHoldsFunc(u.Elem(), d+1)
	case *types.Struct:
		for i := 0; i < u.NumFields(); i++ {
			if vsHoldsFunc(u.Field(i).Type(), d+1) {
				return true
			}
		}
	}
	return false
}

// ---------------------------------------------------------------------------------------------------------------
// vsChecked decides one verification call by a path search: starting right after the call, walk every CFG path on
// which the verdict is not known to be nil. A nil test of the verdict (any spelling: `err != nil`, `err == nil`,
// negated, through a named bool, a spilled variable, a phi with the zero value, a switch) ends the path on its nil
// edge and continues on its non-nil edge. The site is a violation if such a path reaches a *success exit* of the
// function: a return whose error result is the constant nil (or, for a predicate without error result, the constant
// true); in a function without results: the continuation taken when the verdict is nil. Returning the verdict (or an
// error derived from it) is fine; re-executing the call starts a new verification. Verdicts that escape (stored
// into a field, sent, appended) and tests hidden in helper predicates make the site undecided instead.
// status: 0 ok, 1 undecided, 2 violation.

type vsWalk struct {
	fn             *ssa.Function
	call           *ssa.Call
	errIdx         int
	boolIdx        int
	steps          int
	seen           map[string]bool
	anyTest        bool
	escapedAny     bool
	returnsVerdict bool
	// outcome
	bad, unsure string
}

type vsState struct {
	alias   map[ssa.Value]bool      // values that are non-nil exactly when the verdict is
	derived map[ssa.Value]bool      // tuples returned by a call that was fed the verdict
	opaque  map[ssa.Value]bool      // booleans computed from the verdict by an in-repo helper
	env     map[ssa.Value]ssa.Value // loads and phis resolved on this path
	slots   map[*ssa.Alloc]ssa.Value
	tested  bool
	tainted bool
	escaped bool
	pass    *ssa.BasicBlock // function without results: where control goes when the verdict is nil
}

func (s *vsState) clone() *vsState {
	n := &vsState{alias: map[ssa.Value]bool{}, derived: map[ssa.Value]bool{}, opaque: map[ssa.Value]bool{}, env: map[ssa.Value]ssa.Value{},
		slots: map[*ssa.Alloc]ssa.Value{}, tested: s.tested, tainted: s.tainted, escaped: s.escaped, pass: s.pass}
	for k, v := range s.alias {
		n.alias[k] = v
	}
	for k, v := range s.derived {
		n.derived[k] = v
	}
	for k, v := range s.opaque {
		n.opaque[k] = v
	}
	for k, v := range s.env {
		n.env[k] = v
	}
	for k, v := range s.slots {
		n.slots[k] = v
	}
	return n
}

func (s *vsState) key(b *ssa.BasicBlock) string {
	var parts []string
	for v := range s.alias {
		parts = append(parts, fmt.Sprintf("a%p", v))
	}
	for a, v := range s.slots {
		if _, isC := v.(*ssa.Const); isC || s.alias[v] {
			parts = append(parts, fmt.Sprintf("s%p=%p", a, v))
		}
	}
	for v := range s.opaque {
		parts = append(parts, fmt.Sprintf("o%p", v))
	}
	sort.Strings(parts)
	return fmt.Sprintf("%d|%v%v%v|%p|%s", b.Index, s.tested, s.tainted, s.escaped, s.pass, strings.Join(parts, ","))
}

// res resolves a value on the current path (conversions, boxing, loads of tracked locals, phis already entered).
func (s *vsState) res(v ssa.Value) ssa.Value {
	for i := 0; i < 24; i++ {
		if w, ok := s.env[v]; ok && w != v {
			v = w
			continue
		}
		u := an.Unwrap(v)
		if u != v {
			// keep boxed concrete errors distinguishable from nil
			if _, isMI := v.(*ssa.MakeInterface); isMI {
				return v
			}
			v = u
			continue
		}
		return v
	}
	return v
}

func (s *vsState) isAlias(v ssa.Value) bool { return s.alias[v] || s.alias[s.res(v)] }

func vsChecked(fn *ssa.Function, call *ssa.Call) (int, string) {
	errs, _ := an.StatusOf(call, -1)
	if len(errs) == 0 {
		return 2, "the error result of the verification is discarded"
	}
	w := &vsWalk{fn: fn, call: call, errIdx: an.ErrIndex(fn.Signature), boolIdx: -1, seen: map[string]bool{}}
	if w.errIdx < 0 {
		rs := fn.Signature.Results()
		for i := 0; i < rs.Len(); i++ {
			if b, ok := rs.At(i).Type().Underlying().(*types.Basic); ok && b.Kind() == types.Bool {
				w.boolIdx = i
			}
		}
	}
	st := &vsState{alias: map[ssa.Value]bool{}, derived: map[ssa.Value]bool{}, opaque: map[ssa.Value]bool{}, env: map[ssa.Value]ssa.Value{}, slots: map[*ssa.Alloc]ssa.Value{}}
	for _, e := range errs {
		st.alias[e] = true
	}
	idx := 0
	for i, in := range call.Block().Instrs {
		if in == ssa.Instruction(call) {
			idx = i + 1
		}
	}
	w.walk(call.Block(), idx, st)
	switch {
	case w.bad != "":
		return 2, w.bad
	case w.unsure != "":
		return 1, w.unsure
	case !w.anyTest && !w.returnsVerdict:
		if w.escapedAny {
			return 1, "the verdict is stored / sent / collected and never tested in the function that ran the verification"
		}
		return 2, "the verification verdict is neither returned nor branched on"
	}
	return 0, ""
}

func (w *vsWalk) fail(s *vsState, msg string) {
	if s.tainted || s.escaped {
		if w.unsure == "" {
			if s.escaped {
				w.unsure = "the verdict is stored / sent / collected and checked elsewhere; on a path to a success exit it is not tested locally"
			} else {
				w.unsure = "the verdict is tested by a helper predicate the rule does not evaluate; " + msg
			}
		}
		return
	}
	if w.bad == "" {
		w.bad = msg
	}
}

func (w *vsWalk) walk(b *ssa.BasicBlock, from int, s *vsState) {
	if w.bad != "" {
		return
	}
	w.steps++
	if w.steps > 60000 {
		if w.unsure == "" {
			w.unsure = "path search exceeded its budget"
		}
		return
	}
	for i := from; i < len(b.Instrs); i++ {
		switch x := b.Instrs[i].(type) {
		case *ssa.Store:
			val := s.res(x.Val)
			if al, ok := x.Addr.(*ssa.Alloc); ok {
				s.slots[al] = val
			} else if s.alias[val] {
				s.escaped = true
			}
		case *ssa.UnOp:
			if x.Op == token.MUL {
				if al, ok := x.X.(*ssa.Alloc); ok {
					if v, ok := s.slots[al]; ok {
						s.env[x] = v
					}
				}
			}
		case *ssa.Extract:
			if s.derived[x.Tuple] && an.IsErrorType(x.Type()) {
				s.alias[x] = true
			}
		case *ssa.Send:
			if s.isAlias(x.X) {
				s.escaped = true
			}
		case *ssa.MapUpdate:
			if s.isAlias(x.Value) {
				s.escaped = true
			}
		case *ssa.Go:
			for _, a := range x.Call.Args {
				if s.isAlias(a) {
					s.escaped = true
				}
			}
		case *ssa.Defer:
			for _, a := range x.Call.Args {
				if s.isAlias(a) {
					s.escaped = true
				}
			}
		case *ssa.Call:
			w.visitCall(x, s)
		}
		if s.escaped {
			w.escapedAny = true
		}
		switch x := b.Instrs[i].(type) {
		case *ssa.Return:
			w.visitReturn(x, s)
			return
		case *ssa.Panic:
			return
		case *ssa.If:
			w.visitIf(b, x, s)
			return
		case *ssa.Jump:
			w.enter(b, b.Succs[0], s)
			return
		}
	}
	// blocks always end in a control instruction; select/range "next" blocks fall here only if malformed
	for _, sc := range b.Succs {
		w.enter(b, sc, s.clone())
	}
}

func (w *vsWalk) visitCall(x *ssa.Call, s *vsState) {
	fed := false
	for _, a := range x.Call.Args {
		if s.isAlias(a) {
			fed = true
		}
	}
	if !fed {
		return
	}
	if b, ok := x.Call.Value.(*ssa.Builtin); ok {
		if b.Name() == "append" {
			s.escaped = true
		}
		return
	}
	name := an.CalleeName(&x.Call)
	res := x.Call.Signature().Results()
	for i := 0; i < res.Len(); i++ {
		t := res.At(i).Type()
		switch {
		case an.IsErrorType(t):
			// an error computed from the verdict (wrap, annotate, translate): carries the verdict on
			if res.Len() == 1 {
				s.alias[x] = true
			} else {
				s.derived[x] = true
			}
		case res.Len() == 1 && isBool(t):
			switch name {
			case "errors.Is", "errors.As", "app/errors.Is", "app/errors.As":
				// a test for one particular error: says nothing about nil-ness on the false edge
			default:
				s.opaque[x] = true
			}
		}
	}
}

func vsErrConstructor(c *ssa.CallCommon) bool {
	switch an.CalleeName(c) {
	case "app/errors.New", "app/errors.Wrap", "app/errors.SkipWrap", "app/errors.NewSentinel", "errors.New", "fmt.Errorf", "errors.Join":
		return true
	}
	return false
}

func isBool(t types.Type) bool {
	b, ok := t.Underlying().(*types.Basic)
	return ok && b.Kind() == types.Bool
}

// nilTest decodes cond as a nil test of the verdict: returns the successor index taken when the verdict is nil.
func (w *vsWalk) nilTest(cond ssa.Value, s *vsState) (nilSucc int, ok bool) {
	neg := false
	for i := 0; i < 6; i++ {
		cond = s.res(cond)
		u, isNot := cond.(*ssa.UnOp)
		if !isNot || u.Op != token.NOT {
			break
		}
		cond, neg = u.X, !neg
	}
	bin, isBin := cond.(*ssa.BinOp)
	if !isBin || (bin.Op != token.EQL && bin.Op != token.NEQ) {
		return 0, false
	}
	x, y := s.res(bin.X), s.res(bin.Y)
	switch {
	case s.alias[x] && an.IsNilConst(y):
	case s.alias[y] && an.IsNilConst(x):
	default:
		// comparison against a boolean constant of a nil test: (err == nil) == false ...
		if k, isK := y.(*ssa.Const); isK && k.Value != nil && k.Value.Kind() == constant.Bool {
			if ns, ok := w.nilTest(x, s); ok {
				eq := bin.Op == token.EQL
				if constant.BoolVal(k.Value) != eq {
					ns = 1 - ns
				}
				if neg {
					ns = 1 - ns
				}
				return ns, true
			}
		}
		return 0, false
	}
	condTrueMeansNil := bin.Op == token.EQL
	if neg {
		condTrueMeansNil = !condTrueMeansNil
	}
	if condTrueMeansNil {
		return 0, true
	}
	return 1, true
}

func (w *vsWalk) dependsOnOpaque(cond ssa.Value, s *vsState) bool {
	for i := 0; i < 6; i++ {
		cond = s.res(cond)
		if s.opaque[cond] {
			return true
		}
		u, ok := cond.(*ssa.UnOp)
		if !ok || u.Op != token.NOT {
			return false
		}
		cond = u.X
	}
	return false
}

func (w *vsWalk) visitIf(b *ssa.BasicBlock, x *ssa.If, s *vsState) {
	if ns, ok := w.nilTest(x.Cond, s); ok && b.Succs[0] != b.Succs[1] {
		w.anyTest = true
		n := s.clone()
		n.tested = true
		if n.pass == nil && w.fn.Signature.Results().Len() == 0 {
			n.pass = b.Succs[ns]
		}
		w.enter(b, b.Succs[1-ns], n)
		return
	}
	// a boolean constant held in a tracked local / phi decides the branch
	if k, ok := s.res(x.Cond).(*ssa.Const); ok && k.Value != nil && k.Value.Kind() == constant.Bool {
		if constant.BoolVal(k.Value) {
			w.enter(b, b.Succs[0], s)
		} else {
			w.enter(b, b.Succs[1], s)
		}
		return
	}
	taint := w.dependsOnOpaque(x.Cond, s)
	if taint {
		w.anyTest = true
	}
	for _, sc := range b.Succs {
		n := s.clone()
		if taint {
			n.tainted = true
		}
		w.enter(b, sc, n)
	}
}

func (w *vsWalk) enter(from, to *ssa.BasicBlock, s *vsState) {
	if w.bad != "" {
		return
	}
	if to == w.call.Block() {
		return // the verification is executed again: a new verdict
	}
	if s.pass != nil && to == s.pass && s.tested {
		w.fail(s, "after a failed verification control continues where it continues after a successful one (verdict logged/ignored)")
		return
	}
	// select the phi values by the incoming edge
	pi := -1
	for i, p := range to.Preds {
		if p == from {
			pi = i
		}
	}
	for _, in := range to.Instrs {
		phi, ok := in.(*ssa.Phi)
		if !ok {
			break
		}
		if pi < 0 || pi >= len(phi.Edges) {
			continue
		}
		v := s.res(phi.Edges[pi])
		s.env[phi] = v
		if s.alias[v] {
			s.alias[phi] = true
		} else {
			delete(s.alias, phi)
		}
	}
	k := s.key(to)
	if w.seen[k] {
		return
	}
	w.seen[k] = true
	w.walk(to, 0, s)
}

func (w *vsWalk) visitReturn(r *ssa.Return, s *vsState) {
	if w.fn.Recover != nil && r.Block() == w.fn.Recover {
		return
	}
	switch {
	case w.errIdx >= 0 && w.errIdx < len(r.Results):
		e := s.res(r.Results[w.errIdx])
		if s.alias[e] {
			w.returnsVerdict = true
			return
		}
		if an.IsNilConst(e) {
			if s.tested {
				w.fail(s, "after a failed verification control can still reach a success return (verdict logged/ignored or condition weakened)")
			} else {
				w.fail(s, "a path from the verification reaches a success return without testing the verdict")
			}
			return
		}
		// `return next(...)`: an unrelated call's error, which may be nil
		var rc *ssa.Call
		switch y := e.(type) {
		case *ssa.Call:
			rc = y
		case *ssa.Extract:
			rc, _ = y.Tuple.(*ssa.Call)
		}
		if rc != nil && vsCallee.MatchString(an.CalleeName(&rc.Call)) {
			return // the verdict of another verification (swept at its own site) decides instead: either-or checks
		}
		if rc != nil && !s.derived[rc] && !vsErrConstructor(&rc.Call) {
			if !s.tested {
				w.fail(s, "a path from the verification returns the result of another call without ever testing the verdict")
			} else if w.unsure == "" && w.bad == "" {
				w.unsure = "after a failed verification the function returns the result of an unrelated call, which may be nil"
			}
		}
	case w.boolIdx >= 0 && w.boolIdx < len(r.Results):
		v := s.res(r.Results[w.boolIdx])
		if k, ok := v.(*ssa.Const); ok && k.Value != nil && k.Value.Kind() == constant.Bool {
			if constant.BoolVal(k.Value) {
				if s.tested {
					w.fail(s, "after a failed verification the predicate can still return true")
				} else {
					w.fail(s, "a path from the verification returns true without testing the verdict")
				}
			}
			return
		}
		if _, ok := w.nilTest(v, s); ok {
			w.returnsVerdict = true
			return // returns `err == nil` itself
		}
		if w.unsure == "" {
			w.unsure = "the boolean returned after the verification is computed in a way the rule does not follow"
		}
	case w.fn.Signature.Results().Len() == 0:
		// decided by the pass-continuation criterion in enter()
	default:
		if s.tested || !w.anyTest {
			if w.unsure == "" {
				w.unsure = "the enclosing function has neither an error nor a boolean result: cannot tell a success exit from a failure exit"
			}
		}
	}
}
