package rules

import (
	"fmt"
	"go/constant"
	"go/token"
	"go/types"
	"sort"
	"strconv"
	"strings"

	"golang.org/x/tools/go/ssa"

	"charonverif/internal/an"
)

// c04eng — a small path-enumerating abstract evaluator over go/ssa used by the C04 rules.
//
// The C04 rules are statements about *every path of one iteration* of an event loop ("the round-timeout
// event advances the round, re-arms the timer for the new round and broadcasts ROUND-CHANGE"). They used to
// be decided by CFG searches anchored at particular blocks/instructions of Run, which tied them to today's
// layout (phi shapes of short-circuit conditions, which closure holds which call, whether a variable is an
// SSA register or a captured cell). The evaluator removes that dependency: it enumerates the acyclic paths
// from a start point to the next execution of a stop instruction (or a return/panic), *following* calls of
// function literals and of in-package static functions that contain events, and it evaluates every SSA value
// on the way to a structural term (hash-consed by a string key). Memory cells (captured variables, spilled
// locals, named results) are tracked per path, so a value read back from a cell, passed through a helper's
// parameter or stored in a named bool is the same term as the original expression. A branch whose condition
// evaluates to a constant takes one edge; any other branch forks and the decision is recorded. The result
// of one path is a trace: the ordered events (calls with argument terms, stores, decisions), the final
// memory, and the exit. Rules are predicates over traces. Nothing is executed: values stay symbolic
// (constants, parameters, "content of cell c at the start", call results) and every path of the CFG is covered.

// ---------------------------------------------------------------------------------------------
// terms

type c04T struct {
	k     string // structural identity
	kind  byte   // 'k' constant, 'n' nil, 'z' zero value of a composite type, 'c' function/closure, 'a' address of a cell, 'f' field address, 'g' global address, 'i' initial content of a cell / loop phi, 't' tuple, 's' structural, 'u' unique
	cv    constant.Value
	fn    *ssa.Function
	binds []*c04T
	op    string
	args  []*c04T
	typ   types.Type
	idx   int
	al    *ssa.Alloc // 'a','i'
	phi   *ssa.Phi   // 'i'
	from  *c04T      // the address a not-yet-written memory location was read from (content as at the start of the path)
}

func (t *c04T) String() string {
	if t == nil {
		return "<nil>"
	}
	return t.k
}

var c04Nil = &c04T{k: "nil", kind: 'n'}

func c04Int(k int64) *c04T {
	return &c04T{k: "k:" + strconv.FormatInt(k, 10), kind: 'k', cv: constant.MakeInt64(k)}
}

func c04Bool(b bool) *c04T {
	if b {
		return &c04T{k: "k:true", kind: 'k', cv: constant.MakeBool(true)}
	}
	return &c04T{k: "k:false", kind: 'k', cv: constant.MakeBool(false)}
}

func c04Zero(t types.Type) *c04T {
	if _, ok := types.Unalias(t).(*types.TypeParam); ok {
		return &c04T{k: "zero:" + t.String(), kind: 'z', typ: t}
	}
	switch u := t.Underlying().(type) {
	case *types.Basic:
		switch {
		case u.Info()&types.IsBoolean != 0:
			return c04Bool(false)
		case u.Info()&types.IsInteger != 0:
			return c04Int(0)
		case u.Info()&types.IsString != 0:
			return &c04T{k: `k:""`, kind: 'k', cv: constant.MakeString("")}
		case u.Kind() == types.UntypedNil, u.Kind() == types.UnsafePointer:
			return c04Nil
		}
		return &c04T{k: "k:0", kind: 'k', cv: constant.MakeInt64(0)}
	case *types.Pointer, *types.Slice, *types.Map, *types.Chan, *types.Signature, *types.Interface:
		return c04Nil
	}
	return &c04T{k: "zero:" + t.String(), kind: 'z', typ: t}
}

func c04ConstT(c *ssa.Const) *c04T {
	if c.Value == nil {
		return c04Zero(c.Type())
	}
	switch c.Value.Kind() {
	case constant.Bool:
		return c04Bool(constant.BoolVal(c.Value))
	case constant.Int:
		if k, ok := constant.Int64Val(c.Value); ok {
			return c04Int(k)
		}
	}
	return &c04T{k: "k:" + c.Value.ExactString(), kind: 'k', cv: c.Value}
}

func c04S(op string, args ...*c04T) *c04T {
	var b strings.Builder
	b.WriteString(op)
	b.WriteByte('(')
	for i, a := range args {
		if i > 0 {
			b.WriteByte(',')
		}
		b.WriteString(a.k)
	}
	b.WriteByte(')')
	return &c04T{k: b.String(), kind: 's', op: op, args: args}
}

func (t *c04T) isInt() (int64, bool) {
	if t.kind != 'k' || t.cv == nil || t.cv.Kind() != constant.Int {
		return 0, false
	}
	return constant.Int64Val(t.cv)
}

func (t *c04T) isBool() (bool, bool) {
	if t.kind != 'k' || t.cv == nil || t.cv.Kind() != constant.Bool {
		return false, false
	}
	return constant.BoolVal(t.cv), true
}

func (t *c04T) is(op string) bool { return t != nil && t.kind == 's' && t.op == op }

func c04Not(a *c04T) *c04T {
	if b, ok := a.isBool(); ok {
		return c04Bool(!b)
	}
	if a.is("not") {
		return a.args[0]
	}
	return c04S("not", a)
}

func c04Add(a, b *c04T) *c04T {
	ka, oka := a.isInt()
	kb, okb := b.isInt()
	switch {
	case oka && okb:
		return c04Int(ka + kb)
	case oka:
		a, b, kb, okb = b, a, ka, true
	}
	if okb {
		if kb == 0 {
			return a
		}
		if a.is("add") {
			if k1, ok := a.args[1].isInt(); ok {
				return c04Add(a.args[0], c04Int(k1+kb))
			}
		}
		return c04S("add", a, b)
	}
	if a.k > b.k {
		a, b = b, a
	}
	return c04S("add", a, b)
}

func c04Eq(a, b *c04T) *c04T {
	if a.k == b.k {
		return c04Bool(true)
	}
	if (a.kind == 'k' || a.kind == 'n') && (b.kind == 'k' || b.kind == 'n') {
		if a.kind == 'k' && b.kind == 'k' && a.cv.Kind() == b.cv.Kind() {
			return c04Bool(constant.Compare(a.cv, token.EQL, b.cv))
		}
		if a.kind != b.kind {
			return c04Bool(false)
		}
	}
	// boolean compared with a constant: the boolean itself (or its negation)
	if v, ok := b.isBool(); ok {
		if v {
			return a
		}
		return c04Not(a)
	}
	if v, ok := a.isBool(); ok {
		if v {
			return b
		}
		return c04Not(b)
	}
	// constants last, otherwise ordered by key
	ca, cb := a.kind == 'k' || a.kind == 'n', b.kind == 'k' || b.kind == 'n'
	if (ca && !cb) || (ca == cb && a.k > b.k) {
		a, b = b, a
	}
	return c04S("eq", a, b)
}

func c04Lt(a, b *c04T) *c04T {
	ka, oka := a.isInt()
	kb, okb := b.isInt()
	if oka && okb {
		return c04Bool(ka < kb)
	}
	return c04S("lt", a, b)
}

func c04Bin(op token.Token, a, b *c04T) *c04T {
	switch op {
	case token.EQL:
		return c04Eq(a, b)
	case token.NEQ:
		return c04Not(c04Eq(a, b))
	case token.LSS:
		return c04Lt(a, b)
	case token.GTR:
		return c04Lt(b, a)
	case token.LEQ:
		return c04Not(c04Lt(b, a))
	case token.GEQ:
		return c04Not(c04Lt(a, b))
	case token.ADD:
		_, ia := a.isInt()
		_, ib := b.isInt()
		if (ia || a.kind != 'k') && (ib || b.kind != 'k') {
			return c04Add(a, b)
		}
	case token.SUB:
		if k, ok := b.isInt(); ok {
			return c04Add(a, c04Int(-k))
		}
	}
	return c04S("bin:"+op.String(), a, b)
}

// c04Field: field idx of a struct-valued term.
func c04Field(whole *c04T, idx int, ft types.Type) *c04T {
	if whole.kind == 'z' {
		return c04Zero(ft)
	}
	return c04S("field#"+strconv.Itoa(idx), whole)
}

// ---------------------------------------------------------------------------------------------
// events, traces

type c04Ev struct {
	kind  string // "call", "store", "dec", "select", "send", "mapupdate", "enter"
	name  string // call: normalised callee name
	in    ssa.Instruction
	args  []*c04T
	res   *c04T
	sent  []*c04T // select: the value sent in each state (nil for receives)
	addr  *c04T   // store
	val   *c04T   // store: value; dec: condition (negations stripped)
	truth bool    // dec
	fn    *ssa.Function
	depth int
}

type c04Trace struct {
	evs    []*c04Ev
	dec    map[string]bool
	mem    map[string]*c04T
	exit   string // "stop", "ret", "panic", "cut"
	ret    []*c04T
	stop   *c04Ev // the stop instruction as it would execute next (select: channel terms)
	blocks []*ssa.BasicBlock
	phis   map[string]*c04T // exit "stop": the loop-carried SSA values (phis of the stop block) as they are at the stop
	pre    map[string]*c04T // exit "stop": what the values of the chain functions evaluate to at the stop, by the name a path started at the stop gives them ("pre:fn.name")
	x      *c04Exec
}

// ---------------------------------------------------------------------------------------------
// executor

type c04Cfg struct {
	root      *ssa.Function
	pkg       *ssa.Package
	stop      ssa.Instruction               // executing it a second time (or the first time, if start is elsewhere) in the root frame ends the trace
	startB    *ssa.BasicBlock               // nil: function entry
	startI    int                           // index in startB
	chain     []*ssa.Call                   // startB lies in a function reached from root through this chain of calls (outermost first): root resumes after chain[0], …
	isEvent   func(name string) bool        // calls that make a function "interesting" (followed)
	evInstr   func(in ssa.Instruction) bool // other instructions that make a function interesting (sends, map updates …)
	emptyMaps bool                          // first-call mode: a lookup in a map held in an enclosing-scope cell finds nothing
	paramLo   map[*ssa.Parameter]int64      // lower bounds of root parameters
	noInline  func(fn *ssa.Function) bool   // never follow
	maxTraces int
}

type c04Frame struct {
	id    int
	fn    *ssa.Function
	env   map[ssa.Value]*c04T
	b     *ssa.BasicBlock
	i     int
	pred  *ssa.BasicBlock
	call  ssa.Value // call instruction in the caller waiting for the result
	args  []*c04T
	visit map[*ssa.BasicBlock]int
}

type c04State struct {
	frames []*c04Frame
	mem    map[string]*c04T
	dec    map[string]bool
	evs    []*c04Ev
	blocks []*ssa.BasicBlock
	seq    int
	nframe int
	began  bool
	maps   map[string][]c04MapEnt // entries written into maps on this path
	fresh  map[string]bool        // maps made on this path
}

type c04Exec struct {
	cfg      c04Cfg
	traces   []*c04Trace
	lo       map[string]int64
	nstores  map[*ssa.Alloc]int
	storeVal map[*ssa.Alloc]ssa.Value
	hasEv    map[*ssa.Function]bool
	family   []*ssa.Function
	entered  map[*ssa.Function]bool // functions whose body was executed on some path
	err      string
	allocID  map[*ssa.Alloc]int
}

func c04Outermost(fn *ssa.Function) *ssa.Function {
	for fn.Parent() != nil {
		fn = fn.Parent()
	}
	return fn
}

func c04NewExec(cfg c04Cfg) *c04Exec {
	x := &c04Exec{cfg: cfg, lo: map[string]int64{}, nstores: map[*ssa.Alloc]int{}, storeVal: map[*ssa.Alloc]ssa.Value{},
		hasEv: map[*ssa.Function]bool{}, allocID: map[*ssa.Alloc]int{}, entered: map[*ssa.Function]bool{}}
	if x.cfg.maxTraces == 0 {
		x.cfg.maxTraces = 40000
	}
	if x.cfg.pkg == nil {
		x.cfg.pkg = c04Outermost(cfg.root).Pkg
	}
	x.family = an.Closure(c04Outermost(cfg.root))
	if cfg.startB != nil {
		// the code between root and the start point belongs to the analysed function as well
		famSeen := map[*ssa.Function]bool{}
		for _, f := range x.family {
			famSeen[f] = true
		}
		if o := c04Outermost(cfg.startB.Parent()); !famSeen[o] {
			for _, f := range an.Closure(o) {
				if !famSeen[f] {
					famSeen[f] = true
					x.family = append(x.family, f)
				}
			}
		}
		for _, call := range cfg.chain {
			if o := c04Outermost(call.Parent()); !famSeen[o] {
				for _, f := range an.Closure(o) {
					if !famSeen[f] {
						famSeen[f] = true
						x.family = append(x.family, f)
					}
				}
			}
		}
	}
	for _, f := range x.family {
		for _, in := range an.Instrs(f, false) {
			switch s := in.(type) {
			case *ssa.Store:
				if al := x.allocOfAddr(s.Addr); al != nil {
					x.nstores[al]++
					x.storeVal[al] = s.Val
					// only an assignment made once, by the declaring function itself and outside any loop, fixes the content
					if f != al.Parent() || an.InnermostLoop(f, s.Block()) != nil {
						x.nstores[al]++
					}
				} else if fa, ok := s.Addr.(*ssa.FieldAddr); ok {
					if al := x.allocOfAddr(fa.X); al != nil {
						x.nstores[al] += 2
					}
				}
			case ssa.CallInstruction:
				// a cell whose address is handed to a callee can be written there
				for _, a := range s.Common().Args {
					if al := x.allocOfAddr(a); al != nil {
						x.nstores[al] += 2
					}
				}
			}
		}
	}
	x.computeHasEv()
	return x
}

// allocOfAddr statically resolves an address value to the Alloc it denotes (directly or as a captured variable).
func (x *c04Exec) allocOfAddr(v ssa.Value) *ssa.Alloc {
	for d := 0; d < 8; d++ {
		switch a := v.(type) {
		case *ssa.Alloc:
			return a
		case *ssa.FreeVar:
			b := c04Binding(a)
			if b == nil {
				return nil
			}
			v = b
		default:
			return nil
		}
	}
	return nil
}

// c04Binding: the value bound to a free variable by the (unique) MakeClosure of its function.
func c04Binding(fv *ssa.FreeVar) ssa.Value {
	fn := fv.Parent()
	if fn == nil || fn.Parent() == nil {
		return nil
	}
	idx := -1
	for i, f := range fn.FreeVars {
		if f == fv {
			idx = i
		}
	}
	if idx < 0 {
		return nil
	}
	var out ssa.Value
	for _, in := range an.Instrs(fn.Parent(), false) {
		if mc, ok := in.(*ssa.MakeClosure); ok && mc.Fn == ssa.Value(fn) {
			if out != nil {
				return nil
			}
			out = mc.Bindings[idx]
		}
	}
	return out
}

// staticCallee resolves the function a call instruction runs when that is statically evident: a static
// callee, a function literal called directly, or a variable holding a function literal assigned once.
func (x *c04Exec) staticCallee(cc *ssa.CallCommon) *ssa.Function {
	if cc.IsInvoke() {
		return nil
	}
	if f := cc.StaticCallee(); f != nil {
		return an.Orig(f)
	}
	return x.closureOfValue(cc.Value, 0)
}

func (x *c04Exec) closureOfValue(v ssa.Value, d int) *ssa.Function {
	if d > 6 {
		return nil
	}
	switch a := an.Unwrap(v).(type) {
	case *ssa.MakeClosure:
		f, _ := a.Fn.(*ssa.Function)
		return f
	case *ssa.Function:
		return an.Orig(a)
	case *ssa.UnOp:
		if a.Op != token.MUL {
			return nil
		}
		al := x.allocOfAddr(a.X)
		if al == nil || x.nstores[al] != 1 {
			return nil
		}
		return x.closureOfValue(x.storeVal[al], d+1)
	}
	return nil
}

// c04CallName names a call target: "static:<pkg.func>", "field:<pkg.Type.field>", "closure:<fn>", "invoke:<method>", "builtin:<name>", "" if unknown.
func (x *c04Exec) callName(cc *ssa.CallCommon) string {
	if cc.IsInvoke() {
		return "invoke:" + cc.Method.Name()
	}
	if b, ok := cc.Value.(*ssa.Builtin); ok {
		return "builtin:" + b.Name()
	}
	if f := cc.StaticCallee(); f != nil && an.Orig(f).Parent() == nil {
		return "static:" + c02Strip(an.FuncName(f))
	}
	if f := x.closureOfValue(cc.Value, 0); f != nil {
		if f.Parent() == nil {
			return "static:" + c02Strip(an.FuncName(f))
		}
		return "closure:" + c02Strip(an.FuncName(f))
	}
	if k, _, ok := an.FieldOf(cc.Value); ok {
		return "field:" + c02Strip(k)
	}
	return ""
}

func (x *c04Exec) computeHasEv() {
	// candidate functions: the family of the root plus the package's functions
	var fns []*ssa.Function
	seen := map[*ssa.Function]bool{}
	for _, f := range append(append([]*ssa.Function{}, x.family...), an.PkgFuncsAll(x.cfg.pkg)...) {
		if !seen[f] {
			seen[f] = true
			fns = append(fns, f)
		}
	}
	direct := func(f *ssa.Function) bool {
		for _, in := range an.Instrs(f, false) {
			switch s := in.(type) {
			case *ssa.Store:
				a := s.Addr
				if fa, ok := a.(*ssa.FieldAddr); ok {
					a = fa.X
				}
				if _, ok := a.(*ssa.FreeVar); ok {
					return true
				}
			case *ssa.Call:
				if x.cfg.isEvent != nil && x.cfg.isEvent(x.callName(&s.Call)) {
					return true
				}
			}
			if x.cfg.evInstr != nil && x.cfg.evInstr(in) {
				return true
			}
		}
		return false
	}
	for _, f := range fns {
		if direct(f) {
			x.hasEv[f] = true
		}
	}
	for changed := true; changed; {
		changed = false
		for _, f := range fns {
			if x.hasEv[f] {
				continue
			}
			for _, in := range an.Instrs(f, false) {
				if call, ok := in.(*ssa.Call); ok {
					if g := x.staticCallee(&call.Call); g != nil && x.hasEv[g] {
						x.hasEv[f] = true
						changed = true
						break
					}
				}
			}
		}
	}
}

func (x *c04Exec) follow(fn *ssa.Function, st *c04State, args []*c04T) bool {
	if fn == nil || len(fn.Blocks) == 0 || len(st.frames) > 10 {
		return false
	}
	// function literals of the analysed function's family are always followed (they are its own code);
	// top-level functions when they contain events, or when they are handed the address of a tracked cell (a
	// state object passed as receiver / parameter: what they do to it is part of the path)
	if !x.hasEv[fn] && (fn.Parent() == nil || !x.inFamily(fn)) && !c04HasStateArg(fn, args) && !x.classifiesEvent(fn, args) {
		return false
	}
	if fn.Pkg != x.cfg.pkg && c04Outermost(fn).Pkg != x.cfg.pkg {
		return false
	}
	if x.cfg.noInline != nil && x.cfg.noInline(fn) {
		return false
	}
	for _, fr := range st.frames {
		if fr.fn == fn {
			return false
		}
	}
	return true
}

// classifiesEvent: fn is a loop-free in-package function applied to (a component of) the result of an event call —
// a helper that merely classifies that result (`outcomeOf(errC)`); what the caller then branches on is decided inside.
func (x *c04Exec) classifiesEvent(fn *ssa.Function, args []*c04T) bool {
	if x.cfg.isEvent == nil || fn.Parent() != nil || len(an.Loops(fn)) > 0 || len(fn.Blocks) > 24 {
		return false
	}
	if x.cfg.isEvent("static:" + c02Strip(an.FuncName(fn))) {
		return false
	}
	for _, a := range args {
		for a.kind == 's' && strings.HasPrefix(a.op, "ext#") && len(a.args) == 1 {
			a = a.args[0]
		}
		switch {
		case a.kind == 'u' && strings.HasPrefix(a.op, "ev:"):
			return true
		case a.kind == 's' && strings.HasPrefix(a.op, "call:") && x.cfg.isEvent(strings.TrimPrefix(a.op, "call:")):
			return true
		}
	}
	return false
}

func (x *c04Exec) inFamily(fn *ssa.Function) bool {
	o := c04Outermost(fn)
	for _, f := range x.family {
		if f == o {
			return true
		}
	}
	return false
}

// c04HasStateArg: a pointer-typed parameter of fn is bound to the address of a cell the evaluator tracks, or to a
// pointer to a struct that is state of the caller (a value that existed before the path started).
func c04HasStateArg(fn *ssa.Function, args []*c04T) bool {
	for i, p := range fn.Params {
		if i >= len(args) {
			break
		}
		pt, ok := p.Type().Underlying().(*types.Pointer)
		if !ok {
			continue
		}
		if _, isStruct := pt.Elem().Underlying().(*types.Struct); !isStruct {
			continue
		}
		switch a := args[i]; a.kind {
		case 'a', 'f':
			return true
		case 's':
			if a.op == "param" || a.op == "free" || a.op == "pre" || a.from != nil {
				return true
			}
		case 'i':
			return true
		}
	}
	return false
}

func (st *c04State) clone() *c04State {
	n := &c04State{mem: make(map[string]*c04T, len(st.mem)), dec: make(map[string]bool, len(st.dec)), seq: st.seq, nframe: st.nframe, began: st.began}
	for k, v := range st.mem {
		n.mem[k] = v
	}
	for k, v := range st.dec {
		n.dec[k] = v
	}
	n.maps = make(map[string][]c04MapEnt, len(st.maps))
	for k, v := range st.maps {
		n.maps[k] = append([]c04MapEnt(nil), v...)
	}
	n.fresh = make(map[string]bool, len(st.fresh))
	for k, v := range st.fresh {
		n.fresh[k] = v
	}
	n.evs = append([]*c04Ev(nil), st.evs...)
	n.blocks = append([]*ssa.BasicBlock(nil), st.blocks...)
	for _, f := range st.frames {
		g := *f
		g.env = make(map[ssa.Value]*c04T, len(f.env))
		for k, v := range f.env {
			g.env[k] = v
		}
		g.visit = make(map[*ssa.BasicBlock]int, len(f.visit))
		for k, v := range f.visit {
			g.visit[k] = v
		}
		n.frames = append(n.frames, &g)
	}
	return n
}

type c04MapEnt struct {
	key, val *c04T // val nil: the entry may have been overwritten
}

// mapGet looks k up among the entries written into map m on this path. known is false when some written entry may
// or may not be k; (nil, true) means no written entry is k.
func (x *c04Exec) mapGet(st *c04State, m, k *c04T) (*c04T, bool) {
	ents := st.maps[m.k]
	for i := len(ents) - 1; i >= 0; i-- {
		e := ents[i]
		d, ok := x.evalBool(st.dec, c04Eq(e.key, k))
		switch {
		case ok && d:
			return e.val, e.val != nil
		case !ok:
			return nil, false
		}
	}
	return nil, true
}

func c04LookupElem(a *ssa.Lookup) types.Type {
	if tu, ok := a.Type().(*types.Tuple); ok {
		return tu.At(0).Type()
	}
	return a.Type()
}

func (st *c04State) top() *c04Frame { return st.frames[len(st.frames)-1] }

func (x *c04Exec) uniq(st *c04State, what string) *c04T {
	st.seq++
	return &c04T{k: what + "#" + strconv.Itoa(st.seq), kind: 'u', op: what}
}

func (x *c04Exec) aid(al *ssa.Alloc) int {
	if id, ok := x.allocID[al]; ok {
		return id
	}
	id := len(x.allocID) + 1
	x.allocID[al] = id
	return id
}

func (x *c04Exec) addrOf(al *ssa.Alloc, frame int) *c04T {
	name := al.Comment
	if name == "" {
		name = al.Name()
	}
	return &c04T{k: fmt.Sprintf("&%s.%d@%d", name, x.aid(al), frame), kind: 'a', al: al, idx: frame, typ: al.Type().Underlying().(*types.Pointer).Elem()}
}

// frameOfAlloc: the id of the live frame that owns al (outermost scope: 0 when the root is the owner, else -1).
func (x *c04Exec) frameOfAlloc(st *c04State, al *ssa.Alloc) int {
	for i := len(st.frames) - 1; i >= 0; i-- {
		if st.frames[i].fn == al.Parent() {
			return st.frames[i].id
		}
	}
	return -1
}

// val evaluates an operand in frame fr.
func (x *c04Exec) val(st *c04State, fr *c04Frame, v ssa.Value) *c04T {
	switch a := v.(type) {
	case *ssa.Const:
		return c04ConstT(a)
	case *ssa.Function:
		return &c04T{k: "fn:" + a.String(), kind: 'c', fn: an.Orig(a)}
	case *ssa.Builtin:
		return &c04T{k: "builtin:" + a.Name(), kind: 's', op: "builtin:" + a.Name()}
	case *ssa.Global:
		return &c04T{k: "&" + a.String(), kind: 'g', op: a.String()}
	}
	if t, ok := fr.env[v]; ok {
		return t
	}
	t := x.static(st, fr, v)
	fr.env[v] = t
	return t
}

// static evaluates a value that was defined outside the trace (before the start point, or in an enclosing function).
func (x *c04Exec) static(st *c04State, fr *c04Frame, v ssa.Value) *c04T {
	switch a := v.(type) {
	case *ssa.Parameter:
		pi := 0
		for i, q := range a.Parent().Params {
			if q == a {
				pi = i
			}
		}
		t := &c04T{k: "param:" + a.Name() + "." + strconv.Itoa(pi) + "@" + a.Parent().Name(), kind: 's', op: "param"}
		if lo, ok := x.cfg.paramLo[a]; ok {
			x.lo[t.k] = lo
		}
		return t
	case *ssa.FreeVar:
		b := c04Binding(a)
		if b == nil {
			return &c04T{k: "free:" + a.Name() + "@" + a.Parent().Name(), kind: 's', op: "free"}
		}
		// evaluate the binding in the frame of the enclosing function if it is live, else statically
		for i := len(st.frames) - 1; i >= 0; i-- {
			if st.frames[i].fn == a.Parent().Parent() {
				return x.val(st, st.frames[i], b)
			}
		}
		return x.static(st, &c04Frame{id: -1, fn: a.Parent().Parent(), env: map[ssa.Value]*c04T{}}, b)
	case *ssa.Alloc:
		id := fr.id
		if fr.fn != a.Parent() {
			id = x.frameOfAlloc(st, a)
		}
		return x.addrOf(a, id)
	case *ssa.MakeClosure:
		fn, _ := a.Fn.(*ssa.Function)
		t := &c04T{kind: 'c', fn: fn}
		t.k = "closure:" + fn.Name()
		for _, b := range a.Bindings {
			t.binds = append(t.binds, x.val(st, fr, b))
		}
		return t
	case *ssa.Phi:
		return &c04T{k: "init:phi:" + a.Parent().Name() + "." + a.Name(), kind: 'i', phi: a}
	case *ssa.FieldAddr:
		return x.fieldAddr(x.val(st, fr, a.X), a)
	case *ssa.ChangeType:
		return x.val(st, fr, a.X)
	case *ssa.Convert:
		return x.val(st, fr, a.X)
	case *ssa.MakeInterface:
		return x.val(st, fr, a.X)
	case *ssa.ChangeInterface:
		return x.val(st, fr, a.X)
	case *ssa.UnOp:
		if a.Op == token.MUL {
			// a load executed before the trace: the content of the cell as it was then; for cells written once
			// that is the content now
			return x.load(st, x.val(st, fr, a.X), a.Type())
		}
	case *ssa.Extract:
		return c04S("ext#"+strconv.Itoa(a.Index), x.val(st, fr, a.Tuple))
	}
	return &c04T{k: "pre:" + v.Parent().Name() + "." + v.Name(), kind: 's', op: "pre"}
}

func (x *c04Exec) fieldAddr(base *c04T, a *ssa.FieldAddr) *c04T {
	t := c04S("fa#"+strconv.Itoa(a.Field), base)
	t.kind = 'f'
	t.idx = a.Field
	t.op = an.FieldKey(a.X.Type(), a.Field)
	if pt, ok := a.Type().Underlying().(*types.Pointer); ok {
		t.typ = pt.Elem()
	}
	return t
}

// initial content of a cell that has not been written on this path.
func (x *c04Exec) initCell(st *c04State, addr *c04T, typ types.Type) *c04T {
	al := addr.al
	if x.nstores[al] == 1 {
		var t *c04T
		switch sv := x.storeVal[al].(type) {
		case *ssa.MakeClosure:
			// the literal's bindings are evaluated in the scope that created it
			t = x.static(st, &c04Frame{id: addr.idx, fn: sv.Parent(), env: map[ssa.Value]*c04T{}}, sv)
		case *ssa.Parameter:
			t = x.static(st, nil, sv)
		case *ssa.Const:
			t = c04ConstT(sv)
		case *ssa.Function:
			t = &c04T{k: "fn:" + sv.String(), kind: 'c', fn: an.Orig(sv)}
		}
		if t != nil {
			c := *t
			c.from = addr
			return &c
		}
	}
	return c04InitTerm(addr)
}

func c04InitTerm(addr *c04T) *c04T {
	return &c04T{k: "init:" + addr.k, kind: 'i', al: addr.al, from: addr}
}

// initOf: what a read of addr yields when nothing was written on the path.
func (x *c04Exec) initOf(addr *c04T) *c04T {
	return x.load(&c04State{mem: map[string]*c04T{}, dec: map[string]bool{}}, addr, nil)
}

// c04AddrRoot splits an address into the cell it lies in and the field path.
func c04AddrRoot(addr *c04T) (*c04T, []int) {
	var path []int
	for addr.kind == 'f' {
		path = append([]int{addr.idx}, path...)
		addr = addr.args[0]
	}
	return addr, path
}

// staticAddr resolves an address operand to (cell, field path) when that is evident from the code alone.
func (x *c04Exec) staticAddr(v ssa.Value) (*ssa.Alloc, []int) {
	var path []int
	for d := 0; d < 8; d++ {
		switch a := v.(type) {
		case *ssa.FieldAddr:
			path = append([]int{a.Field}, path...)
			v = a.X
		default:
			if al := x.allocOfAddr(v); al != nil {
				return al, path
			}
			return nil, nil
		}
	}
	return nil, nil
}

// addrFor builds the address term of (cell, field path) as seen from frame id.
func (x *c04Exec) addrFor(al *ssa.Alloc, frame int, path []int) *c04T {
	t := x.addrOf(al, frame)
	typ := al.Type().Underlying().(*types.Pointer).Elem()
	for _, i := range path {
		f := c04S("fa#"+strconv.Itoa(i), t)
		f.kind, f.idx, f.op = 'f', i, an.FieldKey(typ, i)
		if st, ok := typ.Underlying().(*types.Struct); ok && i < st.NumFields() {
			typ = st.Field(i).Type()
		}
		f.typ = typ
		t = f
	}
	return t
}

func c04SamePath(a, b []int) bool {
	if len(a) != len(b) {
		return false
	}
	for i := range a {
		if a[i] != b[i] {
			return false
		}
	}
	return true
}

func c04SubKeys(st *c04State, baseKey string) []string {
	var ks []string
	for k := range st.mem {
		if strings.HasPrefix(k, "fa#") && strings.Contains(k, "("+baseKey+")") {
			ks = append(ks, k)
		}
	}
	sort.Strings(ks)
	return ks
}

func (x *c04Exec) load(st *c04State, addr *c04T, typ types.Type) *c04T {
	if addr.kind == 'a' || addr.kind == 'f' {
		// a whole-value read after some field was overwritten: the recorded whole plus the overwritten fields
		if subs := c04SubKeys(st, addr.k); len(subs) > 0 {
			args := []*c04T{x.loadWhole(st, addr, typ)}
			for _, k := range subs {
				sub := &c04T{k: k, kind: 's', op: "sub", idx: -1}
				// a direct field of this very location: remember which
				if rest := strings.TrimPrefix(k, "fa#"); rest != k {
					if i := strings.Index(rest, "("); i > 0 && rest[i:] == "("+addr.k+")" {
						if n, err := strconv.Atoi(rest[:i]); err == nil {
							sub.idx = n
						}
					}
				}
				args = append(args, sub, st.mem[k])
			}
			return c04S("upd", args...)
		}
	}
	return x.loadWhole(st, addr, typ)
}

func (x *c04Exec) loadWhole(st *c04State, addr *c04T, typ types.Type) *c04T {
	if t, ok := st.mem[addr.k]; ok {
		return t
	}
	switch addr.kind {
	case 'a':
		return x.initCell(st, addr, typ)
	case 'f':
		base := addr.args[0]
		if base.kind == 'a' || base.kind == 'f' {
			whole := x.loadWhole(st, base, nil)
			for whole.is("upd") {
				// a struct value assembled field by field (composite literal, copy of an updated local)
				var hit *c04T
				for i := 1; i+1 < len(whole.args); i += 2 {
					if whole.args[i].idx == addr.idx {
						hit = whole.args[i+1]
					}
				}
				if hit != nil {
					return hit
				}
				whole = whole.args[0]
			}
			if whole.kind == 'z' && typ != nil {
				return c04Zero(typ)
			}
			t := c04S("fld:"+addr.op, whole)
			if whole.from != nil {
				t.from = addr
			}
			return t
		}
		t := c04S("fld:"+addr.op, base)
		t.from = addr
		return t
	case 'g':
		return c04S("gload:" + addr.op)
	}
	return c04S("deref", addr)
}

func (x *c04Exec) store(st *c04State, addr, val *c04T, in ssa.Instruction) {
	if addr.kind == 'a' || addr.kind == 'f' {
		// a whole-value store supersedes recorded field stores
		for _, k := range c04SubKeys(st, addr.k) {
			delete(st.mem, k)
		}
	}
	st.mem[addr.k] = val
	st.evs = append(st.evs, &c04Ev{kind: "store", in: in, addr: addr, val: val, depth: len(st.frames)})
}

// ---------------------------------------------------------------------------------------------
// boolean evaluation

const c04Inf = int64(1) << 60

func (x *c04Exec) bounds(t *c04T) (int64, int64) {
	if k, ok := t.isInt(); ok {
		return k, k
	}
	if t.is("add") {
		if k, ok := t.args[1].isInt(); ok {
			lo, hi := x.bounds(t.args[0])
			if lo > -c04Inf {
				lo += k
			}
			if hi < c04Inf {
				hi += k
			}
			return lo, hi
		}
	}
	if t.is("len") {
		return 0, c04Inf
	}
	if lo, ok := x.lo[t.k]; ok {
		return lo, c04Inf
	}
	return -c04Inf, c04Inf
}

func c04Lin(t *c04T) (string, int64) {
	if k, ok := t.isInt(); ok {
		return "", k
	}
	if t.is("add") {
		if k, ok := t.args[1].isInt(); ok {
			b, o := c04Lin(t.args[0])
			return b, o + k
		}
	}
	return t.k, 0
}

func (x *c04Exec) evalBool(dec map[string]bool, t *c04T) (bool, bool) {
	if b, ok := t.isBool(); ok {
		return b, true
	}
	if t.is("not") {
		b, ok := x.evalBool(dec, t.args[0])
		return !b, ok
	}
	if b, ok := dec[t.k]; ok {
		return b, true
	}
	switch {
	case t.is("eq"):
		a, b := t.args[0], t.args[1]
		ba, oa := c04Lin(a)
		bb, ob := c04Lin(b)
		if ba == bb && ba != "" {
			return oa == ob, true
		}
		la, ha := x.bounds(a)
		lb, hb := x.bounds(b)
		if ha < lb || hb < la {
			return false, true
		}
		// a value known to equal one constant differs from any other constant
		if b.kind == 'k' {
			for k, v := range dec {
				if v && strings.HasPrefix(k, "eq("+a.k+",k:") && k != t.k {
					return false, true
				}
			}
		}
		if (a.kind == 'c' || a.kind == 'a' || a.kind == 'f' || c04IsErrCtor(a)) && b.kind == 'n' {
			return false, true
		}
	case t.is("lt"):
		a, b := t.args[0], t.args[1]
		ba, oa := c04Lin(a)
		bb, ob := c04Lin(b)
		if ba == bb {
			return oa < ob, true
		}
		la, ha := x.bounds(a)
		lb, hb := x.bounds(b)
		if ha < lb {
			return true, true
		}
		if la >= hb {
			return false, true
		}
	}
	return false, false
}

// ---------------------------------------------------------------------------------------------
// running

func (x *c04Exec) run() []*c04Trace {
	st := &c04State{mem: map[string]*c04T{}, dec: map[string]bool{}, maps: map[string][]c04MapEnt{}, fresh: map[string]bool{}}
	fr := &c04Frame{id: 0, fn: x.cfg.root, env: map[ssa.Value]*c04T{}, visit: map[*ssa.BasicBlock]int{}}
	st.frames = []*c04Frame{fr}
	x.entered[x.cfg.root] = true
	st.nframe = len(x.cfg.chain)
	switch {
	case len(x.cfg.chain) > 0 && x.cfg.startB != nil:
		// the start point lies in a function reached from root through a chain of calls: every function of the
		// chain resumes after its call
		for ci, call := range x.cfg.chain {
			fr.b = call.Block()
			for i, in := range fr.b.Instrs {
				if in == ssa.Instruction(call) {
					fr.i = i + 1
				}
			}
			var callee *ssa.Function
			if ci+1 < len(x.cfg.chain) {
				callee = x.cfg.chain[ci+1].Parent()
			} else {
				callee = x.cfg.startB.Parent()
			}
			x.entered[callee] = true
			nf := &c04Frame{id: ci + 1, fn: callee, env: map[ssa.Value]*c04T{}, call: call, visit: map[*ssa.BasicBlock]int{}}
			calleeT := x.val(st, fr, call.Call.Value)
			for i, p := range nf.fn.Params {
				if i < len(call.Call.Args) {
					nf.env[p] = x.val(st, fr, call.Call.Args[i])
					nf.args = append(nf.args, nf.env[p])
				}
			}
			for i, fv := range nf.fn.FreeVars {
				if i < len(calleeT.binds) {
					nf.env[fv] = calleeT.binds[i]
				}
			}
			st.frames = append(st.frames, nf)
			fr = nf
		}
		fr.b, fr.i = x.cfg.startB, x.cfg.startI
		st.blocks = append(st.blocks, fr.b)
	case x.cfg.startB != nil:
		fr.b, fr.i = x.cfg.startB, x.cfg.startI
		st.blocks = append(st.blocks, fr.b)
	default:
		fr.b = x.cfg.root.Blocks[0]
		st.blocks = append(st.blocks, fr.b)
	}
	x.exec(st)
	return x.traces
}

func (x *c04Exec) finish(st *c04State, exit string, ret []*c04T, stop *c04Ev) {
	tr := &c04Trace{evs: st.evs, dec: st.dec, mem: st.mem, exit: exit, ret: ret, stop: stop, blocks: st.blocks, x: x, phis: map[string]*c04T{}, pre: map[string]*c04T{}}
	if exit == "stop" {
		for fi, fr := range st.frames {
			if fi > len(x.cfg.chain) {
				break
			}
			for v, t := range fr.env {
				if _, isInstr := v.(ssa.Instruction); isInstr && v.Parent() != nil {
					tr.pre["pre:"+v.Parent().Name()+"."+v.Name()] = t
				}
			}
			for _, b := range fr.fn.Blocks {
				for _, in := range b.Instrs {
					p, ok := in.(*ssa.Phi)
					if !ok {
						break
					}
					if v, ok := fr.env[p]; ok {
						tr.phis[x.static(st, fr, p).k] = v
					}
				}
			}
		}
	}
	x.traces = append(x.traces, tr)
	if len(x.traces) > x.cfg.maxTraces && x.err == "" {
		x.err = "too many paths"
	}
}

func (x *c04Exec) enter(st *c04State, fr *c04Frame, to *ssa.BasicBlock) bool {
	from := fr.b
	fr.visit[to]++
	if fr.visit[to] > 2 {
		return false
	}
	// phis: simultaneous assignment from the edge taken
	pi := -1
	for i, p := range to.Preds {
		if p == from {
			pi = i
		}
	}
	var vals []*c04T
	var phis []*ssa.Phi
	for _, in := range to.Instrs {
		p, ok := in.(*ssa.Phi)
		if !ok {
			break
		}
		phis = append(phis, p)
		if pi < 0 {
			vals = append(vals, x.uniq(st, "phi"))
		} else {
			vals = append(vals, x.val(st, fr, p.Edges[pi]))
		}
	}
	for i, p := range phis {
		fr.env[p] = vals[i]
	}
	fr.pred, fr.b, fr.i = from, to, len(phis)
	st.blocks = append(st.blocks, to)
	return true
}

func (x *c04Exec) exec(st *c04State) {
	for steps := 0; ; steps++ {
		if x.err != "" {
			return
		}
		if steps > 200000 {
			x.err = "path too long"
			return
		}
		fr := st.top()
		if fr.i >= len(fr.b.Instrs) {
			x.finish(st, "cut", nil, nil)
			return
		}
		in := fr.b.Instrs[fr.i]
		if x.cfg.stop != nil && in == x.cfg.stop && st.began {
			x.finish(st, "stop", nil, x.describe(st, fr, in))
			return
		}
		st.began = true
		fr.i++
		switch a := in.(type) {
		case *ssa.Phi:
			if _, ok := fr.env[a]; !ok {
				fr.env[a] = x.static(st, fr, a)
			}
		case *ssa.DebugRef, *ssa.RunDefers, *ssa.Defer, *ssa.Go:
		case *ssa.Alloc:
			addr := x.addrOf(a, fr.id)
			fr.env[a] = addr
			st.mem[addr.k] = c04Zero(a.Type().Underlying().(*types.Pointer).Elem())
			for _, k := range c04SubKeys(st, addr.k) {
				delete(st.mem, k)
			}
		case *ssa.Store:
			x.store(st, x.val(st, fr, a.Addr), x.val(st, fr, a.Val), a)
		case *ssa.UnOp:
			switch a.Op {
			case token.MUL:
				fr.env[a] = x.load(st, x.val(st, fr, a.X), a.Type())
			case token.NOT:
				fr.env[a] = c04Not(x.val(st, fr, a.X))
			case token.ARROW:
				fr.env[a] = x.uniq(st, "recv")
			default:
				fr.env[a] = c04S("un:"+a.Op.String(), x.val(st, fr, a.X))
			}
		case *ssa.BinOp:
			fr.env[a] = c04Bin(a.Op, x.val(st, fr, a.X), x.val(st, fr, a.Y))
		case *ssa.ChangeType:
			fr.env[a] = x.val(st, fr, a.X)
		case *ssa.Convert:
			fr.env[a] = x.val(st, fr, a.X)
		case *ssa.MakeInterface:
			fr.env[a] = x.val(st, fr, a.X)
		case *ssa.ChangeInterface:
			fr.env[a] = x.val(st, fr, a.X)
		case *ssa.MakeClosure:
			fr.env[a] = x.static(st, fr, a)
		case *ssa.FieldAddr:
			fr.env[a] = x.fieldAddr(x.val(st, fr, a.X), a)
		case *ssa.Field:
			w := x.val(st, fr, a.X)
			if w.kind == 'z' {
				fr.env[a] = c04Zero(a.Type())
			} else {
				fr.env[a] = c04S("fld:"+an.FieldKey(a.X.Type(), a.Field), w)
			}
		case *ssa.Extract:
			tu := x.val(st, fr, a.Tuple)
			if tu.kind == 't' && a.Index < len(tu.args) {
				fr.env[a] = tu.args[a.Index]
			} else {
				fr.env[a] = c04S("ext#"+strconv.Itoa(a.Index), tu)
			}
		case *ssa.Lookup:
			m, k := x.val(st, fr, a.X), x.val(st, fr, a.Index)
			hit, known := x.mapGet(st, m, k)
			if known && hit == nil && st.fresh[m.k] {
				hit = c04Zero(c04LookupElem(a)) // a map made on this path holds exactly what was put into it
				if a.CommaOk {
					fr.env[a] = &c04T{k: "tuple(" + hit.k + ",k:false)", kind: 't', args: []*c04T{hit, c04Bool(false)}}
				} else {
					fr.env[a] = hit
				}
			} else if known && hit != nil && !a.CommaOk {
				fr.env[a] = hit // written on this path
			} else if known && hit != nil {
				fr.env[a] = &c04T{k: "tuple(" + hit.k + ",k:true)", kind: 't', args: []*c04T{hit, c04Bool(true)}}
			} else if !known {
				fr.env[a] = x.uniq(st, "lookup") // an entry written on this path may or may not be this one
			} else if x.cfg.emptyMaps && (c04IsOuterState(m) || (m.kind == 's' && m.op == "param")) {
				if a.CommaOk {
					tu := a.Type().(*types.Tuple)
					fr.env[a] = &c04T{k: "tuple(" + c04Zero(tu.At(0).Type()).k + ",k:false)", kind: 't', args: []*c04T{c04Zero(tu.At(0).Type()), c04Bool(false)}}
				} else {
					fr.env[a] = c04Zero(a.Type())
				}
			} else if a.CommaOk {
				fr.env[a] = c04S("lookup2", m, k)
			} else {
				fr.env[a] = c04S("lookup", m, k)
			}
		case *ssa.Index:
			fr.env[a] = c04S("index", x.val(st, fr, a.X), x.val(st, fr, a.Index))
		case *ssa.IndexAddr:
			fr.env[a] = c04S("indexaddr", x.val(st, fr, a.X), x.val(st, fr, a.Index))
		case *ssa.Slice:
			fr.env[a] = c04S("slice", x.val(st, fr, a.X))
		case *ssa.TypeAssert:
			fr.env[a] = c04S("assert:"+a.AssertedType.String(), x.val(st, fr, a.X))
		case *ssa.MakeMap:
			t := x.uniq(st, "newmap")
			fr.env[a] = t
			st.fresh[t.k] = true
		case *ssa.MakeSlice, *ssa.MakeChan, *ssa.Range, *ssa.Next:
			fr.env[in.(ssa.Value)] = x.uniq(st, "new")
		case *ssa.MapUpdate:
			mt, kt := x.val(st, fr, a.Map), x.val(st, fr, a.Key)
			var keep []c04MapEnt
			for _, e := range st.maps[mt.k] {
				if d, ok := x.evalBool(st.dec, c04Eq(e.key, kt)); ok && !d {
					keep = append(keep, e) // provably another key
				} else if !ok {
					keep = append(keep, c04MapEnt{key: e.key, val: nil}) // possibly overwritten
				}
			}
			st.maps[mt.k] = append(keep, c04MapEnt{key: kt, val: x.val(st, fr, a.Value)})
			st.evs = append(st.evs, &c04Ev{kind: "mapupdate", in: in, args: []*c04T{x.val(st, fr, a.Map), x.val(st, fr, a.Key), x.val(st, fr, a.Value)}, depth: len(st.frames)})
		case *ssa.Send:
			st.evs = append(st.evs, &c04Ev{kind: "send", in: in, args: []*c04T{x.val(st, fr, a.Chan), x.val(st, fr, a.X)}, depth: len(st.frames)})
		case *ssa.Select:
			ev := x.describe(st, fr, a)
			ev.res = x.uniq(st, "sel")
			st.evs = append(st.evs, ev)
			fr.env[a] = ev.res
		case *ssa.Call:
			if x.call(st, fr, a) {
				continue // a frame was pushed
			}
		case *ssa.Jump:
			if !x.enter(st, fr, fr.b.Succs[0]) {
				x.finish(st, "cut", nil, nil)
				return
			}
		case *ssa.If:
			cond := x.val(st, fr, a.Cond)
			if b, ok := x.evalBool(st.dec, cond); ok {
				s := fr.b.Succs[1]
				if b {
					s = fr.b.Succs[0]
				}
				if !x.enter(st, fr, s) {
					x.finish(st, "cut", nil, nil)
					return
				}
				continue
			}
			truth := true
			core := cond
			for core.is("not") {
				core, truth = core.args[0], !truth
			}
			// fork: the else edge on a copy
			st2 := st.clone()
			for i, s := range []*c04State{st, st2} {
				t := truth
				if i == 1 {
					t = !truth
				}
				s.dec[core.k] = t
				s.evs = append(s.evs, &c04Ev{kind: "dec", in: in, val: core, truth: t, depth: len(s.frames)})
			}
			fr2 := st2.top()
			if x.enter(st2, fr2, fr2.b.Succs[1]) {
				x.exec(st2)
			} else {
				x.finish(st2, "cut", nil, nil)
			}
			if !x.enter(st, fr, fr.b.Succs[0]) {
				x.finish(st, "cut", nil, nil)
				return
			}
		case *ssa.Panic:
			x.finish(st, "panic", nil, nil)
			return
		case *ssa.Return:
			var rs []*c04T
			for _, r := range a.Results {
				rs = append(rs, x.val(st, fr, r))
			}
			if len(st.frames) == 1 {
				x.finish(st, "ret", rs, nil)
				return
			}
			st.frames = st.frames[:len(st.frames)-1]
			caller := st.top()
			switch len(rs) {
			case 0:
				caller.env[fr.call] = c04Nil
			case 1:
				caller.env[fr.call] = rs[0]
			default:
				caller.env[fr.call] = &c04T{k: c04S("tuple", rs...).k, kind: 't', args: rs}
			}
			st.evs = append(st.evs, &c04Ev{kind: "leave", fn: fr.fn, in: fr.call.(ssa.Instruction), args: fr.args, res: caller.env[fr.call], depth: len(st.frames)})
		default:
			if v, ok := in.(ssa.Value); ok {
				fr.env[v] = x.uniq(st, "v")
			}
		}
	}
}

func c04IsOuterState(m *c04T) bool {
	return m.kind == 'i' || m.from != nil || (m.kind == 's' && (m.op == "free" || m.op == "pre"))
}

// describe renders the operands of a select (channels, sent values) as an event without executing it.
func (x *c04Exec) describe(st *c04State, fr *c04Frame, in ssa.Instruction) *c04Ev {
	ev := &c04Ev{kind: "select", in: in, depth: len(st.frames)}
	if sel, ok := in.(*ssa.Select); ok {
		for _, s := range sel.States {
			ev.args = append(ev.args, x.val(st, fr, s.Chan))
			if s.Send != nil {
				ev.sent = append(ev.sent, x.val(st, fr, s.Send))
			} else {
				ev.sent = append(ev.sent, nil)
			}
		}
	}
	return ev
}

// call executes a call instruction; it returns true if a frame was pushed (the callee is followed).
func (x *c04Exec) call(st *c04State, fr *c04Frame, a *ssa.Call) bool {
	cc := &a.Call
	var args []*c04T
	for _, v := range cc.Args {
		args = append(args, x.val(st, fr, v))
	}
	ev := &c04Ev{kind: "call", in: a, args: args, depth: len(st.frames)}
	if cc.IsInvoke() {
		recv := x.val(st, fr, cc.Value)
		ev.name = "invoke:" + cc.Method.Name()
		ev.args = append([]*c04T{recv}, args...)
		ev.res = c04S("inv:"+cc.Method.Name(), ev.args...)
		fr.env[a] = ev.res
		st.evs = append(st.evs, ev)
		return false
	}
	if b, ok := cc.Value.(*ssa.Builtin); ok {
		ev.name = "builtin:" + b.Name()
		if b.Name() == "len" || b.Name() == "cap" {
			ev.res = c04S(b.Name(), args...)
		} else {
			ev.res = x.uniq(st, b.Name())
		}
		fr.env[a] = ev.res
		return false
	}
	callee := x.val(st, fr, cc.Value)
	var fn *ssa.Function
	if callee.kind == 'c' {
		fn = callee.fn
	}
	if fn != nil && strings.HasPrefix(fn.Synthetic, "bound method wrapper") && len(callee.binds) == 1 {
		// a method value (`f := obj.method`): the call runs the method on the bound receiver
		if obj, ok := fn.Object().(*types.Func); ok {
			if m := fn.Prog.FuncValue(obj); m != nil && len(an.Orig(m).Blocks) > 0 {
				fn = an.Orig(m)
				args = append([]*c04T{callee.binds[0]}, args...)
				ev.args = args
				callee = &c04T{k: "fn:" + fn.String(), kind: 'c', fn: fn}
			}
		}
	}
	if fn != nil {
		if fn.Parent() == nil {
			ev.name = "static:" + c02Strip(an.FuncName(fn))
		} else {
			ev.name = "closure:" + c02Strip(an.FuncName(fn))
		}
		ev.fn = fn
		if x.follow(fn, st, args) {
			st.nframe++
			x.entered[fn] = true
			nf := &c04Frame{id: st.nframe, fn: fn, env: map[ssa.Value]*c04T{}, b: fn.Blocks[0], call: a, args: args, visit: map[*ssa.BasicBlock]int{}}
			for i, c := range x.cfg.chain {
				if c == a {
					nf.id = i + 1 // the same frame identity as when the path is started inside the chain
					st.nframe--
				}
			}
			for i, p := range fn.Params {
				if i < len(args) {
					nf.env[p] = args[i]
				}
			}
			for i, fv := range fn.FreeVars {
				if i < len(callee.binds) {
					nf.env[fv] = callee.binds[i]
				}
			}
			ev.kind = "enter"
			st.evs = append(st.evs, ev)
			st.frames = append(st.frames, nf)
			st.blocks = append(st.blocks, nf.b)
			return true
		}
		// not followed: a pure description of the call; cells whose address is passed become unknown
		for _, t := range args {
			if t.kind == 'a' || t.kind == 'f' {
				st.mem[t.k] = x.uniq(st, "escaped")
			}
		}
		ev.res = c04S("call:"+ev.name, args...)
		if n := a.Call.Signature().Results().Len(); n == 0 {
			ev.res = c04Nil
		}
		if x.preObject(fr, a) {
			// the state object a constructor hands to the code before the event loop: the paths that start inside
			// the loop know it as "the value of this call as it was before the path started"; the same name here
			// makes a location inside it one and the same cell in both families of paths
			ev.res = x.static(st, fr, a)
		}
		fr.env[a] = ev.res
		st.evs = append(st.evs, ev)
		return false
	}
	// a function value of unknown identity: a struct field holding a function, a variable …
	switch {
	case callee.kind == 's' && strings.HasPrefix(callee.op, "fld:"):
		ev.name = "field:" + c02Strip(strings.TrimPrefix(callee.op, "fld:"))
	default:
		ev.name = "value:" + callee.k
	}
	if x.cfg.isEvent != nil && x.cfg.isEvent(ev.name) {
		ev.res = x.uniq(st, "ev:"+ev.name)
	} else if strings.HasPrefix(ev.name, "field:") {
		ev.res = c04S("call:"+ev.name, args...)
	} else {
		ev.res = x.uniq(st, "callv")
	}
	if a.Call.Signature().Results().Len() == 0 {
		ev.res = c04Nil
	}
	fr.env[a] = ev.res
	st.evs = append(st.evs, ev)
	return false
}

// preObject: the evaluator runs from the entry of the root to the stop instruction (the start-up code of an event
// loop), and the call a, made by a function of the chain leading to the stop instruction, returns a pointer to a
// struct — the object the loop's state lives in.
func (x *c04Exec) preObject(fr *c04Frame, a *ssa.Call) bool {
	if x.cfg.stop == nil || x.cfg.startB != nil || fr.id < 0 || fr.id > len(x.cfg.chain) {
		return false
	}
	pt, ok := a.Type().Underlying().(*types.Pointer)
	if !ok {
		return false
	}
	_, isStruct := pt.Elem().Underlying().(*types.Struct)
	return isStruct
}

// ---------------------------------------------------------------------------------------------
// trace queries

func (tr *c04Trace) has(t *c04T, truth bool) bool {
	for t.is("not") {
		t, truth = t.args[0], !truth
	}
	if b, ok := t.isBool(); ok {
		return b == truth
	}
	v, ok := tr.dec[t.k]
	return ok && v == truth
}

// same: the two terms denote the same value on this path (identical, or compared equal by a decision of the path).
func (tr *c04Trace) same(a, b *c04T) bool {
	if a == nil || b == nil {
		return false
	}
	if a.k == b.k {
		return true
	}
	return tr.has(c04Eq(a, b), true)
}

// equals lists t and every term the path's decisions made equal to it.
func (tr *c04Trace) equals(t *c04T) []*c04T {
	out := []*c04T{t}
	for _, e := range tr.evs {
		if e.kind == "dec" && e.truth && e.val.is("eq") {
			if e.val.args[0].k == t.k {
				out = append(out, e.val.args[1])
			} else if e.val.args[1].k == t.k {
				out = append(out, e.val.args[0])
			}
		}
	}
	return out
}

// c04Lit is an assumption: term has the given truth.
type c04Lit struct {
	t     *c04T
	truth bool
}

// consistent: no decision of the path contradicts the assumptions.
func (tr *c04Trace) consistent(lits ...c04Lit) bool {
	for _, l := range lits {
		t, truth := l.t, l.truth
		for t.is("not") {
			t, truth = t.args[0], !truth
		}
		if b, ok := t.isBool(); ok {
			if b != truth {
				return false
			}
			continue
		}
		if v, ok := tr.dec[t.k]; ok && v != truth {
			return false
		}
		// x == K assumed true contradicts x == K' decided true
		if truth && t.is("eq") && t.args[1].kind == 'k' {
			for _, e := range tr.evs {
				if e.kind == "dec" && e.truth && e.val.is("eq") && e.val.k != t.k && e.val.args[0].k == t.args[0].k && e.val.args[1].kind == 'k' {
					return false
				}
			}
		}
	}
	return true
}

// calls lists the call events (followed or not) with the given name, in order, with their index in evs.
func (tr *c04Trace) calls(name string) []int {
	var out []int
	for i, e := range tr.evs {
		if (e.kind == "call" || e.kind == "enter") && e.name == name {
			out = append(out, i)
		}
	}
	return out
}

// memAt: the content of the cell with address key addr just before event index i (nil if never written before i on this path).
func (tr *c04Trace) memAt(addr string, i int) *c04T {
	for j := i - 1; j >= 0; j-- {
		if e := tr.evs[j]; e.kind == "store" && e.addr.k == addr {
			return e.val
		}
	}
	return nil
}

func (tr *c04Trace) decIndex(t *c04T, truth bool) int {
	for t.is("not") {
		t, truth = t.args[0], !truth
	}
	for i, e := range tr.evs {
		if e.kind == "dec" && e.val.k == t.k && e.truth == truth {
			return i
		}
	}
	return -1
}

func (tr *c04Trace) path() string {
	var parts []string
	for _, e := range tr.evs {
		if e.kind == "dec" {
			s := e.val.k
			if len(s) > 60 {
				s = s[:60] + "…"
			}
			if !e.truth {
				s = "!" + s
			}
			parts = append(parts, s)
		}
	}
	if len(parts) > 12 {
		parts = append(parts[:6], append([]string{"…"}, parts[len(parts)-5:]...)...)
	}
	return strings.Join(parts, " ∧ ")
}

func c04SortedKeys(m map[string]bool) []string {
	var ks []string
	for k := range m {
		ks = append(ks, k)
	}
	sort.Strings(ks)
	return ks
}

// c04HasUniq: the term contains a value the evaluator knows nothing about (loop-computed, received, allocated …).
func c04HasUniq(t *c04T) bool {
	if t == nil {
		return false
	}
	if t.kind == 'u' {
		return true
	}
	for _, a := range t.args {
		if c04HasUniq(a) {
			return true
		}
	}
	return false
}

// c04IsErrCtor: the term is a freshly constructed error (errors.New, fmt.Errorf, errors.Wrap …), which is never nil.
func c04IsErrCtor(t *c04T) bool {
	if t == nil || t.kind != 's' || !strings.HasPrefix(t.op, "call:static:") {
		return false
	}
	for _, suf := range []string{"errors.New", "errors.Wrap", "errors.Errorf", "fmt.Errorf"} {
		if strings.HasSuffix(t.op, suf) {
			return true
		}
	}
	return false
}
