package rules

import (
	"fmt"
	"go/constant"
	"go/token"
	"go/types"
	"sort"
	"strings"

	"golang.org/x/tools/go/ssa"

	"charonverif/internal/an"
	"charonverif/internal/rt"
)

func init() {
	const fw = "app/eth2wrap/eth2wrap.go"
	const fg = "app/eth2wrap/eth2wrap_gen.go"
	const fm = "app/eth2wrap/multi.go"
	const ff = "app/forkjoin/forkjoin.go"
	Register(&Prop{
		ID: "C19",
		Decides: "app/eth2wrap multi client: (Y1) the fork-join of provide (created in a literal of provide or in an in-package function provide calls once per node list) is created on the caller's context without fail-fast, " +
			"with one worker per node of the list it runs, runs the caller's work function, does not wait for stragglers on cancel, and every node of the list (from the first) is forked before joining; " +
			"(Y2) for every valuation of (caller context live, result error nil, isSuccessFunc accepts) the body of the loop over the join results returns ctx.Err() when the context is cancelled, returns the current result's output with nil error " +
			"exactly when the result has no error and was accepted, and otherwise records the result (in a result variable, a slice of results or a pointer to a copy) and goes on to the next result; after the loop, behind a context test, " +
			"the recorded failing result's output and error are returned; conditions extracted into boolean closures / in-package functions are followed; " +
			"(Y3) the fork-join runs first over the primary list, and over the fallback list exactly when the primary error is non-nil, the fallback list is non-empty and " +
			"isTimeoutError || isSyncingError || isBadGateway holds for that error (decided over all valuations, following boolean helpers); each run's result is what provide returns; submit delegates to provide with its own lists and work function; " +
			"(Y4) every method of multi other than the nine listed node-management helpers makes exactly one provide/submit call (itself, or through one in-package helper it hands its receiver to) with the receiver's clients and fallbacks, whose work function " +
			"calls the same-named method of args.client exactly once per execution and returns its results, never reports success without having called the node, and the method returns the outcome (error possibly wrapped); nothing else reads multi.clients / multi.fallbacks; " +
			"(Y5) app/forkjoin honours the options provide relies on: WithoutFailFast / WithWorkers set their fields, New starts options.workers workers, a worker never cancels the shared context with fail-fast off, " +
			"and the cancel function blocks only when options.waitOnCancel (off by default) is set; (Y6) the fallback classifiers test error classes on the whole error tree; " +
			"(Y7) context lineage: at every hand-over of a context towards a node request (multi method -> provide/submit and in-package helpers on the way -> forkjoin.New -> forkjoin worker's call of the work function -> " +
			"submit's adapter -> args.client.<Method>) no value the context argument may hold is a detached context (context.Background / TODO / WithoutCancel or derived from one), followed field-sensitively through " +
			"parameter objects, captured variables, literals invoked directly and context-returning helpers of the module; " +
			"(Y8) no string test of the three fallback classifiers (or of an in-package function / literal they call) contradicts the normalisation of its subject: a strings/bytes Contains / HasPrefix / HasSuffix / Index / LastIndex / Count / Cut* test or a string ==, != whose subject " +
			"is lower-cased (upper-cased) by strings.ToLower (ToUpper) on every path -- followed through variables, captures, concatenation, slicing, trimming, in-package helpers and parameters of non-escaping helpers -- is never compared with a constant " +
			"(literal, literal table, package-level table, argument of a helper) containing ASCII upper-case (lower-case) letters, which could never match and would make that error class dead.",
		NotDecided: "latency and completion orders at run time, scheduling inside forkjoin (goroutines, channel closing), the error-class string/errno tables of the three classifiers, " +
			"behaviour of the individual node clients (lazy, httpAdapter), which of several successful answers wins.",
		Run: c19,
		Mutants: []Mutant{
			// Y1
			{ID: "C19-Y1-failfast", File: fw, Expect: "Y1|WithoutFailFast",
				Old: "\t\t\tforkjoin.WithoutFailFast(),\n", New: ""},
			{ID: "C19-Y1-default-workers", File: fw, Expect: "Y1|WithWorkers",
				Old: "\t\t\tforkjoin.WithWorkers(len(clients)),\n", New: ""},
			{ID: "C19-Y1-workers-of-other-list", File: fw, Expect: "Y1|WithWorkers",
				Old: "forkjoin.WithWorkers(len(clients))", New: "forkjoin.WithWorkers(len(fallbacks))"},
			{ID: "C19-Y1-one-worker", File: fw, Expect: "Y1|WithWorkers",
				Old: "forkjoin.WithWorkers(len(clients))", New: "forkjoin.WithWorkers(min(len(clients), 1))"},
			{ID: "C19-Y1-wait-on-cancel", File: fw, Expect: "Y1|cancel",
				Old: "\t\t\tforkjoin.WithoutFailFast(),\n", New: "\t\t\tforkjoin.WithoutFailFast(),\n\t\t\tforkjoin.WithWaitOnCancel(),\n"},
			{ID: "C19-Y1-fork-first-only", File: fw, Expect: "Y1|fork",
				Old: "\t\tfor _, client := range clients {\n\t\t\tfork(", New: "\t\tfor _, client := range clients[:1] {\n\t\t\tfork("},
			{ID: "C19-Y1-fork-break", File: fw, Expect: "Y1|fork",
				Old: "\t\t\tfork(provideArgs{client: client})\n", New: "\t\t\tfork(provideArgs{client: client})\n\n\t\t\tif ctx.Err() == nil {\n\t\t\t\tbreak\n\t\t\t}\n"},
			{ID: "C19-Y1-fork-skips-first-node", File: fw, Expect: "Y1|fork",
				Old: "\t\tfor _, client := range clients {\n\t\t\tfork(provideArgs{client: client})\n\t\t}\n",
				New: "\t\tfor i := 1; i < len(clients); i++ {\n\t\t\tfork(provideArgs{client: clients[i]})\n\t\t}\n"},
			{ID: "C19-Y1-detached-context", File: fw, Expect: "Y1|work function",
				Old: "forkjoin.New(ctx, work,", New: "forkjoin.New(context.WithoutCancel(ctx), work,"},
			// Y2
			{ID: "C19-Y2-failure-output-dropped", File: fw, Expect: "Y2|in-loop failure handling",
				Old: "\t\t\tnokResp = res\n", New: "\t\t\tnokResp = forkjoin.Result[provideArgs, O]{Err: res.Err}\n"},
			{ID: "C19-Y2-failure-replaced-by-generic-error", File: fw, Expect: "Y2|after-loop",
				Old: "\t\treturn nokResp.Output, nokResp.Err\n", New: "\t\treturn nokResp.Output, errors.New(\"all beacon nodes failed\")\n"},
			{ID: "C19-Y2-success-closure-or", File: fw, Expect: "Y2|success return",
				Old: "res.Err == nil && isSuccessFunc(res.Output)", New: "func() bool { return res.Err == nil || isSuccessFunc(res.Output) }()"},
			{ID: "C19-Y2-success-after-loop", File: fw, Expect: "Y2|success return",
				Old: "\t\t\t\treturn res.Output, nil\n", New: "\t\t\t\tnokResp, hasNokResp = res, true\n\n\t\t\t\tcontinue\n"},
			{ID: "C19-Y2-fail-on-first-error", File: fw, Expect: "Y2|in-loop failure handling",
				Old: "\t\t\tnokResp = res\n", New: "\t\t\tif res.Err != nil {\n\t\t\t\treturn res.Output, res.Err\n\t\t\t}\n\n\t\t\tnokResp = res\n"},
			{ID: "C19-Y2-break-on-failure", File: fw, Expect: "Y2|in-loop failure handling",
				Old: "\t\t\thasNokResp = true\n\t\t}", New: "\t\t\thasNokResp = true\n\n\t\t\tbreak\n\t\t}"},
			{ID: "C19-Y2-or-instead-of-and", File: fw, Expect: "Y2|success return",
				Old: "res.Err == nil && isSuccessFunc(res.Output)", New: "res.Err == nil || isSuccessFunc(res.Output)"},
			{ID: "C19-Y2-no-success-func", File: fw, Expect: "Y2|success return",
				Old: "res.Err == nil && isSuccessFunc(res.Output)", New: "res.Err == nil"},
			{ID: "C19-Y2-negated-err-test", File: fw, Expect: "Y2|success return",
				Old: "res.Err == nil && isSuccessFunc(res.Output)", New: "res.Err != nil && isSuccessFunc(res.Output)"},
			{ID: "C19-Y2-no-ctx-test-in-loop", File: fw, Expect: "Y2|in-loop context test",
				Old: "\t\t\tif ctx.Err() != nil {\n\t\t\t\treturn zero, ctx.Err()\n\t\t\t} else if res.Err", New: "\t\t\tif res.Err"},
			{ID: "C19-Y2-wrong-output", File: fw, Expect: "Y2|success return",
				Old: "\t\t\t\treturn res.Output, nil\n", New: "\t\t\t\treturn nokResp.Output, nil\n"},
			{ID: "C19-Y2-failure-swallowed", File: fw, Expect: "Y2|after-loop",
				Old: "\t\treturn nokResp.Output, nokResp.Err\n", New: "\t\treturn nokResp.Output, nil\n"},
			{ID: "C19-Y2-failure-never-recorded", File: fw, Expect: "Y2|failure",
				Old: "\t\t\tnokResp = res\n", New: "\t\t\t_ = res\n"},
			// Y3
			{ID: "C19-Y3-fallback-on-every-error", File: fw, Expect: "Y3",
				Old: " && (isTimeoutError(err) || isSyncingError(err) || isBadGateway(err))", New: ""},
			{ID: "C19-Y3-drop-syncing", File: fw, Expect: "Y3|isSyncingError",
				Old: "isTimeoutError(err) || isSyncingError(err) || isBadGateway(err)", New: "isTimeoutError(err) || isBadGateway(err)"},
			{ID: "C19-Y3-drop-timeout", File: fw, Expect: "Y3|isTimeoutError",
				Old: "isTimeoutError(err) || isSyncingError(err) || isBadGateway(err)", New: "isSyncingError(err) || isBadGateway(err)"},
			{ID: "C19-Y3-conjunction", File: fw, Expect: "Y3",
				Old: "isTimeoutError(err) || isSyncingError(err)", New: "isTimeoutError(err) && isSyncingError(err)"},
			{ID: "C19-Y3-negated-classifier", File: fw, Expect: "Y3",
				Old: "|| isBadGateway(err))", New: "|| !isBadGateway(err))"},
			{ID: "C19-Y3-classifier-closure-drops-syncing", File: fw, Expect: "Y3|isSyncingError",
				Old: "(isTimeoutError(err) || isSyncingError(err) || isBadGateway(err))", New: "func() bool { return isTimeoutError(err) || isBadGateway(err) }()"},
			{ID: "C19-Y3-two-fallbacks-needed", File: fw, Expect: "Y3|guards",
				Old: "len(fallbacks) != 0", New: "len(fallbacks) > 1"},
			{ID: "C19-Y3-extra-condition", File: fw, Expect: "Y3|guards",
				Old: "if err != nil && len(fallbacks) != 0 &&", New: "if err != nil && len(fallbacks) != 0 && len(clients) > 1 &&"},
			{ID: "C19-Y3-fallback-runs-primaries", File: fw, Expect: "Y3",
				Old: "return runForkJoin(fallbacks)", New: "return runForkJoin(clients)"},
			{ID: "C19-Y3-fallback-result-dropped", File: fw, Expect: "Y3|returns",
				Old: "\t\treturn runForkJoin(fallbacks)\n", New: "\t\t_, _ = runForkJoin(fallbacks)\n\n\t\treturn output, err\n"},
			{ID: "C19-Y3-submit-no-fallbacks", File: fw, Expect: "Y3|submit",
				Old: "_, err := provide(ctx, clients, fallbacks,", New: "_, err := provide(ctx, clients, nil,"},
			{ID: "C19-Y3-submit-error-dropped", File: fw, Expect: "Y3|submit",
				Old: "\t\t\treturn empty{}, work(ctx, args)\n", New: "\t\t\t_ = work(ctx, args)\n\n\t\t\treturn empty{}, nil\n"},
			// Y5
			{ID: "C19-Y5-cancel-on-any-error", File: ff, Expect: "Y5|worker cancels",
				Old: "if options.failFast && err != nil { // Maybe fail fast", New: "if err != nil { // Maybe fail fast"},
			{ID: "C19-Y5-cancel-or", File: ff, Expect: "Y5|worker cancels",
				Old: "if options.failFast && err != nil {", New: "if options.failFast || err != nil {"},
			{ID: "C19-Y5-cancel-on-ctx-class", File: ff, Expect: "Y5|worker cancels",
				Old: "if options.failFast && err != nil {", New: "if err != nil && (options.failFast || errors.Is(err, context.DeadlineExceeded)) {"},
			{ID: "C19-Y5-withoutfailfast-noop", File: ff, Expect: "Y5|WithoutFailFast",
				Old: "\t\to.failFast = false\n", New: "\t\to.failFast = defaultFailFast\n"},
			{ID: "C19-Y5-withworkers-ignored", File: ff, Expect: "Y5|WithWorkers",
				Old: "\t\to.workers = w\n", New: "\t\to.workers = defaultWorkers\n"},
			{ID: "C19-Y5-default-worker-count", File: ff, Expect: "Y5|starts options.workers",
				Old: "for range options.workers { // Start workers", New: "for range defaultWorkers { // Start workers"},
			{ID: "C19-Y5-cancel-always-waits", File: ff, Expect: "Y5|cancel waits",
				Old: "\t\tif options.waitOnCancel {\n\t\t\t<-done\n\t\t}\n", New: "\t\t<-done\n"},
			{ID: "C19-Y5-wait-on-cancel-by-default", File: ff, Expect: "Y5|cancel waits",
				Old: "defaultWaitOnCancel = false", New: "defaultWaitOnCancel = true"},
			{ID: "C19-Y5-cancel-waits-unless-asked", File: ff, Expect: "Y5|cancel waits",
				Old: "\t\tif options.waitOnCancel {\n\t\t\t<-done\n", New: "\t\tif !options.waitOnCancel {\n\t\t\t<-done\n"},
			// Y6
			{ID: "C19-Y6-apierr-assert", File: fw, Expect: "Y6|isBadGateway",
				Old: "\t\tvar apiErr *eth2api.Error\n\t\tif errors.As(current, &apiErr) {", New: "\t\tif apiErr, ok := current.(*eth2api.Error); ok {"},
			{ID: "C19-Y6-neterr-assert", File: fw, Expect: "Y6|isBadGateway",
				Old: "\t\tvar netErr net.Error\n\t\tif errors.As(current, &netErr) {", New: "\t\tif _, ok := current.(net.Error); ok {"},
			{ID: "C19-Y6-errno-assert", File: fw, Expect: "Y6|isBadGateway",
				Old: "if errno := new(syscall.Errno); errors.As(current, errno) {\n\t\t\tswitch *errno {", New: "if errno, ok := current.(syscall.Errno); ok {\n\t\t\tswitch errno {"},
			{ID: "C19-Y6-sentinel-compare", File: fw, Expect: "Y6|isBadGateway",
				Old: "if errors.Is(current, http.ErrAbortHandler) {", New: "if current == http.ErrAbortHandler {"},
			// Y7
			{ID: "C19-Y7-node-call-background", File: fg, Expect: "Y7|AttestationData",
				Old: "return args.client.AttestationData(ctx, opts)", New: "return args.client.AttestationData(context.Background(), opts)"},
			{ID: "C19-Y7-provide-without-cancel", File: fm, Expect: "Y7|ActiveValidators",
				Old: "provide(ctx, m.clients, m.fallbacks,\n\t\tfunc(ctx context.Context, args provideArgs) (ActiveValidators, error) {",
				New: "provide(context.WithoutCancel(ctx), m.clients, m.fallbacks,\n\t\tfunc(ctx context.Context, args provideArgs) (ActiveValidators, error) {"},
			{ID: "C19-Y7-submit-adapter-todo", File: fw, Expect: "Y7|work function",
				Old: "\t\t\treturn empty{}, work(ctx, args)\n", New: "\t\t\treturn empty{}, work(context.TODO(), args)\n"},
			{ID: "C19-Y7-worker-context-detached", File: ff, Expect: "Y7|forkjoin work function",
				Old: "workCtx, cancelWorkers := context.WithCancel(rootCtx)", New: "workCtx, cancelWorkers := context.WithCancel(context.WithoutCancel(rootCtx))"},
			{ID: "C19-Y7-submit-timeout-on-background", File: fg, Expect: "Y7|SubmitAttestations",
				Old: "\t\t\treturn args.client.SubmitAttestations(ctx, opts)\n",
				New: "\t\t\tsctx, cancel := context.WithTimeout(context.Background(), time.Minute)\n\t\t\tdefer cancel()\n\n\t\t\treturn args.client.SubmitAttestations(sctx, opts)\n"},
			// Y8
			{ID: "C19-Y8-syncing-lowered-subject-mixed-needle", File: fw, Expect: "Y8|isSyncingError",
				Old: "\tmsg := err.Error()\n\treturn strings.Contains(msg, \"syncing\")", New: "\tmsg := strings.ToLower(err.Error())\n\treturn strings.Contains(msg, \"syncing\")"},
			{ID: "C19-Y8-timeout-upper-subject", File: fw, Expect: "Y8|isTimeoutError",
				Old: "\tmsg := err.Error()\n\treturn strings.Contains(msg, \"http request timeout\")", New: "\tmsg := strings.ToUpper(err.Error())\n\treturn strings.Contains(msg, \"http request timeout\")"},
			{ID: "C19-Y8-inline-lowered-argument", File: fw, Expect: "Y8|isSyncingError",
				Old: "strings.Contains(msg, \"HeadBlockNotFullyVerified\")", New: "strings.HasPrefix(strings.TrimSpace(strings.ToLower(msg)), \"HeadBlockNotFullyVerified\")"},
			{ID: "C19-Y8-closure-needle-parameter", File: fw, Expect: "Y8|isTimeoutError",
				Old: "\treturn strings.Contains(msg, \"http request timeout\") || strings.Contains(msg, \"client is not active\") || strings.Contains(msg, \"context deadline exceeded\")\n",
				New: "\tlow := strings.ToLower(msg)\n\thas := func(s string) bool { return strings.Contains(low, s) }\n\n\treturn has(\"http request timeout\") || has(\"client is not active\") || has(\"Context deadline exceeded\")\n"},
			{ID: "C19-Y8-equality-on-lowered", File: fw, Expect: "Y8|isSyncingError",
				Old: "strings.Contains(msg, \"syncing\") ||", New: "strings.ToLower(msg) == \"Syncing\" ||"},
			// Y4
			{ID: "C19-Y4-first-client-directly", File: fg, Expect: "Y4|AttestationData",
				Old: "return args.client.AttestationData(ctx, opts)", New: "return m.clients[0].AttestationData(ctx, opts)"},
			{ID: "C19-Y4-other-method", File: fg, Expect: "Y4|multi.Domain",
				Old: "return args.client.Domain(ctx, domainType, epoch)", New: "return args.client.GenesisDomain(ctx, domainType)"},
			{ID: "C19-Y4-lists-swapped", File: fm, Expect: "Y4|ActiveValidators",
				Old: "provide(ctx, m.clients, m.fallbacks,\n\t\tfunc(ctx context.Context, args provideArgs) (ActiveValidators, error) {",
				New: "provide(ctx, m.fallbacks, m.clients,\n\t\tfunc(ctx context.Context, args provideArgs) (ActiveValidators, error) {"},
			{ID: "C19-Y4-error-dropped", File: fm, Expect: "Y4|multi.Proxy",
				Old: "\t)\n\n\treturn res0, err\n}", New: "\t)\n\t_ = err\n\n\treturn res0, nil\n}"},
			{ID: "C19-Y4-unregistered-direct-use", File: fm, Expect: "Y4|FirstAddress",
				Old: "func (multi) Name() string {", New: "func (m multi) FirstAddress() string { return m.clients[0].Address() }\n\nfunc (multi) Name() string {"},
			{ID: "C19-Y4-work-success-without-node", File: fg, Expect: "Y4|multi.AttestationData",
				Old: "\t\t\treturn args.client.AttestationData(ctx, opts)\n",
				New: "\t\t\tif opts == nil {\n\t\t\t\treturn nil, nil\n\t\t\t}\n\n\t\t\treturn args.client.AttestationData(ctx, opts)\n"},
			{ID: "C19-Y4-method-success-without-node", File: fm, Expect: "Y4|multi.Proxy",
				Old: "\tres0, err := provide(ctx, m.clients, m.fallbacks,\n\t\tfunc(ctx context.Context, args provideArgs) (*http.Response, error) {",
				New: "\tif req.URL == nil {\n\t\treturn nil, nil\n\t}\n\n\tres0, err := provide(ctx, m.clients, m.fallbacks,\n\t\tfunc(ctx context.Context, args provideArgs) (*http.Response, error) {"},
			{ID: "C19-Y4-exclusive-branch-other-method", File: fg, Expect: "Y4|multi.Domain",
				Old: "\t\t\treturn args.client.Domain(ctx, domainType, epoch)\n",
				New: "\t\t\tif epoch == 0 {\n\t\t\t\treturn args.client.GenesisDomain(ctx, domainType)\n\t\t\t}\n\n\t\t\treturn args.client.Domain(ctx, domainType, epoch)\n"},
			{ID: "C19-Y4-called-twice", File: fg, Expect: "Y4|multi.SubmitAttestations",
				Old: "\t\t\treturn args.client.SubmitAttestations(ctx, opts)\n",
				New: "\t\t\tif err := args.client.SubmitAttestations(ctx, opts); err != nil {\n\t\t\t\treturn err\n\t\t\t}\n\n\t\t\treturn args.client.SubmitAttestations(ctx, opts)\n"},
		},
	})
}

const (
	c19Pkg     = "app/eth2wrap"
	c19Provide = c19Pkg + ".provide"
	c19Submit  = c19Pkg + ".submit"
	c19Multi   = c19Pkg + ".multi"
	c19Clients = c19Multi + ".clients"
	c19Fallbk  = c19Multi + ".fallbacks"
	c19ArgCl   = c19Pkg + ".provideArgs.client"
	c19Client  = c19Pkg + ".Client"
	c19FJ      = "app/forkjoin"
)

// c19Helpers is the frozen table of multi methods that are NOT beacon API calls and may touch the
// node lists directly, one line of reason each (DESIGN §5 C19 Y4 / Appendix A).
var c19Helpers = map[string]string{
	"SetForkVersion":    "configuration pushed to every primary node",
	"Name":              "constant service name",
	"Address":           "address of the best (or first) primary node, no request is made",
	"ClientForAddress":  "builds a scoped multi over one node",
	"Headers":           "static headers of the first primary node",
	"IsActive":          "local liveness flag: any primary active",
	"IsSynced":          "local sync flag: any primary synced",
	"SetValidatorCache": "configuration pushed to every primary node",
	"SetDutiesCache":    "configuration pushed to every primary node",
}

var c19Classifiers = []string{c19Pkg + ".isTimeoutError", c19Pkg + ".isSyncingError", c19Pkg + ".isBadGateway"}

// ---------------------------------------------------------------------------------------------
// helpers

// c19Binding resolves a free variable to the value bound by the enclosing function's MakeClosure.
func c19Binding(fv *ssa.FreeVar) ssa.Value {
	fn := fv.Parent()
	if fn == nil || fn.Parent() == nil {
		return nil
	}
	idx := -1
	for i, f := range fn.FreeVars {
		if f == fv {
			idx = i
		}
	}
	var out ssa.Value
	for _, in := range an.Instrs(fn.Parent(), false) {
		if mc, ok := in.(*ssa.MakeClosure); ok && mc.Fn == ssa.Value(fn) && idx >= 0 && idx < len(mc.Bindings) {
			if out != nil && out != mc.Bindings[idx] {
				return nil
			}
			out = mc.Bindings[idx]
		}
	}
	return out
}

// c19Cell resolves an address through free-variable bindings to the cell of the declaring function.
func c19Cell(addr ssa.Value) ssa.Value {
	for i := 0; i < 8; i++ {
		fv, ok := addr.(*ssa.FreeVar)
		if !ok {
			return addr
		}
		b := c19Binding(fv)
		if b == nil {
			return addr
		}
		addr = b
	}
	return addr
}

// c19StoresTo lists every value stored into the variable cell (directly or by closures capturing it).
func c19StoresTo(cell ssa.Value, depth int) []ssa.Value {
	var out []ssa.Value
	if depth > 4 || cell.Referrers() == nil {
		return out
	}
	for _, ref := range *cell.Referrers() {
		switch x := ref.(type) {
		case *ssa.Store:
			if x.Addr == cell {
				out = append(out, x.Val)
			}
		case *ssa.MakeClosure:
			cl, ok := x.Fn.(*ssa.Function)
			if !ok {
				continue
			}
			for i, b := range x.Bindings {
				if b == cell && i < len(cl.FreeVars) {
					out = append(out, c19StoresTo(cl.FreeVars[i], depth+1)...)
				}
			}
		}
	}
	return out
}

// c19Origins resolves v to the set of values it may hold, looking through conversions, phis and
// loads of local or captured variables.
func c19Origins(v ssa.Value) []ssa.Value {
	var out []ssa.Value
	seen := map[ssa.Value]bool{}
	var walk func(v ssa.Value, d int)
	walk = func(v ssa.Value, d int) {
		v = an.Unwrap(v)
		if seen[v] {
			return
		}
		seen[v] = true
		if d < 12 {
			if ld, ok := v.(*ssa.UnOp); ok && ld.Op == token.MUL {
				cell := c19Cell(ld.X)
				if _, isAlloc := cell.(*ssa.Alloc); isAlloc {
					if st := c19StoresTo(cell, 0); len(st) > 0 {
						for _, s := range st {
							walk(s, d+1)
						}
						return
					}
				}
			}
			if phi, ok := v.(*ssa.Phi); ok {
				for _, e := range phi.Edges {
					walk(e, d+1)
				}
				return
			}
		}
		out = append(out, v)
	}
	walk(v, 0)
	return out
}

// c19Only: every origin of v is target.
func c19Only(v, target ssa.Value) bool {
	os := c19Origins(v)
	if len(os) == 0 {
		return false
	}
	for _, o := range os {
		if o != target {
			return false
		}
	}
	return true
}

// c19RetVals returns the values a return statement hands back, looking through the result spill
// slots go/ssa introduces in functions with defers.
func c19RetVals(r *ssa.Return) []ssa.Value {
	out := make([]ssa.Value, len(r.Results))
	for i, v := range r.Results {
		out[i] = v
		ld, ok := v.(*ssa.UnOp)
		if !ok || ld.Op != token.MUL || ld.Block() != r.Block() {
			continue
		}
		al, ok := ld.X.(*ssa.Alloc)
		if !ok {
			continue
		}
		var last ssa.Value
		for _, in := range r.Block().Instrs {
			if in == ssa.Instruction(ld) {
				break
			}
			if st, ok := in.(*ssa.Store); ok && st.Addr == ssa.Value(al) {
				last = st.Val
			}
		}
		if last != nil {
			out[i] = last
		}
	}
	return out
}

// c19Returns lists the source-level returns of fn (the synthetic recover block excluded).
func c19Returns(fn *ssa.Function) []*ssa.Return {
	var out []*ssa.Return
	for _, r := range an.Returns(fn) {
		if fn.Recover != nil && r.Block() == fn.Recover {
			continue
		}
		out = append(out, r)
	}
	return out
}

// c19FieldRead decodes a read of a struct field: returns the field key and the struct value / cell.
func c19FieldRead(v ssa.Value) (key string, base ssa.Value, ok bool) {
	switch x := an.Unwrap(v).(type) {
	case *ssa.UnOp:
		if x.Op == token.MUL {
			if fa, ok := x.X.(*ssa.FieldAddr); ok {
				return an.FieldKey(fa.X.Type(), fa.Field), fa.X, true
			}
		}
	case *ssa.Field:
		return an.FieldKey(x.X.Type(), x.Field), x.X, true
	}
	return "", nil, false
}

// c19HoldsOnly: the struct value / cell base holds exactly the value want (a parameter copied into a
// local, the local itself, or a pointer receiver).
func c19HoldsOnly(base, want ssa.Value) bool {
	if base == want {
		return true
	}
	cell := base
	if fv, ok := base.(*ssa.FreeVar); ok {
		cell = c19Cell(fv)
	}
	if al, ok := cell.(*ssa.Alloc); ok {
		st := c19StoresTo(al, 0)
		if len(st) == 0 {
			return false
		}
		for _, s := range st {
			if !c19Only(s, want) {
				return false
			}
		}
		return true
	}
	return c19Only(base, want)
}

// c19If returns the If terminating b, or nil.
func c19If(b *ssa.BasicBlock) *ssa.If {
	if len(b.Instrs) == 0 {
		return nil
	}
	iff, _ := b.Instrs[len(b.Instrs)-1].(*ssa.If)
	return iff
}

// c19BoolTest decodes `v` / `!v`: the tested value and the successor index taken when v is true.
func c19BoolTest(iff *ssa.If) (v ssa.Value, trueIdx int) {
	v, trueIdx = iff.Cond, 0
	for i := 0; i < 4; i++ {
		n, ok := v.(*ssa.UnOp)
		if !ok || n.Op != token.NOT {
			break
		}
		v, trueIdx = n.X, 1-trueIdx
	}
	return v, trueIdx
}

// c19NilTest decodes `v == nil` / `v != nil` (possibly negated): the tested value and the successor
// index taken when v IS nil.
func c19NilTest(iff *ssa.If) (v ssa.Value, nilIdx int, ok bool) {
	cond, trueIdx := c19BoolTest(iff)
	bin, isBin := cond.(*ssa.BinOp)
	if !isBin || (bin.Op != token.EQL && bin.Op != token.NEQ) {
		return nil, 0, false
	}
	switch {
	case an.IsNilConst(bin.Y):
		v = bin.X
	case an.IsNilConst(bin.X):
		v = bin.Y
	default:
		return nil, 0, false
	}
	if bin.Op == token.EQL {
		return v, trueIdx, true
	}
	return v, 1 - trueIdx, true
}

// c19EdgeDom: taking successor idx of block from is necessary to reach target.
func c19EdgeDom(from *ssa.BasicBlock, idx int, target *ssa.BasicBlock) bool {
	if len(from.Succs) != 2 || from.Succs[0] == from.Succs[1] {
		return false
	}
	s := from.Succs[idx]
	if !s.Dominates(target) {
		return false
	}
	for _, p := range s.Preds {
		if p != from && !s.Dominates(p) {
			return false
		}
	}
	return true
}

// c19SliceLit returns the elements of a variadic / literal slice argument (nil constant: none).
func c19SliceLit(v ssa.Value) (elems []ssa.Value, ok bool) {
	if k, isC := v.(*ssa.Const); isC && k.Value == nil {
		return nil, true
	}
	sl, isSl := v.(*ssa.Slice)
	if !isSl || sl.Low != nil || sl.High != nil {
		return nil, false
	}
	al, isAl := sl.X.(*ssa.Alloc)
	if !isAl {
		return nil, false
	}
	type ent struct {
		idx int64
		v   ssa.Value
	}
	var es []ent
	for _, ref := range *al.Referrers() {
		switch x := ref.(type) {
		case *ssa.IndexAddr:
			i, isK := an.ConstInt(x.Index)
			if !isK {
				return nil, false
			}
			n := 0
			for _, r2 := range *x.Referrers() {
				st, isSt := r2.(*ssa.Store)
				if !isSt || st.Addr != ssa.Value(x) {
					return nil, false
				}
				es = append(es, ent{i, st.Val})
				n++
			}
			if n != 1 {
				return nil, false
			}
		case *ssa.Slice:
		default:
			return nil, false
		}
	}
	sort.Slice(es, func(i, j int) bool { return es[i].idx < es[j].idx })
	for _, e := range es {
		elems = append(elems, e.v)
	}
	return elems, true
}

// c19LenArg: v == len(x) -> x.
func c19LenArg(v ssa.Value) ssa.Value {
	if call, ok := an.Unwrap(v).(*ssa.Call); ok {
		if b, ok := call.Call.Value.(*ssa.Builtin); ok && b.Name() == "len" && len(call.Call.Args) == 1 {
			return call.Call.Args[0]
		}
	}
	return nil
}

// c19Extract returns the Extract #idx of a tuple-valued call (nil if the component is discarded).
func c19Extract(call ssa.CallInstruction, idx int) ssa.Value {
	v := call.Value()
	if v == nil || v.Referrers() == nil {
		return nil
	}
	for _, ref := range *v.Referrers() {
		if ex, ok := ref.(*ssa.Extract); ok && ex.Index == idx {
			return ex
		}
	}
	return nil
}

// c19Derived: v carries src — src itself, a phi all of whose edges carry it, or (for errors) the
// error result of a call that takes it as an argument (wrapping).
func c19Derived(v, src ssa.Value, wrapOK bool, d int) bool {
	if src == nil || d > 6 {
		return false
	}
	v = an.Unwrap(v)
	if v == src {
		return true
	}
	switch x := v.(type) {
	case *ssa.Phi:
		for _, e := range x.Edges {
			if !c19Derived(e, src, wrapOK, d+1) {
				return false
			}
		}
		return len(x.Edges) > 0
	case *ssa.Call:
		if !wrapOK || !an.IsErrorType(x.Type()) {
			return false
		}
		for _, a := range x.Call.Args {
			if c19Derived(a, src, wrapOK, d+1) {
				return true
			}
		}
	case *ssa.UnOp:
		if x.Op == token.MUL {
			os := c19Origins(x)
			if len(os) == 1 && os[0] == ssa.Value(x) {
				return false
			}
			for _, o := range os {
				if !c19Derived(o, src, wrapOK, d+1) {
					return false
				}
			}
			return len(os) > 0
		}
	}
	return false
}

// c19OnEdge: block target lies behind the nil (wantNil) / non-nil edge of a nil test of value e.
func c19OnEdge(fn *ssa.Function, e ssa.Value, wantNil bool, target *ssa.BasicBlock) bool {
	if e == nil {
		return false
	}
	for _, b := range fn.Blocks {
		iff := c19If(b)
		if iff == nil {
			continue
		}
		v, nilIdx, ok := c19NilTest(iff)
		if !ok || !c19Only(v, e) {
			continue
		}
		idx := nilIdx
		if !wantNil {
			idx = 1 - nilIdx
		}
		if c19EdgeDom(b, idx, target) {
			return true
		}
	}
	return false
}

// c19Src is the outcome (answers..., err) of one call.
type c19Src struct {
	answers []ssa.Value
	err     ssa.Value
}

// c19Outcome decides whether return r hands back the outcome (answers..., err) of a call: the error
// (possibly wrapped; a literal nil only on the edge where the error was tested nil) and, unless the
// return lies on the error's non-nil edge, the answers.
func c19Outcome(r *ssa.Return, answers []ssa.Value, errv ssa.Value) (bool, string) {
	return c19OutcomeOf(c19RetVals(r), r.Block(), []c19Src{{answers, errv}}, 0)
}

// c19OutcomeOf: the values vals, available at the end of block at, are the outcome of one of the calls in
// srcs. Values merged from several paths (phis of one block) are decided per incoming edge, so that
// `if a { x, err = call1() } else { x, err = call2() }; return x, err` is the outcome of call1 or call2.
func c19OutcomeOf(vals []ssa.Value, at *ssa.BasicBlock, srcs []c19Src, d int) (bool, string) {
	what := "result count"
	for _, src := range srcs {
		ok, w := c19OutcomeOne(vals, at, src)
		if ok {
			return true, ""
		}
		what = w
	}
	if d > 4 {
		return false, what
	}
	// split the phis of one block by incoming edge
	var blk *ssa.BasicBlock
	for _, v := range vals {
		if ph, ok := an.Unwrap(v).(*ssa.Phi); ok && len(ph.Edges) > 1 {
			// take the innermost (latest) merge point first
			if blk == nil || blk.Dominates(ph.Block()) {
				blk = ph.Block()
			}
		}
	}
	if blk == nil {
		return false, what
	}
	for i, pred := range blk.Preds {
		sub := make([]ssa.Value, len(vals))
		for j, v := range vals {
			sub[j] = v
			if ph, ok := an.Unwrap(v).(*ssa.Phi); ok && ph.Block() == blk && i < len(ph.Edges) {
				sub[j] = ph.Edges[i]
			}
		}
		if ok, w := c19OutcomeOf(sub, pred, srcs, d+1); !ok {
			return false, w
		}
	}
	return true, ""
}

func c19OutcomeOne(vals []ssa.Value, at *ssa.BasicBlock, src c19Src) (bool, string) {
	if len(vals) != len(src.answers)+1 {
		return false, "result count"
	}
	fn := at.Parent()
	ev := vals[len(vals)-1]
	failing := false
	switch {
	case an.IsNilConst(ev):
		if !c19OnEdge(fn, src.err, true, at) {
			return false, "error"
		}
	case c19Derived(ev, src.err, true, 0):
		failing = c19OnEdge(fn, src.err, false, at)
	default:
		return false, "error"
	}
	for i, a := range src.answers {
		if !failing && !c19Derived(vals[i], a, false, 0) {
			return false, "answer"
		}
	}
	return true, ""
}

// c19Shape is the resolved skeleton of provide: the function that creates the fork-join (`run`: a
// literal of provide, or an in-package function that provide calls with its own parameters), how the
// roles (caller context, work function, success predicate, node list) are visible inside run, and the
// calls of run in provide.
type c19Shape struct {
	provide                                 *ssa.Function
	ctx, clients, fallbacks, work, isSucces *ssa.Parameter
	run                                     *ssa.Function // the function that calls forkjoin.New (runForkJoin)
	closure                                 bool          // run is a function literal of provide
	newCall                                 ssa.CallInstruction
	list                                    *ssa.Parameter // run's own node-list parameter
	listIdx                                 int
	runCalls                                []*ssa.Call // the calls of run made by provide itself
	loopBind                                map[*ssa.Parameter]ssa.Value // parameters of the function holding the result loop -> arguments in run
	strayCalls                              []ssa.CallInstruction
}

func c19IsClientList(t types.Type) bool {
	sl, ok := t.Underlying().(*types.Slice)
	return ok && an.TypeName(sl.Elem()) == c19Client
}

func c19Resolve(c *rt.Ctx) *c19Shape {
	s := &c19Shape{}
	s.provide = c.Fn(c19Provide)
	ps := s.provide.Params
	if len(ps) != 6 {
		c.Bail("provide: expected 6 parameters (ctx, clients, fallbacks, work, isSuccessFunc, bestSelector), found %d", len(ps))
	}
	s.ctx, s.clients, s.fallbacks, s.work, s.isSucces = ps[0], ps[1], ps[2], ps[3], ps[4]
	if an.TypeName(s.ctx.Type()) != "context.Context" || !c19IsClientList(s.clients.Type()) || !c19IsClientList(s.fallbacks.Type()) {
		c.Bail("provide: parameters are not (context.Context, []Client, []Client, ...)")
	}
	if sig, ok := s.isSucces.Type().Underlying().(*types.Signature); !ok || sig.Results().Len() != 1 || sig.Params().Len() != 1 ||
		!types.Identical(sig.Results().At(0).Type(), types.Typ[types.Bool]) {
		c.Bail("provide: parameter 4 is not the success predicate func(O) bool")
	}
	if _, ok := s.work.Type().Underlying().(*types.Signature); !ok {
		c.Bail("provide: parameter 3 is not the work function")
	}
	isNew := an.Static(c19FJ + ".New")
	news := an.Calls(s.provide, isNew, true)
	if len(news) == 0 {
		// the fork-join may live in an in-package function that provide (or one of its literals) calls
		seen := map[*ssa.Function]bool{}
		for _, in := range an.Instrs(s.provide, true) {
			ci, ok := in.(ssa.CallInstruction)
			if !ok || ci.Common().IsInvoke() {
				continue
			}
			callee := an.Orig(ci.Common().StaticCallee())
			if callee == nil || callee.Pkg != s.provide.Pkg || len(callee.Blocks) == 0 || callee.Parent() != nil || seen[callee] {
				continue
			}
			seen[callee] = true
			news = append(news, an.Calls(callee, isNew, true)...)
		}
	}
	if len(news) != 1 {
		c.Bail("expected exactly one call to forkjoin.New in %s (or in a function it calls), found %d", an.FuncName(s.provide), len(news))
	}
	s.newCall = news[0]
	s.run = s.newCall.Parent()
	switch {
	case s.run == s.provide:
		c.Bail("forkjoin.New is called by provide itself, not by a function run once per node list (runForkJoin(list))")
	case s.run.Parent() == s.provide:
		s.closure = true
	case s.run.Parent() != nil:
		c.Bail("the function calling forkjoin.New (%s) is a nested literal: not followed", an.FuncName(s.run))
	}
	s.listIdx = -1
	for i, p := range s.run.Params {
		if c19IsClientList(p.Type()) {
			if s.listIdx >= 0 {
				c.Bail("%s takes more than one node list", an.FuncName(s.run))
			}
			s.listIdx, s.list = i, p
		}
	}
	if s.list == nil {
		c.Bail("the function calling forkjoin.New (%s) takes no node list parameter (runForkJoin(list))", an.FuncName(s.run))
	}
	// the calls of run
	var mc ssa.Value
	if s.closure {
		for _, in := range an.Instrs(s.provide, false) {
			if m, ok := in.(*ssa.MakeClosure); ok && m.Fn == ssa.Value(s.run) {
				if mc != nil {
					c.Bail("the runForkJoin literal is instantiated more than once")
				}
				mc = m
			}
		}
		if mc == nil {
			c.Bail("the runForkJoin literal is not created in provide")
		}
	}
	for _, in := range an.Instrs(s.provide, true) {
		ci, ok := in.(ssa.CallInstruction)
		if !ok {
			continue
		}
		if s.closure {
			if !c19Only(ci.Common().Value, mc) {
				continue
			}
		} else if ci.Common().IsInvoke() || an.Orig(ci.Common().StaticCallee()) != s.run {
			continue
		}
		call, isCall := ci.(*ssa.Call)
		if !isCall || call.Parent() != s.provide || len(call.Call.Args) != len(s.run.Params) {
			s.strayCalls = append(s.strayCalls, ci)
			continue
		}
		s.runCalls = append(s.runCalls, call)
	}
	if len(s.runCalls) == 0 {
		c.Bail("provide never calls %s", an.FuncName(s.run))
	}
	return s
}

// expand maps origins found inside run to the level of provide: parameters of an extracted run function are
// replaced by what provide passes for them.
func (s *c19Shape) expand(base []ssa.Value) []ssa.Value {
	if s.closure {
		return base
	}
	var out []ssa.Value
	for _, o := range base {
		if vals := s.paramStructField(o); vals != nil {
			out = append(out, vals...)
			continue
		}
		p, ok := o.(*ssa.Parameter)
		if !ok || p.Parent() != s.run || p == s.list {
			out = append(out, o)
			continue
		}
		idx := -1
		for i, q := range s.run.Params {
			if q == p {
				idx = i
			}
		}
		for _, rc := range s.runCalls {
			out = append(out, c19Origins(rc.Call.Args[idx])...)
		}
		for range s.strayCalls {
			out = append(out, nil) // unknown argument
		}
	}
	return out
}

// paramStructField follows a read of a field of a parameter object (`r.ctx` where run is a method / function
// taking a struct of parameters that provide fills in a literal): the values provide stored into that field.
func (s *c19Shape) paramStructField(o ssa.Value) []ssa.Value {
	var base ssa.Value
	field := -1
	switch x := o.(type) {
	case *ssa.UnOp:
		if fa, ok := x.X.(*ssa.FieldAddr); ok && x.Op == token.MUL {
			base, field = fa.X, fa.Field
		}
	case *ssa.Field:
		base, field = x.X, x.Field
	}
	if base == nil {
		return nil
	}
	// the object: a parameter of run (possibly spilled to a local)
	var params []*ssa.Parameter
	cands := []ssa.Value{base}
	if al, ok := base.(*ssa.Alloc); ok {
		cands = c19StoresTo(al, 0)
	}
	for _, cnd := range cands {
		for _, b := range c19Subst(c19Origins(cnd), s.loopBind, 0) {
			if al, isAl := b.(*ssa.Alloc); isAl { // the object spilled to a local of run
				if st := c19StoresTo(al, 0); len(st) == 1 {
					if os := c19Origins(st[0]); len(os) == 1 {
						b = os[0]
					}
				}
			}
			p, ok := b.(*ssa.Parameter)
			if !ok || p.Parent() != s.run {
				return nil
			}
			params = append(params, p)
		}
	}
	if len(params) == 0 {
		return nil
	}
	var out []ssa.Value
	for _, p := range params {
		idx := -1
		for i, q := range s.run.Params {
			if q == p {
				idx = i
			}
		}
		if idx < 0 || len(s.strayCalls) > 0 {
			return nil
		}
		for _, rc := range s.runCalls {
			a := an.Unwrap(rc.Call.Args[idx])
			if ld, ok := a.(*ssa.UnOp); ok && ld.Op == token.MUL {
				a = ld.X
			}
			al, ok := a.(*ssa.Alloc)
			if !ok || al.Referrers() == nil {
				return nil
			}
			n := 0
			for _, ref := range *al.Referrers() {
				switch r := ref.(type) {
				case *ssa.Store:
					if r.Addr == ssa.Value(al) {
						return nil // whole-object assignment: not followed
					}
				case *ssa.FieldAddr:
					if r.Field != field {
						continue
					}
					for _, r2 := range *r.Referrers() {
						if st, ok := r2.(*ssa.Store); ok && st.Addr == ssa.Value(r) {
							out = append(out, c19Origins(st.Val)...)
							n++
						}
					}
				}
			}
			if n == 0 {
				return nil
			}
		}
	}
	return out
}

// origins resolves a value used inside run (or provide, or - with a walker - a helper followed from there)
// to the values it may hold at the level of provide.
func (s *c19Shape) origins(w *c19Walker, v ssa.Value) []ssa.Value {
	if w != nil {
		return s.expand(w.origins(v))
	}
	return s.expand(c19Origins(v))
}

// only: every origin of v is target; has: some origin is.
func (s *c19Shape) only(w *c19Walker, v, target ssa.Value) bool {
	os := s.origins(w, v)
	if len(os) == 0 {
		return false
	}
	for _, o := range os {
		if o != target {
			return false
		}
	}
	return true
}

func (s *c19Shape) has(w *c19Walker, v, target ssa.Value) bool {
	for _, o := range s.origins(w, v) {
		if o == target {
			return true
		}
	}
	return false
}

// isCtxErr: v is the result of Err() on the caller's context.
func (s *c19Shape) isCtxErr(w *c19Walker, v ssa.Value) bool {
	var call *ssa.Call
	if w != nil {
		for _, o := range w.origins(v) {
			cl, ok := o.(*ssa.Call)
			if !ok || (call != nil && cl != call) {
				return false
			}
			call = cl
		}
	} else {
		call, _ = an.Unwrap(v).(*ssa.Call)
	}
	if call == nil || !an.Invoke("context.Context.Err")(&call.Call) {
		return false
	}
	return s.only(w, call.Call.Value, s.ctx)
}

// ---------------------------------------------------------------------------------------------

func c19(c *rt.Ctx) {
	c.Rule("Y1", 5, func() { c19Y1(c) })
	c.Rule("Y2", 6, func() { c19Y2(c) })
	c.Rule("Y3", 9, func() { c19Y3(c) })
	c.Rule("Y4", 55, func() { c19Y4(c) })
	c.Rule("Y5", 5, func() { c19Y5(c) })
	c.Rule("Y6", 3, func() { c19Y6(c) })
	c.Rule("Y7", 46, func() { c19Y7(c) })
	c.Rule("Y8", 3, func() { c19Y8(c) })
}

func c19Y1(c *rt.Ctx) {
	s := c19Resolve(c)
	list := ssa.Value(s.list)
	run := s.run
	args := s.newCall.Common().Args
	if len(args) != 3 {
		c.Bail("forkjoin.New: unexpected argument count %d", len(args))
	}
	pos := s.newCall.Pos()
	ctxSt, ctxWhy := rt.OK, ""
	if !s.only(nil, args[0], s.ctx) {
		// a context derived from provide's (context.WithCancel(ctx), a helper passing it on) is as good
		ctxSt, ctxWhy = c19n4Derives(args[0], func(r ssa.Value) bool { return r == s.ctx || s.only(nil, r, s.ctx) })
	}
	switch {
	case !s.only(nil, args[1], s.work):
		c.Bad("provide forkjoin.New runs the caller's work function", pos, "the work function handed to forkjoin.New is not provide's work parameter")
	case ctxSt == rt.Violation:
		c.Bad("provide forkjoin.New runs the caller's work function", pos, "the context handed to forkjoin.New is not provide's ctx parameter: "+ctxWhy)
	case ctxSt == rt.Undecided:
		c.Unsure("provide forkjoin.New runs the caller's work function", pos, "the context handed to forkjoin.New: "+ctxWhy)
	default:
		c.Good("provide forkjoin.New runs the caller's work function", pos, "")
	}
	opts, ok := c19SliceLit(an.Resolve(args[2]))
	if !ok {
		c.Unsure("provide forkjoin.New options", pos, "options are not a literal argument list")
		return
	}
	var noFF, waitCancel bool
	var workers []*ssa.Call
	for _, o := range opts {
		call, isCall := an.Resolve(o).(*ssa.Call)
		if !isCall || call.Call.StaticCallee() == nil {
			c.Unsure("provide forkjoin.New options", pos, "an option is not a direct call of a forkjoin option constructor")
			return
		}
		switch an.FuncName(call.Call.StaticCallee()) {
		case c19FJ + ".WithoutFailFast":
			noFF = true
		case c19FJ + ".WithWorkers":
			workers = append(workers, call)
		case c19FJ + ".WithWaitOnCancel":
			waitCancel = true
		case c19FJ + ".WithInputBuffer":
			// only sizes the input queue; with one worker per node nothing queues
		default:
			c.Unsure("provide forkjoin.New options", pos, "unknown forkjoin option "+an.FuncName(call.Call.StaticCallee()))
			return
		}
	}
	c.Check("provide forkjoin.New WithoutFailFast", pos, noFF,
		"forkjoin.New is created with fail-fast on: the first node error cancels the requests still running on the other nodes")
	wok, why := len(workers) > 0, "no WithWorkers option: the default of 8 workers makes nodes beyond the eighth wait for earlier (possibly hung) ones"
	for _, w := range workers {
		if x := c19LenArg(an.Resolve(w.Call.Args[0])); x == nil || !c19Only(x, list) {
			wok, why = false, "WithWorkers is not len(list) of the very list that is forked: nodes may queue behind slow or hung ones"
		}
	}
	c.Check("provide forkjoin.New WithWorkers(len(list))", pos, wok, why)
	c.Check("provide forkjoin.New cancel does not wait", pos, !waitCancel,
		"WithWaitOnCancel makes the deferred cancel wait for every node's request to finish before the first success is returned")

	// every node of the list is forked, then the join is called
	fork, join := c19Extract(s.newCall, 0), c19Extract(s.newCall, 1)
	if fork == nil || join == nil {
		c.Bail("fork/join results of forkjoin.New are discarded")
	}
	var forks, joins []ssa.CallInstruction
	for _, in := range an.Instrs(run, false) {
		if ci, ok := in.(ssa.CallInstruction); ok {
			switch an.Resolve(ci.Common().Value) {
			case fork:
				forks = append(forks, ci)
			case join:
				joins = append(joins, ci)
			}
		}
	}
	if len(forks) != 1 || len(joins) != 1 {
		c.Bail("expected one fork call site and one join call in runForkJoin, found %d/%d", len(forks), len(joins))
	}
	fk, jn := forks[0], joins[0]
	l := an.InnermostLoop(run, fk.Block())
	good, why := true, ""
	switch {
	case l == nil:
		good, why = false, "fork is not called in a loop over the node list"
	case l.RangeColl() == nil || !c19Only(l.RangeColl(), list):
		good, why = false, "the fork loop does not range over the whole node list handed to runForkJoin"
	case !c19LoopFromStart(l):
		good, why = false, "the fork loop does not start at the first node of the list"
	default:
		for _, la := range l.Latches {
			if !fk.Block().Dominates(la) {
				good, why = false, "an iteration of the fork loop can skip fork"
			}
		}
		for b := range l.Body {
			for _, sc := range b.Succs {
				if !l.Body[sc] && b != l.Header {
					good, why = false, "the fork loop can be left before every node was forked"
				}
			}
		}
		if l.Body[jn.Block()] || !l.Header.Dominates(jn.Block()) {
			good, why = false, "join is not called after the fork loop"
		}
		// the forked input carries the loop element as client
		elemOK := false
		if len(fk.Common().Args) == 1 {
			if v := c19LitField(fk.Common().Args[0], c19ArgCl); v != nil && c19LoopElem(l, v) {
				elemOK = true
			}
		}
		if good && !elemOK {
			good, why = false, "the input forked is not provideArgs{client: <element of the list>}"
		}
	}
	c.Check("runForkJoin fork every node then join", fk.Pos(), good, why)
}

// c19LitField returns the value stored into the named field of the struct literal / local whose value v is
// (nil if not exactly one store).
func c19LitField(v ssa.Value, key string) ssa.Value {
	ld, ok := an.Unwrap(v).(*ssa.UnOp)
	if !ok || ld.Op != token.MUL {
		return nil
	}
	al, ok := ld.X.(*ssa.Alloc)
	if !ok {
		return nil
	}
	var out ssa.Value
	n := 0
	for _, ref := range *al.Referrers() {
		switch r := ref.(type) {
		case *ssa.FieldAddr:
			if an.FieldKey(r.X.Type(), r.Field) != key {
				continue
			}
			for _, r2 := range *r.Referrers() {
				if st, ok := r2.(*ssa.Store); ok && st.Addr == ssa.Value(r) {
					out = st.Val
					n++
				}
			}
		case *ssa.Store:
			if r.Addr == ssa.Value(al) { // whole-struct copy from another literal
				if inner := c19LitField(r.Val, key); inner != nil {
					out = inner
					n++
				} else {
					n += 2
				}
			}
		}
	}
	if n != 1 {
		return nil
	}
	return out
}

// c19LoopElem: v is the element of the collection loop l ranges over in the current iteration (possibly
// kept in a local declared inside the loop).
func c19LoopElem(l *an.Loop, v ssa.Value) bool {
	if l.ElemOf(v) {
		return true
	}
	for _, o := range c19Origins(v) {
		if o == v || !l.ElemOf(o) {
			return false
		}
	}
	return true
}

// c19LoopFromStart: an index loop starts at 0 (range loops always do).
func c19LoopFromStart(l *an.Loop) bool {
	for _, in := range l.Header.Instrs {
		iff, ok := in.(*ssa.If)
		if !ok {
			continue
		}
		bin, ok := iff.Cond.(*ssa.BinOp)
		if !ok {
			return true
		}
		phi, ok := bin.X.(*ssa.Phi)
		if !ok || phi.Block() != l.Header {
			return true // `range` form: idx = phi + 1 compared, starting from -1
		}
		for i, e := range phi.Edges {
			if l.Body[l.Header.Preds[i]] {
				continue
			}
			if k, isK := an.ConstInt(e); !isK || k != 0 {
				return false
			}
		}
	}
	return true
}

// c19Loop is the resolved result loop of runForkJoin.
type c19Loop struct {
	hdr, body, exit *ssa.BasicBlock
	elem            ssa.Value // the Result received in this iteration
	fn              *ssa.Function // the function holding the loop: run, or an in-package function run hands join() to
	call            *ssa.Call     // the call of fn in run (nil when fn == run)
}

func c19ResultLoop(c *rt.Ctx, s *c19Shape) c19Loop {
	join := c19Extract(s.newCall, 1)
	if join == nil {
		c.Bail("join result of forkjoin.New is discarded")
	}
	var results ssa.Value
	for _, in := range an.Instrs(s.run, false) {
		if ci, ok := in.(*ssa.Call); ok && an.Resolve(ci.Call.Value) == join {
			if results != nil {
				c.Bail("join is called more than once")
			}
			results = ci
		}
	}
	if results == nil {
		c.Bail("no call of join in runForkJoin")
	}
	var out c19Loop
	out.fn = s.run
	var chanv ssa.Value = results
	// the loop may live in an in-package function that run hands the result channel to
	hasRecv := false
	for _, in := range an.Instrs(s.run, false) {
		if rc, ok := in.(*ssa.UnOp); ok && rc.Op == token.ARROW && c19Only(rc.X, results) {
			hasRecv = true
		}
	}
	if !hasRecv {
		for _, in := range an.Instrs(s.run, false) {
			call, ok := in.(*ssa.Call)
			if !ok || call.Call.IsInvoke() {
				continue
			}
			g := an.Orig(call.Call.StaticCallee())
			if g == nil || g.Pkg != s.run.Pkg || len(g.Blocks) == 0 || len(g.Params) != len(call.Call.Args) {
				continue
			}
			for i, a := range call.Call.Args {
				if c19Only(a, results) {
					if out.call != nil {
						c.Bail("the join results are handed to more than one function")
					}
					out.fn, out.call, chanv = g, call, g.Params[i]
				}
			}
		}
	}
	for _, in := range an.Instrs(out.fn, false) {
		rc, ok := in.(*ssa.UnOp)
		if !ok || rc.Op != token.ARROW || !c19Only(rc.X, chanv) {
			continue
		}
		if out.hdr != nil || !rc.CommaOk {
			c.Bail("join results are not consumed by exactly one receive loop (`for res := range join()`)")
		}
		iff := c19If(rc.Block())
		var okv, elem ssa.Value
		for _, ref := range *rc.Referrers() {
			if ex, isEx := ref.(*ssa.Extract); isEx {
				if ex.Index == 1 {
					okv = ex
				} else {
					elem = ex
				}
			}
		}
		if iff == nil || okv == nil || elem == nil {
			c.Bail("receive from the join results is not the header of a loop")
		}
		tested, trueIdx := c19BoolTest(iff)
		if tested != okv {
			c.Bail("the loop receiving the join results is not controlled by the channel's ok flag")
		}
		out.hdr, out.body, out.exit, out.elem = rc.Block(), rc.Block().Succs[trueIdx], rc.Block().Succs[1-trueIdx], elem
	}
	if out.hdr == nil {
		c.Bail("no loop over the join results found in runForkJoin")
	}
	if !out.hdr.Dominates(out.body) || len(out.body.Preds) != 1 || out.body == out.exit {
		c.Bail("unexpected shape of the loop over the join results")
	}
	return out
}

// resField: v reads field `name` of the Result received in this iteration (w: the walker's frame when the
// read happens inside a followed helper).
func (l c19Loop) resField(w *c19Walker, v ssa.Value, name string) bool {
	if w != nil {
		v = w.res(v)
	}
	key, base, ok := c19FieldRead(v)
	if !ok || !c19ResultKey(key, name) {
		return false
	}
	if w != nil {
		if rb := w.res(base); rb != nil {
			base = rb
		}
		if al, isAl := base.(*ssa.Alloc); isAl {
			if hv := w.holds(al); hv != nil {
				base = hv
			}
		}
	}
	if base == l.elem {
		return true
	}
	if w != nil && len(w.bind) > 0 && w.only(base, l.elem) {
		return true
	}
	// a pointer to a copy of the current result, selected by the path walked so far (`winner = &res; break`)
	if w != nil && w.from != nil {
		b := base
		for i := 0; i < 6; i++ {
			switch x := b.(type) {
			case *ssa.Phi:
				if e := w.phiEdge(x); e != nil {
					b = an.Unwrap(e)
					continue
				}
			case *ssa.UnOp:
				if cell, ok := c19Cell(x.X).(*ssa.Alloc); ok && x.Op == token.MUL && !l.perIteration(cell) {
					var last ssa.Value
					for _, pb := range w.path {
						for _, in := range pb.Instrs {
							if st, ok := in.(*ssa.Store); ok && c19Cell(st.Addr) == ssa.Value(cell) {
								last = st.Val
							}
						}
					}
					if last != nil {
						b = an.Unwrap(last)
						continue
					}
				}
			}
			break
		}
		if b != base && l.copyOfCur(b) {
			if b.(*ssa.Alloc).Block() == l.hdr {
				return true
			}
			for _, pb := range w.path {
				if pb == b.(*ssa.Alloc).Block() {
					return true
				}
			}
		}
	}
	// a per-iteration copy: a variable declared inside the loop body (a variable declared outside
	// may still hold the result of an earlier iteration)
	al, isAl := base.(*ssa.Alloc)
	if isAl && w != nil && len(w.bind) > 0 && al.Parent() != l.hdr.Parent() {
		// a parameter of a followed helper spilled to a local
		st := c19StoresTo(al, 0)
		if len(st) == 0 {
			return false
		}
		for _, sv := range st {
			if !w.only(sv, l.elem) {
				return false
			}
		}
		return true
	}
	return isAl && al.Parent() == l.hdr.Parent() && l.perIteration(al) && c19HoldsOnly(al, l.elem)
}

// perIteration: the variable is declared inside the loop (header or body), i.e. it is a fresh variable in
// every iteration.
func (l c19Loop) perIteration(al *ssa.Alloc) bool {
	return al.Block() == l.hdr || l.inLoop(al.Block())
}

func (l c19Loop) inLoop(b *ssa.BasicBlock) bool {
	return b.Parent() == l.body.Parent() && l.body.Dominates(b)
}

// ---------------------------------------------------------------------------------------------
// Path exploration under a valuation of atomic conditions (used by Y2 and Y3): the CFG region is
// walked deterministically wherever a branch condition is a boolean combination (negation, phi of
// short-circuit evaluation, constants) of recognised atoms; on any other condition both edges are
// followed. The verdict is the set of outcomes reachable under each valuation.

type c19Walker struct {
	atom    func(w *c19Walker, v ssa.Value) (id int, neg bool, ok bool) // recognise an atomic condition
	val     []bool                                                      // truth of the atoms
	stop    func(b *ssa.BasicBlock, w *c19Walker) (string, bool)
	ret     func(r *ssa.Return, w *c19Walker) string
	from    map[*ssa.BasicBlock]*ssa.BasicBlock // predecessor through which each block of the path was entered
	path    []*ssa.BasicBlock
	out     map[string]bool
	unknown map[*ssa.If]bool             // conditions that could not be evaluated (both edges followed)
	bind    map[*ssa.Parameter]ssa.Value // inside a followed callee: parameter -> argument at the call site
	depth   int
	steps   int
	pre     func(w *c19Walker, v ssa.Value) (val bool, ok bool) // optional: decides a condition directly (before the atoms)
	// continuation: the walk started in a callee (the function holding the result loop) goes on in the caller
	// behind call cont when a return of contFn is reached; retvals are the values returned on the path walked
	cont    *ssa.Call
	contFn  *ssa.Function
	retvals []ssa.Value
	// variable cells: a load is resolved to the last store on the path walked; a cell that no path from one
	// receive to the next stores into (dirty == false) still holds its value from before the loop
	dirty map[ssa.Value]bool
	post  map[*ssa.BasicBlock]bool // blocks behind the start of the walk
}

// res resolves v along the path walked so far: phis by the edge taken, results of the followed callee by the
// values returned, loads of local variable cells by the last store on the path (or the value from before the loop).
func (w *c19Walker) res(v ssa.Value) ssa.Value {
	seenPhi := map[*ssa.Phi]bool{}
	for i := 0; i < 12 && v != nil; i++ {
		v = an.Unwrap(v)
		switch x := v.(type) {
		case *ssa.Phi:
			if e := w.phiEdge(x); e != nil && !seenPhi[x] {
				seenPhi[x] = true
				v = e
				continue
			}
			// not on the path, or carried round unchanged: the value it was entered with
			if e := w.initPhi(x, seenPhi[x]); e != nil && !seenPhi[x] || e != nil && e != v {
				seenPhi[x] = true
				v = e
				continue
			}
		case *ssa.Extract:
			if w.cont != nil && w.retvals != nil && x.Tuple == ssa.Value(w.cont) && x.Index < len(w.retvals) && w.retvals[x.Index] != nil {
				v = w.retvals[x.Index]
				continue
			}
		case *ssa.UnOp:
			if x.Op != token.MUL {
				return v
			}
			cell, ok := c19Cell(x.X).(*ssa.Alloc)
			if !ok {
				return v
			}
			if nv := w.cellAt(cell, x); nv != nil {
				v = nv
				continue
			}
		}
		return v
	}
	return v
}

// initPhi: a loop-carried register whose block is not on the walked path and that no iteration going on to the
// next result changes (dirty == false) still holds the value it was entered with from before the loop.
func (w *c19Walker) initPhi(x *ssa.Phi, carried bool) ssa.Value {
	if w.dirty == nil || w.dirty[x] || w.post == nil || !w.post[x.Block()] {
		return nil
	}
	for _, pb := range w.path {
		if pb == x.Block() && !carried {
			return nil
		}
	}
	var out ssa.Value
	for i, p := range x.Block().Preds {
		if w.post[p] || i >= len(x.Edges) {
			continue
		}
		if out != nil && out != x.Edges[i] {
			return nil
		}
		out = x.Edges[i]
	}
	return out
}

// holds: the whole value last stored on the walked path into local record al (a copy of a result kept in a local).
func (w *c19Walker) holds(al *ssa.Alloc) ssa.Value {
	if _, isStruct := al.Type().Underlying().(*types.Pointer).Elem().Underlying().(*types.Struct); !isStruct {
		return nil
	}
	var last ssa.Value
	for _, pb := range w.path {
		for _, in := range pb.Instrs {
			if st, ok := in.(*ssa.Store); ok && st.Addr == ssa.Value(al) {
				last = st.Val
			}
		}
	}
	if last == nil {
		return nil
	}
	return w.res(last)
}

// cellAt: the value variable cell holds when load ld executes on the walked path (nil: not known).
func (w *c19Walker) cellAt(cell *ssa.Alloc, ld *ssa.UnOp) ssa.Value {
	at := -1
	for i, pb := range w.path {
		if pb == ld.Block() {
			at = i
		}
	}
	if at < 0 {
		return nil // computed before the walk started
	}
	var last ssa.Value
	for i := 0; i <= at; i++ {
		for _, in := range w.path[i].Instrs {
			if i == at && in == ssa.Instruction(ld) {
				break
			}
			if st, ok := in.(*ssa.Store); ok && c19Cell(st.Addr) == ssa.Value(cell) {
				last = st.Val
			}
		}
	}
	if last != nil {
		return last
	}
	return w.initVal(cell)
}

// initVal: the value a scalar cell holds at the start of the walk when no iteration that goes on to the next
// result stores into it: its single store before the loop, or the zero value.
func (w *c19Walker) initVal(cell *ssa.Alloc) ssa.Value {
	if w.dirty == nil || w.dirty[cell] || cell.Referrers() == nil {
		return nil
	}
	et := cell.Type().Underlying().(*types.Pointer).Elem()
	switch et.Underlying().(type) {
	case *types.Basic, *types.Pointer, *types.Interface, *types.Signature, *types.Slice, *types.Map, *types.Chan:
	default:
		return nil
	}
	var pre []ssa.Value
	for _, ref := range *cell.Referrers() {
		switch x := ref.(type) {
		case *ssa.Store:
			if x.Addr != ssa.Value(cell) {
				return nil
			}
			if !w.post[x.Block()] {
				pre = append(pre, x.Val)
			}
		case *ssa.UnOp, *ssa.DebugRef:
		default:
			return nil // captured or address taken: not followed
		}
	}
	switch len(pre) {
	case 0:
		if b, ok := et.Underlying().(*types.Basic); ok {
			switch {
			case b.Info()&types.IsBoolean != 0:
				return ssa.NewConst(constant.MakeBool(false), et)
			case b.Info()&types.IsInteger != 0:
				return ssa.NewConst(constant.MakeInt64(0), et)
			}
			return nil
		}
		return ssa.NewConst(nil, et)
	case 1:
		return pre[0]
	}
	return nil
}

// origins resolves v like c19Origins and replaces parameters of followed callees by the call's arguments.
func (w *c19Walker) origins(v ssa.Value) []ssa.Value {
	return c19Subst(c19Origins(v), w.bind, 0)
}

func c19Subst(os []ssa.Value, bind map[*ssa.Parameter]ssa.Value, d int) []ssa.Value {
	if len(bind) == 0 || d > 4 {
		return os
	}
	var out []ssa.Value
	for _, o := range os {
		if p, ok := o.(*ssa.Parameter); ok {
			if a, bound := bind[p]; bound {
				out = append(out, c19Subst(c19Origins(a), bind, d+1)...)
				continue
			}
		}
		out = append(out, o)
	}
	return out
}

// only: every origin of v (seen from the walker's frame) is target.
func (w *c19Walker) only(v, target ssa.Value) bool {
	os := w.origins(v)
	if len(os) == 0 {
		return false
	}
	for _, o := range os {
		if o != target {
			return false
		}
	}
	return true
}

func (w *c19Walker) eval(v ssa.Value, d int) (bool, bool) {
	if d > 8 {
		return false, false
	}
	if w.pre != nil {
		if b, ok := w.pre(w, v); ok {
			return b, true
		}
	}
	if r := w.res(v); r != nil && r != v {
		if _, isBool := r.Type().Underlying().(*types.Basic); isBool {
			return w.eval(r, d+1)
		}
	}
	switch x := v.(type) {
	case *ssa.Const:
		if x.Value != nil && types.Identical(x.Type().Underlying(), types.Typ[types.Bool]) {
			return x.Value.String() == "true", true
		}
		return false, false
	case *ssa.UnOp:
		if x.Op == token.NOT {
			b, ok := w.eval(x.X, d+1)
			return !b, ok
		}
		if x.Op == token.MUL && types.Identical(x.Type().Underlying(), types.Typ[types.Bool]) {
			// a named condition kept in a variable cell that is assigned once
			if al, ok := c19Cell(x.X).(*ssa.Alloc); ok {
				if st := c19StoresTo(al, 0); len(st) == 1 {
					if _, isPhi := st[0].(*ssa.Phi); !isPhi {
						return w.eval(st[0], d+1)
					}
				}
			}
		}
	case *ssa.Phi:
		if e := w.phiEdge(x); e != nil {
			return w.eval(e, d+1)
		}
		return false, false
	case *ssa.BinOp:
		if (x.Op == token.EQL || x.Op == token.NEQ) && types.Identical(x.X.Type().Underlying(), types.Typ[types.Bool]) {
			if id, neg, ok := w.atom(w, v); ok {
				return w.val[id] != neg, true
			}
			a, ok1 := w.eval(x.X, d+1)
			b, ok2 := w.eval(x.Y, d+1)
			if ok1 && ok2 {
				return (a == b) == (x.Op == token.EQL), true
			}
			return false, false
		}
	}
	if id, neg, ok := w.atom(w, v); ok {
		return w.val[id] != neg, true
	}
	if call, ok := v.(*ssa.Call); ok {
		return w.evalCall(call)
	}
	// x == nil / x != nil for a pointer that the path walked so far determines (nil, or the address of a variable)
	if x, neg, ok := c19NilCmp(v); ok {
		if isNil, known := w.nilness(x, 0); known {
			return isNil != neg, true
		}
	}
	return false, false
}

// nilness resolves a pointer-like value along the walked path: nil constant, or something that cannot be nil.
func (w *c19Walker) nilness(v ssa.Value, d int) (isNil, known bool) {
	if d > 6 {
		return false, false
	}
	v = w.res(v)
	switch x := v.(type) {
	case *ssa.Const:
		if x.Value == nil {
			return true, true
		}
	case *ssa.Alloc, *ssa.MakeClosure, *ssa.MakeMap, *ssa.MakeSlice, *ssa.MakeChan, *ssa.Function, *ssa.FieldAddr, *ssa.IndexAddr:
		return false, true
	case *ssa.Call:
		if c19ErrFn(x, "New") || an.Static("fmt.Errorf")(&x.Call) {
			return false, true // a freshly made error
		}
	case *ssa.Phi:
		if e := w.phiEdge(x); e != nil {
			return w.nilness(e, d+1)
		}
	}
	return false, false
}

// evalCall follows a boolean in-package function (a condition extracted into a helper): the callee is walked
// under the same valuation with its parameters bound to the arguments; the call is decided when every path
// returns the same truth value.
func (w *c19Walker) evalCall(call *ssa.Call) (bool, bool) {
	if w.depth >= 2 || call.Call.IsInvoke() {
		return false, false
	}
	var callee *ssa.Function
	if os := w.origins(call.Call.Value); len(os) == 1 {
		switch f := os[0].(type) {
		case *ssa.Function:
			callee = f
		case *ssa.MakeClosure: // free variables resolve through c19Cell / c19Binding
			callee, _ = f.Fn.(*ssa.Function)
		}
	}
	callee = an.Orig(callee)
	if callee == nil || len(callee.Blocks) == 0 || callee.Pkg == nil || callee.Pkg != call.Parent().Pkg ||
		len(callee.Params) != len(call.Call.Args) || callee.Signature.Results().Len() != 1 ||
		!types.Identical(callee.Signature.Results().At(0).Type().Underlying(), types.Typ[types.Bool]) {
		return false, false
	}
	sub := &c19Walker{atom: w.atom, pre: w.pre, val: w.val, depth: w.depth + 1, bind: map[*ssa.Parameter]ssa.Value{}, unknown: map[*ssa.If]bool{}}
	for k, v := range w.bind {
		sub.bind[k] = v
	}
	for i, p := range callee.Params {
		sub.bind[p] = call.Call.Args[i]
	}
	sub.ret = func(r *ssa.Return, sw *c19Walker) string {
		vals := c19RetVals(r)
		if len(vals) != 1 {
			return "?"
		}
		if b, ok := sw.eval(vals[0], 0); ok {
			if b {
				return "true"
			}
			return "false"
		}
		return "?"
	}
	sub.run(callee.Blocks[0], nil)
	switch {
	case c19Is1(sub.out, "true"):
		return true, true
	case c19Is1(sub.out, "false"):
		return false, true
	}
	return false, false
}

// run explores from the terminator of block start (start itself is not tested with stop).
func (w *c19Walker) run(start, enteredFrom *ssa.BasicBlock) {
	w.from = map[*ssa.BasicBlock]*ssa.BasicBlock{}
	w.out = map[string]bool{}
	if w.unknown == nil {
		w.unknown = map[*ssa.If]bool{}
	}
	w.path = nil
	w.walk(start, enteredFrom, true)
}

func (w *c19Walker) walk(b, from *ssa.BasicBlock, first bool) {
	w.steps++
	if len(w.path) > 200 || w.steps > 400000 {
		w.out["?too many paths"] = true
		return
	}
	for _, p := range w.path {
		if p == b {
			w.out["?cycle"] = true
			return
		}
	}
	if !first && w.stop != nil {
		if o, done := w.stop(b, w); done {
			w.out[o] = true
			return
		}
	}
	old, had := w.from[b]
	w.from[b] = from
	w.path = append(w.path, b)
	defer func() {
		w.path = w.path[:len(w.path)-1]
		if had {
			w.from[b] = old
		} else {
			delete(w.from, b)
		}
	}()
	if len(b.Instrs) == 0 {
		w.out["?"] = true
		return
	}
	switch t := b.Instrs[len(b.Instrs)-1].(type) {
	case *ssa.If:
		if v, ok := w.eval(t.Cond, 0); ok {
			if v {
				w.walk(b.Succs[0], b, false)
			} else {
				w.walk(b.Succs[1], b, false)
			}
			return
		}
		w.unknown[t] = true
		w.walk(b.Succs[0], b, false)
		w.walk(b.Succs[1], b, false)
	case *ssa.Jump:
		w.walk(b.Succs[0], b, false)
	case *ssa.Return:
		if w.cont != nil && b.Parent() == w.contFn && w.retvals == nil {
			vals := c19RetVals(t)
			rv := make([]ssa.Value, len(vals))
			for i, v := range vals {
				rv[i] = w.res(v)
			}
			w.retvals = rv
			w.walk(w.cont.Block(), b, true)
			w.retvals = nil
			return
		}
		w.out[w.ret(t, w)] = true
	case *ssa.Panic:
		w.out["panic"] = true
	default:
		w.out["?"] = true
	}
}

func c19Set(m map[string]bool) string {
	var ks []string
	for k := range m {
		ks = append(ks, k)
	}
	sort.Strings(ks)
	return "{" + strings.Join(ks, ", ") + "}"
}

func c19Is1(m map[string]bool, k string) bool { return len(m) == 1 && m[k] }

// c19NilCmp decodes `v == nil` / `v != nil`: the tested value, neg = true for `!=`.
func c19NilCmp(v ssa.Value) (x ssa.Value, neg bool, ok bool) {
	bin, isBin := v.(*ssa.BinOp)
	if !isBin || (bin.Op != token.EQL && bin.Op != token.NEQ) {
		return nil, false, false
	}
	switch {
	case an.IsNilConst(bin.Y):
		x = bin.X
	case an.IsNilConst(bin.X):
		x = bin.Y
	default:
		return nil, false, false
	}
	return x, bin.Op == token.NEQ, true
}

// c19EmptyCmp decodes a comparison of len(list) with a constant that is true exactly for the empty
// list (neg=false) or exactly for the non-empty lists (neg=true); anything else is not an atom.
func c19EmptyCmp(v ssa.Value, list ssa.Value, w *c19Walker) (neg bool, ok bool) {
	return c19EmptyCmpF(v, func(la ssa.Value) bool { return w.only(la, list) })
}

// c19EmptyCmpF is c19EmptyCmp with the list recognised by a predicate.
func c19EmptyCmpF(v ssa.Value, isList func(ssa.Value) bool) (neg bool, ok bool) {
	bin, isBin := v.(*ssa.BinOp)
	if !isBin {
		return false, false
	}
	op, x, y := bin.Op, bin.X, bin.Y
	if la := c19LenArg(y); la != nil && isList(la) {
		x, y = y, x
		switch op {
		case token.LSS:
			op = token.GTR
		case token.LEQ:
			op = token.GEQ
		case token.GTR:
			op = token.LSS
		case token.GEQ:
			op = token.LEQ
		}
	}
	la := c19LenArg(x)
	if la == nil || !isList(la) {
		return false, false
	}
	k, isK := an.ConstInt(y)
	if !isK {
		return false, false
	}
	switch {
	case (op == token.NEQ || op == token.GTR) && k == 0, op == token.GEQ && k == 1:
		return true, true
	case (op == token.EQL || op == token.LEQ) && k == 0, op == token.LSS && k == 1:
		return false, true
	}
	return false, false
}

// c19Carrier is the variable in which a failing result is kept for the code after the result loop: a
// forkjoin.Result variable declared outside the loop, or a slice of results (loop-carried value or variable).
type c19Carrier struct {
	alloc *ssa.Alloc // Result variable
	phi   *ssa.Phi   // slice of results / pointer to a result kept in a loop-carried register (phi in the loop header)
	cell  *ssa.Alloc // slice / pointer kept in a variable cell
	ptr   bool       // phi / cell holds a pointer to a copy of a result
	val   bool       // phi is the Result variable itself, kept in a loop-carried register
}

func (k *c19Carrier) same(o *c19Carrier) bool {
	return k.alloc == o.alloc && k.phi == o.phi && k.cell == o.cell && k.ptr == o.ptr && k.val == o.val
}

// c19ResultKey: key names field `name` of forkjoin.Result.
func c19ResultKey(key, name string) bool {
	return strings.HasPrefix(key, c19FJ+".Result") && strings.HasSuffix(key, "."+name)
}

// c19SameElem: two addresses denote the same variable / the same constant element of the same slice.
func c19SameElem(a, b ssa.Value) bool {
	if a == b {
		return true
	}
	x, ok1 := a.(*ssa.IndexAddr)
	y, ok2 := b.(*ssa.IndexAddr)
	if !ok1 || !ok2 || an.Unwrap(x.X) != an.Unwrap(y.X) {
		return false
	}
	i, okI := an.ConstInt(x.Index)
	j, okJ := an.ConstInt(y.Index)
	return okI && okJ && i == j
}

// recordOf decides whether slice value v was built from results of the loop only (nil / empty / append of
// such a slice with loop results / literal of loop results). holdsCur reports whether the value certainly
// contains the result of the current iteration (given the walker's path for resolving phis).
func (l c19Loop) sliceOfResults(v ssa.Value, seen map[ssa.Value]bool) bool {
	v = an.Unwrap(v)
	if seen[v] {
		return true
	}
	seen[v] = true
	switch x := v.(type) {
	case *ssa.Const:
		return x.Value == nil
	case *ssa.MakeSlice:
		n, ok := an.ConstInt(x.Len)
		return ok && n == 0
	case *ssa.Phi:
		for _, e := range x.Edges {
			if !l.sliceOfResults(e, seen) {
				return false
			}
		}
		return true
	case *ssa.Slice:
		if al, ok := x.X.(*ssa.Alloc); ok { // literal backing array
			if elems, ok := c19SliceLit(x); ok {
				_ = al
				for _, e := range elems {
					if !c19Only(e, l.elem) {
						return false
					}
				}
				return true
			}
			return false
		}
		return l.sliceOfResults(x.X, seen)
	case *ssa.UnOp:
		if x.Op == token.MUL {
			cell := c19Cell(x.X)
			if al, ok := cell.(*ssa.Alloc); ok {
				st := c19StoresTo(al, 0)
				for _, sv := range st {
					if !l.sliceOfResults(sv, seen) {
						return false
					}
				}
				return true
			}
		}
	case *ssa.Call:
		if b, ok := x.Call.Value.(*ssa.Builtin); ok && b.Name() == "append" && len(x.Call.Args) == 2 {
			if !l.sliceOfResults(x.Call.Args[0], seen) {
				return false
			}
			elems, ok := c19SliceLit(x.Call.Args[1])
			if !ok {
				return l.sliceOfResults(x.Call.Args[1], seen)
			}
			for _, e := range elems {
				if !c19Only(e, l.elem) {
					return false
				}
			}
			return true
		}
	}
	return false
}

// holdsCur: slice value v, resolved along the walker's path, was just built with the current result in it.
func (l c19Loop) holdsCur(v ssa.Value, w *c19Walker, d int) bool {
	if d > 8 {
		return false
	}
	v = an.Unwrap(v)
	switch x := v.(type) {
	case *ssa.Phi:
		if e := w.phiEdge(x); e != nil {
			return l.holdsCur(e, w, d+1)
		}
	case *ssa.Slice:
		if elems, ok := c19SliceLit(x); ok {
			for _, e := range elems {
				if c19Only(e, l.elem) {
					return true
				}
			}
		}
	case *ssa.Call:
		if b, ok := x.Call.Value.(*ssa.Builtin); ok && b.Name() == "append" && len(x.Call.Args) == 2 && l.inLoop(x.Block()) {
			if elems, ok := c19SliceLit(x.Call.Args[1]); ok {
				for _, e := range elems {
					if c19Only(e, l.elem) {
						return true
					}
				}
			}
		}
	}
	return false
}

// phiEdge returns the edge of phi selected by the path walked so far (nil if its block is not on the path).
func (w *c19Walker) phiEdge(x *ssa.Phi) ssa.Value {
	pred := w.from[x.Block()]
	if pred == nil {
		return nil
	}
	idx := -1
	for i, p := range x.Block().Preds {
		if p == pred {
			if idx >= 0 {
				return nil
			}
			idx = i
		}
	}
	if idx < 0 || idx >= len(x.Edges) {
		return nil
	}
	return x.Edges[idx]
}

// carrierOf recognises `return X.Output, X.Err` for a variable X that is kept across iterations.
// status: "" recognised, "unknown" an Err field of some result kept in a form that is not followed, "none" otherwise.
func (l c19Loop) carrierOf(w *c19Walker, vals []ssa.Value) (*c19Carrier, string) {
	// the record may have travelled as a whole value (returned by the function holding the loop, copied)
	norm := func(b ssa.Value) ssa.Value {
		if w != nil {
			if rb := w.res(b); rb != nil {
				b = rb
			}
			if al, isAl := b.(*ssa.Alloc); isAl {
				if hv := w.holds(al); hv != nil {
					b = hv
				}
			}
		}
		if ld, ok := b.(*ssa.UnOp); ok && ld.Op == token.MUL {
			if al, ok := c19Cell(ld.X).(*ssa.Alloc); ok {
				if _, isStruct := ld.Type().Underlying().(*types.Struct); isStruct {
					return al
				}
			}
		}
		return b
	}
	kE, bE, okE := c19FieldRead(vals[1])
	if !okE || !c19ResultKey(kE, "Err") {
		return nil, "none"
	}
	bE = norm(bE)
	kO, bO, okO := c19FieldRead(vals[0])
	if okO {
		bO = norm(bO)
	}
	if !okO || !c19ResultKey(kO, "Output") || !c19SameElem(bO, bE) {
		return nil, "none"
	}
	if bE == l.elem {
		return nil, "none"
	}
	if ph, ok := bE.(*ssa.Phi); ok && ph.Block() == l.hdr {
		if _, isStruct := ph.Type().Underlying().(*types.Struct); isStruct {
			return &c19Carrier{phi: ph, val: true}, ""
		}
	}
	switch x := bE.(type) {
	case *ssa.Const:
		if x.Value == nil {
			return nil, "never" // a nil pointer that is never assigned
		}
	case *ssa.Alloc:
		if l.perIteration(x) {
			return nil, "none"
		}
		return &c19Carrier{alloc: x}, ""
	case *ssa.Phi, *ssa.UnOp:
		// a pointer to a copy of a result: nil, or a variable declared in the loop that only ever holds the
		// result of its iteration
		if _, isPtr := x.Type().Underlying().(*types.Pointer); !isPtr {
			return nil, "unknown"
		}
		for _, o := range c19Origins(x) {
			if an.IsNilConst(o) {
				continue
			}
			if !l.copyOfCur(o) {
				return nil, "unknown"
			}
		}
		if ph, ok := x.(*ssa.Phi); ok && ph.Block() == l.hdr {
			return &c19Carrier{phi: ph, ptr: true}, ""
		}
		if ld, ok := x.(*ssa.UnOp); ok && ld.Op == token.MUL {
			if al, ok := c19Cell(ld.X).(*ssa.Alloc); ok && !l.perIteration(al) {
				return &c19Carrier{cell: al, ptr: true}, ""
			}
		}
		return nil, "unknown"
	case *ssa.IndexAddr:
		if _, isK := an.ConstInt(x.Index); !isK {
			return nil, "unknown"
		}
		sv := an.Unwrap(x.X)
		if k, isK := sv.(*ssa.Const); isK && k.Value == nil {
			return nil, "never" // a nil slice that is never appended to
		}
		if !l.sliceOfResults(sv, map[ssa.Value]bool{}) {
			return nil, "unknown"
		}
		switch y := sv.(type) {
		case *ssa.Phi:
			if y.Block() == l.hdr {
				return &c19Carrier{phi: y}, ""
			}
		case *ssa.UnOp:
			if y.Op == token.MUL {
				if al, ok := c19Cell(y.X).(*ssa.Alloc); ok && !l.inLoop(al.Block()) {
					return &c19Carrier{cell: al}, ""
				}
			}
		}
		return nil, "unknown"
	}
	return nil, "unknown"
}

// copyOfCur: v is the address of a variable declared inside the loop that only ever holds the result of its
// own iteration.
func (l c19Loop) copyOfCur(v ssa.Value) bool {
	al, ok := an.Unwrap(v).(*ssa.Alloc)
	return ok && l.perIteration(al) && c19HoldsOnly(al, l.elem)
}

// ptrHoldsCur: pointer value v, resolved along the walker's path, points to a copy of the current result.
func (l c19Loop) ptrHoldsCur(v ssa.Value, w *c19Walker, d int) bool {
	if d > 8 {
		return false
	}
	v = an.Unwrap(v)
	if ph, ok := v.(*ssa.Phi); ok {
		if e := w.phiEdge(ph); e != nil {
			return l.ptrHoldsCur(e, w, d+1)
		}
		return false
	}
	if !l.copyOfCur(v) {
		return false
	}
	// the copy was made in this iteration (the receive block itself opens every iteration)
	if v.(*ssa.Alloc).Block() == l.hdr {
		return true
	}
	for _, pb := range w.path {
		if pb == v.(*ssa.Alloc).Block() {
			return true
		}
	}
	return false
}

// recorded: on the iteration path just walked (ending with the jump back to the loop header) the carrier
// received the current result.
func (l c19Loop) recorded(k *c19Carrier, w *c19Walker) bool {
	lastStore := func(al *ssa.Alloc) ssa.Value {
		var last ssa.Value
		for _, pb := range w.path {
			for _, in := range pb.Instrs {
				if st, ok := in.(*ssa.Store); ok && c19Cell(st.Addr) == ssa.Value(al) {
					last = st.Val
				}
			}
		}
		return last
	}
	switch {
	case k.alloc != nil:
		v := lastStore(k.alloc)
		return v != nil && c19Only(v, l.elem)
	case k.cell != nil:
		v := lastStore(k.cell)
		if k.ptr {
			return v != nil && l.ptrHoldsCur(v, w, 0)
		}
		return v != nil && l.holdsCur(v, w, 0)
	case k.phi != nil:
		if len(w.path) == 0 {
			return false
		}
		latch := w.path[len(w.path)-1]
		for i, p := range l.hdr.Preds {
			if p == latch && i < len(k.phi.Edges) {
				if k.val {
					r := w.res(k.phi.Edges[i])
					return r == l.elem || (r != nil && c19Only(r, l.elem))
				}
				if k.ptr {
					return l.ptrHoldsCur(k.phi.Edges[i], w, 0)
				}
				return l.holdsCur(k.phi.Edges[i], w, 0)
			}
		}
	}
	return false
}

func c19HasUnsure(m map[string]bool) string {
	for k := range m {
		if strings.HasPrefix(k, "?") {
			return k
		}
	}
	return ""
}

func c19Y2(c *rt.Ctx) {
	s := c19Resolve(c)
	run := s.run
	l := c19ResultLoop(c, s)

	var bind map[*ssa.Parameter]ssa.Value
	post := an.ReachBlocks(l.hdr, nil)
	if l.call != nil {
		bind = map[*ssa.Parameter]ssa.Value{}
		for i, p := range l.fn.Params {
			bind[p] = l.call.Call.Args[i]
		}
		s.loopBind = bind
		for b := range an.ReachBlocks(l.call.Block(), nil) {
			post[b] = true
		}
	}
	newWalker := func(w *c19Walker) *c19Walker {
		w.post = post
		if l.call != nil {
			w.cont, w.contFn = l.call, l.fn
			w.bind = map[*ssa.Parameter]ssa.Value{}
			for k, v := range bind {
				w.bind[k] = v
			}
		}
		return w
	}

	// atoms: 0 ctx.Err()==nil, 1 res.Err==nil, 2 isSuccessFunc(res.Output), 3 the success predicate is nil (accept all)
	used3 := false
	atom := func(w *c19Walker, v ssa.Value) (int, bool, bool) {
		if x, neg, ok := c19NilCmp(v); ok {
			if rx := w.res(x); rx != nil {
				x = rx
			}
			if s.isCtxErr(w, x) {
				return 0, neg, true
			}
			if l.resField(w, x, "Err") {
				return 1, neg, true
			}
			if _, isFn := x.Type().Underlying().(*types.Signature); isFn && s.only(w, x, s.isSucces) {
				used3 = true
				return 3, neg, true
			}
			return 0, false, false
		}
		if call, ok := v.(*ssa.Call); ok && !call.Call.IsInvoke() && call.Call.StaticCallee() == nil && len(call.Call.Args) == 1 &&
			s.has(w, call.Call.Value, s.isSucces) && l.resField(w, call.Call.Args[0], "Output") {
			return 2, false, true
		}
		return 0, false, false
	}

	// static: no return before the loop, the code after the loop is entered from the header only
	for _, r := range c19Returns(run) {
		start := l.hdr
		if l.call != nil {
			start = l.call.Block()
		}
		if !an.CanReach(start, r.Block(), nil) {
			c.Bad("runForkJoin return before the result loop", posOf(r), "runForkJoin returns before looking at any node's result")
		}
	}

	// ---- variables no continuing iteration stores into keep their value from before the loop
	dirty := map[ssa.Value]bool{}
	for i := 0; i < 16; i++ {
		val := []bool{i&1 != 0, i&2 != 0, i&4 != 0, i&8 != 0}
		w := newWalker(&c19Walker{atom: atom, val: val, ret: func(*ssa.Return, *c19Walker) string { return "" },
			stop: func(b *ssa.BasicBlock, w *c19Walker) (string, bool) {
				if b != l.hdr {
					return "", false
				}
				w.from[l.hdr] = w.path[len(w.path)-1]
				for _, pb := range append(append([]*ssa.BasicBlock{}, w.path...), l.hdr) {
					for _, in := range pb.Instrs {
						switch x := in.(type) {
						case *ssa.Store:
							dirty[c19Cell(x.Addr)] = true
						case *ssa.Phi:
							if e := w.phiEdge(x); e == nil || w.res(e) != ssa.Value(x) {
								dirty[x] = true
							}
						}
					}
				}
				delete(w.from, l.hdr)
				return "", true
			}})
		w.run(l.body, l.hdr)
	}

	// ---- after the loop
	var carrier *c19Carrier // the variable whose Output/Err are returned as the failure
	var failPos, ctxPos token.Pos
	retAfter := func(r *ssa.Return, w *c19Walker) string {
		vals := c19RetVals(r)
		if len(vals) != 2 {
			return "other"
		}
		for i := range vals {
			vals[i] = w.res(vals[i])
		}
		switch {
		case s.isCtxErr(nil, vals[1]):
			ctxPos = posOf(r)
			return "ctx"
		case an.IsNilConst(vals[1]):
			return "nil-error"
		}
		k, st := l.carrierOf(w, vals)
		switch {
		case k != nil && (carrier == nil || carrier.same(k)):
			carrier, failPos = k, posOf(r)
			return "failure"
		case k != nil:
			return "?failure kept in more than one variable"
		case st == "unknown":
			failPos = posOf(r)
			return "?failure kept in a form that is not followed"
		case st == "never":
			failPos = posOf(r)
			return "failure variable that never receives a result"
		}
		if call, ok := an.Unwrap(vals[1]).(*ssa.Call); ok && an.Static("app/errors.New")(&call.Call) {
			return "internal-error"
		}
		return "other"
	}
	// after the loop there is no current result: only the context test is decided
	ctxAtom := func(w *c19Walker, v ssa.Value) (int, bool, bool) {
		if id, neg, ok := atom(w, v); ok && id == 0 {
			return id, neg, true
		}
		return 0, false, false
	}
	afterOut := map[bool]map[string]bool{}
	for _, ctxNil := range []bool{true, false} {
		w := newWalker(&c19Walker{atom: ctxAtom, val: []bool{ctxNil, false, false, false}, ret: retAfter, dirty: dirty,
			stop: func(b *ssa.BasicBlock, _ *c19Walker) (string, bool) {
				return "re-enters loop", b == l.hdr || l.inLoop(b)
			}})
		w.run(l.exit, l.hdr)
		afterOut[ctxNil] = w.out
	}
	exitPos := posOf(l.exit.Instrs[0])
	if !ctxPos.IsValid() {
		ctxPos = exitPos
	}
	if u := c19HasUnsure(afterOut[false]); u != "" && !afterOut[false]["nil-error"] {
		c.Unsure("runForkJoin after-loop context test", ctxPos, "cannot follow the code after the result loop: "+u)
	} else {
		c.Check("runForkJoin after-loop context test", ctxPos, c19Is1(afterOut[false], "ctx"),
			"with the caller's context cancelled the code after the result loop yields "+c19Set(afterOut[false])+" instead of returning ctx.Err()")
	}
	okAfter := afterOut[true]["failure"]
	for k := range afterOut[true] {
		if k != "failure" && k != "internal-error" {
			okAfter = false
		}
	}
	if !failPos.IsValid() {
		failPos = exitPos
	}
	if u := c19HasUnsure(afterOut[true]); u != "" && !afterOut[true]["nil-error"] && !afterOut[true]["ctx"] && !afterOut[true]["other"] {
		c.Unsure("runForkJoin after-loop failure return", failPos, "cannot decide what is returned after the result loop: "+strings.TrimPrefix(u, "?"))
	} else {
		c.Check("runForkJoin after-loop failure return", failPos, okAfter,
			"with a live context the code after the result loop yields "+c19Set(afterOut[true])+
				": it must return output and error of the failing result recorded inside the loop (nil error or another value hides that all nodes failed)")
	}

	// ---- inside the loop, per received result
	var succPos, firstRet token.Pos
	retIn := func(r *ssa.Return, w *c19Walker) string {
		vals := c19RetVals(r)
		if !firstRet.IsValid() {
			firstRet = posOf(r)
		}
		if len(vals) != 2 {
			return "other return"
		}
		for i := range vals {
			vals[i] = w.res(vals[i])
		}
		switch {
		case an.IsNilConst(vals[1]) && l.resField(w, vals[0], "Output"):
			succPos = posOf(r)
			return "success"
		case s.isCtxErr(nil, vals[1]):
			return "ctx"
		case an.IsNilConst(vals[1]):
			return "nil-error return of something else than res.Output"
		}
		return "error return"
	}
	stopIn := func(b *ssa.BasicBlock, w *c19Walker) (string, bool) {
		if b == l.hdr {
			if carrier != nil && !l.recorded(carrier, w) {
				return "next result (failure NOT recorded)", true
			}
			return "next result (failure recorded)", true
		}
		// leaving the loop by break: what happens to this result is decided by the code after the loop
		return "", false
	}
	type row struct {
		val []bool
		out map[string]bool
	}
	var rows []row
	unknown := map[*ssa.If]bool{}
	for i := 0; i < 16; i++ {
		val := []bool{i&1 != 0, i&2 != 0, i&4 != 0, i&8 != 0}
		w := newWalker(&c19Walker{atom: atom, val: val, ret: retIn, stop: stopIn, unknown: unknown, dirty: dirty})
		w.run(l.body, l.hdr)
		// the body block itself is part of the iteration: start is walked from its terminator, which is right
		rows = append(rows, row{val, w.out})
	}
	desc := func(v []bool) string {
		f := func(b bool, t, e string) string {
			if b {
				return t
			}
			return e
		}
		d := f(v[0], "ctx live", "ctx cancelled") + ", " + f(v[1], "res.Err == nil", "res.Err != nil") + ", " + f(v[2], "isSuccessFunc true", "isSuccessFunc false")
		if used3 {
			d += ", " + f(v[3], "isSuccessFunc is nil", "isSuccessFunc is set")
		}
		return d
	}
	loopPos := posOf(l.hdr.Instrs[0])
	sOK, sWhy := true, ""
	cOK, cWhy := true, ""
	fOK, fWhy := true, ""
	unsure := ""
	for _, r := range rows {
		if u := c19HasUnsure(r.out); u != "" {
			unsure = "for a result with [" + desc(r.val) + "] the loop body cannot be followed (" + strings.TrimPrefix(u, "?") + ")"
		}
		switch {
		case !r.val[0]:
			if !c19Is1(r.out, "ctx") {
				cOK, cWhy = false, "for a result received with ["+desc(r.val)+"] the loop body yields "+c19Set(r.out)+" instead of returning ctx.Err()"
			}
		case r.val[1] && (r.val[2] || (used3 && r.val[3])):
			if !c19Is1(r.out, "success") {
				sOK, sWhy = false, "for a result with ["+desc(r.val)+"] the loop body yields "+c19Set(r.out)+
					" instead of returning res.Output, nil at once: the call waits for the remaining (slow or hung) nodes"
			}
		default:
			if r.out["success"] {
				sOK, sWhy = false, "a result with ["+desc(r.val)+"] is returned as the successful answer"
			}
			if !c19Is1(r.out, "next result (failure recorded)") {
				fOK, fWhy = false, "for a result with ["+desc(r.val)+"] the loop body yields "+c19Set(r.out)+
					" instead of recording it and waiting for the next node's result: one node's failure decides the call although another node may still answer"
			}
		}
	}
	if !succPos.IsValid() {
		succPos = firstRet
	}
	if !succPos.IsValid() {
		succPos = loopPos
	}
	if unsure != "" {
		c.Unsure("runForkJoin result loop", loopPos, unsure)
		return
	}
	c.Check("runForkJoin success return", succPos, sOK, sWhy)
	c.Check("runForkJoin in-loop context test", loopPos, cOK, cWhy)
	c.Check("runForkJoin in-loop failure handling", loopPos, fOK, fWhy)
	c.Good("runForkJoin result loop", loopPos, fmt.Sprintf("16 valuations of (ctx, res.Err, isSuccessFunc, predicate nil) explored, %d other conditions followed on both edges", len(unknown)))
}

func c19Y3(c *rt.Ctx) {
	s := c19Resolve(c)
	p := s.provide
	for _, ci := range s.strayCalls {
		c.Bad("provide runForkJoin call", ci.Pos(), "runForkJoin is deferred, started as a goroutine or called from a nested function")
	}
	var prim, fbs []*ssa.Call
	for _, call := range s.runCalls {
		arg := call.Call.Args[s.listIdx]
		switch {
		case c19Only(arg, s.clients):
			prim = append(prim, call)
		case c19Only(arg, s.fallbacks):
			fbs = append(fbs, call)
		default:
			// part of one of the lists (clients[:1], ...) is a violation; a list of unknown provenance is not decided
			partial := false
			for _, o := range c19Origins(arg) {
				for i := 0; i < 4; i++ {
					sl, ok := o.(*ssa.Slice)
					if !ok {
						break
					}
					o = an.Unwrap(sl.X)
				}
				if o == ssa.Value(s.clients) || o == ssa.Value(s.fallbacks) || an.IsNilConst(o) {
					partial = true
				}
			}
			if partial {
				c.Bad("provide runForkJoin call", call.Pos(), "runForkJoin is run over something other than the clients or the fallbacks parameter")
			} else {
				c.Unsure("provide runForkJoin call", call.Pos(), "runForkJoin is run over a list whose relation to the clients / fallbacks parameters is not followed")
			}
		}
	}
	if len(prim) != 1 {
		c.Bad("provide primary run", p.Pos(), fmt.Sprintf("expected exactly one runForkJoin(clients), found %d", len(prim)))
		return
	}
	P := prim[0]
	c.Good("provide primary run", P.Pos(), "runForkJoin(clients)")
	if len(fbs) != 1 {
		c.Bad("provide fallback run", P.Pos(), fmt.Sprintf("expected exactly one runForkJoin(fallbacks), found %d", len(fbs)))
		return
	}
	F := fbs[0]
	B := F.Block()
	c.Check("provide fallback run", F.Pos(), an.Dominates(P, F) && B != P.Block(), "the fallback run is not conditional on the outcome of the primary run")
	out, err := c19Extract(P, 0), c19Extract(P, 1)
	if err == nil {
		c.Bad("provide fallback guards (err != nil, len(fallbacks) != 0)", P.Pos(), "the error of the primary run is discarded")
		return
	}

	// atoms: 0 err==nil, 1 len(fallbacks)==0, 2.. classifier(err)
	atom := func(w *c19Walker, v ssa.Value) (int, bool, bool) {
		if x, neg, ok := c19NilCmp(v); ok {
			if w.only(x, err) {
				return 0, neg, true
			}
			return 0, false, false
		}
		if neg, ok := c19EmptyCmp(v, s.fallbacks, w); ok {
			return 1, neg, true
		}
		if call, ok := v.(*ssa.Call); ok && call.Call.StaticCallee() != nil && len(call.Call.Args) == 1 && w.only(call.Call.Args[0], err) {
			n := an.FuncName(call.Call.StaticCallee())
			for i, k := range c19Classifiers {
				if n == k {
					return 2 + i, false, true
				}
			}
		}
		return 0, false, false
	}
	type row struct {
		val []bool
		out map[string]bool
	}
	var rows []row
	unknown := map[*ssa.If]bool{}
	n := 2 + len(c19Classifiers)
	for i := 0; i < 1<<n; i++ {
		val := make([]bool, n)
		for j := range val {
			val[j] = i&(1<<j) != 0
		}
		w := &c19Walker{atom: atom, val: val, unknown: unknown,
			stop: func(b *ssa.BasicBlock, _ *c19Walker) (string, bool) { return "fallback", b == B },
			ret:  func(*ssa.Return, *c19Walker) string { return "no fallback" }}
		w.run(P.Block(), nil)
		rows = append(rows, row{val, w.out})
	}
	desc := func(v []bool) string {
		var parts []string
		if v[0] {
			parts = append(parts, "err == nil")
		} else {
			parts = append(parts, "err != nil")
		}
		if v[1] {
			parts = append(parts, "no fallbacks")
		} else {
			parts = append(parts, "fallbacks configured")
		}
		for i, k := range c19Classifiers {
			parts = append(parts, fmt.Sprintf("%s=%v", k[strings.LastIndex(k, ".")+1:], v[2+i]))
		}
		return strings.Join(parts, ", ")
	}
	y3Unsure := ""
	for _, r := range rows {
		if u := c19HasUnsure(r.out); u != "" {
			y3Unsure = "the code between the primary run and the fallback run cannot be followed under [" + desc(r.val) + "] (" + strings.TrimPrefix(u, "?") + ")"
		}
	}
	gOK, gWhy := true, ""
	eOK, eWhy := true, ""
	kOK := make([]bool, len(c19Classifiers))
	kWhy := make([]string, len(c19Classifiers))
	for i := range kOK {
		kOK[i] = true
	}
	for _, r := range rows {
		anyK := false
		for i := range c19Classifiers {
			anyK = anyK || r.val[2+i]
		}
		if len(r.out) != 1 && gOK {
			gOK, gWhy = false, "whether the fallbacks are consulted also depends on a condition other than err != nil, len(fallbacks) != 0 and the three classifiers (for ["+desc(r.val)+"] the outcome is "+c19Set(r.out)+")"
		}
		switch {
		case r.val[0] || r.val[1]:
			if !c19Is1(r.out, "no fallback") {
				gOK, gWhy = false, "with ["+desc(r.val)+"] provide yields "+c19Set(r.out)+": the fallback run is not confined to a failed primary run with fallbacks configured"
			}
		case !anyK:
			if !c19Is1(r.out, "no fallback") {
				eOK, eWhy = false, "with ["+desc(r.val)+"] provide yields "+c19Set(r.out)+": the fallbacks are consulted for an error outside the timeout / syncing / bad-gateway classes"
			}
		default:
			for i, k := range c19Classifiers {
				if r.val[2+i] && !r.out["fallback"] {
					kOK[i], kWhy[i] = false, "with ["+desc(r.val)+"] provide yields "+c19Set(r.out)+": an error of class "+k[strings.LastIndex(k, ".")+1:]+" does not lead to the fallback run"
				}
			}
		}
	}
	if y3Unsure != "" {
		c.Unsure("provide fallback guards (err != nil, len(fallbacks) != 0)", F.Pos(), y3Unsure)
	} else {
		c.Check("provide fallback guards (err != nil, len(fallbacks) != 0)", F.Pos(), gOK, gWhy)
		c.Check("provide fallback entered only through the unavailability classifiers", F.Pos(), eOK, eWhy)
		for i, k := range c19Classifiers {
			c.Check("provide fallback classifier "+k[strings.LastIndex(k, ".")+1:], F.Pos(), kOK[i], kWhy[i])
		}
	}

	// what is returned
	rOK, rWhy := true, ""
	f0, f1 := c19Extract(F, 0), c19Extract(F, 1)
	nF := 0
	var chk func(vals []ssa.Value, at *ssa.BasicBlock, d int)
	chk = func(vals []ssa.Value, at *ssa.BasicBlock, d int) {
		if B.Dominates(at) {
			nF++
			if f0 == nil || f1 == nil || !c19Only(vals[0], f0) || !c19Only(vals[1], f1) {
				rOK, rWhy = false, "after the fallback run provide does not return the fallback run's output and error"
			}
			return
		}
		// values merged from several paths are decided per incoming edge
		var blk *ssa.BasicBlock
		if d < 4 {
			for _, v := range vals {
				if ph, ok := an.Unwrap(v).(*ssa.Phi); ok && len(ph.Edges) > 1 && (blk == nil || blk.Dominates(ph.Block())) {
					blk = ph.Block()
				}
			}
		}
		if blk != nil {
			for i, pred := range blk.Preds {
				sub := make([]ssa.Value, len(vals))
				for j, v := range vals {
					sub[j] = v
					if ph, ok := an.Unwrap(v).(*ssa.Phi); ok && ph.Block() == blk && i < len(ph.Edges) {
						sub[j] = ph.Edges[i]
					}
				}
				chk(sub, pred, d+1)
			}
			return
		}
		if out == nil || !c19Only(vals[0], out) || !c19Only(vals[1], err) {
			rOK, rWhy = false, "without a fallback run provide does not return the primary run's output and error"
		}
	}
	for _, r := range an.Returns(p) {
		vals := c19RetVals(r)
		if len(vals) != 2 {
			c.Bail("provide does not return (O, error)")
		}
		chk(vals, r.Block(), 0)
	}
	if nF == 0 {
		rOK, rWhy = false, "no return behind the fallback run"
	}
	c.Check("provide returns the run's result", p.Pos(), rOK, rWhy)

	c19Submit_(c, s)
}

func c19Submit_(c *rt.Ctx, s *c19Shape) {
	sub := c.Fn(c19Submit)
	if len(sub.Params) != 5 {
		c.Bail("submit: expected 5 parameters, found %d", len(sub.Params))
	}
	calls := an.Calls(sub, an.Static(c19Provide), true)
	if len(calls) != 1 || calls[0].Parent() != sub {
		c.Bad("submit delegates to provide", sub.Pos(), fmt.Sprintf("submit does not call provide exactly once (found %d calls)", len(calls)))
		return
	}
	pc := calls[0]
	a := pc.Common().Args
	good, why := true, ""
	if !c19Only(a[1], sub.Params[1]) || !c19Only(a[2], sub.Params[2]) {
		good, why = false, "submit does not hand its clients and fallbacks (in that order) to provide"
	}
	unsureCtx := ""
	if !c19Only(a[0], sub.Params[0]) {
		switch st, w := c19n4Derives(a[0], func(r ssa.Value) bool { return r == ssa.Value(sub.Params[0]) }); st {
		case rt.Violation:
			good, why = false, "submit does not hand its context to provide: "+w
		case rt.Undecided:
			unsureCtx = w
		}
	}
	// the work adapter calls submit's work with the node it was given and returns its error
	w, wrecv := c19FuncOf(a[3])
	var argsP *ssa.Parameter
	if w != nil {
		argsP = c19ArgsParam(w)
	}
	if w == nil || len(w.Blocks) == 0 || argsP == nil || !(w.Parent() == sub || (w.Parent() == nil && w.Pkg == sub.Pkg && w.Synthetic == "")) {
		c.Unsure("submit delegates to provide", pc.Pos(), "the work function handed to provide is not an adapter (literal of submit, function or method of the package) that is followed")
		return
	} else {
		// submit's work function as seen inside the adapter: captured, or the bound receiver of a method value
		isWork := func(v ssa.Value) bool {
			if c19Only(v, sub.Params[3]) {
				return true
			}
			return wrecv != nil && len(w.Params) > 0 && c19Only(v, w.Params[0]) && c19Only(wrecv, sub.Params[3])
		}
		var wc []*ssa.Call
		for _, in := range an.Instrs(w, true) {
			if call, ok := in.(*ssa.Call); ok && !call.Call.IsInvoke() && call.Call.StaticCallee() == nil && isWork(call.Call.Value) {
				wc = append(wc, call)
			}
		}
		if len(wc) != 1 || wc[0].Parent() != w || len(wc[0].Call.Args) != 2 || !c19Only(wc[0].Call.Args[1], argsP) {
			good, why = false, "the adapter does not call submit's work function exactly once with the node arguments it received"
		} else {
			for _, r := range c19Returns(w) {
				vals := c19RetVals(r)
				if len(vals) != 2 {
					good, why = false, "the adapter does not return (empty, error)"
				} else if ok, _ := c19Outcome(r, []ssa.Value{vals[0]}, wc[0]); !ok {
					good, why = false, "the adapter does not return the error of submit's work function: failed submissions count as successes"
				}
			}
		}
	}
	e1 := c19Extract(pc, 1)
	for _, r := range c19Returns(sub) {
		if !an.Dominates(pc, r) {
			continue
		}
		if ok, _ := c19Outcome(r, nil, e1); !ok {
			good, why = false, "submit does not return provide's error"
		}
	}
	if good && unsureCtx != "" {
		c.Unsure("submit delegates to provide", pc.Pos(), "the context submit hands to provide: "+unsureCtx)
		return
	}
	c.Check("submit delegates to provide", pc.Pos(), good, why)
}

func c19Y4(c *rt.Ctx) {
	pkg := c.Pkg(c19Pkg)
	obj, _ := pkg.Types.Scope().Lookup("multi").(*types.TypeName)
	if obj == nil {
		c.Bail("type eth2wrap.multi not found")
	}
	named, ok := obj.Type().(*types.Named)
	if !ok {
		c.Bail("eth2wrap.multi is not a named type")
	}
	st, ok := named.Underlying().(*types.Struct)
	if !ok {
		c.Bail("eth2wrap.multi is not a struct")
	}
	have := map[string]bool{}
	for i := 0; i < st.NumFields(); i++ {
		have[st.Field(i).Name()] = true
	}
	if !have["clients"] || !have["fallbacks"] {
		c.Bail("eth2wrap.multi has no clients / fallbacks fields")
	}
	isList := func(k string) bool { return k == c19Clients || k == c19Fallbk }

	owned := map[*ssa.Function]bool{} // methods of multi and their literals
	var methods []*ssa.Function
	for i := 0; i < named.NumMethods(); i++ {
		fn := c.P.SSA.FuncValue(named.Method(i))
		if fn == nil || fn.Blocks == nil {
			c.Bail("no SSA body for multi.%s", named.Method(i).Name())
		}
		methods = append(methods, fn)
		for _, g := range an.Closure(fn) {
			owned[g] = true
		}
	}
	sort.Slice(methods, func(i, j int) bool { return methods[i].Name() < methods[j].Name() })

	// Methods of multi are beacon API entry points when they can be reached from outside the package: exported
	// methods (Client interface, or any other interface satisfied structurally). Unexported methods that make no
	// provide/submit call are internal helpers: they may read the node lists only when every use of them lies in a
	// listed node-management helper (or in another such confined helper) - call-graph confinement.
	internal := map[*ssa.Function]bool{}
	delegates := map[*ssa.Function]bool{}
	for _, m := range methods {
		if _, listed := c19Helpers[m.Name()]; !listed && !token.IsExported(m.Name()) &&
			len(an.Calls(m, an.Static(c19Provide, c19Submit), true)) == 0 {
			internal[m] = true
		}
	}
	var deferred []*ssa.Function
	for _, m := range methods {
		name := "multi." + m.Name()
		if why, ok := c19Helpers[m.Name()]; ok {
			c.Good(name+" (node-management helper)", m.Pos(), why)
			continue
		}
		if internal[m] {
			continue
		}
		if !token.IsExported(m.Name()) {
			deferred = append(deferred, m) // an unexported method with a provide/submit call: fine as a verified delegate
			continue
		}
		st, why, delegate := c19APIMethod(m, isList)
		switch st {
		case rt.OK:
			if delegate != nil {
				// a helper that was verified to use the receiver's lists only for its single provide/submit call
				for _, g := range an.Closure(delegate) {
					owned[g] = true
				}
				delegates[delegate] = true
				why = "through " + an.FuncName(delegate)
			}
			c.Good(name+" via provide/submit", m.Pos(), why)
		case rt.Undecided:
			c.Unsure(name+" via provide/submit", m.Pos(), why)
		default:
			c.Bad(name+" via provide/submit", m.Pos(), why)
		}
	}
	for _, m := range deferred {
		if delegates[m] {
			c.Good("multi."+m.Name()+" (provide/submit delegate of API methods)", m.Pos(), "")
		} else {
			c.Unsure("multi."+m.Name()+" via provide/submit", m.Pos(), "unexported method with a provide/submit call that no API method was found to delegate to")
		}
	}
	// confinement of the internal helpers
	root := func(f *ssa.Function) *ssa.Function {
		for f.Parent() != nil {
			f = f.Parent()
		}
		return an.Orig(f)
	}
	isMethod := map[*ssa.Function]bool{}
	for _, m := range methods {
		isMethod[m] = true
	}
	for _, m := range methods {
		if !internal[m] {
			continue
		}
		name := "multi." + m.Name() + " (internal helper)"
		if !c19ListUse(m, isList) {
			c.Good(name, m.Pos(), "does not read the node lists")
			continue
		}
		st, why := rt.OK, ""
		for _, fn := range an.PkgFuncs(c.SSAPkg(c19Pkg)) {
			for _, in := range an.Instrs(fn, false) {
				uses := false
				for _, op := range an.Operands(in) {
					if f, ok := op.(*ssa.Function); ok && an.Orig(f) == m {
						uses = true
					}
					if mc, ok := op.(*ssa.MakeClosure); ok {
						if f, ok := mc.Fn.(*ssa.Function); ok {
							if obj, ok := f.Object().(*types.Func); ok && f.Synthetic != "" && f.Prog.FuncValue(obj) == m {
								uses = true
							}
						}
					}
				}
				if !uses {
					continue
				}
				r := root(fn)
				_, listed := c19Helpers[r.Name()]
				switch {
				case isMethod[r] && listed, isMethod[r] && internal[r]:
				default:
					st, why = rt.Violation, "reads the node lists directly and is used by "+an.FuncName(fn)+", which is not one of the listed node-management helpers: nodes are reached outside the fork-join/fallback mechanism"
				}
			}
		}
		if st == rt.OK {
			c.Good(name, m.Pos(), "reads the node lists; used only by node-management helpers")
		} else {
			c.Bad(name, m.Pos(), why)
		}
	}

	// nothing outside multi's methods reads the node lists
	sOK, sWhy, sPos := true, "", token.NoPos
	for _, fn := range an.PkgFuncs(c.SSAPkg(c19Pkg)) {
		if owned[fn] {
			continue
		}
		for _, in := range an.Instrs(fn, false) {
			switch x := in.(type) {
			case *ssa.Field:
				if isList(an.FieldKey(x.X.Type(), x.Field)) {
					sOK, sWhy, sPos = false, an.FuncName(fn)+" reads the node lists of multi directly", x.Pos()
				}
			case *ssa.FieldAddr:
				if !isList(an.FieldKey(x.X.Type(), x.Field)) {
					continue
				}
				for _, ref := range *x.Referrers() {
					if stt, ok := ref.(*ssa.Store); !ok || stt.Addr != ssa.Value(x) {
						sOK, sWhy, sPos = false, an.FuncName(fn)+" reads the node lists of multi directly", x.Pos()
					}
				}
			}
		}
	}
	c.Check("only multi's methods read multi.clients / multi.fallbacks", sPos, sOK, sWhy)
}

// c19ListUse reports whether fn (or a literal of it) touches multi.clients / multi.fallbacks by an instruction
// other than those in except.
func c19ListUse(fn *ssa.Function, isList func(string) bool, except ...ssa.Instruction) bool {
	for _, in := range an.Instrs(fn, true) {
		skip := false
		for _, e := range except {
			if in == e {
				skip = true
			}
		}
		if skip {
			continue
		}
		switch x := in.(type) {
		case *ssa.Field:
			if isList(an.FieldKey(x.X.Type(), x.Field)) {
				return true
			}
		case *ssa.FieldAddr:
			if isList(an.FieldKey(x.X.Type(), x.Field)) {
				return true
			}
		}
	}
	return false
}

// c19Frame decides, for a function fn working on the multi value recv (its receiver, or the parameter through
// which a method handed its receiver on): fn makes exactly one provide/submit call, with recv's clients and
// fallbacks, uses the lists for nothing else and returns the call's outcome. It returns the call.
func c19Frame(fn *ssa.Function, recv ssa.Value, isList func(string) bool) (pc *ssa.Call, st, why string) {
	bad := func(w string) (*ssa.Call, string, string) { return nil, rt.Violation, w }
	calls := an.Calls(fn, an.Static(c19Provide, c19Submit), true)
	if len(calls) != 1 {
		return bad(fmt.Sprintf("not a listed helper, and it makes %d provide/submit calls instead of exactly one: the node lists are used outside the fork-join/fallback mechanism", len(calls)))
	}
	pc, isCall := calls[0].(*ssa.Call)
	if !isCall || pc.Parent() != fn {
		return bad("provide/submit is deferred, started as a goroutine or called from a nested function")
	}
	isSubmit := an.FuncName(pc.Call.StaticCallee()) == c19Submit
	a := pc.Call.Args
	argField := func(v ssa.Value, key string) (ssa.Instruction, bool) {
		k, base, ok := c19FieldRead(v)
		if !ok || k != key || !c19HoldsOnly(base, recv) {
			return nil, false
		}
		switch x := an.Unwrap(v).(type) {
		case *ssa.UnOp:
			return x.X.(*ssa.FieldAddr), true
		case *ssa.Field:
			return x, true
		}
		return nil, false
	}
	rdC, okC := argField(a[1], c19Clients)
	rdF, okF := argField(a[2], c19Fallbk)
	if !okC {
		return bad("the primary list handed to provide/submit is not the receiver's clients")
	}
	if !okF {
		return bad("the fallback list handed to provide/submit is not the receiver's fallbacks")
	}
	// no other use of the node lists in the function or its literals
	if c19ListUse(fn, isList, rdC, rdF) {
		return bad("the method touches the node lists directly besides handing them to provide/submit")
	}
	if fa, ok := rdC.(*ssa.FieldAddr); ok && len(*fa.Referrers()) != 1 {
		return bad("the receiver's clients list is used besides being handed to provide/submit")
	}
	if fa, ok := rdF.(*ssa.FieldAddr); ok && len(*fa.Referrers()) != 1 {
		return bad("the receiver's fallbacks list is used besides being handed to provide/submit")
	}
	// fn returns the outcome
	var mAns []ssa.Value
	var errv ssa.Value = pc
	if !isSubmit {
		mAns, errv = []ssa.Value{c19Extract(pc, 0)}, c19Extract(pc, 1)
	}
	if st, why := c19ReturnsOutcome(fn, pc, c19Src{mAns, errv}, "provide/submit"); st != rt.OK {
		return nil, st, why
	}
	return pc, rt.OK, ""
}

// c19ReturnsOutcome: every return of fn behind call hands back the call's outcome; returns that cannot follow
// the call never report success.
func c19ReturnsOutcome(fn *ssa.Function, call *ssa.Call, src c19Src, what string) (string, string) {
	nAfter := 0
	for _, r := range c19Returns(fn) {
		if !an.Dominates(call, r) {
			if an.InstrReaches(call, r) {
				return rt.Undecided, "a return of the method is reachable both with and without the " + what + " call"
			}
			// early exit before any node is contacted (argument preparation failed): must not report success
			vals := c19RetVals(r)
			if len(vals) > 0 && an.IsNilConst(vals[len(vals)-1]) {
				return rt.Violation, "the method can return success without contacting a node"
			}
			continue
		}
		nAfter++
		if ok, w := c19Outcome(r, src.answers, src.err); !ok {
			if w == "error" {
				return rt.Violation, "the method does not return the error of " + what + " (possibly wrapped): a failed call is reported as success"
			}
			return rt.Violation, "the method does not return the answer obtained through provide"
		}
	}
	if nAfter == 0 {
		return rt.Violation, "no return after the " + what + " call"
	}
	return rt.OK, ""
}

// c19FuncOf resolves a function value to its function: a literal, a package function, or (for a method value
// `x.m`) the method itself together with the bound receiver.
func c19FuncOf(v ssa.Value) (fn *ssa.Function, recv ssa.Value) {
	switch x := an.Resolve(v).(type) {
	case *ssa.MakeClosure:
		f, _ := x.Fn.(*ssa.Function)
		if f != nil && strings.HasPrefix(f.Synthetic, "bound method wrapper") && len(x.Bindings) == 1 {
			if obj, ok := f.Object().(*types.Func); ok && f.Prog != nil {
				if real := f.Prog.FuncValue(obj); real != nil {
					return real, x.Bindings[0]
				}
			}
		}
		return f, nil
	case *ssa.Function:
		return x, nil
	}
	return nil, nil
}

// c19ArgsParam returns the single parameter of w of type provideArgs.
func c19ArgsParam(w *ssa.Function) *ssa.Parameter {
	var out *ssa.Parameter
	for _, p := range w.Params {
		if an.TypeName(p.Type()) == c19Pkg+".provideArgs" {
			if out != nil {
				return nil
			}
			out = p
		}
	}
	return out
}

// c19WorkFn decides the obligation on the work function wv handed to provide/submit: a function of the package
// (a literal of one of the owners, or a package-level function) that calls the method `name` of args.client
// exactly once per execution and returns its outcome.
func c19WorkFn(wv ssa.Value, owners []*ssa.Function, name string) (string, string) {
	bad := func(why string) (string, string) { return rt.Violation, why }
	unsure := func(why string) (string, string) { return rt.Undecided, why }
	w, _ := c19FuncOf(wv)
	var argsP *ssa.Parameter
	if w != nil {
		argsP = c19ArgsParam(w)
	}
	if w == nil || len(w.Blocks) == 0 || argsP == nil {
		return unsure("the work function handed to provide/submit cannot be resolved to a function taking (ctx, provideArgs)")
	}
	owned := w.Parent() == nil && w.Pkg == owners[0].Pkg && w.Synthetic == ""
	for _, o := range owners {
		if w.Parent() == o {
			owned = true
		}
	}
	if !owned {
		return unsure("the work function is neither a literal of the method nor a function of the package")
	}
	var inv []*ssa.Call
	for _, in := range an.Instrs(w, true) {
		ci, ok := in.(ssa.CallInstruction)
		if !ok || !ci.Common().IsInvoke() || an.TypeName(ci.Common().Value.Type()) != c19Client {
			continue
		}
		call, isCall := ci.(*ssa.Call)
		if !isCall || call.Parent() != w {
			return bad("a beacon node method is deferred, started as a goroutine or called from a nested literal inside the work function")
		}
		inv = append(inv, call)
	}
	if len(inv) == 0 {
		return bad("the work function makes 0 beacon node calls instead of exactly one")
	}
	// exactly one call per execution: no call can be followed by another (or by itself)
	for _, x := range inv {
		for _, y := range inv {
			if an.InstrReaches(x, y) {
				return bad(fmt.Sprintf("the work function makes %d beacon node calls instead of exactly one: a node can be called more than once per request", len(inv)))
			}
		}
	}
	var srcs []c19Src
	for _, call := range inv {
		if call.Call.Method.Name() != name {
			return bad("the work function calls " + call.Call.Method.Name() + " instead of the same-named method " + name)
		}
		if k, base, ok := c19FieldRead(call.Call.Value); !ok || k != c19ArgCl || !c19HoldsOnly(base, argsP) {
			return bad("the beacon node called is not args.client of the work function's own argument")
		}
		nres := call.Call.Signature().Results().Len()
		src := c19Src{err: call}
		if nres != 1 {
			for i := 0; i < nres-1; i++ {
				src.answers = append(src.answers, c19Extract(call, i))
			}
			src.err = c19Extract(call, nres-1)
		}
		srcs = append(srcs, src)
	}
	wr := c19Returns(w)
	if len(wr) == 0 {
		return bad("the work function never returns")
	}
	for _, r := range wr {
		var before []c19Src
		for i, call := range inv {
			if an.InstrReaches(call, r) {
				before = append(before, srcs[i])
			}
		}
		if len(before) == 0 {
			// exit before the node is called: must not report success
			vals := c19RetVals(r)
			if len(vals) > 0 && an.IsNilConst(vals[len(vals)-1]) {
				return bad("the work function can return success without calling the node")
			}
			continue
		}
		if ok, what := c19OutcomeOf(c19RetVals(r), r.Block(), before, 0); !ok {
			if what == "error" {
				return bad("the work function does not return the node's error")
			}
			return bad("the work function does not return the node's answer")
		}
	}
	return rt.OK, ""
}

// c19APIMethod decides the Y4 obligation for one beacon API method of multi: rt.OK, rt.Violation or
// rt.Undecided (a shape that is not followed) with the reason. When the method reaches provide/submit through
// an in-package helper to which it hands its receiver, that helper is returned as delegate.
func c19APIMethod(m *ssa.Function, isList func(string) bool) (st, why string, delegate *ssa.Function) {
	if len(m.Params) == 0 {
		return rt.Violation, "method without receiver parameter", nil
	}
	recv := m.Params[0]
	if len(an.Calls(m, an.Static(c19Provide, c19Submit), true)) == 0 && !c19ListUse(m, isList) {
		// the whole receiver handed to an in-package function: the call may have been moved into a helper
		var dcs []*ssa.Call
		var idxs []int
		for _, in := range an.Instrs(m, true) {
			ci, ok := in.(ssa.CallInstruction)
			if !ok || ci.Common().IsInvoke() {
				continue
			}
			f := an.Orig(ci.Common().StaticCallee())
			if f == nil || f.Pkg != m.Pkg || len(f.Blocks) == 0 {
				continue
			}
			for i, a := range ci.Common().Args {
				if a == ssa.Value(recv) || c19Only(a, recv) || c19HoldsOnly(a, recv) {
					call, isCall := ci.(*ssa.Call)
					if !isCall || call.Parent() != m {
						return rt.Undecided, "the method hands its receiver to " + an.FuncName(f) + " from a nested function / defer / goroutine", nil
					}
					dcs, idxs = append(dcs, call), append(idxs, i)
				}
			}
		}
		if len(dcs) == 1 {
			dc, h := dcs[0], an.Orig(dcs[0].Call.StaticCallee())
			if len(h.Params) != len(dc.Call.Args) {
				return rt.Undecided, "the method hands its receiver to " + an.FuncName(h) + ", which is not followed", nil
			}
			pc, st, why := c19Frame(h, h.Params[idxs[0]], isList)
			if st != rt.OK {
				return st, "through " + an.FuncName(h) + ": " + why, nil
			}
			// the work function: a parameter of the helper bound at the method's call, or the helper's own literal
			wv := an.Resolve(pc.Call.Args[3])
			owners := []*ssa.Function{m, h}
			if p, ok := wv.(*ssa.Parameter); ok {
				for i, q := range h.Params {
					if q == p {
						wv = dc.Call.Args[i]
					}
				}
			}
			if st, why := c19WorkFn(wv, owners, m.Name()); st != rt.OK {
				return st, why, nil
			}
			src := c19Src{err: dc}
			if n := dc.Call.Signature().Results().Len(); n != 1 {
				src = c19Src{err: c19Extract(dc, n-1)}
				for i := 0; i < n-1; i++ {
					src.answers = append(src.answers, c19Extract(dc, i))
				}
			}
			if st, why := c19ReturnsOutcome(m, dc, src, an.FuncName(h)); st != rt.OK {
				return st, why, nil
			}
			return rt.OK, "", h
		}
		if len(dcs) > 1 {
			return rt.Undecided, "the method hands its receiver to several in-package functions, which are not followed", nil
		}
	}
	pc, st, why := c19Frame(m, recv, isList)
	if st != rt.OK {
		return st, why, nil
	}
	st, why = c19WorkFn(pc.Call.Args[3], []*ssa.Function{m}, m.Name())
	return st, why, nil
}
