package rules

import (
	"go/types"

	"golang.org/x/tools/go/ssa"

	"charonverif/internal/an"
	"charonverif/internal/rt"
)

// C04 additions from round-2 seeded changes: liveness also rests on the consensus wrapper layer
// (core/consensus/qbft/transport.go) and on the round timer (core/consensus/timer/roundtimer.go).

func init() {
	Extend("C04", "(T9) the transport caches the values of EVERY received message before handing it to the instance (a member that missed the PRE-PREPARE learns the value from PREPARE/COMMIT); (T10) the eager round timer remembers the first deadline of a round on every path that computed it, so that the restart on a justified PRE-PREPARE extends the round.",
		c04Transport,
		Mutant{ID: "C04-T9-skip-values-of-prepare-commit", File: "core/consensus/qbft/transport.go", Expect: "T9",
			Old: "\t\tcase msg := <-outerBuffer:\n\t\t\tt.setValues(msg)\n",
			New: "\t\tcase msg := <-outerBuffer:\n\t\t\tif typ := msg.Type(); typ != qbft.MsgPrepare && typ != qbft.MsgCommit {\n\t\t\t\tt.setValues(msg)\n\t\t\t}\n"},
		Mutant{ID: "C04-T10-first-deadline-not-remembered", File: "core/consensus/timer/roundtimer.go", Expect: "T10",
			Old: "\t\t\tdeadline = t.clock.Now().Add(timeout)\n\t\t}\n\n\t\tt.firstDeadlines[round] = deadline\n\t}\n\n\ttimer := t.clock.NewTimer(deadline.Sub(t.clock.Now()))\n\n\treturn timer.Chan(), func() { timer.Stop() }\n}\n\n// linearRoundTimer",
			New: "\t\t\tdeadline = t.clock.Now().Add(timeout)\n\t\t\tt.firstDeadlines[round] = deadline\n\t\t}\n\t}\n\n\ttimer := t.clock.NewTimer(deadline.Sub(t.clock.Now()))\n\n\treturn timer.Chan(), func() { timer.Stop() }\n}\n\n// linearRoundTimer"},
		Mutant{ID: "C04-T9-forward-before-caching", File: "core/consensus/qbft/transport.go", Expect: "T9",
			Old: "\t\t\tt.setValues(msg)\n\n\t\t\tselect {\n\t\t\tcase <-ctx.Done():\n\t\t\t\treturn\n\t\t\tcase t.recvBuffer <- msg:\n\t\t\t\tt.sniffer.Add(msg.ToConsensusMsg())\n\t\t\t}\n",
			New: "\t\t\tselect {\n\t\t\tcase <-ctx.Done():\n\t\t\t\treturn\n\t\t\tcase t.recvBuffer <- msg:\n\t\t\t\tt.sniffer.Add(msg.ToConsensusMsg())\n\t\t\t}\n\n\t\t\tt.setValues(msg)\n"},
		Mutant{ID: "C04-T9-caches-only-when-buffer-has-room", File: "core/consensus/qbft/transport.go", Expect: "T9",
			Old: "\t\tcase msg := <-outerBuffer:\n\t\t\tt.setValues(msg)\n",
			New: "\t\tcase msg := <-outerBuffer:\n\t\t\tif len(t.recvBuffer) < cap(t.recvBuffer) {\n\t\t\t\tt.setValues(msg)\n\t\t\t}\n"},
		Mutant{ID: "C04-T10-first-deadline-under-next-round", File: "core/consensus/timer/roundtimer.go", Expect: "T10",
			Old: "\t\tt.firstDeadlines[round] = deadline\n\t}\n\n\ttimer := t.clock.NewTimer(deadline.Sub(t.clock.Now()))\n\n\treturn timer.Chan(), func() { timer.Stop() }\n}\n\n// linearRoundTimer",
			New: "\t\tt.firstDeadlines[round+1] = deadline\n\t}\n\n\ttimer := t.clock.NewTimer(deadline.Sub(t.clock.Now()))\n\n\treturn timer.Chan(), func() { timer.Stop() }\n}\n\n// linearRoundTimer"},
		Mutant{ID: "C04-T10-first-deadline-only-from-genesis", File: "core/consensus/timer/roundtimer.go", Expect: "T10",
			Old: "\t\t\tdeadline = dutyStart.Add(timeout)\n\t\t} else {\n\t\t\tdeadline = t.clock.Now().Add(timeout)\n\t\t}\n\n\t\tt.firstDeadlines[round] = deadline\n\t}\n\n\ttimer := t.clock.NewTimer(deadline.Sub(t.clock.Now()))\n\n\treturn timer.Chan(), func() { timer.Stop() }\n}\n\n// linearRoundTimer",
			New: "\t\t\tdeadline = dutyStart.Add(timeout)\n\t\t\tt.firstDeadlines[round] = deadline\n\t\t} else {\n\t\t\tdeadline = t.clock.Now().Add(timeout)\n\t\t}\n\t}\n\n\ttimer := t.clock.NewTimer(deadline.Sub(t.clock.Now()))\n\n\treturn timer.Chan(), func() { timer.Stop() }\n}\n\n// linearRoundTimer"})
}

func c04Transport(c *rt.Ctx) {
	c.Rule("T9", 1, func() {
		const (
			recvBuf = "core/consensus/qbft.transport.recvBuffer"
			setv    = "static:core/consensus/qbft.transport.setValues"
		)
		fn := c.Fn("core/consensus/qbft.transport.ProcessReceives")
		c.Fn("core/consensus/qbft.transport.setValues")
		isBuf := func(v ssa.Value) bool {
			k, _, ok := an.FieldOf(v)
			return ok && k == recvBuf
		}
		// every path of ProcessReceives (following in-package helpers that cache values or hand messages over):
		// a message handed to the inner buffer has had its values cached before, on that very path
		x := c04NewExec(c04Cfg{root: fn, isEvent: func(name string) bool { return name == setv }, evInstr: func(in ssa.Instruction) bool {
			switch s := in.(type) {
			case *ssa.Send:
				return isBuf(s.Chan)
			case *ssa.Select:
				for _, st := range s.States {
					if st.Dir == types.SendOnly && isBuf(st.Chan) {
						return true
					}
				}
			}
			return false
		}})
		trs := x.run()
		if x.err != "" {
			c.Bail("ProcessReceives: %s", x.err)
		}
		isBufT := func(t *c04T) bool { return t != nil && t.kind == 's' && t.op == "fld:"+recvBuf }
		sites := map[ssa.Instruction]string{}
		var order []ssa.Instruction
		for _, tr := range trs {
			for i, e := range tr.evs {
				var sent []*c04T
				switch e.kind {
				case "send":
					if isBufT(e.args[0]) {
						sent = append(sent, e.args[1])
					}
				case "select":
					for k, ch := range e.args {
						if k < len(e.sent) && e.sent[k] != nil && isBufT(ch) {
							sent = append(sent, e.sent[k])
						}
					}
				}
				for _, v := range sent {
					if _, seen := sites[e.in]; !seen {
						sites[e.in] = ""
						order = append(order, e.in)
					}
					cachedBefore := false
					for _, j := range tr.calls(setv) {
						if c := tr.evs[j]; j < i && len(c.args) >= 2 && tr.same(c.args[1], v) {
							cachedBefore = true
						}
					}
					if !cachedBefore && sites[e.in] == "" {
						sites[e.in] = "[" + tr.path() + "]"
					}
				}
			}
		}
		if len(order) == 0 {
			c.Bail("ProcessReceives: no hand-over to the inner buffer found")
		}
		for _, in := range order {
			c.Check("ProcessReceives caches values before forwarding", posOf(in), sites[in] == "",
				"a received message can reach the instance without its values having been cached: a member that did not receive the PRE-PREPARE cannot resolve the value hash of the PREPAREs/COMMITs it counts and its instance aborts with 'unknown value'; path "+sites[in])
		}
	})
	c.Rule("T10", 1, func() {
		fn := c.Fn("core/consensus/timer.doubleEagerLinearRoundTimer.Timer")
		const field = "core/consensus/timer.doubleEagerLinearRoundTimer.firstDeadlines"
		isMap := isFieldMap(field)
		x := c04NewExec(c04Cfg{root: fn, evInstr: func(in ssa.Instruction) bool {
			switch s := in.(type) {
			case *ssa.MapUpdate:
				return isMap(s.Map)
			case *ssa.Lookup:
				return isMap(s.X)
			}
			return false
		}})
		trs := x.run()
		if x.err != "" {
			c.Bail("Timer: %s", x.err)
		}
		isMapT := func(t *c04T) bool { return t != nil && t.kind == 's' && t.op == "fld:"+field }
		// the paths on which the first-deadline lookup for the round missed
		misses, good, why := 0, true, ""
		for _, tr := range trs {
			if tr.exit != "ret" {
				continue
			}
			var key, m *c04T
			for _, e := range tr.evs {
				if e.kind != "dec" || e.truth || !e.val.is("ext#1") || !e.val.args[0].is("lookup2") || !isMapT(e.val.args[0].args[0]) {
					continue
				}
				m, key = e.val.args[0].args[0], e.val.args[0].args[1]
			}
			if key == nil {
				continue
			}
			misses++
			stored := false
			for _, e := range tr.evs {
				if e.kind == "mapupdate" && tr.same(e.args[0], m) && tr.same(e.args[1], key) {
					stored = true
				}
			}
			if !stored && good {
				good, why = false, "on the first call for a round the computed deadline is not remembered on the path ["+tr.path()+"]: the restart after a justified PRE-PREPARE does not extend the round and later rounds can never complete"
			}
		}
		if misses == 0 {
			c.Bail("Timer: no path on which a comma-ok lookup of firstDeadlines misses")
		}
		c.Check("Timer remembers the first deadline of a round", fn.Pos(), good, why)
	})
}
