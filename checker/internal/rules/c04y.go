package rules

import (
	"go/types"

	"golang.org/x/tools/go/ssa"

	"charonverif/internal/an"
	"charonverif/internal/rt"
)

// C04 additions from round-2 seeded changes: liveness also rests on the consensus wrapper layer
// (core/consensus/qbft/transport.go) and on the round timer (core/consensus/timer/roundtimer.go).

func init() {
	Extend("C04", "(T9) the transport caches the values of EVERY received message before handing it to the instance (a member that missed the PRE-PREPARE learns the value from PREPARE/COMMIT); (T10) the eager round timer remembers the first deadline of a round on every path that computed it, so that the restart on a justified PRE-PREPARE extends the round.",
		c04Transport,
		Mutant{ID: "C04-T9-skip-values-of-prepare-commit", File: "core/consensus/qbft/transport.go", Expect: "T9",
			Old: "\t\tcase msg := <-outerBuffer:\n\t\t\tt.setValues(msg)\n",
			New: "\t\tcase msg := <-outerBuffer:\n\t\t\tif typ := msg.Type(); typ != qbft.MsgPrepare && typ != qbft.MsgCommit {\n\t\t\t\tt.setValues(msg)\n\t\t\t}\n"},
		Mutant{ID: "C04-T10-first-deadline-not-remembered", File: "core/consensus/timer/roundtimer.go", Expect: "T10",
			Old: "\t\t\tdeadline = t.clock.Now().Add(timeout)\n\t\t}\n\n\t\tt.firstDeadlines[round] = deadline\n\t}\n\n\ttimer := t.clock.NewTimer(deadline.Sub(t.clock.Now()))\n\n\treturn timer.Chan(), func() { timer.Stop() }\n}\n\n// linearRoundTimer",
			New: "\t\t\tdeadline = t.clock.Now().Add(timeout)\n\t\t\tt.firstDeadlines[round] = deadline\n\t\t}\n\t}\n\n\ttimer := t.clock.NewTimer(deadline.Sub(t.clock.Now()))\n\n\treturn timer.Chan(), func() { timer.Stop() }\n}\n\n// linearRoundTimer"})
}

func c04Transport(c *rt.Ctx) {
	c.Rule("T9", 1, func() {
		fn := c.Fn("core/consensus/qbft.transport.ProcessReceives")
		setv := c.Fn("core/consensus/qbft.transport.setValues")
		n := 0
		for _, in := range an.Instrs(fn, false) {
			// sends to the inner buffer: plain sends and select send states
			var sendVal ssa.Value
			var at ssa.Instruction
			switch x := in.(type) {
			case *ssa.Send:
				if k, _, ok := an.FieldOf(x.Chan); ok && k == "core/consensus/qbft.transport.recvBuffer" {
					sendVal, at = x.X, x
				}
			case *ssa.Select:
				for _, st := range x.States {
					if st.Dir == types.SendOnly {
						if k, _, ok := an.FieldOf(st.Chan); ok && k == "core/consensus/qbft.transport.recvBuffer" {
							sendVal, at = st.Send, x
						}
					}
				}
			}
			if at == nil {
				continue
			}
			n++
			// some call setValues(same msg) dominates the hand-over
			good := false
			for _, call := range an.Calls(fn, func(cc *ssa.CallCommon) bool { return cc.StaticCallee() == setv }, false) {
				ci := call.(ssa.Instruction)
				if an.Dominates(ci, at) && len(call.Common().Args) >= 2 && an.Equiv(an.Resolve(call.Common().Args[1]), an.Resolve(sendVal)) {
					good = true
				}
			}
			c.Check("ProcessReceives caches values before forwarding", posOf(at), good,
				"a received message can reach the instance without its values having been cached: a member that did not receive the PRE-PREPARE cannot resolve the value hash of the PREPAREs/COMMITs it counts and its instance aborts with 'unknown value'")
		}
		if n == 0 {
			c.Bail("ProcessReceives: no hand-over to the inner buffer found")
		}
	})
	c.Rule("T10", 1, func() {
		fn := c.Fn("core/consensus/timer.doubleEagerLinearRoundTimer.Timer")
		const field = "core/consensus/timer.doubleEagerLinearRoundTimer.firstDeadlines"
		var lks []*ssa.Lookup
		for _, in := range an.Instrs(fn, false) {
			if lk, ok := in.(*ssa.Lookup); ok && lk.CommaOk && isFieldMap(field)(lk.X) {
				lks = append(lks, lk)
			}
		}
		if len(lks) != 1 {
			c.Bail("Timer: expected one comma-ok lookup of firstDeadlines, found %d", len(lks))
		}
		lk := lks[0]
		var okv ssa.Value
		for _, ref := range *lk.Referrers() {
			if ex, ok := ref.(*ssa.Extract); ok && ex.Index == 1 {
				okv = ex
			}
		}
		if okv == nil {
			c.Bail("Timer: ok of the lookup unused")
		}
		newTimer := c.SomeCalls(fn, func(cc *ssa.CallCommon) bool { return cc.IsInvoke() && cc.Method.Name() == "NewTimer" }, "clock.NewTimer", false)
		good, why := false, "no branch on the first-deadline lookup"
		for _, cd := range an.CondsOn(fn, okv) {
			if cd.Other != nil {
				continue
			}
			miss := cd.Succ(false)
			// from the miss edge every path to NewTimer passes the store firstDeadlines[round] = …
			if len(miss.Instrs) == 0 {
				continue
			}
			isStore := func(x ssa.Instruction) bool {
				mu, ok := x.(*ssa.MapUpdate)
				return ok && isFieldMap(field)(mu.Map) && an.Equiv(mu.Key, lk.Index)
			}
			first := miss.Instrs[0]
			if isStore(first) {
				good = true
				continue
			}
			target := newTimer[0].(ssa.Instruction)
			path, esc := an.EscapePath(first, isStore, an.PassOpt{ExitAt: func(x ssa.Instruction) bool { return x == target }})
			good, why = !esc, "on the first call for a round the computed deadline is not remembered on path "+an.PathString(c.P, path)+": the restart after a justified PRE-PREPARE does not extend the round and later rounds can never complete"
		}
		c.Check("Timer remembers the first deadline of a round", lk.Pos(), good, why)
	})
}
