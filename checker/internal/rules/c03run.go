package rules

import (
	"fmt"
	"go/constant"
	"go/token"
	"go/types"
	"os"
	"strings"

	"golang.org/x/tools/go/ssa"

	"charonverif/internal/an"
	"charonverif/internal/rt"
)

// C03 scaffolding: resolution of the anchors of core/qbft.Run (the event loop, its state variables
// shared with the helper closures, the received message, the classify call and the broadcasts) and a
// few small SSA helpers. Self-contained so that the C03 rules do not depend on the internals of
// another property's rule file.

const c03P = "core/qbft"

// c03Strip removes type-argument lists: "core/qbft.Definition[I, V, C].Quorum" -> "core/qbft.Definition.Quorum".
func c03Strip(s string) string {
	var b strings.Builder
	depth := 0
	for _, r := range s {
		switch {
		case r == '[':
			depth++
		case r == ']':
			depth--
		case depth == 0:
			b.WriteRune(r)
		}
	}
	return b.String()
}

func c03Callee(cc *ssa.CallCommon) string { return c03Strip(an.CalleeName(cc)) }

// c03Static returns the call if v is a call of the static core/qbft function `name`.
func c03Static(v ssa.Value, name string) *ssa.Call {
	call, ok := an.Unwrap(v).(*ssa.Call)
	if !ok || call.Call.IsInvoke() || call.Call.StaticCallee() == nil {
		return nil
	}
	if c03Callee(&call.Call) != c03P+"."+name {
		return nil
	}
	return call
}

func c03LenArg(v ssa.Value) ssa.Value {
	call, ok := an.Unwrap(v).(*ssa.Call)
	if !ok {
		return nil
	}
	if b, ok := call.Call.Value.(*ssa.Builtin); ok && b.Name() == "len" && len(call.Call.Args) == 1 {
		return call.Call.Args[0]
	}
	return nil
}

func c03IsCmp(op token.Token) bool {
	switch op {
	case token.EQL, token.NEQ, token.LSS, token.LEQ, token.GTR, token.GEQ:
		return true
	}
	return false
}

func c03Flip(op token.Token) token.Token {
	switch op {
	case token.LSS:
		return token.GTR
	case token.LEQ:
		return token.GEQ
	case token.GTR:
		return token.LSS
	case token.GEQ:
		return token.LEQ
	}
	return op
}

// c03Threshold classifies v as a quorum threshold: "quorum" (Quorum()), "f" (Faulty()), "f+1",
// "derived" (other arithmetic over one of them); ok=false if unrelated.
func c03Threshold(v ssa.Value) (string, bool) {
	v = an.Resolve(v)
	if call, ok := v.(*ssa.Call); ok && !call.Call.IsInvoke() && call.Call.StaticCallee() != nil {
		switch c03Callee(&call.Call) {
		case c03P + ".Definition.Quorum":
			return "quorum", true
		case c03P + ".Definition.Faulty":
			return "f", true
		}
		return "", false
	}
	if bin, ok := v.(*ssa.BinOp); ok && !c03IsCmp(bin.Op) {
		kx, okx := c03Threshold(bin.X)
		ky, oky := c03Threshold(bin.Y)
		if !okx && !oky {
			return "", false
		}
		if bin.Op == token.ADD {
			if n, isC := an.ConstInt(bin.Y); okx && kx == "f" && isC && n == 1 {
				return "f+1", true
			}
			if n, isC := an.ConstInt(bin.X); oky && ky == "f" && isC && n == 1 {
				return "f+1", true
			}
		}
		return "derived", true
	}
	return "", false
}

func c03ParamOfType(c *rt.Ctx, fn *ssa.Function, typ string) *ssa.Parameter {
	var out *ssa.Parameter
	for _, p := range fn.Params {
		if c03Strip(an.TypeName(p.Type())) == typ {
			if out != nil {
				c.Bail("%s: several parameters of type %s", an.FuncName(fn), typ)
			}
			out = p
		}
	}
	if out == nil {
		c.Bail("%s: no parameter of type %s", an.FuncName(fn), typ)
	}
	return out
}

func c03ConstOf(c *rt.Ctx, pkgRel, name string) int64 {
	obj, ok := c.Pkg(pkgRel).Types.Scope().Lookup(name).(*types.Const)
	if !ok {
		c.Bail("constant %s.%s not found", pkgRel, name)
	}
	v, ok := constant.Int64Val(obj.Val())
	if !ok {
		c.Bail("constant %s.%s is not an integer", pkgRel, name)
	}
	return v
}

// c03ConstsOfType lists the values of the package-level constants of the named type, plus two values
// that no constant has (so that "any other value" is covered too).
func c03ConstsOfType(c *rt.Ctx, pkgRel, typeName string) []int64 {
	scope := c.Pkg(pkgRel).Types.Scope()
	seen := map[int64]bool{}
	var out []int64
	for _, n := range scope.Names() {
		k, ok := scope.Lookup(n).(*types.Const)
		if !ok {
			continue
		}
		nt, ok := k.Type().(*types.Named)
		if !ok || nt.Obj().Name() != typeName {
			continue
		}
		if v, ok := constant.Int64Val(k.Val()); ok && !seen[v] {
			seen[v] = true
			out = append(out, v)
		}
	}
	if len(out) == 0 {
		c.Bail("no constants of type %s.%s", pkgRel, typeName)
	}
	for _, extra := range []int64{-1, 1 << 20} {
		if !seen[extra] {
			out = append(out, extra)
		}
	}
	return out
}

// c03PhiWeb collects the phi web of v and its non-phi inputs.
func c03PhiWeb(v ssa.Value) (web map[*ssa.Phi]bool, inputs []ssa.Value) {
	web = map[*ssa.Phi]bool{}
	var walk func(x ssa.Value)
	walk = func(x ssa.Value) {
		if p, ok := x.(*ssa.Phi); ok {
			if web[p] {
				return
			}
			web[p] = true
			for _, e := range p.Edges {
				walk(e)
			}
			return
		}
		inputs = append(inputs, x)
	}
	walk(v)
	return
}

// c03PathAvoiding searches a path from just after `from` to `to` that does not execute an
// instruction satisfying stop.
func c03PathAvoiding(from, to ssa.Instruction, stop func(ssa.Instruction) bool) bool {
	if from.Parent() != to.Parent() {
		return false
	}
	idx := func(in ssa.Instruction) int {
		for i, x := range in.Block().Instrs {
			if x == in {
				return i
			}
		}
		return -1
	}
	seen := map[*ssa.BasicBlock]bool{}
	var walk func(b *ssa.BasicBlock, i int) bool
	walk = func(b *ssa.BasicBlock, i int) bool {
		for ; i < len(b.Instrs); i++ {
			if b.Instrs[i] == to {
				return true
			}
			if stop != nil && stop(b.Instrs[i]) {
				return false
			}
		}
		for _, s := range b.Succs {
			if seen[s] {
				continue
			}
			seen[s] = true
			if walk(s, 0) {
				return true
			}
		}
		return false
	}
	return walk(from.Block(), idx(from)+1)
}

// ---------------------------------------------------------------------------------------------

// c03Run resolves the anchors of core/qbft.Run.
type c03Run struct {
	c        *rt.Ctx
	fn       *ssa.Function
	all      []*ssa.Function
	recvMsg  ssa.Value // message received from t.Receive
	classify *ssa.Call
	ruleV    ssa.Value // classify result #0
	justV    ssa.Value // classify result #1
	eng      *c03Eng
	root     *c03Frame
	cfr      *c03Frame // activation in which classify is called (root, or a function literal with a unique call chain)

	framesMemo map[*ssa.Function][]*c03Frame
	framesBusy map[*ssa.Function]bool

	writersMemo map[*c03Cell]map[*ssa.Function]bool
	cellMemo    map[*ssa.UnOp]ssa.Value
	cellDone    map[*ssa.UnOp]bool

	entry     *ssa.Function            // core/qbft.Run
	pre       []*ssa.Function          // the functions executed on the way from Run to the event loop (Run itself excluded when it holds the loop)
	allSet    map[*ssa.Function]bool   // r.all as a set
	cells     map[c03Cell]*c03Cell     // interned state cells
	baseMemo  map[ssa.Value]*ssa.Alloc // state object a pointer value denotes
	baseBusy  map[ssa.Value]bool
	pkgFuncs  []*ssa.Function
	pvLinks   map[*c03Frame]c03Hop // helpers handing out the prepared value -> where their result is consumed
	building  bool
	sitesMemo map[*ssa.Function][]ssa.CallInstruction
}

// c03Cell is one state variable of the consensus instance: a local of the event-loop function shared
// with its function literals (field < 0), or a field of the state object the event-loop function and
// the functions it hands the object to work on.
type c03Cell struct {
	al    *ssa.Alloc
	field int
}

func c03NewRun(c *rt.Ctx) *c03Run {
	r := &c03Run{c: c, entry: c.Fn(c03P + ".Run"), writersMemo: map[*c03Cell]map[*ssa.Function]bool{},
		cellMemo: map[*ssa.UnOp]ssa.Value{}, cellDone: map[*ssa.UnOp]bool{},
		framesMemo: map[*ssa.Function][]*c03Frame{}, framesBusy: map[*ssa.Function]bool{},
		allSet: map[*ssa.Function]bool{}, cells: map[c03Cell]*c03Cell{}, baseMemo: map[ssa.Value]*ssa.Alloc{},
		baseBusy: map[ssa.Value]bool{}, pvLinks: map[*c03Frame]c03Hop{}, sitesMemo: map[*ssa.Function][]ssa.CallInstruction{}}
	r.pkgFuncs = an.PkgFuncs(r.entry.Pkg)
	// the event-loop function: Run, or the in-package function Run hands over to, that selects on Transport.Receive
	isRecv := func(st *ssa.SelectState) bool {
		if st.Dir != types.RecvOnly {
			return false
		}
		k, _, ok := an.FieldOf(st.Chan)
		return ok && c03Strip(k) == c03P+".Transport.Receive"
	}
	holdsLoop := func(f *ssa.Function) bool {
		for _, in := range an.Instrs(f, false) {
			if sel, ok := in.(*ssa.Select); ok {
				for _, st := range sel.States {
					if isRecv(st) {
						return true
					}
				}
			}
		}
		return false
	}
	var chain []*ssa.Function
	var find func(f *ssa.Function, path []*ssa.Function) bool
	find = func(f *ssa.Function, path []*ssa.Function) bool {
		path = append(path, f)
		if holdsLoop(f) {
			chain = append([]*ssa.Function(nil), path...)
			return true
		}
		if len(path) > 3 {
			return false
		}
		found := false
		for _, in := range an.Instrs(f, false) {
			ci, ok := in.(*ssa.Call)
			if !ok || ci.Call.IsInvoke() || ci.Call.StaticCallee() == nil {
				continue
			}
			g := an.Orig(ci.Call.StaticCallee())
			if g.Pkg != r.entry.Pkg || g.Blocks == nil || g == f {
				continue
			}
			onPath := false
			for _, q := range path {
				onPath = onPath || q == g
			}
			if onPath {
				continue
			}
			if find(g, path) {
				if found {
					c.Bail("Run: several event loops receiving from Transport.Receive")
				}
				found = true
			}
		}
		return found
	}
	if !find(r.entry, nil) {
		c.Bail("Run: receive from Transport.Receive not found")
	}
	r.fn = chain[len(chain)-1]
	r.pre = chain[:len(chain)-1]
	// the functions working on the instance state: the event-loop function, its function literals, and
	// (transitively) the in-package functions that are handed the state object
	add := func(f *ssa.Function) {
		for _, g := range an.Closure(f) {
			if !r.allSet[g] {
				r.allSet[g] = true
				r.all = append(r.all, g)
			}
		}
	}
	add(r.fn)
	r.building = true
	for i := 0; i < len(r.all); i++ {
		for _, in := range an.Instrs(r.all[i], false) {
			ci, ok := in.(ssa.CallInstruction)
			if !ok || ci.Common().IsInvoke() || ci.Common().StaticCallee() == nil {
				continue
			}
			g := an.Orig(ci.Common().StaticCallee())
			if g.Pkg != r.entry.Pkg || g.Blocks == nil || r.allSet[g] || g.Parent() != nil {
				continue
			}
			for _, a := range ci.Common().Args {
				if _, isPtr := a.Type().Underlying().(*types.Pointer); isPtr && r.stateBase(a) != nil {
					add(g)
					break
				}
			}
		}
	}
	// what was resolved while the set was still growing may be incomplete
	r.baseMemo = map[ssa.Value]*ssa.Alloc{}
	r.sitesMemo = map[*ssa.Function][]ssa.CallInstruction{}
	r.building = false
	for _, in := range an.Instrs(r.fn, false) {
		sel, ok := in.(*ssa.Select)
		if !ok {
			continue
		}
		n := 0
		for _, st := range sel.States {
			if st.Dir != types.RecvOnly {
				continue
			}
			if isRecv(st) {
				for _, ref := range *sel.Referrers() {
					if ex, ok := ref.(*ssa.Extract); ok && ex.Index == 2+n {
						if r.recvMsg != nil {
							c.Bail("Run: several receives from Transport.Receive")
						}
						r.recvMsg = ex
					}
				}
			}
			n++
		}
	}
	if r.recvMsg == nil {
		c.Bail("Run: receive from Transport.Receive not found")
	}
	r.eng = c03NewEng(r.fn.Pkg)
	r.eng.cellVal = r.cellValue
	r.eng.closureOf = r.closureOf
	r.root = r.eng.root(r.fn)
	var cl []ssa.CallInstruction
	for _, f := range r.all {
		cl = append(cl, an.Calls(f, func(cc *ssa.CallCommon) bool { return c03Callee(cc) == c03P+".classify" }, false)...)
	}
	if len(cl) != 1 {
		c.Bail("Run: expected exactly one classify call in the event loop and its function literals, found %d", len(cl))
	}
	call, ok := cl[0].(*ssa.Call)
	if !ok {
		c.Bail("Run: classify is deferred or started as a goroutine")
	}
	cfrs := r.framesOf(call.Parent())
	if len(cfrs) != 1 {
		c.Bail("Run: the function literal calling classify is reached through %d call chains from the event loop (expected one)", len(cfrs))
	}
	r.cfr = cfrs[0]
	r.classify = call
	for _, ref := range *r.classify.Referrers() {
		if ex, ok := ref.(*ssa.Extract); ok {
			switch ex.Index {
			case 0:
				r.ruleV = ex
			case 1:
				r.justV = ex
			}
		}
	}
	if r.ruleV == nil || r.justV == nil {
		c.Bail("Run: results of classify are not both used")
	}
	r.eng.names[r.recvMsg] = "recv"
	r.eng.names[r.ruleV] = "rule"
	r.eng.names[r.justV] = "just"
	return r
}

// binding resolves a free variable to the value bound by the enclosing MakeClosure.
func (r *c03Run) binding(fv *ssa.FreeVar) ssa.Value {
	fn := fv.Parent()
	idx := -1
	for i, f := range fn.FreeVars {
		if f == fv {
			idx = i
		}
	}
	if idx < 0 || fn.Parent() == nil {
		return nil
	}
	for _, in := range an.Instrs(fn.Parent(), false) {
		if mc, ok := in.(*ssa.MakeClosure); ok && mc.Fn == ssa.Value(fn) {
			b := mc.Bindings[idx]
			if f2, ok := b.(*ssa.FreeVar); ok {
				return r.binding(f2)
			}
			return b
		}
	}
	return nil
}

// cell interns a state cell.
func (r *c03Run) cell(al *ssa.Alloc, field int) *c03Cell {
	k := c03Cell{al, field}
	if c, ok := r.cells[k]; ok {
		return c
	}
	c := &k
	r.cells[k] = c
	return c
}

// staticSites lists the static call sites of the in-package function g anywhere in the package.
func (r *c03Run) staticSites(g *ssa.Function) []ssa.CallInstruction {
	if s, ok := r.sitesMemo[g]; ok {
		return s
	}
	var out []ssa.CallInstruction
	// the package's functions, plus the functions found to work on the state (methods of generic types
	// are not listed with the package)
	seen := map[*ssa.Function]bool{}
	var fns []*ssa.Function
	for _, l := range [][]*ssa.Function{r.pkgFuncs, r.pre, r.all} {
		for _, f := range l {
			if !seen[f] {
				seen[f] = true
				fns = append(fns, f)
			}
		}
	}
	for _, f := range fns {
		for _, in := range an.Instrs(f, false) {
			if ci, ok := in.(ssa.CallInstruction); ok && !ci.Common().IsInvoke() {
				if sc := ci.Common().StaticCallee(); sc != nil && an.Orig(sc) == g {
					out = append(out, ci)
				}
			}
		}
	}
	if !r.building {
		r.sitesMemo[g] = out
	}
	return out
}

// stateBase resolves a pointer value to the state object it denotes: a struct allocated by Run (or the
// event-loop function) and handed to the functions working on it — directly, through a parameter that
// receives it at every call site of the package, a captured variable or a single-assignment local.
func (r *c03Run) stateBase(v ssa.Value) *ssa.Alloc {
	v = an.Unwrap(v)
	if al, ok := r.baseMemo[v]; ok {
		return al
	}
	if r.baseBusy[v] {
		return nil
	}
	r.baseBusy[v] = true
	defer delete(r.baseBusy, v)
	var out *ssa.Alloc
	switch x := v.(type) {
	case *ssa.Alloc:
		pt, _ := x.Type().Underlying().(*types.Pointer)
		if pt == nil {
			break
		}
		if _, isStruct := pt.Elem().Underlying().(*types.Struct); !isStruct || !x.Heap {
			break
		}
		onChain := x.Parent() == r.fn
		for _, f := range r.pre {
			onChain = onChain || x.Parent() == f
		}
		if onChain {
			out = x
		}
	case *ssa.Parameter:
		fn := x.Parent()
		idx := c03ParamIdx(fn, x)
		sites := r.staticSites(fn)
		if idx < 0 || len(sites) == 0 || fn.Parent() != nil {
			break
		}
		for _, s := range sites {
			if idx >= len(s.Common().Args) {
				out = nil
				break
			}
			a := an.Unwrap(s.Common().Args[idx])
			if r.baseBusy[a] {
				continue // recursion hands the same object on
			}
			b := r.stateBase(a)
			if b == nil || (out != nil && out != b) {
				out = nil
				break
			}
			out = b
		}
	case *ssa.FreeVar:
		if b := r.binding(x); b != nil {
			out = r.stateBase(b)
		}
	case *ssa.UnOp:
		if x.Op != token.MUL {
			break
		}
		// a pointer kept in a single-assignment local or captured variable
		switch a := x.X.(type) {
		case *ssa.Alloc:
			if src := r.onlyStore(a); src != nil {
				out = r.stateBase(src)
			}
		case *ssa.FreeVar:
			if al, ok := r.binding(a).(*ssa.Alloc); ok {
				if src := r.onlyStore(al); src != nil {
					out = r.stateBase(src)
				}
			}
		}
	}
	if !r.building {
		r.baseMemo[v] = out
	}
	return out
}

// onlyStore: the single value ever stored into the local (looking into the function literals that
// capture it), nil if none or several.
func (r *c03Run) onlyStore(al *ssa.Alloc) ssa.Value {
	var src ssa.Value
	n := 0
	for _, f := range an.Closure(c03Outer(al.Parent())) {
		for _, in := range an.Instrs(f, false) {
			st, ok := in.(*ssa.Store)
			if !ok {
				continue
			}
			var target *ssa.Alloc
			switch a := st.Addr.(type) {
			case *ssa.Alloc:
				target = a
			case *ssa.FreeVar:
				target, _ = r.binding(a).(*ssa.Alloc)
			}
			if target == al {
				src = st.Val
				n++
			}
		}
	}
	if n != 1 {
		return nil
	}
	return src
}

// cellAddr resolves an address to the state cell it denotes: a local of the event-loop function (directly
// or through a free variable), or a field of the state object.
func (r *c03Run) cellAddr(a ssa.Value) *c03Cell {
	switch x := a.(type) {
	case *ssa.Alloc:
		if x.Parent() == r.fn {
			return r.cell(x, -1)
		}
	case *ssa.FreeVar:
		if al, ok := r.binding(x).(*ssa.Alloc); ok && al.Parent() == r.fn {
			return r.cell(al, -1)
		}
	case *ssa.FieldAddr:
		if al := r.stateBase(x.X); al != nil {
			return r.cell(al, x.Field)
		}
		if os.Getenv("C03DEBUG") != "" && x.Parent() != nil && r.allSet[x.Parent()] {
			if p, ok := x.X.(*ssa.Parameter); ok {
				fmt.Fprintf(os.Stderr, "c03: no state base for %s in %s (param %s, %d sites)\n", x.String(), x.Parent().Name(), p.Name(), len(r.staticSites(p.Parent())))
			}
		}
	}
	return nil
}

// cellOf: v is a load of a state cell of Run.
func (r *c03Run) cellOf(v ssa.Value) *c03Cell {
	ld, ok := an.Unwrap(v).(*ssa.UnOp)
	if !ok || ld.Op != token.MUL {
		return nil
	}
	return r.cellAddr(ld.X)
}

// stores returns every store into the cell anywhere in Run and its closures.
func (r *c03Run) stores(cell *c03Cell) []*ssa.Store {
	var out []*ssa.Store
	fns := r.all
	if cell.field >= 0 {
		fns = append(append([]*ssa.Function(nil), r.pre...), r.all...) // the state object may be initialised before the event loop is entered
	}
	for _, f := range fns {
		for _, in := range an.Instrs(f, false) {
			if st, ok := in.(*ssa.Store); ok && r.cellAddr(st.Addr) == cell {
				out = append(out, st)
			}
		}
	}
	return out
}

// closureOf resolves a callee value to the function literal of Run it denotes.
func (r *c03Run) closureOf(v ssa.Value) *ssa.Function {
	v = an.Unwrap(v)
	switch x := v.(type) {
	case *ssa.MakeClosure:
		if f, ok := x.Fn.(*ssa.Function); ok {
			return f
		}
	case *ssa.Function:
		if x.Parent() != nil {
			return x
		}
		// an in-package function (method) working on the state object
		if o := an.Orig(x); r.allSet[o] && o != r.fn {
			return o
		}
	case *ssa.UnOp:
		if x.Op != token.MUL {
			return nil
		}
		cell := r.cellAddr(x.X)
		if cell == nil {
			return nil
		}
		sts := r.stores(cell)
		if len(sts) != 1 {
			return nil
		}
		return r.closureOf(sts[0].Val)
	}
	return nil
}

// callSites returns the calls of the function literal anon anywhere in Run and its closures.
func (r *c03Run) callSites(anon *ssa.Function) []ssa.CallInstruction {
	var out []ssa.CallInstruction
	for _, f := range r.all {
		for _, in := range an.Instrs(f, false) {
			if ci, ok := in.(ssa.CallInstruction); ok && !ci.Common().IsInvoke() && r.closureOf(ci.Common().Value) == anon {
				out = append(out, ci)
			}
		}
	}
	return out
}

// writers: the function literals of Run that may assign the cell, directly or by calling another
// function literal that does.
func (r *c03Run) writers(cell *c03Cell) map[*ssa.Function]bool {
	if w, ok := r.writersMemo[cell]; ok {
		return w
	}
	w := map[*ssa.Function]bool{}
	for _, st := range r.stores(cell) {
		w[st.Parent()] = true
	}
	for changed := true; changed; {
		changed = false
		for _, f := range r.all {
			if w[f] {
				continue
			}
			for _, in := range an.Instrs(f, false) {
				ci, ok := in.(ssa.CallInstruction)
				if !ok || ci.Common().IsInvoke() {
					continue
				}
				if g := r.closureOf(ci.Common().Value); g != nil && g != r.fn && w[g] {
					w[f] = true
					changed = true
					break
				}
			}
		}
	}
	r.writersMemo[cell] = w
	return w
}

// mayWrite: executing in can assign the cell (a store, or a call of a function literal that writes it).
func (r *c03Run) mayWrite(in ssa.Instruction, cell *c03Cell) bool {
	switch x := in.(type) {
	case *ssa.Store:
		return r.cellAddr(x.Addr) == cell
	case ssa.CallInstruction:
		if x.Common().IsInvoke() {
			return false
		}
		if g := r.closureOf(x.Common().Value); g != nil && g != r.fn {
			return r.writers(cell)[g]
		}
	}
	return false
}

// writeBetween returns an instruction that may assign the cell on some path from a to b (same function).
func (r *c03Run) writeBetween(a, b ssa.Instruction, cell *c03Cell) ssa.Instruction {
	fn := a.Parent()
	if fn != b.Parent() {
		return a
	}
	for _, in := range an.Instrs(fn, false) {
		if in == a || !r.mayWrite(in, cell) {
			continue
		}
		stop := func(i ssa.Instruction) bool { return i == a }
		if c03PathAvoiding(a, in, nil) && (in == b || c03PathAvoiding(in, b, stop)) {
			return in
		}
	}
	return nil
}

// cellValue: the value a captured variable holds at load ld, when that is known: the value of a store
// in the same function that dominates the load with no possible assignment in between.
func (r *c03Run) cellValue(ld *ssa.UnOp) ssa.Value {
	if r.cellDone[ld] {
		return r.cellMemo[ld]
	}
	r.cellDone[ld] = true
	cell := r.cellAddr(ld.X)
	if cell == nil {
		return nil
	}
	fn := ld.Parent()
	var best *ssa.Store
	for _, in := range an.Instrs(fn, false) {
		st, ok := in.(*ssa.Store)
		if !ok || r.cellAddr(st.Addr) != cell || !an.Dominates(st, ld) {
			continue
		}
		if best == nil || an.Dominates(best, st) {
			best = st
		}
	}
	if best == nil {
		return nil
	}
	if r.writeBetween(best, ld, cell) != nil {
		return nil
	}
	r.cellMemo[ld] = best.Val
	return best.Val
}

// same: a and b (values of Run proper) denote the same value, looking through conversions and
// variables with a known value.
func (r *c03Run) same(a, b ssa.Value) bool { return r.sameAt(r.root, a, r.root, b) }

// sameAt: value a of activation fa and value b of activation fb denote the same value (parameters are
// followed to the arguments of the call chain).
func (r *c03Run) sameAt(fa *c03Frame, a ssa.Value, fb *c03Frame, b ssa.Value) bool {
	if a == nil || b == nil {
		return false
	}
	ra, _ := r.eng.resolve(fa, a)
	rb, _ := r.eng.resolve(fb, b)
	return ra == rb
}

// framesOf lists the call chains from the event loop to fn (a function literal of Run): one
// activation per chain of call sites.
func (r *c03Run) framesOf(fn *ssa.Function) []*c03Frame {
	if fn == r.fn {
		return []*c03Frame{r.root}
	}
	if fs, ok := r.framesMemo[fn]; ok {
		return fs
	}
	if r.framesBusy[fn] {
		return nil
	}
	r.framesBusy[fn] = true
	defer delete(r.framesBusy, fn)
	var out []*c03Frame
	for _, s := range r.callSites(fn) {
		if len(s.Common().Args) != len(fn.Params) {
			continue
		}
		for _, pf := range r.framesOf(s.Parent()) {
			if pf.depth() < 6 && !pf.has(fn) {
				out = append(out, &c03Frame{fn: fn, up: pf, site: s})
			}
		}
	}
	r.framesMemo[fn] = out
	return out
}

// frameOf: the activation of fn when it is reached through exactly one call chain.
func (r *c03Run) frameOf(fn *ssa.Function) *c03Frame {
	if fs := r.framesOf(fn); len(fs) == 1 {
		return fs[0]
	}
	return nil
}

// isAncestor: a is fr or one of the activations that called it.
func c03IsAncestor(a, fr *c03Frame) bool {
	for f := fr; f != nil; f = f.up {
		if f == a {
			return true
		}
	}
	return false
}

// c03Join: the nearest activation that is gfr or one of its callers and also sfr or one of its callers.
func c03Join(gfr, sfr *c03Frame) *c03Frame {
	for a := gfr; a != nil; a = a.up {
		if c03IsAncestor(a, sfr) {
			return a
		}
	}
	return nil
}

// c03AlwaysRuns: the instruction executes on every run of its function that returns.
func c03AlwaysRuns(in ssa.Instruction) bool {
	rets := an.Returns(in.Parent())
	if len(rets) == 0 {
		return false
	}
	for _, ret := range rets {
		if !an.Dominates(in, ret) {
			return false
		}
	}
	return true
}

// dominatesPt: instruction g of activation gfr is executed before sink s of activation sfr on every path:
// g dominates the call site through which s is reached; or g always runs in a helper (the test and the
// sink were split over two functions) whose call dominates the call site through which s is reached.
func (r *c03Run) dominatesPt(gfr *c03Frame, g ssa.Instruction, sfr *c03Frame, s ssa.Instruction) bool {
	a := c03Join(gfr, sfr)
	if a == nil {
		return false
	}
	top, ok := c03Lift(sfr, a, s)
	if !ok {
		return false
	}
	cur := g
	for f := gfr; f != a; f = f.up {
		if !c03AlwaysRuns(cur) || f.site == nil {
			return false
		}
		cur = f.site
	}
	return cur != top && an.Dominates(cur, top)
}

// reachAfter: under eng's assumption, can sink s (activation sfr) execute after g (activation gfr) without
// the block of g (of the call that evaluated g, if g lies in a helper that has returned) being re-entered first?
func (r *c03Run) reachAfter(eng *c03Eng, gfr *c03Frame, g ssa.Instruction, sfr *c03Frame, s ssa.Instruction) (reach, und bool) {
	a := c03Join(gfr, sfr)
	if a == nil {
		return true, true
	}
	top, ok := c03Lift(sfr, a, s)
	gtop, ok2 := c03Lift(gfr, a, g)
	if !ok || !ok2 {
		return true, true
	}
	reach, und = eng.reachableFrom(a, gtop, top)
	if !reach {
		return false, false
	}
	target := s
	for cur := sfr; cur != a; cur = cur.up {
		w := eng.walk(cur, nil, 0, nil)
		if w.truncated {
			return true, true
		}
		if !w.blocks[target.Block()] {
			return false, false
		}
		und = und || w.opaque
		target = cur.site
	}
	return true, und
}

// c03Bcast is one Transport.Broadcast call in one activation (call chain from the event loop).
type c03Bcast struct {
	inner ssa.CallInstruction // the t.Broadcast call
	fr    *c03Frame           // activation of the function containing it
	args  []ssa.Value         // ctx, typ, instance, source, round, value, pr, pv, justification
}

func (r *c03Run) bcasts() []c03Bcast {
	var out []c03Bcast
	for _, f := range r.all {
		for _, in := range an.Instrs(f, false) {
			ci, ok := in.(ssa.CallInstruction)
			if !ok || ci.Common().IsInvoke() || ci.Common().StaticCallee() != nil {
				continue
			}
			if k, _, ok := an.FieldOf(ci.Common().Value); !ok || c03Strip(k) != c03P+".Transport.Broadcast" {
				continue
			}
			if len(ci.Common().Args) != 9 {
				r.c.Bail("Transport.Broadcast: unexpected arity")
			}
			frs := r.framesOf(f)
			if len(frs) == 0 {
				// a function literal that is never called (or only through a value that cannot be followed)
				if len(r.callSites(f)) == 0 && f != r.fn {
					r.c.Unsure("Run broadcast", ci.Pos(), "a broadcast lies in a function literal whose call sites could not be found")
				}
				continue
			}
			for _, fr := range frs {
				out = append(out, c03Bcast{inner: ci, fr: fr, args: ci.Common().Args})
			}
		}
	}
	if len(out) == 0 {
		r.c.Bail("Run: no Transport.Broadcast call found")
	}
	return out
}

// value returns the value argument of the broadcast followed to the activation that produces it, and
// the instruction of that activation through which it is consumed.
func (b c03Bcast) value(r *c03Run) (v ssa.Value, vfr *c03Frame, use ssa.Instruction) {
	v, vfr = r.eng.resolveParams(b.fr, b.args[5])
	use, _ = c03Lift(b.fr, vfr, b.inner)
	return
}

func (r *c03Run) msgType(name string) int64 { return c03ConstOf(r.c, c03P, name) }

// c03DecideCalls returns the calls through Definition.Decide in Run and its closures.
func c03DecideCalls(r *c03Run) []ssa.CallInstruction {
	var out []ssa.CallInstruction
	for _, f := range r.all {
		for _, in := range an.Instrs(f, false) {
			if ci, ok := in.(ssa.CallInstruction); ok && c03Callee(ci.Common()) == "field:"+c03P+".Definition.Decide" {
				out = append(out, ci)
			}
		}
	}
	return out
}

// c03PrePrepares returns the PRE-PREPARE broadcasts of Run, one per call chain.
func c03PrePrepares(r *c03Run) []c03Bcast {
	pp := r.msgType("MsgPrePrepare")
	var out []c03Bcast
	for _, b := range r.bcasts() {
		tv, _ := r.eng.resolve(b.fr, b.args[1])
		n, ok := an.ConstInt(tv)
		if !ok {
			r.c.Unsure("Run broadcast with computed type", b.inner.Pos(), "message type of a broadcast is not a constant")
			continue
		}
		if n != pp {
			continue
		}
		out = append(out, b)
	}
	if len(out) == 0 {
		r.c.Bail("Run: no PRE-PREPARE broadcast found")
	}
	return out
}

// pvOf: v is result #1 of a getSingleJustifiedPrPv call.
func (r *c03Run) pvOf(v ssa.Value) *ssa.Call {
	ex, ok := an.Resolve(v).(*ssa.Extract)
	if !ok || ex.Index != 1 {
		return nil
	}
	return c03Static(ex.Tuple, "getSingleJustifiedPrPv")
}

// c03PvOrigin is a getSingleJustifiedPrPv call whose pv result reaches a PRE-PREPARE broadcast.
type c03PvOrigin struct {
	g         *ssa.Call
	fr        *c03Frame
	sink      ssa.Instruction // where pv leaves the activation of g: the broadcast (call site) or a return
	statusIdx int             // index of the boolean status result if sink is a return of a (value, ok) helper
}

// pvOrigins follows value v (consumed at `use` in activation fr) back through function literals and
// helpers that return (value, ok): hops is c03Yes when every hop checks the ok of the helper it takes
// the value from; traced is false when the value comes from somewhere else.
func (r *c03Run) pvOrigins(fr *c03Frame, v ssa.Value, use ssa.Instruction, statusIdx int, d int) (out []c03PvOrigin, hops c03Tri, traced bool) {
	if d > 4 || use == nil {
		return nil, c03Maybe, false
	}
	rv, rfr := r.eng.resolveParams(fr, v)
	if rfr != fr {
		s, ok := c03Lift(fr, rfr, use)
		if !ok {
			return nil, c03Maybe, false
		}
		use, fr, statusIdx = s, rfr, -1
	}
	rv = an.Resolve(rv)
	if g := r.pvOf(rv); g != nil {
		return []c03PvOrigin{{g, fr, use, statusIdx}}, c03Yes, true
	}
	ex, ok := rv.(*ssa.Extract)
	if !ok {
		return nil, c03Maybe, false
	}
	call, ok := ex.Tuple.(*ssa.Call)
	if !ok {
		return nil, c03Maybe, false
	}
	nf := r.eng.enter(fr, call)
	if nf == nil {
		return nil, c03Maybe, false
	}
	res := nf.fn.Signature.Results()
	j := res.Len() - 1
	b, isB := res.At(j).Type().Underlying().(*types.Basic)
	if j == ex.Index || !isB || b.Kind() != types.Bool {
		return nil, c03Maybe, false
	}
	// the helper hands the value out on some returns and nothing (the zero value) on the others; which
	// way round its status result reads does not matter: where it hands out nothing, the results it
	// yields there must keep the caller from the broadcast
	r.pvLinks[nf] = c03Hop{fr, call, use, statusIdx, false}
	hops = c03Yes
	traced = true
	n := 0
	for _, ret := range an.Returns(nf.fn) {
		rr := returnValues(ret)
		if len(rr) <= j {
			continue
		}
		o, h, t := r.pvOrigins(nf, rr[ex.Index], ret, j, d+1)
		if t {
			n++
			out = append(out, o...)
			if h == c03No || (h == c03Maybe && hops == c03Yes) {
				hops = h
			}
			continue
		}
		// not the prepared value: only "nothing" is acceptable here
		if vt := r.eng.term(nf, rr[ex.Index]); vt != "zero" && vt != "nil" {
			return nil, c03Maybe, false
		}
		f := c03NoFacts()
		told := false
		for i := range rr {
			if i == ex.Index {
				continue
			}
			if k, st := r.eng.eval(nf, rr[i], nil); st == c03Known {
				told = true
				if exv := c03ExtractOf(call, i); exv != nil {
					f.val(exv, k)
				}
			}
		}
		h = c03Maybe
		switch {
		case len(f.byVal) > 0:
			h = c03Cut(r.eng, fr, f, call, use, statusIdx)
		case told:
			h = c03No // the caller discards what the helper tells it
		}
		if h == c03No || (h == c03Maybe && hops == c03Yes) {
			hops = h
		}
	}
	if n == 0 {
		return nil, c03Maybe, false
	}
	return out, hops, true
}

// ruleFacts: the assumption "classify returned rule k".
func (r *c03Run) ruleFacts(k int64) c03Facts {
	return c03NoFacts().val(r.ruleV, constant.MakeInt64(k))
}

// onlyUponRules: sink (activation sfr) can execute after the classify call only when classify returned
// one of the allowed rules. Returns the first other rule value under which it is reachable.
func (r *c03Run) onlyUponRules(sfr *c03Frame, sink ssa.Instruction, allowed ...int64) (ok bool, undecided bool, witness int64) {
	if c03Join(r.cfr, sfr) == nil {
		return false, true, 0
	}
	for _, k := range c03ConstsOfType(r.c, c03P, "UponRule") {
		skip := false
		for _, a := range allowed {
			if a == k {
				skip = true
			}
		}
		if skip {
			continue
		}
		reach, und := r.reachAfter(r.eng.under(r.ruleFacts(k)), r.cfr, r.classify, sfr, sink)
		if und {
			return false, true, k
		}
		if reach {
			return false, false, k
		}
	}
	return true, false, 0
}
