package rules

// C12-CH — a byte string that is hashed in fixed-size pieces is hashed completely: wherever a hash function of
// package cluster feeds the hasher from a loop with sub-slices b[lo:hi] of one byte string, the windows tile the
// string: the first window starts at 0 and the start advances per iteration by exactly the window width.
//
// Why it is a necessary condition: L1 only establishes that a tagged field reaches the hasher; if the windows
// overlap or leave gaps some bytes of the field are in no chunk (or in the wrong one), so altering them leaves
// definition_hash/lock_hash unchanged (tamper evidence) or the hash differs from the format's definition.
//
// Formulation: lo and hi are evaluated as affine functions a*i+b of one induction variable i (a header phi with a
// constant start c0 and a constant step s, any loop spelling: three-clause, range-over-int, while); width = hi-lo
// must be a constant; required: a*s == width and a*c0+b == 0. The other spelling (`for len(b) > 0 { use(b[:K]);
// b = b[K:] }`) requires the consumed prefix and the advance to be the same constant. VIOLATION only when all of
// these numbers are known constants and differ; anything else is UNDECIDED.

import (
	"fmt"
	"go/token"
	"go/types"
	"strings"

	"golang.org/x/tools/go/ssa"

	"charonverif/internal/an"
	"charonverif/internal/rt"
)

func init() {
	Extend("C12", "(CH) byte strings hashed piecewise in package cluster are tiled exactly (window start 0, stride == window width).",
		func(c *rt.Ctx) { c.Rule("CH", 1, func() { c12nChunks(c) }) }, c12nCHMutants...)
}

var c12nCHMutants = []Mutant{
	{ID: "C12-CH-stride-hash-len", File: "cluster/helpers.go", Expect: "CH",
		Old: "\tfor i := 0; i < len(sig); i += sszLenK1Sig {", New: "\tfor i := 0; i+sszLenK1Sig <= len(sig); i += sszLenPubKey {"},
	{ID: "C12-CH-window-narrow", File: "cluster/helpers.go", Expect: "CH",
		Old: "\t\th.PutBytes(sig[i : i+sszLenK1Sig])", New: "\t\th.PutBytes(sig[i : i+sszLenK1Sig-1])"},
	{ID: "C12-CH-skip-first", File: "cluster/helpers.go", Expect: "CH",
		Old: "\tfor i := 0; i < len(sig); i += sszLenK1Sig {", New: "\tfor i := sszLenK1Sig; i < len(sig); i += sszLenK1Sig {"},
}

// c12nAff is an affine form over header phis: sum(co[p]*p) + b.
type c12nAff struct {
	co map[*ssa.Phi]int64
	b  int64
}

func (x c12nAff) scale(k int64) c12nAff {
	out := c12nAff{co: map[*ssa.Phi]int64{}, b: x.b * k}
	for p, c := range x.co {
		if c*k != 0 {
			out.co[p] = c * k
		}
	}
	return out
}

func (x c12nAff) plus(y c12nAff) c12nAff {
	out := c12nAff{co: map[*ssa.Phi]int64{}, b: x.b + y.b}
	for p, c := range x.co {
		out.co[p] = c
	}
	for p, c := range y.co {
		out.co[p] += c
		if out.co[p] == 0 {
			delete(out.co, p)
		}
	}
	return out
}

func (x c12nAff) isConst() bool { return len(x.co) == 0 }

func c12nAffine(v ssa.Value, d int) (c12nAff, bool) {
	if d > 12 || v == nil {
		return c12nAff{}, false
	}
	v = an.Unwrap(v)
	switch x := v.(type) {
	case *ssa.Const:
		if n, ok := an.ConstInt(x); ok {
			return c12nAff{b: n}, true
		}
	case *ssa.Phi:
		return c12nAff{co: map[*ssa.Phi]int64{x: 1}}, true
	case *ssa.BinOp:
		l, ok1 := c12nAffine(x.X, d+1)
		r, ok2 := c12nAffine(x.Y, d+1)
		if !ok1 || !ok2 {
			return c12nAff{}, false
		}
		switch x.Op {
		case token.ADD:
			return l.plus(r), true
		case token.SUB:
			return l.plus(r.scale(-1)), true
		case token.MUL:
			if l.isConst() {
				return r.scale(l.b), true
			}
			if r.isConst() {
				return l.scale(r.b), true
			}
		}
	}
	return c12nAff{}, false
}

// c12nNext substitutes, in x, every phi by its value after one more iteration of loop l; c12nInit by its value on
// entry. ok=false when a phi is not a header phi of l with a constant start and an affine step.
func c12nNext(l *an.Loop, x c12nAff) (c12nAff, bool) {
	out := c12nAff{co: map[*ssa.Phi]int64{}, b: x.b}
	for p, c := range x.co {
		if p.Block() != l.Header {
			return out, false
		}
		var step *c12nAff
		for i, e := range p.Edges {
			if !l.Body[p.Block().Preds[i]] {
				continue
			}
			af, ok := c12nAffine(e, 0)
			if !ok {
				return out, false
			}
			if step != nil && !c12nSame(*step, af) {
				return out, false
			}
			step = &af
		}
		if step == nil {
			return out, false
		}
		out = out.plus(step.scale(c))
	}
	return out, true
}

func c12nInit(l *an.Loop, x c12nAff) (int64, bool) {
	v := x.b
	for p, c := range x.co {
		if p.Block() != l.Header {
			return 0, false
		}
		have := false
		var c0 int64
		for i, e := range p.Edges {
			if l.Body[p.Block().Preds[i]] {
				continue
			}
			n, isC := an.ConstInt(an.Unwrap(e))
			if !isC || (have && n != c0) {
				return 0, false
			}
			c0, have = n, true
		}
		if !have {
			return 0, false
		}
		v += c * c0
	}
	return v, true
}

func c12nSame(x, y c12nAff) bool {
	d := x.plus(y.scale(-1))
	return d.isConst() && d.b == 0
}

func c12nByteSeq(t types.Type) bool {
	switch u := t.Underlying().(type) {
	case *types.Slice:
		b, ok := u.Elem().Underlying().(*types.Basic)
		return ok && b.Kind() == types.Uint8
	case *types.Basic:
		return u.Info()&types.IsString != 0
	}
	return false
}

func c12nHasHasher(fn *ssa.Function) bool {
	is := func(t types.Type) bool { return strings.Contains(t.String(), c12HashWk) }
	for f := fn; f != nil; f = f.Parent() {
		for _, p := range f.Params {
			if is(p.Type()) {
				return true
			}
		}
		for _, fv := range f.FreeVars {
			if is(fv.Type()) {
				return true
			}
		}
	}
	return false
}

func c12nChunks(c *rt.Ctx) {
	sp := c.SSAPkg("cluster")
	if sp == nil {
		c.Bail("package cluster not found")
	}
	for _, fn := range an.PkgFuncs(sp) {
		if !c12nHasHasher(fn) || strings.HasSuffix(c.P.Fset.Position(fn.Pos()).Filename, "_test.go") {
			continue
		}
		loops := an.Loops(fn)
		if len(loops) == 0 {
			continue
		}
		for _, b := range fn.Blocks {
			for _, in := range b.Instrs {
				sl, ok := in.(*ssa.Slice)
				if !ok || !c12nByteSeq(sl.X.Type()) || !c12nByteSeq(sl.Type()) {
					continue
				}
				var inner *an.Loop
				for _, l := range loops {
					if l.Body[b] && (inner == nil || len(l.Body) < len(inner.Body)) {
						inner = l
					}
				}
				if inner == nil {
					continue
				}
				c12nJudgeWindow(c, fn, loops, sl)
			}
		}
	}
}

func c12nJudgeWindow(c *rt.Ctx, fn *ssa.Function, loops []*an.Loop, sl *ssa.Slice) {
	name := an.FuncName(fn) + " piecewise hashing tiles the byte string"
	loopOf := func(p *ssa.Phi) *an.Loop {
		for _, l := range loops {
			if l.Header == p.Block() && l.Body[sl.Block()] {
				return l
			}
		}
		return nil
	}
	// spelling 2: the base advances
	if bp, ok := an.Unwrap(sl.X).(*ssa.Phi); ok && loopOf(bp) != nil {
		l := loopOf(bp)
		var adv *ssa.Slice
		okShape := true
		for i, e := range bp.Edges {
			if !l.Body[bp.Block().Preds[i]] {
				continue
			}
			s2, ok := an.Unwrap(e).(*ssa.Slice)
			if !ok || an.Unwrap(s2.X) != ssa.Value(bp) || s2.High != nil || (adv != nil && adv != s2) {
				okShape = false
				continue
			}
			adv = s2
		}
		if sl == adv {
			return // the advance itself
		}
		if !okShape || adv == nil {
			c.Unsure(name, sl.Pos(), "the byte string consumed in the loop is advanced in a way the rule does not decode")
			return
		}
		k2, ok2 := an.ConstInt(an.Unwrap(adv.Low))
		lo := int64(0)
		okLo := true
		if sl.Low != nil {
			lo, okLo = an.ConstInt(an.Unwrap(sl.Low))
		}
		if sl.High == nil && okLo && lo == 0 {
			return // the whole remainder
		}
		var k1 int64
		ok1 := false
		if sl.High != nil {
			k1, ok1 = an.ConstInt(an.Unwrap(sl.High))
		}
		if !ok1 || !ok2 || !okLo {
			c.Unsure(name, sl.Pos(), "window or advance of the consumed byte string is not a constant")
			return
		}
		c.Check(name, sl.Pos(), lo == 0 && k1 == k2,
			fmt.Sprintf("each iteration hashes bytes [%d:%d] of the remaining string but advances by %d: some bytes are in no chunk (or hashed twice)", lo, k1, k2))
		return
	}
	// spelling 1: windows over a fixed base
	var lo, hi c12nAff
	okLo, okHi := true, false
	if sl.Low != nil {
		lo, okLo = c12nAffine(sl.Low, 0)
	}
	if sl.High != nil {
		hi, okHi = c12nAffine(sl.High, 0)
	}
	variant := func(v ssa.Value) bool {
		if v == nil {
			return false
		}
		in, ok := v.(ssa.Instruction)
		if !ok {
			return false
		}
		for _, l := range loops {
			if l.Body[sl.Block()] && l.Body[in.Block()] {
				return true
			}
		}
		return false
	}
	if !variant(sl.Low) && !variant(sl.High) {
		return // the same sub-slice in every iteration: not piecewise consumption
	}
	if !okLo || !okHi || lo.isConst() {
		c.Unsure(name, sl.Pos(), "window bounds are not affine in the induction variables of the loop")
		return
	}
	var l *an.Loop
	for p := range lo.co {
		if l == nil {
			l = loopOf(p)
		}
	}
	if l == nil {
		c.Unsure(name, sl.Pos(), "window bounds depend on a merged value that is not an induction variable of an enclosing loop")
		return
	}
	// tiling: the first window starts at 0, every next window starts where the previous one ended, windows are not empty
	lo0, ok0 := c12nInit(l, lo)
	hi0, ok1 := c12nInit(l, hi)
	loN, ok2 := c12nNext(l, lo)
	hiN, ok3 := c12nNext(l, hi)
	if !ok0 || !ok1 || !ok2 || !ok3 {
		c.Unsure(name, sl.Pos(), "start or step of an induction variable of the window bounds is not a constant / affine")
		return
	}
	gap := loN.plus(hi.scale(-1))     // start of the next window minus end of this one
	width := hiN.plus(loN.scale(-1)) // width of every window after the first
	if !gap.isConst() || !width.isConst() {
		c.Unsure(name, sl.Pos(), "the distance between consecutive windows is not a constant")
		return
	}
	c.Check(name, sl.Pos(), lo0 == 0 && gap.b == 0 && width.b > 0 && hi0 > lo0,
		fmt.Sprintf("the first window is [%d:%d], later windows are %d wide and the next window starts %+d bytes from the end of the previous one: the windows do not tile the byte string, so some bytes of the hashed field are in no chunk (or hashed twice)", lo0, hi0, width.b, gap.b))
}
