package rules

import (
	"fmt"
	"go/constant"
	"go/token"
	"go/types"
	"strings"

	"golang.org/x/tools/go/ssa"

	"charonverif/internal/an"
	"charonverif/internal/rt"
)

const c02P = "core/qbft"

// ---------------------------------------------------------------------------------------------
// small helpers

// c02Strip removes type-argument lists: "core/qbft.Definition[I, V, C].Quorum" -> "core/qbft.Definition.Quorum".
func c02Strip(s string) string {
	var b strings.Builder
	depth := 0
	for _, r := range s {
		switch {
		case r == '[':
			depth++
		case r == ']':
			depth--
		case depth == 0:
			b.WriteRune(r)
		}
	}
	return b.String()
}

// c02Callee is the type-argument-free name of the call target.
func c02Callee(cc *ssa.CallCommon) string { return c02Strip(an.CalleeName(cc)) }

// c02Static returns the call (value) if v is a call of the in-package static function `name`.
func c02Static(v ssa.Value, name string) *ssa.Call {
	call, ok := an.Unwrap(v).(*ssa.Call)
	if !ok || call.Call.IsInvoke() || call.Call.StaticCallee() == nil {
		return nil
	}
	if c02Callee(&call.Call) != c02P+"."+name {
		return nil
	}
	return call
}

// c02MsgCall: v is `recv.<method>()` on the Msg interface; returns recv.
func c02MsgCall(v ssa.Value, method string) (ssa.Value, bool) {
	call, ok := an.Unwrap(v).(*ssa.Call)
	if !ok || !call.Call.IsInvoke() || call.Call.Method.Name() != method {
		return nil, false
	}
	if c02Strip(an.TypeName(call.Call.Value.Type())) != c02P+".Msg" {
		return nil, false
	}
	return call.Call.Value, true
}

// c02IsMsgCallOn: v is recv.<method>() with recv the given value.
func c02IsMsgCallOn(v ssa.Value, method string, recv ssa.Value) bool {
	r, ok := c02MsgCall(v, method)
	return ok && r == recv
}

func c02LenArg(v ssa.Value) ssa.Value {
	call, ok := an.Unwrap(v).(*ssa.Call)
	if !ok {
		return nil
	}
	if b, ok := call.Call.Value.(*ssa.Builtin); ok && b.Name() == "len" && len(call.Call.Args) == 1 {
		return call.Call.Args[0]
	}
	return nil
}

func c02ConstBool(v ssa.Value) (bool, bool) {
	k, ok := v.(*ssa.Const)
	if !ok || k.Value == nil || k.Value.Kind() != constant.Bool {
		return false, false
	}
	return constant.BoolVal(k.Value), true
}

func c02IsCmp(op token.Token) bool {
	switch op {
	case token.EQL, token.NEQ, token.LSS, token.LEQ, token.GTR, token.GEQ:
		return true
	}
	return false
}

func c02Flip(op token.Token) token.Token {
	switch op {
	case token.LSS:
		return token.GTR
	case token.LEQ:
		return token.GEQ
	case token.GTR:
		return token.LSS
	case token.GEQ:
		return token.LEQ
	}
	return op
}

// c02IfOf returns the If instructions branching directly on v.
func c02IfOf(v ssa.Value) []*ssa.If {
	var out []*ssa.If
	if v.Referrers() == nil {
		return nil
	}
	for _, ref := range *v.Referrers() {
		if iff, ok := ref.(*ssa.If); ok && iff.Cond == v {
			out = append(out, iff)
		}
	}
	return out
}

// c02EdgeDom: the edge from.Succs[i] dominates block b (every path to b takes that edge).
func c02EdgeDom(from *ssa.BasicBlock, i int, b *ssa.BasicBlock) bool {
	s := from.Succs[i]
	if from.Succs[0] == from.Succs[1] {
		return false
	}
	return len(s.Preds) == 1 && s.Dominates(b)
}

// c02ReachCut returns the blocks reachable from the entry of fn when the edges for which cut
// returns true are removed.
func c02ReachCut(start *ssa.BasicBlock, cut func(b *ssa.BasicBlock, i int) bool) map[*ssa.BasicBlock]bool {
	seen := map[*ssa.BasicBlock]bool{}
	var walk func(b *ssa.BasicBlock)
	walk = func(b *ssa.BasicBlock) {
		if seen[b] {
			return
		}
		seen[b] = true
		for i, s := range b.Succs {
			if cut != nil && cut(b, i) {
				continue
			}
			walk(s)
		}
	}
	walk(start)
	return seen
}

func c02EndsInPanic(b *ssa.BasicBlock) bool {
	if len(b.Instrs) == 0 {
		return false
	}
	_, ok := b.Instrs[len(b.Instrs)-1].(*ssa.Panic)
	return ok
}

// c02AcceptRets: returns of fn whose result idx is not the constant false.
func c02AcceptRets(fn *ssa.Function, idx int) []*ssa.Return {
	var out []*ssa.Return
	for _, r := range an.Returns(fn) {
		if idx >= len(r.Results) {
			continue
		}
		if b, ok := c02ConstBool(r.Results[idx]); ok && !b {
			continue
		}
		out = append(out, r)
	}
	return out
}

// c02LoopOver returns the loops of fn ranging over a collection equivalent to coll.
func c02LoopOver(fn *ssa.Function, coll ssa.Value) []*an.Loop {
	var out []*an.Loop
	for _, l := range an.Loops(fn) {
		if rc := l.RangeColl(); rc != nil && an.Equiv(rc, coll) {
			out = append(out, l)
		}
	}
	return out
}

// ---------------------------------------------------------------------------------------------
// Q1 — source-unique quorums

type c02Q1 struct {
	c    *rt.Ctx
	memo map[string]int // 1 yes, 2 no, 3 in progress
}

// c02Threshold classifies v as a quorum threshold: "quorum" (Quorum()), "f+1" (Faulty()+1),
// "f" (Faulty()), "derived" (other arithmetic over one of them); ok=false if unrelated.
func c02Threshold(v ssa.Value) (string, bool) {
	v = an.Unwrap(v)
	if call, ok := v.(*ssa.Call); ok && !call.Call.IsInvoke() && call.Call.StaticCallee() != nil {
		switch c02Callee(&call.Call) {
		case c02P + ".Definition.Quorum":
			return "quorum", true
		case c02P + ".Definition.Faulty":
			return "f", true
		}
		return "", false
	}
	if bin, ok := v.(*ssa.BinOp); ok && !c02IsCmp(bin.Op) {
		kx, okx := c02Threshold(bin.X)
		ky, oky := c02Threshold(bin.Y)
		if !okx && !oky {
			return "", false
		}
		if bin.Op == token.ADD {
			if n, isC := an.ConstInt(bin.Y); okx && kx == "f" && isC && n == 1 {
				return "f+1", true
			}
			if n, isC := an.ConstInt(bin.X); oky && ky == "f" && isC && n == 1 {
				return "f+1", true
			}
		}
		return "derived", true
	}
	return "", false
}

// uniqCallGuard: block `at` lies on the true edge of `u(arg)` where u is the closure returned by
// uniqSource() and argOK(arg); the uniqSource() call must not lie in any of the given loops
// (a filter re-created on every iteration filters nothing).
func (q *c02Q1) uniqGuard(fn *ssa.Function, at *ssa.BasicBlock, argOK func(ssa.Value) bool, scope []*an.Loop) (bool, string) {
	why := "no `uniq(elem)` test on the path to the accumulation"
	for _, in := range an.Instrs(fn, false) {
		u, ok := in.(*ssa.Call)
		if !ok || u.Call.IsInvoke() || len(u.Call.Args) != 1 {
			continue
		}
		mk := c02Static(an.Resolve(u.Call.Value), "uniqSource")
		if mk == nil {
			continue
		}
		if !argOK(u.Call.Args[0]) {
			why = "uniq is applied to a different message than the one accumulated"
			continue
		}
		inScope := false
		for _, l := range scope {
			if l.Body[mk.Block()] {
				inScope = true
			}
		}
		if inScope {
			why = "the uniq filter is re-created inside the accumulating loop"
			continue
		}
		for _, cd := range an.CondsOn(fn, u) {
			if cd.Other != nil {
				continue
			}
			t := cd.Succ(true)
			idx := 0
			if cd.If.Block().Succs[1] == t {
				idx = 1
			}
			if c02EdgeDom(cd.If.Block(), idx, at) {
				return true, "on the true edge of uniq(elem)"
			}
		}
		why = "accumulation is not confined to the true edge of uniq(elem)"
	}
	return false, why
}

// phiWeb collects the phi web of v and its non-phi inputs.
func c02PhiWeb(v ssa.Value) (web map[*ssa.Phi]bool, inputs []ssa.Value) {
	web = map[*ssa.Phi]bool{}
	var walk func(x ssa.Value)
	walk = func(x ssa.Value) {
		if p, ok := x.(*ssa.Phi); ok {
			if web[p] {
				return
			}
			web[p] = true
			for _, e := range p.Edges {
				walk(e)
			}
			return
		}
		inputs = append(inputs, x)
	}
	walk(v)
	return
}

func c02WebLoops(fn *ssa.Function, web map[*ssa.Phi]bool) []*an.Loop {
	var out []*an.Loop
	for _, l := range an.Loops(fn) {
		for p := range web {
			if p.Block() == l.Header {
				out = append(out, l)
				break
			}
		}
	}
	return out
}

// sliceUnique: v holds at most one message per source.
func (q *c02Q1) sliceUnique(fn *ssa.Function, v ssa.Value) (bool, string) {
	v = an.Unwrap(v)
	switch x := v.(type) {
	case *ssa.Call:
		if f := x.Call.StaticCallee(); f != nil && !x.Call.IsInvoke() && an.Orig(f).Pkg == fn.Pkg {
			if q.returnsUnique(an.Orig(f), 0) {
				return true, "result of source-unique " + an.Orig(f).Name()
			}
			return false, an.Orig(f).Name() + " does not return a source-unique list"
		}
		return false, "result of a call that is not summarised source-unique"
	case *ssa.Extract:
		if call, ok := x.Tuple.(*ssa.Call); ok {
			if f := call.Call.StaticCallee(); f != nil && !call.Call.IsInvoke() && an.Orig(f).Pkg == fn.Pkg {
				if q.returnsUnique(an.Orig(f), x.Index) {
					return true, "result of source-unique " + an.Orig(f).Name()
				}
				return false, an.Orig(f).Name() + " does not return a source-unique list"
			}
		}
		return false, "tuple component of unknown origin"
	case *ssa.Phi:
		web, inputs := c02PhiWeb(x)
		loops := c02WebLoops(fn, web)
		if len(loops) == 0 {
			return false, "accumulator is not loop-carried"
		}
		for _, in := range inputs {
			if an.IsNilConst(in) {
				continue
			}
			call, ok := in.(*ssa.Call)
			if !ok {
				return false, "accumulator receives a value that is neither nil nor an append"
			}
			b, ok := call.Call.Value.(*ssa.Builtin)
			if !ok || b.Name() != "append" {
				return false, "accumulator receives a value that is neither nil nor an append"
			}
			base, ok := call.Call.Args[0].(*ssa.Phi)
			if !ok || !web[base] {
				return false, "append does not extend the accumulator itself"
			}
			elems := appendedElems(call)
			if len(elems) != 1 {
				return false, "append adds several messages at once (not one tested message)"
			}
			e := elems[0]
			ok2, why := q.uniqGuard(fn, call.Block(), func(a ssa.Value) bool { return a == e || an.Equiv(a, e) }, loops)
			if !ok2 {
				return false, why
			}
		}
		return true, "every append is on the true edge of uniq(elem)"
	}
	return false, "collection of unknown origin"
}

func (q *c02Q1) returnsUnique(f *ssa.Function, idx int) bool {
	key := fmt.Sprintf("%s#%d", an.FuncName(f), idx)
	switch q.memo[key] {
	case 1:
		return true
	case 2, 3:
		return false
	}
	q.memo[key] = 3
	rets := an.Returns(f)
	ok := len(rets) > 0
	for _, r := range rets {
		if idx >= len(r.Results) {
			ok = false
			break
		}
		if an.IsNilConst(r.Results[idx]) {
			continue
		}
		if u, _ := q.sliceUnique(f, r.Results[idx]); !u {
			ok = false
			break
		}
	}
	if ok {
		q.memo[key] = 1
	} else {
		q.memo[key] = 2
	}
	return ok
}

// counterUnique: v is a loop-carried counter incremented by one only on the true edge of uniq(elem).
func (q *c02Q1) counterUnique(fn *ssa.Function, v ssa.Value) (bool, string) {
	p, ok := an.Unwrap(v).(*ssa.Phi)
	if !ok {
		return false, "count of unknown origin"
	}
	web, inputs := c02PhiWeb(p)
	loops := c02WebLoops(fn, web)
	if len(loops) == 0 {
		return false, "counter is not loop-carried"
	}
	for _, in := range inputs {
		if n, ok := an.ConstInt(in); ok && n == 0 {
			continue
		}
		bin, ok := in.(*ssa.BinOp)
		if !ok || bin.Op != token.ADD {
			return false, "counter receives a value that is neither 0 nor counter+1"
		}
		base, okb := bin.X.(*ssa.Phi)
		n, okn := an.ConstInt(bin.Y)
		if !okb || !web[base] || !okn || n != 1 {
			return false, "counter receives a value that is neither 0 nor counter+1"
		}
		l := an.InnermostLoop(fn, bin.Block())
		if l == nil {
			return false, "increment outside a loop"
		}
		ok2, why := q.uniqGuard(fn, bin.Block(), func(a ssa.Value) bool { return l.ElemOf(a) }, loops)
		if !ok2 {
			return false, why
		}
	}
	return true, "every increment is on the true edge of uniq(elem)"
}

// mapUnique: v is a map built in fn all of whose insertions are keyed by Source() of the stored message.
func (q *c02Q1) mapUnique(fn *ssa.Function, v ssa.Value) (bool, string) {
	seen := map[ssa.Value]bool{}
	var local func(x ssa.Value) bool
	local = func(x ssa.Value) bool {
		x = an.Unwrap(x)
		if seen[x] {
			return true
		}
		seen[x] = true
		switch y := x.(type) {
		case *ssa.MakeMap:
			return true
		case *ssa.Phi:
			for _, e := range y.Edges {
				if !local(e) {
					return false
				}
			}
			return true
		case *ssa.Lookup:
			return c02OuterOK(fn, y.X, local)
		case *ssa.Extract:
			switch t := y.Tuple.(type) {
			case *ssa.Lookup:
				return y.Index == 0 && c02OuterOK(fn, t.X, local)
			case *ssa.Next:
				if r, ok := t.Iter.(*ssa.Range); ok && y.Index == 2 {
					return c02OuterOK(fn, r.X, local)
				}
			}
		}
		return false
	}
	if !local(v) {
		return false, "counted map is not built locally (make) in this function"
	}
	n := 0
	for _, in := range an.Instrs(fn, true) {
		up, ok := in.(*ssa.MapUpdate)
		if !ok || !types.Identical(up.Map.Type(), v.Type()) {
			continue
		}
		n++
		recv, ok := c02MsgCall(up.Key, "Source")
		if !ok {
			return false, "an insertion into the counted map is not keyed by msg.Source()"
		}
		if an.Unwrap(up.Value) != recv {
			return false, "the message stored is not the one whose Source() is the key"
		}
	}
	if n == 0 {
		return false, "no insertion into the counted map found"
	}
	return true, fmt.Sprintf("map made locally; all %d insertion(s) keyed by msg.Source() of the stored message", n)
}

// c02OuterOK: m is a map made in fn and everything stored in it satisfies pred.
func c02OuterOK(fn *ssa.Function, m ssa.Value, pred func(ssa.Value) bool) bool {
	if _, ok := an.Unwrap(m).(*ssa.MakeMap); !ok {
		return false
	}
	for _, in := range an.Instrs(fn, true) {
		if up, ok := in.(*ssa.MapUpdate); ok && up.Map == an.Unwrap(m) {
			if !pred(up.Value) {
				return false
			}
		}
	}
	return true
}

// forallUnique (idiom d): every accepting return reachable from the "reached" edge of the
// comparison lies after a full loop over coll whose body leaves on !uniq(elem).
func (q *c02Q1) forallUnique(fn *ssa.Function, coll ssa.Value, reached []*ssa.BasicBlock) (bool, string) {
	if len(reached) == 0 {
		return false, "comparison over an unfiltered collection is not branched on"
	}
	resIdx := -1
	res := fn.Signature.Results()
	for i := 0; i < res.Len(); i++ {
		if b, ok := res.At(i).Type().Underlying().(*types.Basic); ok && b.Kind() == types.Bool {
			resIdx = i
		}
	}
	if resIdx < 0 {
		return false, "unfiltered collection counted in a function without a boolean verdict"
	}
	loops := c02LoopOver(fn, coll)
	var sinks []*ssa.Return
	for _, r := range c02AcceptRets(fn, resIdx) {
		for _, s := range reached {
			if an.ReachBlocks(s, nil)[r.Block()] {
				sinks = append(sinks, r)
				break
			}
		}
	}
	if len(sinks) == 0 {
		return false, "no accepting return depends on the comparison"
	}
	for _, r := range sinks {
		good := false
		why := "no loop over the counted collection rejects repeated sources before accepting"
		for _, l := range loops {
			for _, in := range an.Instrs(fn, false) {
				u, ok := in.(*ssa.Call)
				if !ok || !l.Body[u.Block()] || len(u.Call.Args) != 1 || u.Call.IsInvoke() {
					continue
				}
				mk := c02Static(an.Resolve(u.Call.Value), "uniqSource")
				if mk == nil || l.Body[mk.Block()] || !l.ElemOf(u.Call.Args[0]) {
					continue
				}
				for _, cd := range an.CondsOn(fn, u) {
					if cd.Other != nil {
						continue
					}
					ok2, w := an.ForallGuard(l, cd.If, cd.Succ(false), r)
					if ok2 {
						good = true
					} else {
						why = w
					}
				}
			}
		}
		if !good {
			return false, why
		}
	}
	return true, "accepting returns lie after a full loop rejecting on !uniq(elem)"
}

// c02Expect freezes which threshold each counting function uses (QBFT: every rule needs a
// quorum except the f+1 round-change jump, Algorithm 3:5).
var c02Expect = map[string]string{
	"classify":               "quorum", // quorum PREPARE / COMMIT / ROUND-CHANGE
	"containsJustifiedQrc":   "quorum", // Algorithm 4:1
	"isJustifiedDecided":     "quorum", // quorum COMMITs
	"isJustifiedRoundChange": "quorum", // quorum PREPAREs justify pr/pv
	"quorumNullPrepared":     "quorum", // J1
	"getPrepareQuorums":      "quorum", // J2
	"getJustifiedQrc":        "quorum", // J2
	"getSingleJustifiedPrPv": "quorum", // J2
	"getFPlus1RoundChanges":  "f+1",    // Algorithm 3:5
	"nextMinRound":           "f+1",    // sanity check of Frc
}

func c02Q1Rule(c *rt.Ctx) {
	q := &c02Q1{c: c, memo: map[string]int{}}
	for _, fn := range an.PkgFuncs(c.SSAPkg(c02P)) {
		ord := map[string]int{}
		for _, in := range an.Instrs(fn, false) {
			bin, ok := in.(*ssa.BinOp)
			if !ok || !c02IsCmp(bin.Op) {
				continue
			}
			count, op := bin.X, bin.Op
			kind, isT := c02Threshold(bin.Y)
			if !isT {
				if kind, isT = c02Threshold(bin.X); !isT {
					continue
				}
				count, op = bin.Y, c02Flip(bin.Op)
			}
			name := strings.TrimPrefix(an.FuncName(fn), c02P+".")
			ord[name]++
			key := fmt.Sprintf("%s quorum-comparison #%d", name, ord[name])
			pos := bin.Pos()
			if !pos.IsValid() {
				pos = posOf(bin)
			}
			// normalise `> f` to `>= f+1`
			if kind == "f" {
				switch op {
				case token.GTR:
					kind, op = "f+1", token.GEQ
				case token.LEQ:
					kind, op = "f+1", token.LSS
				default:
					c.Bad(key, pos, "count is compared with Faulty() itself, not Faulty()+1")
					continue
				}
			}
			if kind == "derived" {
				c.Bad(key, pos, "count is compared with an expression derived from Quorum()/Faulty() that is neither Quorum() nor Faulty()+1")
				continue
			}
			want, known := c02Expect[name]
			if !known {
				c.Unsure(key, pos, "quorum comparison in a function that is not in the frozen threshold table")
				continue
			}
			if want != kind {
				c.Bad(key, pos, fmt.Sprintf("threshold is %s where the protocol rule needs %s", kind, want))
				continue
			}
			// edges on which the threshold is reached
			var reached, notReached []*ssa.BasicBlock
			okOp := true
			for _, iff := range c02IfOf(bin) {
				switch op {
				case token.GEQ, token.EQL:
					reached = append(reached, iff.Block().Succs[0])
					notReached = append(notReached, iff.Block().Succs[1])
				case token.LSS:
					reached = append(reached, iff.Block().Succs[1])
					notReached = append(notReached, iff.Block().Succs[0])
				default:
					okOp = false
				}
			}
			if op != token.GEQ && op != token.EQL && op != token.LSS {
				okOp = false
			}
			if !okOp {
				c.Unsure(key, pos, "comparison form not recognised (expected count >= T, count < T or count == T)")
				continue
			}
			// classify the counted operand
			var good bool
			var why string
			if arg := c02LenArg(count); arg != nil {
				if an.IsMapType(arg.Type()) {
					good, why = q.mapUnique(fn, arg)
				} else {
					good, why = q.sliceUnique(fn, arg)
					if !good {
						// sanity checks that only panic are exempt
						allPanic := len(notReached) > 0
						for _, b := range notReached {
							if !c02EndsInPanic(b) {
								allPanic = false
							}
						}
						if allPanic {
							c.Good(key, pos, "sanity check: the not-reached edge only panics")
							continue
						}
						if g, w := q.forallUnique(fn, arg, reached); g {
							good, why = g, w
						} else if _, isPhi := an.Unwrap(arg).(*ssa.Phi); !isPhi {
							why = why + "; " + w
						}
					}
				}
			} else {
				good, why = q.counterUnique(fn, count)
			}
			if good {
				c.Good(key, pos, why)
			} else {
				c.Bad(key, pos, "counted collection is not source-unique: "+why)
			}
		}
	}
	// the uniqSource closure itself
	us := c.Fn(c02P + ".uniqSource")
	if len(us.AnonFuncs) != 1 {
		c.Bail("uniqSource: expected exactly one function literal")
	}
	cl := us.AnonFuncs[0]
	if len(cl.Params) != 1 || len(cl.FreeVars) != 1 {
		c.Bail("uniqSource closure: unexpected shape")
	}
	msgP := cl.Params[0]
	isDedup := func(m ssa.Value) bool {
		ld, ok := an.Unwrap(m).(*ssa.UnOp)
		return ok && ld.Op == token.MUL && ld.X == ssa.Value(cl.FreeVars[0])
	}
	rets := c02AcceptRets(cl, 0)
	if len(rets) == 0 {
		c.Bail("uniqSource closure never accepts")
	}
	for _, r := range rets {
		if b, isC := c02ConstBool(r.Results[0]); !isC || !b {
			c.Unsure("uniqSource closure accepting return", posOf(r), "closure returns a computed verdict; only `return true` after test-and-set of dedup[msg.Source()] is recognised")
			continue
		}
		tested, set := false, false
		for _, in := range an.Instrs(cl, false) {
			switch x := in.(type) {
			case *ssa.Lookup:
				if !isDedup(x.X) || !c02IsMsgCallOn(x.Index, "Source", msgP) {
					continue
				}
				var tv ssa.Value = x
				if x.CommaOk { // `_, ok := dedup[src]`: presence is the test (entries are only ever set to true)
					tv = nil
					for _, ref := range *x.Referrers() {
						if ex, ok := ref.(*ssa.Extract); ok && ex.Index == 1 {
							tv = ex
						}
					}
					if tv == nil {
						continue
					}
				}
				for _, cd := range an.CondsOn(cl, tv) {
					if cd.Other == nil && cd.Succ(false).Dominates(r.Block()) && !an.CanReach(cd.Succ(true), r.Block(), nil) {
						tested = true
					}
				}
			case *ssa.MapUpdate:
				if b, isC := c02ConstBool(x.Value); isDedup(x.Map) && c02IsMsgCallOn(x.Key, "Source", msgP) && isC && b && an.Dominates(x, r) {
					set = true
				}
			}
		}
		c.Check("uniqSource closure tests dedup[msg.Source()] before accepting", posOf(r), tested, "the closure can return true for a source already seen")
		c.Check("uniqSource closure records dedup[msg.Source()] before accepting", posOf(r), set, "the closure returns true without recording the source: the same source is accepted again")
	}
	// the free variable is a fresh map per uniqSource() call
	fresh := false
	for _, in := range an.Instrs(us, false) {
		if mc, ok := in.(*ssa.MakeClosure); ok && mc.Fn == ssa.Value(cl) {
			if al, ok := mc.Bindings[0].(*ssa.Alloc); ok {
				if _, ok := an.UniqueStore(al).(*ssa.MakeMap); ok {
					fresh = true
				}
			}
		}
	}
	c.Check("uniqSource dedup map is made per call", us.Pos(), fresh, "the dedup map is not a fresh map made in uniqSource")
}

// ---------------------------------------------------------------------------------------------
// The Run state machine: cells, closures, broadcasts

type c02Run struct {
	c        *rt.Ctx
	fn       *ssa.Function
	all      []*ssa.Function
	recvMsg  ssa.Value // message received from t.Receive
	classify *ssa.Call
	ruleV    ssa.Value // classify result #0
	justV    ssa.Value // classify result #1
}

func c02NewRun(c *rt.Ctx) *c02Run {
	r := &c02Run{c: c, fn: c.Fn(c02P + ".Run")}
	r.all = an.Closure(r.fn)
	// the received message
	for _, in := range an.Instrs(r.fn, false) {
		sel, ok := in.(*ssa.Select)
		if !ok {
			continue
		}
		n := 0
		for _, st := range sel.States {
			if st.Dir != types.RecvOnly {
				continue
			}
			if k, _, ok := an.FieldOf(st.Chan); ok && c02Strip(k) == c02P+".Transport.Receive" {
				for _, ref := range *sel.Referrers() {
					if ex, ok := ref.(*ssa.Extract); ok && ex.Index == 2+n {
						if r.recvMsg != nil {
							c.Bail("Run: several receives from Transport.Receive")
						}
						r.recvMsg = ex
					}
				}
			}
			n++
		}
	}
	if r.recvMsg == nil {
		c.Bail("Run: receive from Transport.Receive not found")
	}
	cl := an.Calls(r.fn, func(cc *ssa.CallCommon) bool { return c02Callee(cc) == c02P+".classify" }, false)
	if len(cl) != 1 {
		c.Bail("Run: expected exactly one classify call, found %d", len(cl))
	}
	r.classify = cl[0].(*ssa.Call)
	for _, ref := range *r.classify.Referrers() {
		if ex, ok := ref.(*ssa.Extract); ok {
			switch ex.Index {
			case 0:
				r.ruleV = ex
			case 1:
				r.justV = ex
			}
		}
	}
	if r.ruleV == nil || r.justV == nil {
		c.Bail("Run: results of classify are not both used")
	}
	return r
}

// binding resolves a free variable to the value bound by the enclosing MakeClosure.
func (r *c02Run) binding(fv *ssa.FreeVar) ssa.Value {
	fn := fv.Parent()
	idx := -1
	for i, f := range fn.FreeVars {
		if f == fv {
			idx = i
		}
	}
	if idx < 0 || fn.Parent() == nil {
		return nil
	}
	for _, in := range an.Instrs(fn.Parent(), false) {
		if mc, ok := in.(*ssa.MakeClosure); ok && mc.Fn == ssa.Value(fn) {
			b := mc.Bindings[idx]
			if f2, ok := b.(*ssa.FreeVar); ok {
				return r.binding(f2)
			}
			return b
		}
	}
	return nil
}

// cellAddr resolves an address to the Alloc of Run it denotes (directly or through a free variable).
func (r *c02Run) cellAddr(a ssa.Value) *ssa.Alloc {
	switch x := a.(type) {
	case *ssa.Alloc:
		if x.Parent() == r.fn {
			return x
		}
	case *ssa.FreeVar:
		if al, ok := r.binding(x).(*ssa.Alloc); ok && al.Parent() == r.fn {
			return al
		}
	}
	return nil
}

// cellOf: v is a load of a state cell of Run.
func (r *c02Run) cellOf(v ssa.Value) *ssa.Alloc {
	ld, ok := an.Unwrap(v).(*ssa.UnOp)
	if !ok || ld.Op != token.MUL {
		return nil
	}
	return r.cellAddr(ld.X)
}

// stores returns every store into the cell anywhere in Run and its closures.
func (r *c02Run) stores(cell *ssa.Alloc) []*ssa.Store {
	var out []*ssa.Store
	for _, f := range r.all {
		for _, in := range an.Instrs(f, false) {
			if st, ok := in.(*ssa.Store); ok && r.cellAddr(st.Addr) == cell {
				out = append(out, st)
			}
		}
	}
	return out
}

// closureOf resolves a callee value to the function literal of Run it denotes.
func (r *c02Run) closureOf(v ssa.Value) *ssa.Function {
	v = an.Unwrap(v)
	switch x := v.(type) {
	case *ssa.MakeClosure:
		if f, ok := x.Fn.(*ssa.Function); ok {
			return f
		}
	case *ssa.Function:
		if x.Parent() != nil {
			return x
		}
	case *ssa.UnOp:
		if x.Op != token.MUL {
			return nil
		}
		cell := r.cellAddr(x.X)
		if cell == nil {
			return nil
		}
		sts := r.stores(cell)
		if len(sts) != 1 {
			return nil
		}
		return r.closureOf(sts[0].Val)
	}
	return nil
}

// callSites returns the calls of the function literal anon anywhere in Run and its closures.
func (r *c02Run) callSites(anon *ssa.Function) []ssa.CallInstruction {
	var out []ssa.CallInstruction
	for _, f := range r.all {
		for _, in := range an.Instrs(f, false) {
			if ci, ok := in.(ssa.CallInstruction); ok && !ci.Common().IsInvoke() && r.closureOf(ci.Common().Value) == anon {
				out = append(out, ci)
			}
		}
	}
	return out
}

// c02Bcast is one Transport.Broadcast call with its arguments expressed at the outermost call site.
type c02Bcast struct {
	inner ssa.CallInstruction // the t.Broadcast call
	site  ssa.CallInstruction // the call in Run proper that leads to it (== inner if direct)
	args  []ssa.Value         // ctx, typ, instance, source, round, value, pr, pv, justification
	open  bool                // a parameter could not be resolved to a call site in Run
}

func (r *c02Run) bcasts() []c02Bcast {
	var out []c02Bcast
	var lift func(b c02Bcast, depth int)
	lift = func(b c02Bcast, depth int) {
		host := b.site.Parent()
		if host == r.fn {
			out = append(out, b)
			return
		}
		sites := r.callSites(host)
		if len(sites) == 0 || depth > 3 {
			b.open = true
			out = append(out, b)
			return
		}
		for _, s := range sites {
			nb := c02Bcast{inner: b.inner, site: s, args: append([]ssa.Value(nil), b.args...)}
			for i, a := range nb.args {
				if p, ok := a.(*ssa.Parameter); ok && p.Parent() == host {
					for j, hp := range host.Params {
						if hp == p && j < len(s.Common().Args) {
							nb.args[i] = s.Common().Args[j]
						}
					}
				}
			}
			lift(nb, depth+1)
		}
	}
	for _, f := range r.all {
		for _, in := range an.Instrs(f, false) {
			ci, ok := in.(ssa.CallInstruction)
			if !ok || ci.Common().IsInvoke() || ci.Common().StaticCallee() != nil {
				continue
			}
			if k, _, ok := an.FieldOf(ci.Common().Value); !ok || c02Strip(k) != c02P+".Transport.Broadcast" {
				continue
			}
			if len(ci.Common().Args) != 9 {
				r.c.Bail("Transport.Broadcast: unexpected arity")
			}
			lift(c02Bcast{inner: ci, site: ci, args: append([]ssa.Value(nil), ci.Common().Args...)}, 0)
		}
	}
	if len(out) == 0 {
		r.c.Bail("Run: no Transport.Broadcast call found")
	}
	return out
}

func (r *c02Run) msgType(name string) int64 { return constOf(r.c, c02P, name) }

// ---------------------------------------------------------------------------------------------
// Q2 — justified before buffered/classified

func c02Q2Rule(c *rt.Ctx) {
	r := c02NewRun(c)
	bufCell := r.cellOf(r.classify.Call.Args[4])
	if bufCell == nil {
		c.Bail("Run: the buffer passed to classify is not a state cell")
	}
	type sink struct {
		in   ssa.Instruction
		what string
		msg  bool
	}
	sinks := []sink{{r.classify, "classify", r.classify.Call.Args[5] == r.recvMsg}}
	writesBuf := func(f *ssa.Function) bool {
		for _, in := range an.Instrs(f, false) {
			if up, ok := in.(*ssa.MapUpdate); ok && r.cellOf(up.Map) == bufCell {
				return true
			}
		}
		return false
	}
	for _, f := range r.all {
		if f == r.fn || !writesBuf(f) {
			continue
		}
		for _, s := range r.callSites(f) {
			if s.Parent() != r.fn {
				c.Unsure("Run buffer write via nested closure", s.Pos(), "buffer-writing closure is called from another closure")
				continue
			}
			has := false
			for _, a := range s.Common().Args {
				if a == r.recvMsg {
					has = true
				}
			}
			sinks = append(sinks, sink{s, "buffer write (" + strings.TrimPrefix(an.FuncName(f), c02P+".") + ")", has})
		}
	}
	for _, in := range an.Instrs(r.fn, false) {
		if up, ok := in.(*ssa.MapUpdate); ok && r.cellOf(up.Map) == bufCell {
			sinks = append(sinks, sink{up, "buffer write (inline)", true})
		}
	}
	guards := an.Calls(r.fn, func(cc *ssa.CallCommon) bool { return c02Callee(cc) == c02P+".isJustified" }, false)
	for _, s := range sinks {
		key := "Run isJustified→" + s.what
		if !s.msg {
			c.Unsure(key, posOf(s.in), "the sink does not consume the message received from Transport.Receive")
			continue
		}
		good, why := false, "no isJustified call on the received message precedes the sink"
		for _, g := range guards {
			if len(g.Common().Args) != 4 || g.Common().Args[2] != r.recvMsg {
				why = "isJustified is applied to a different message"
				continue
			}
			ok, w := an.Guarded(g, s.in, an.GuardOpt{BoolIdx: 0, BoolWant: true, NoErr: true})
			if ok {
				good = true
			} else {
				why = w
			}
		}
		c.Check(key, posOf(s.in), good, "unjustified message reaches "+s.what+": "+why)
	}
}

// ---------------------------------------------------------------------------------------------
// Q3 — dedup key re-recorded between round change and PREPARE

// c02StructLit returns the values stored into the fields of the local struct whose load is v.
func c02StructLit(v ssa.Value) map[string]ssa.Value {
	ld, ok := an.Unwrap(v).(*ssa.UnOp)
	if !ok || ld.Op != token.MUL {
		return nil
	}
	al, ok := ld.X.(*ssa.Alloc)
	if !ok {
		return nil
	}
	st, ok := al.Type().(*types.Pointer).Elem().Underlying().(*types.Struct)
	if !ok {
		return nil
	}
	out := map[string]ssa.Value{}
	for _, ref := range *al.Referrers() {
		fa, ok := ref.(*ssa.FieldAddr)
		if !ok {
			continue
		}
		for _, r2 := range *fa.Referrers() {
			if s, ok := r2.(*ssa.Store); ok && s.Addr == ssa.Value(fa) {
				name := st.Field(fa.Field).Name()
				if _, dup := out[name]; dup {
					return nil
				}
				out[name] = s.Val
			}
		}
	}
	return out
}

func c02Q3Rule(c *rt.Ctx) {
	r := c02NewRun(c)
	// the dedup cell: the only state cell holding a map keyed by dedupKey
	var dedup *ssa.Alloc
	for _, in := range an.Instrs(r.fn, false) {
		al, ok := in.(*ssa.Alloc)
		if !ok {
			continue
		}
		if m, ok := al.Type().(*types.Pointer).Elem().Underlying().(*types.Map); ok && an.TypeName(m.Key()) == c02P+".dedupKey" {
			if dedup != nil {
				c.Bail("Run: several dedupKey maps")
			}
			dedup = al
		}
	}
	if dedup == nil {
		c.Bail("Run: dedup-rule map not found")
	}
	upon := constOf(c, c02P, "UponJustifiedPrePrepare")
	prepare := r.msgType("MsgPrepare")
	// wipers: closures (or inline stores) replacing the dedup map after the initial make
	isWipe := func(in ssa.Instruction) bool {
		switch x := in.(type) {
		case *ssa.Store:
			return r.cellAddr(x.Addr) == dedup && !(x.Block().Index == 0 && x.Parent() == r.fn)
		case ssa.CallInstruction:
			f := r.closureOf(x.Common().Value)
			if f == nil || x.Common().IsInvoke() {
				return false
			}
			for _, in2 := range an.Instrs(f, false) {
				if st, ok := in2.(*ssa.Store); ok && r.cellAddr(st.Addr) == dedup {
					return true
				}
			}
		}
		return false
	}
	// recorders: dedup[{rule, msg.Round()}] = true inline, or a call of a closure doing so with (rule, msg.Round())
	goodKey := func(rule, round ssa.Value) (bool, string) {
		ruleOK := rule == r.ruleV
		if n, ok := an.ConstInt(rule); ok && n == upon {
			ruleOK = true
		}
		if !ruleOK {
			return false, "key does not carry the triggered rule"
		}
		if !c02IsMsgCallOn(round, "Round", r.recvMsg) {
			return false, "key does not carry msg.Round() of the received message"
		}
		return true, ""
	}
	var lastWhy string
	var unsure bool
	isRecord := func(in ssa.Instruction) bool {
		switch x := in.(type) {
		case *ssa.MapUpdate:
			if r.cellOf(x.Map) != dedup {
				return false
			}
			if b, ok := c02ConstBool(x.Value); !ok || !b {
				lastWhy = "dedup entry is not set to true"
				return false
			}
			lit := c02StructLit(x.Key)
			if lit == nil || lit["UponRule"] == nil || lit["Round"] == nil {
				lastWhy = "dedup key is not a {UponRule, Round} literal"
				return false
			}
			if r.cellOf(lit["Round"]) != nil {
				lastWhy = "dedup key uses a state cell for the round; equality with msg.Round() is not decided"
				unsure = true
				return false
			}
			ok, why := goodKey(lit["UponRule"], lit["Round"])
			if !ok {
				lastWhy = why
			}
			return ok
		case ssa.CallInstruction:
			f := r.closureOf(x.Common().Value)
			if f == nil || x.Common().IsInvoke() || len(f.Params) != 2 || len(x.Common().Args) != 2 {
				return false
			}
			for _, in2 := range an.Instrs(f, false) {
				up, ok := in2.(*ssa.MapUpdate)
				if !ok || r.cellOf(up.Map) != dedup {
					continue
				}
				lit := c02StructLit(up.Key)
				if b, okb := c02ConstBool(up.Value); !okb || !b || lit == nil || lit["UponRule"] != ssa.Value(f.Params[0]) || lit["Round"] != ssa.Value(f.Params[1]) {
					continue
				}
				ok2, _ := goodKey(x.Common().Args[0], x.Common().Args[1])
				return ok2
			}
		}
		return false
	}
	var prepares []c02Bcast
	for _, b := range r.bcasts() {
		if n, ok := an.ConstInt(b.args[1]); ok && n == prepare {
			if b.open {
				c.Unsure("Run PREPARE broadcast", b.inner.Pos(), "PREPARE broadcast not attributable to a call site in Run")
				continue
			}
			prepares = append(prepares, b)
		} else if !ok {
			c.Unsure("Run broadcast with computed type", b.site.Pos(), "message type of a broadcast is not a constant")
		}
	}
	if len(prepares) == 0 {
		c.Bail("Run: no PREPARE broadcast found")
	}
	var wipes []ssa.Instruction
	for _, in := range an.Instrs(r.fn, false) {
		if isWipe(in) {
			wipes = append(wipes, in)
		}
	}
	if len(wipes) == 0 {
		c.Bail("Run: no round change wiping the dedup map found")
	}
	for _, p := range prepares {
		// the PREPARE must carry the value of the received message
		c.Check("Run PREPARE carries msg.Value()", p.site.Pos(), c02IsMsgCallOn(p.args[5], "Value", r.recvMsg),
			"the PREPARE broadcast does not carry the value of the pre-prepare just received")
		n := 0
		for _, w := range wipes {
			lastWhy, unsure = "", false
			path, found := c02PathAvoiding(w, p.site, func(in ssa.Instruction) bool { return in == w || isRecord(in) })
			if !found && !c02Reaches(w, p.site) {
				continue
			}
			n++
			key := "Run round-change→re-record→PREPARE"
			if found {
				detail := "after the round change wiped the dedup map a PREPARE is broadcast without re-recording {rule, msg.Round()}: a second pre-prepare of the round triggers a second PREPARE; path " + an.PathString(c.P, path)
				if lastWhy != "" {
					detail += " (" + lastWhy + ")"
				}
				if unsure {
					c.Unsure(key, posOf(w), detail)
				} else {
					c.Bad(key, posOf(w), detail)
				}
			} else {
				c.Good(key, posOf(w), "every path from the wipe to the PREPARE re-records the key")
			}
		}
		if n == 0 {
			c.Unsure("Run round-change→re-record→PREPARE", p.site.Pos(), "no round change can reach the PREPARE broadcast")
		}
	}
}

// c02Reaches: some CFG path leads from just after a to b.
func c02Reaches(a, b ssa.Instruction) bool {
	_, f := c02PathAvoiding(a, b, func(ssa.Instruction) bool { return false })
	return f
}

// c02PathAvoiding searches a path from just after `from` to `to` that does not execute an
// instruction satisfying stop.
func c02PathAvoiding(from, to ssa.Instruction, stop func(ssa.Instruction) bool) ([]*ssa.BasicBlock, bool) {
	if from.Parent() != to.Parent() {
		return nil, false
	}
	idx := func(in ssa.Instruction) int {
		for i, x := range in.Block().Instrs {
			if x == in {
				return i
			}
		}
		return -1
	}
	seen := map[*ssa.BasicBlock]bool{}
	var path []*ssa.BasicBlock
	var walk func(b *ssa.BasicBlock, i int) bool
	walk = func(b *ssa.BasicBlock, i int) bool {
		path = append(path, b)
		for ; i < len(b.Instrs); i++ {
			if b.Instrs[i] == to {
				return true
			}
			if stop(b.Instrs[i]) {
				path = path[:len(path)-1]
				return false
			}
		}
		for _, s := range b.Succs {
			if seen[s] {
				continue
			}
			seen[s] = true
			if walk(s, 0) {
				return true
			}
		}
		path = path[:len(path)-1]
		return false
	}
	ok := walk(from.Block(), idx(from)+1)
	return path, ok
}

// ---------------------------------------------------------------------------------------------
// Q4 — justification predicates are complete

// c02ZeroTests returns the boolean values meaning "v is the zero value" with their polarity
// (true: value is true when v is zero).
func c02ZeroTests(fn *ssa.Function, isV func(ssa.Value) bool) map[ssa.Value]bool {
	out := map[ssa.Value]bool{}
	isZero := func(x ssa.Value) bool {
		x = an.Unwrap(x)
		if c02Static(x, "zeroVal") != nil {
			return true
		}
		if k, ok := x.(*ssa.Const); ok {
			return k.Value == nil || k.IsNil()
		}
		return false
	}
	for _, in := range an.Instrs(fn, false) {
		switch x := in.(type) {
		case *ssa.Call:
			if c02Static(x, "isZeroVal") != nil && len(x.Call.Args) == 1 && isV(x.Call.Args[0]) {
				out[x] = true
			}
		case *ssa.BinOp:
			if x.Op != token.EQL && x.Op != token.NEQ {
				continue
			}
			if (isV(x.X) && isZero(x.Y)) || (isV(x.Y) && isZero(x.X)) {
				out[x] = x.Op == token.EQL
			}
		}
	}
	return out
}

// c02FilterSpec describes a (possibly wrapped) filterMsgs call.
type c02FilterSpec struct {
	msgs, typ, round ssa.Value
	value, pr, pv    ssa.Value // nil when the criterion is absent
}

// c02Filter resolves v to the filterMsgs criteria it was computed with, looking through the
// one-line wrappers (filterByRoundAndValue, filterRoundChange).
func c02Filter(v ssa.Value, depth int) (c02FilterSpec, bool) {
	call, ok := an.Unwrap(v).(*ssa.Call)
	if !ok || call.Call.IsInvoke() || call.Call.StaticCallee() == nil || depth > 2 {
		return c02FilterSpec{}, false
	}
	f := an.Orig(call.Call.StaticCallee())
	ptr := func(p ssa.Value) (ssa.Value, bool) { // pointer criterion -> pointee value
		if an.IsNilConst(p) {
			return nil, true
		}
		if al, ok := p.(*ssa.Alloc); ok {
			if s := an.UniqueStore(al); s != nil {
				return s, true
			}
			// a zero-valued local (`var nullPr int64`) has no store
			n := 0
			for _, ref := range *al.Referrers() {
				if _, ok := ref.(*ssa.Store); ok {
					n++
				}
			}
			if n == 0 {
				return ssa.NewConst(nil, al.Type().(*types.Pointer).Elem()), true
			}
		}
		return nil, false
	}
	if c02Strip(an.FuncName(f)) == c02P+".filterMsgs" {
		a := call.Call.Args
		if len(a) != 6 {
			return c02FilterSpec{}, false
		}
		sp := c02FilterSpec{msgs: a[0], typ: a[1], round: a[2]}
		var ok1, ok2, ok3 bool
		sp.value, ok1 = ptr(a[3])
		sp.pr, ok2 = ptr(a[4])
		sp.pv, ok3 = ptr(a[5])
		return sp, ok1 && ok2 && ok3
	}
	if f.Pkg == nil || f.Pkg.Pkg.Path() != call.Parent().Pkg.Pkg.Path() {
		return c02FilterSpec{}, false
	}
	rets := an.Returns(f)
	if len(rets) != 1 || len(rets[0].Results) != 1 || len(f.Blocks) != 1 {
		return c02FilterSpec{}, false
	}
	inner, ok := c02Filter(rets[0].Results[0], depth+1)
	if !ok {
		return c02FilterSpec{}, false
	}
	subst := func(x ssa.Value) ssa.Value {
		if x == nil {
			return nil
		}
		if p, ok := x.(*ssa.Parameter); ok {
			for i, fp := range f.Params {
				if fp == p {
					return call.Call.Args[i]
				}
			}
		}
		return x
	}
	return c02FilterSpec{msgs: subst(inner.msgs), typ: subst(inner.typ), round: subst(inner.round),
		value: subst(inner.value), pr: subst(inner.pr), pv: subst(inner.pv)}, true
}

func c02Q4Rule(c *rt.Ctx) {
	// (a) isJustifiedRoundChange: every accepted PREPARE was tested for type, round == pr, value == pv
	c02Q4RoundChange(c)
	// (b) isJustifiedDecided
	c02Q4Decided(c)
	// (c) isJustifiedPrePrepare
	c02Q4PrePrepare(c)
	// (d) containsJustifiedQrc
	c02Q4Qrc(c)
}

func c02ParamOfType(c *rt.Ctx, fn *ssa.Function, typ string) *ssa.Parameter {
	var out *ssa.Parameter
	for _, p := range fn.Params {
		if c02Strip(an.TypeName(p.Type())) == typ {
			if out != nil {
				c.Bail("%s: several parameters of type %s", an.FuncName(fn), typ)
			}
			out = p
		}
	}
	if out == nil {
		c.Bail("%s: no parameter of type %s", an.FuncName(fn), typ)
	}
	return out
}

func c02Q4RoundChange(c *rt.Ctx) {
	fn := c.Fn(c02P + ".isJustifiedRoundChange")
	msg := c02ParamOfType(c, fn, c02P+".Msg")
	prepareT := constOf(c, c02P, "MsgPrepare")
	var loops []*an.Loop
	for _, l := range an.Loops(fn) {
		if rc := l.RangeColl(); rc != nil && c02IsMsgCallOn(rc, "Justification", msg) {
			loops = append(loops, l)
		}
	}
	if len(loops) != 1 {
		c.Bail("isJustifiedRoundChange: expected one loop over msg.Justification(), found %d", len(loops))
	}
	l := loops[0]
	var sinks []*ssa.Return
	for _, r := range c02AcceptRets(fn, 0) {
		if an.ReachBlocks(l.Header, nil)[r.Block()] {
			sinks = append(sinks, r)
		}
	}
	if len(sinks) == 0 {
		c.Bail("isJustifiedRoundChange: no accepting return after the justification loop")
	}
	type test struct {
		name  string
		elemM string
		other func(ssa.Value) bool
		what  string
	}
	tests := []test{
		{"type", "Type", func(v ssa.Value) bool { n, ok := an.ConstInt(v); return ok && n == prepareT }, "a justification message that is not a PREPARE is accepted"},
		{"round", "Round", func(v ssa.Value) bool { return c02IsMsgCallOn(v, "PreparedRound", msg) }, "a PREPARE of a round other than the claimed prepared round is accepted"},
		{"value", "Value", func(v ssa.Value) bool { return c02IsMsgCallOn(v, "PreparedValue", msg) }, "a PREPARE for a value other than the claimed prepared value is accepted"},
	}
	for _, t := range tests {
		for _, r := range sinks {
			good, why := false, "no such test of the loop element"
			for _, b := range fn.Blocks {
				if !l.Body[b] {
					continue
				}
				iff, ok := b.Instrs[len(b.Instrs)-1].(*ssa.If)
				if !ok {
					continue
				}
				bin, ok := iff.Cond.(*ssa.BinOp)
				if !ok || (bin.Op != token.EQL && bin.Op != token.NEQ) {
					continue
				}
				x, y := bin.X, bin.Y
				if _, ok := c02MsgCall(x, t.elemM); !ok || !t.other(y) {
					x, y = y, x
				}
				recv, ok := c02MsgCall(x, t.elemM)
				if !ok || !t.other(y) || !l.ElemOf(recv) {
					continue
				}
				fail := b.Succs[0] // != : true edge is the mismatch
				if bin.Op == token.EQL {
					fail = b.Succs[1]
				}
				ok2, w := an.ForallGuard(l, iff, fail, r)
				if ok2 {
					good = true
				} else {
					why = w
				}
			}
			c.Check("isJustifiedRoundChange every PREPARE tested for "+t.name, posOf(r), good, t.what+": "+why)
		}
	}
}

func c02Q4Decided(c *rt.Ctx) {
	fn := c.Fn(c02P + ".isJustifiedDecided")
	msg := c02ParamOfType(c, fn, c02P+".Msg")
	commitT := constOf(c, c02P, "MsgCommit")
	rets := c02AcceptRets(fn, 0)
	if len(rets) == 0 {
		c.Bail("isJustifiedDecided never accepts")
	}
	for _, r := range rets {
		// the verdict must be (or be guarded by) len(filter(...)) >= Quorum()
		var cmps []*ssa.BinOp
		if bin, ok := r.Results[0].(*ssa.BinOp); ok {
			cmps = append(cmps, bin)
		} else {
			for _, in := range an.Instrs(fn, false) {
				bin, ok := in.(*ssa.BinOp)
				if !ok {
					continue
				}
				for _, iff := range c02IfOf(bin) {
					if (bin.Op == token.GEQ && c02EdgeDom(iff.Block(), 0, r.Block())) || (bin.Op == token.LSS && c02EdgeDom(iff.Block(), 1, r.Block())) {
						cmps = append(cmps, bin)
					}
				}
			}
		}
		var spec *c02FilterSpec
		for _, bin := range cmps {
			if k, ok := c02Threshold(bin.Y); !ok || k != "quorum" || (bin.Op != token.GEQ && bin.Op != token.LSS) {
				continue
			}
			if arg := c02LenArg(bin.X); arg != nil {
				if sp, ok := c02Filter(arg, 0); ok {
					spec = &sp
				}
			}
		}
		if spec == nil {
			quorumCmp := false
			for _, bin := range cmps {
				if k, ok := c02Threshold(bin.Y); ok && k == "quorum" {
					quorumCmp = true
				}
			}
			if quorumCmp {
				c.Unsure("isJustifiedDecided verdict", posOf(r), "the verdict depends on a quorum comparison whose counted list is not a recognisable filterMsgs call")
			} else {
				c.Bad("isJustifiedDecided verdict", posOf(r), "an accepting return does not depend on len(filterMsgs(...)) >= Quorum()")
			}
			continue
		}
		c.Check("isJustifiedDecided counts the message's own justification", posOf(r), c02IsMsgCallOn(spec.msgs, "Justification", msg), "the counted list is not msg.Justification()")
		n, isC := an.ConstInt(spec.typ)
		c.Check("isJustifiedDecided counts COMMITs", posOf(r), isC && n == commitT, "the counted messages are not filtered by type COMMIT")
		c.Check("isJustifiedDecided filters by the message's round", posOf(r), c02IsMsgCallOn(spec.round, "Round", msg), "COMMITs are not filtered by msg.Round()")
		c.Check("isJustifiedDecided filters by the message's value", posOf(r), spec.value != nil && c02IsMsgCallOn(spec.value, "Value", msg), "COMMITs are not filtered by msg.Value(): commits for different values add up to a quorum")
	}
}

func c02Q4PrePrepare(c *rt.Ctx) {
	fn := c.Fn(c02P + ".isJustifiedPrePrepare")
	msg := c02ParamOfType(c, fn, c02P+".Msg")
	rets := c02AcceptRets(fn, 0)
	if len(rets) == 0 {
		c.Bail("isJustifiedPrePrepare never accepts")
	}
	if len(fn.Params) != 4 {
		c.Bail("isJustifiedPrePrepare: unexpected signature")
	}
	instP, cfrP := fn.Params[1], fn.Params[3]
	// leader guard
	var leader []ssa.CallInstruction
	for _, ci := range an.Calls(fn, func(cc *ssa.CallCommon) bool { return c02Callee(cc) == "field:"+c02P+".Definition.IsLeader" }, false) {
		a := ci.Common().Args
		if len(a) == 3 && a[0] == ssa.Value(instP) && c02IsMsgCallOn(a[1], "Round", msg) && c02IsMsgCallOn(a[2], "Source", msg) {
			leader = append(leader, ci)
		}
	}
	zero := c02ZeroTests(fn, func(v ssa.Value) bool { return c02IsMsgCallOn(v, "Value", msg) })
	for _, r := range rets {
		good, why := false, "no IsLeader(instance, msg.Round(), msg.Source()) call"
		for _, g := range leader {
			ok, w := an.Guarded(g, r, an.GuardOpt{BoolIdx: 0, BoolWant: true, NoErr: true})
			if ok {
				good = true
			} else {
				why = w
			}
		}
		c.Check("isJustifiedPrePrepare leader test before accepting", posOf(r), good, "a pre-prepare from a process that is not the round's leader is accepted: "+why)
		good, why = false, "no zero-value test of msg.Value()"
		for z, pol := range zero {
			for _, cd := range an.CondsOn(fn, z) {
				if cd.Other != nil {
					continue
				}
				zeroSucc := cd.Succ(pol)
				nonZero := cd.Succ(!pol)
				if nonZero.Dominates(r.Block()) && !an.CanReach(zeroSucc, r.Block(), nil) {
					good = true
				} else {
					why = "the zero-value edge can still reach the accepting return"
				}
			}
		}
		c.Check("isJustifiedPrePrepare non-zero value before accepting", posOf(r), good, "a pre-prepare with the zero value is accepted: "+why)
	}
	// round justification: accepting returns are only reachable through (round == 1),
	// (round == compareFailureRound+1) or (containsJustifiedQrc ok)
	type edge struct {
		b *ssa.BasicBlock
		i int
	}
	var accept []edge
	var qrcEdges []edge
	var pvs []ssa.Value
	for _, b := range fn.Blocks {
		iff, ok := b.Instrs[len(b.Instrs)-1].(*ssa.If)
		if !ok {
			continue
		}
		if bin, ok := iff.Cond.(*ssa.BinOp); ok && (bin.Op == token.EQL || bin.Op == token.NEQ) {
			x, y := bin.X, bin.Y
			if !c02IsMsgCallOn(x, "Round", msg) {
				x, y = y, x
			}
			if c02IsMsgCallOn(x, "Round", msg) {
				okY := false
				if n, isC := an.ConstInt(y); isC && n == 1 {
					okY = true
				}
				if add, isB := an.Unwrap(y).(*ssa.BinOp); isB && add.Op == token.ADD {
					if n, isC := an.ConstInt(add.Y); isC && n == 1 && add.X == ssa.Value(cfrP) {
						okY = true
					}
					if n, isC := an.ConstInt(add.X); isC && n == 1 && add.Y == ssa.Value(cfrP) {
						okY = true
					}
				}
				if okY {
					i := 0
					if bin.Op == token.NEQ {
						i = 1
					}
					accept = append(accept, edge{b, i})
				}
			}
		}
	}
	for _, ci := range an.Calls(fn, func(cc *ssa.CallCommon) bool { return c02Callee(cc) == c02P+".containsJustifiedQrc" }, false) {
		a := ci.Common().Args
		if len(a) != 3 || !c02IsMsgCallOn(a[1], "Justification", msg) || !c02IsMsgCallOn(a[2], "Round", msg) {
			continue
		}
		_, okv := an.StatusOf(ci, 1)
		if okv == nil {
			continue
		}
		for _, ref := range *ci.Value().Referrers() {
			if ex, ok := ref.(*ssa.Extract); ok && ex.Index == 0 {
				pvs = append(pvs, ex)
			}
		}
		for _, cd := range an.CondsOn(fn, okv) {
			if cd.Other != nil {
				continue
			}
			t := cd.Succ(true)
			i := 0
			if cd.If.Block().Succs[1] == t {
				i = 1
			}
			accept = append(accept, edge{cd.If.Block(), i})
			qrcEdges = append(qrcEdges, edge{cd.If.Block(), i})
		}
	}
	isAccept := func(b *ssa.BasicBlock, i int) bool {
		for _, e := range accept {
			if e.b == b && e.i == i {
				return true
			}
		}
		return false
	}
	reach := c02ReachCut(fn.Blocks[0], isAccept)
	for _, r := range rets {
		c.Check("isJustifiedPrePrepare round justification", posOf(r), !reach[r.Block()],
			"an accepting return is reachable without round == 1, round == compareFailureRound+1 or a justified quorum of ROUND-CHANGEs")
	}
	// returns reachable only through the Qrc edge must propose pv (or pv is null)
	isFirstTwo := func(b *ssa.BasicBlock, i int) bool {
		if !isAccept(b, i) {
			return false
		}
		for _, e := range qrcEdges {
			if e.b == b && e.i == i {
				return false
			}
		}
		return true
	}
	reachQ := c02ReachCut(fn.Blocks[0], isFirstTwo)
	nq := 0
	for _, r := range rets {
		if !reachQ[r.Block()] || reach[r.Block()] {
			continue
		}
		// r is reached via the Qrc edge
		nq++
		good := false
		if bin, ok := r.Results[0].(*ssa.BinOp); ok && bin.Op == token.EQL {
			for _, pv := range pvs {
				if (c02IsMsgCallOn(bin.X, "Value", msg) && bin.Y == pv) || (c02IsMsgCallOn(bin.Y, "Value", msg) && bin.X == pv) {
					good = true
				}
			}
		} else {
			for _, pv := range pvs {
				for z, pol := range c02ZeroTests(fn, func(v ssa.Value) bool { return v == pv }) {
					for _, cd := range an.CondsOn(fn, z) {
						if cd.Other == nil && cd.Succ(pol).Dominates(r.Block()) && !an.CanReach(cd.Succ(!pol), r.Block(), nil) {
							good = true
						}
					}
				}
				for _, in := range an.Instrs(fn, false) {
					bin, ok := in.(*ssa.BinOp)
					if !ok || bin.Op != token.EQL && bin.Op != token.NEQ {
						continue
					}
					if !((c02IsMsgCallOn(bin.X, "Value", msg) && bin.Y == pv) || (c02IsMsgCallOn(bin.Y, "Value", msg) && bin.X == pv)) {
						continue
					}
					for _, iff := range c02IfOf(bin) {
						i := 0
						if bin.Op == token.NEQ {
							i = 1
						}
						if c02EdgeDom(iff.Block(), i, r.Block()) {
							good = true
						}
					}
				}
			}
		}
		c.Check("isJustifiedPrePrepare proposes the justified prepared value", posOf(r), good,
			"a pre-prepare justified by ROUND-CHANGEs is accepted although its value is not the prepared value of the justification (and that value is not null)")
	}
	if nq == 0 {
		c.Unsure("isJustifiedPrePrepare proposes the justified prepared value", fn.Pos(), "no accepting return behind containsJustifiedQrc")
	}
}

func c02Q4Qrc(c *rt.Ctx) {
	fn := c.Fn(c02P + ".containsJustifiedQrc")
	var pr, pv ssa.Value
	var prCall ssa.CallInstruction
	for _, ci := range an.Calls(fn, func(cc *ssa.CallCommon) bool { return c02Callee(cc) == c02P+".getSingleJustifiedPrPv" }, false) {
		if prCall != nil {
			c.Bail("containsJustifiedQrc: several getSingleJustifiedPrPv calls")
		}
		prCall = ci
		for _, ref := range *ci.Value().Referrers() {
			if ex, ok := ref.(*ssa.Extract); ok {
				switch ex.Index {
				case 0:
					pr = ex
				case 1:
					pv = ex
				}
			}
		}
	}
	if prCall == nil || pr == nil || pv == nil {
		c.Bail("containsJustifiedQrc: getSingleJustifiedPrPv results not found")
	}
	// the ROUND-CHANGE list
	var qrc ssa.Value
	for _, in := range an.Instrs(fn, false) {
		if call, ok := in.(*ssa.Call); ok {
			if sp, ok := c02Filter(call, 0); ok {
				if n, isC := an.ConstInt(sp.typ); isC && n == constOf(c, c02P, "MsgRoundChange") && sp.msgs == ssa.Value(fn.Params[1]) && sp.round == ssa.Value(fn.Params[2]) &&
					sp.value == nil && sp.pr == nil && sp.pv == nil {
					qrc = call
				}
			}
		}
	}
	if qrc == nil {
		c.Bail("containsJustifiedQrc: filterRoundChange(justification, round) not found")
	}
	// the prepares quorum is extracted from the same justification
	c.Check("containsJustifiedQrc prepared quorum from the same justification", prCall.Pos(), prCall.Common().Args[1] == ssa.Value(fn.Params[1]),
		"the justified (pr,pv) is not computed from the justification being checked")
	var sinks []*ssa.Return
	for _, r := range c02AcceptRets(fn, 1) {
		if an.Dominates(prCall, r) {
			sinks = append(sinks, r)
		}
	}
	if len(sinks) == 0 {
		c.Bail("containsJustifiedQrc: no accepting return after getSingleJustifiedPrPv")
	}
	for _, r := range sinks {
		good, why := false, "no test `rc.PreparedRound() > pr` over the ROUND-CHANGE quorum"
		for _, l := range c02LoopOver(fn, qrc) {
			for _, b := range fn.Blocks {
				if !l.Body[b] {
					continue
				}
				iff, ok := b.Instrs[len(b.Instrs)-1].(*ssa.If)
				if !ok {
					continue
				}
				bin, ok := iff.Cond.(*ssa.BinOp)
				if !ok {
					continue
				}
				x, y, op := bin.X, bin.Y, bin.Op
				if y2, ok := c02MsgCall(y, "PreparedRound"); ok && y2 != nil {
					x, y, op = y, x, c02Flip(op)
				}
				recv, ok := c02MsgCall(x, "PreparedRound")
				if !ok || !l.ElemOf(recv) || y != pr {
					continue
				}
				var fail *ssa.BasicBlock
				switch op {
				case token.GTR:
					fail = b.Succs[0]
				case token.LEQ:
					fail = b.Succs[1]
				default:
					continue
				}
				ok2, w := an.ForallGuard(l, iff, fail, r)
				if ok2 {
					good = true
				} else {
					why = w
				}
			}
		}
		c.Check("containsJustifiedQrc rejects higher prepared round", posOf(r), good,
			"a ROUND-CHANGE quorum containing a higher prepared round than the justified one is accepted: "+why)
		// returned value is the justified pv
		c.Check("containsJustifiedQrc returns the justified value", posOf(r), r.Results[0] == pv, "the value returned with ok is not the pv of the prepared quorum")
		// ok of getSingleJustifiedPrPv checked
		g, w := an.Guarded(prCall, r, an.GuardOpt{BoolIdx: 2, BoolWant: true, NoErr: true})
		c.Check("containsJustifiedQrc prepared quorum checked", posOf(r), g, "the ok result of getSingleJustifiedPrPv does not gate acceptance: "+w)
	}
}

// ---------------------------------------------------------------------------------------------
// Q5 — ROUND-CHANGE carries the prepared cells

func c02Q5Rule(c *rt.Ctx) {
	r := c02NewRun(c)
	rcT := r.msgType("MsgRoundChange")
	commitT := r.msgType("MsgCommit")
	uponQP := constOf(c, c02P, "UponQuorumPrepares")
	var rcs, commits []c02Bcast
	for _, b := range r.bcasts() {
		n, ok := an.ConstInt(b.args[1])
		if !ok {
			c.Unsure("Run broadcast with computed type", b.site.Pos(), "message type of a broadcast is not a constant")
			continue
		}
		if n == rcT {
			rcs = append(rcs, b)
		}
		if n == commitT {
			commits = append(commits, b)
		}
	}
	if len(rcs) == 0 {
		c.Bail("Run: no ROUND-CHANGE broadcast")
	}
	names := []string{"preparedRound", "preparedValue", "preparedJustification"}
	cells := make([]*ssa.Alloc, 3)
	for _, b := range rcs {
		for i := 0; i < 3; i++ {
			cell := r.cellOf(b.args[6+i])
			key := "Run ROUND-CHANGE carries " + names[i]
			if cell == nil {
				c.Bad(key, b.site.Pos(), "the ROUND-CHANGE broadcast does not send the "+names[i]+" state cell")
				continue
			}
			if cell == r.cellOf(b.args[4]) {
				c.Bad(key, b.site.Pos(), "the ROUND-CHANGE broadcast sends the current-round cell as "+names[i])
				continue
			}
			if cells[i] != nil && cells[i] != cell {
				c.Bad(key, b.site.Pos(), "ROUND-CHANGE broadcasts send different cells as "+names[i])
				continue
			}
			cells[i] = cell
			c.Good(key, b.site.Pos(), "argument is a load of state cell "+cell.Comment)
		}
		// the round sent is the current round cell
	}
	// the branch: true edge of rule == UponQuorumPrepares
	var branch []*ssa.BasicBlock
	for _, cd := range an.CondsOn(r.fn, r.ruleV) {
		if n, ok := an.ConstInt(cd.Other); ok && n == uponQP && cd.Op == token.EQL {
			t := cd.Succ(true)
			if len(t.Preds) == 1 {
				branch = append(branch, t)
			}
		}
	}
	if len(branch) == 0 {
		c.Bail("Run: UponQuorumPrepares branch not found")
	}
	inBranch := func(b *ssa.BasicBlock) bool {
		for _, t := range branch {
			if t.Dominates(b) {
				return true
			}
		}
		return false
	}
	// the round cell: what the broadcasts send as round
	roundCell := r.cellOf(rcs[0].args[4])
	want := []func(v ssa.Value) bool{
		func(v ssa.Value) bool {
			return (roundCell != nil && r.cellOf(v) == roundCell) || c02IsMsgCallOn(v, "Round", r.recvMsg)
		},
		func(v ssa.Value) bool { return c02IsMsgCallOn(v, "Value", r.recvMsg) },
		func(v ssa.Value) bool { return v == r.justV },
	}
	wantTxt := []string{"the current round", "msg.Value() of the PREPARE that completed the quorum", "the quorum of PREPAREs returned by classify"}
	for i, cell := range cells {
		if cell == nil {
			continue
		}
		key := "Run " + names[i] + " written only in the quorum-prepares branch"
		sts := r.stores(cell)
		if len(sts) == 0 {
			c.Bad(key, cell.Pos(), names[i]+" is never written: ROUND-CHANGE always claims nothing was prepared")
			continue
		}
		for _, st := range sts {
			switch {
			case st.Parent() != r.fn || !inBranch(st.Block()):
				c.Bad(key, posOf(st), names[i]+" is written outside the UponQuorumPrepares branch")
			case !want[i](st.Val):
				c.Bad(key, posOf(st), names[i]+" is not set to "+wantTxt[i])
			default:
				c.Good(key, posOf(st), "set to "+wantTxt[i])
			}
		}
	}
	// the three cells are written together: one block of the branch stores all of them
	if cells[0] != nil && cells[1] != nil && cells[2] != nil {
		for _, t := range branch {
			together := false
			for _, b := range r.fn.Blocks {
				if !t.Dominates(b) {
					continue
				}
				n := 0
				for _, cell := range cells {
					for _, st := range r.stores(cell) {
						if st.Block() == b {
							n++
							break
						}
					}
				}
				if n == 3 {
					together = true
				}
			}
			c.Check("Run prepared cells written together", posOf(t.Instrs[0]), together, "the UponQuorumPrepares branch does not write all of preparedRound, preparedValue, preparedJustification in one step")
		}
	}
	// the COMMIT sent in the branch carries the prepared value
	for _, b := range commits {
		if b.open || b.site.Parent() != r.fn {
			continue
		}
		ok := inBranch(b.site.Block()) && (c02IsMsgCallOn(b.args[5], "Value", r.recvMsg) || (cells[1] != nil && r.cellOf(b.args[5]) == cells[1]))
		c.Check("Run COMMIT carries the prepared value", b.site.Pos(), ok, "COMMIT is broadcast outside the quorum-prepares branch or for a value other than the prepared one")
	}
}

// ---------------------------------------------------------------------------------------------

func c02(c *rt.Ctx) {
	c.Rule("Q1", 16, func() { c02Q1Rule(c) })
	c.Rule("Q2", 2, func() { c02Q2Rule(c) })
	c.Rule("Q3", 6, func() { c02Q3Rule(c) })
	c.Rule("Q4", 22, func() { c02Q4Rule(c) })
	c.Rule("Q5", 14, func() { c02Q5Rule(c) })
}

func init() {
	Register(&Prop{
		ID: "C02",
		Decides: "core/qbft: (Q1) every count compared with Quorum()/Faulty()+1 counts a source-unique collection (result of filterMsgs or a wrapper, a locally made map keyed by msg.Source(), " +
			"a list/counter extended only on the true edge of uniq(elem), or a list fully scanned with rejection on !uniq(elem)), each function uses the threshold its protocol rule needs, and the uniqSource closure tests-and-sets; " +
			"(Q2) in Run nothing received from Transport.Receive is buffered or classified unless isJustified accepted that very message; " +
			"(Q3) between a round change that wipes the rule-dedup map and the PREPARE broadcast the key {rule, msg.Round()} is re-recorded; " +
			"(Q4) isJustifiedRoundChange tests every accepted PREPARE for type, round == pr and value == pv; isJustifiedDecided counts COMMITs of the message's own justification filtered by its round and value; " +
			"isJustifiedPrePrepare tests the leader and a non-zero value before accepting, accepts later rounds only through compareFailureRound+1 or a justified ROUND-CHANGE quorum and then only the justified value; " +
			"containsJustifiedQrc rejects a quorum containing a higher prepared round; " +
			"(Q5) every ROUND-CHANGE broadcast carries the preparedRound/preparedValue/preparedJustification cells, which are written only, and together, in the UponQuorumPrepares branch.",
		NotDecided: "agreement itself (needs exploration of schedules and Byzantine behaviours); the arithmetic of Quorum()/Faulty(); leader election; timer behaviour.",
		Run:        c02,
		Mutants:    c02Mutants,
	})
}

var c02Mutants = []Mutant{
	// Q1
	{ID: "C02-Q1-filter-ignores-uniq", File: "core/qbft/qbft.go", Expect: "Q1",
		Old: "\t\tif uniq(msg) {\n\t\t\tresp = append(resp, msg)\n\t\t}",
		New: "\t\t_ = uniq(msg)\n\t\tresp = append(resp, msg)"},
	{ID: "C02-Q1-prepare-quorums-key", File: "core/qbft/qbft.go", Expect: "Q1|getPrepareQuorums",
		Old: "\t\tmsgs[msg.Source()] = msg",
		New: "\t\tmsgs[int64(len(msgs))] = msg"},
	{ID: "C02-Q1-count-without-uniq", File: "core/qbft/qbft.go", Expect: "Q1|getSingleJustifiedPrPv",
		Old: "\t\tif !uniq(msg) {\n\t\t\treturn 0, zeroVal[V](), false\n\t\t}\n\n\t\tif count == 0 {",
		New: "\t\t_ = uniq(msg)\n\n\t\tif count == 0 {"},
	{ID: "C02-Q1-qrc-uniq-per-iteration", File: "core/qbft/qbft.go", Expect: "Q1|getJustifiedQrc",
		Old:  "\t\t\tif !uniq(rc) {\n\t\t\t\tcontinue\n\t\t\t}",
		New:  "\t\t\tif !uniqSource[I, V, C]()(rc) {\n\t\t\t\tcontinue\n\t\t\t}",
		More: [][2]string{{"\t\t\tuniq               = uniqSource[I, V, C]()\n", ""}}},
	{ID: "C02-Q1-qrc-append-unguarded", File: "core/qbft/qbft.go", Expect: "Q1|getJustifiedQrc",
		Old: "\t\t\tif !uniq(rc) {\n\t\t\t\tcontinue\n\t\t\t}",
		New: "\t\t\tif !uniq(rc) {\n\t\t\t\thasHighestPrepared = hasHighestPrepared || rc.PreparedRound() == pr\n\t\t\t}"},
	{ID: "C02-Q1-uniq-never-records", File: "core/qbft/qbft.go", Expect: "Q1|uniqSource",
		Old: "\t\tdedup[msg.Source()] = true\n\n\t\treturn true",
		New: "\t\treturn true"},
	{ID: "C02-Q1-uniq-records-round", File: "core/qbft/qbft.go", Expect: "Q1|uniqSource",
		Old: "\t\tdedup[msg.Source()] = true\n\n\t\treturn true",
		New: "\t\tdedup[msg.Round()] = true\n\n\t\treturn true"},
	{ID: "C02-Q1-roundchange-skips-duplicates", File: "core/qbft/qbft.go", Expect: "Q1|isJustifiedRoundChange",
		Old: "\t\tif !uniq(prepare) {\n\t\t\treturn false\n\t\t}",
		New: "\t\tif !uniq(prepare) {\n\t\t\tcontinue\n\t\t}"},
	{ID: "C02-Q1-classify-fplus1", File: "core/qbft/qbft.go", Expect: "Q1|classify",
		Old: "if len(prepares) >= d.Quorum() {",
		New: "if len(prepares) >= d.Faulty()+1 {"},
	{ID: "C02-Q1-decided-quorum-minus-one", File: "core/qbft/qbft.go", Expect: "Q1|isJustifiedDecided",
		Old: "return len(commits) >= d.Quorum()",
		New: "return len(commits) >= d.Quorum()-1"},
	{ID: "C02-Q1-decided-counts-unfiltered", File: "core/qbft/qbft.go", Expect: "Q1|isJustifiedDecided",
		Old: "return len(commits) >= d.Quorum()",
		New: "_ = commits\n\n\treturn len(msg.Justification()) >= d.Quorum()"},
	{ID: "C02-Q1-fplus1-keyed-by-round", File: "core/qbft/qbft.go", Expect: "Q1|getFPlus1RoundChanges",
		Old: "highestBySource[msg.Source()] = msg",
		New: "highestBySource[msg.Round()] = msg"},
	{ID: "C02-Q1-fplus1-is-f", File: "core/qbft/qbft.go", Expect: "Q1|getFPlus1RoundChanges",
		Old: "\tif len(highestBySource) < d.Faulty()+1 {",
		New: "\tif len(highestBySource) < d.Faulty() {"},
	{ID: "C02-Q1-classify-unfiltered-round-msgs", File: "core/qbft/qbft.go", Expect: "Q1|classify",
		Old: "commits := filterByRoundAndValue(flatten(buffer), MsgCommit, msg.Round(), msg.Value())",
		New: "commits := extractRoundMsgs(buffer, msg.Round())"},
	// Q2
	{ID: "C02-Q2-no-justification-check", File: "core/qbft/qbft.go", Expect: "Q2",
		Old: "\t\t\tif !isJustified(d, instance, msg, compareFailureRound) { // Drop unjust messages\n\t\t\t\td.LogUnjust(ctx, instance, process, msg)\n\t\t\t\tbreak\n\t\t\t}\n\n",
		New: ""},
	{ID: "C02-Q2-log-and-fall-through", File: "core/qbft/qbft.go", Expect: "Q2",
		Old: "\t\t\t\td.LogUnjust(ctx, instance, process, msg)\n\t\t\t\tbreak\n",
		New: "\t\t\t\td.LogUnjust(ctx, instance, process, msg)\n"},
	{ID: "C02-Q2-buffer-before-check", File: "core/qbft/qbft.go", Expect: "Q2|buffer write",
		Old:  "\t\t\tif !isJustified(d, instance, msg, compareFailureRound) { // Drop unjust messages",
		New:  "\t\t\tbufferMsg(msg)\n\n\t\t\tif !isJustified(d, instance, msg, compareFailureRound) { // Drop unjust messages",
		More: [][2]string{{"\t\t\tbufferMsg(msg)\n\n\t\t\trule, justification", "\t\t\trule, justification"}}},
	{ID: "C02-Q2-only-preprepare-checked", File: "core/qbft/qbft.go", Expect: "Q2",
		Old: "\t\t\tif !isJustified(d, instance, msg, compareFailureRound) { // Drop unjust messages",
		New: "\t\t\tif msg.Type() == MsgPrePrepare && !isJustified(d, instance, msg, compareFailureRound) { // Drop unjust messages"},
	{ID: "C02-Q2-inverted-verdict", File: "core/qbft/qbft.go", Expect: "Q2",
		Old: "\t\t\tif !isJustified(d, instance, msg, compareFailureRound) { // Drop unjust messages",
		New: "\t\t\tif isJustified(d, instance, msg, compareFailureRound) { // Drop unjust messages"},
	// Q3
	{ID: "C02-Q3-rerecord-before-round-change", File: "core/qbft/qbft.go", Expect: "Q3|re-record",
		Old: "\t\t\t\tchangeRound(msg.Round(), rule)\n\t\t\t\t// Re-record after round-change wipe to prevent equivocation.\n\t\t\t\tdedupRules[dedupKey{UponRule: rule, Round: msg.Round()}] = true\n",
		New: "\t\t\t\tdedupRules[dedupKey{UponRule: rule, Round: msg.Round()}] = true\n\t\t\t\tchangeRound(msg.Round(), rule)\n"},
	{ID: "C02-Q3-no-rerecord", File: "core/qbft/qbft.go", Expect: "Q3|re-record",
		Old: "\t\t\t\tdedupRules[dedupKey{UponRule: rule, Round: msg.Round()}] = true\n",
		New: ""},
	{ID: "C02-Q3-rerecord-after-prepare", File: "core/qbft/qbft.go", Expect: "Q3|re-record",
		Old:  "\t\t\t\tdedupRules[dedupKey{UponRule: rule, Round: msg.Round()}] = true\n",
		New:  "",
		More: [][2]string{{"\t\t\t\t\terr = broadcastMsg(MsgPrepare, msg.Value(), nil)\n", "\t\t\t\t\terr = broadcastMsg(MsgPrepare, msg.Value(), nil)\n\t\t\t\t\tdedupRules[dedupKey{UponRule: rule, Round: msg.Round()}] = true\n"}}},
	{ID: "C02-Q3-rerecord-false", File: "core/qbft/qbft.go", Expect: "Q3|re-record",
		Old: "dedupRules[dedupKey{UponRule: rule, Round: msg.Round()}] = true",
		New: "dedupRules[dedupKey{UponRule: rule, Round: msg.Round()}] = false"},
	{ID: "C02-Q3-rerecord-other-rule", File: "core/qbft/qbft.go", Expect: "Q3|re-record",
		Old: "dedupRules[dedupKey{UponRule: rule, Round: msg.Round()}] = true",
		New: "dedupRules[dedupKey{UponRule: UponQuorumPrepares, Round: msg.Round()}] = true"},
	{ID: "C02-Q3-rerecord-next-round", File: "core/qbft/qbft.go", Expect: "Q3|re-record",
		Old: "dedupRules[dedupKey{UponRule: rule, Round: msg.Round()}] = true",
		New: "dedupRules[dedupKey{UponRule: rule, Round: msg.Round() + 1}] = true"},
	{ID: "C02-Q3-prepare-own-value", File: "core/qbft/qbft.go", Expect: "Q3|PREPARE carries",
		Old: "err = broadcastMsg(MsgPrepare, msg.Value(), nil)",
		New: "err = broadcastMsg(MsgPrepare, inputValue, nil)"},
	// Q4
	{ID: "C02-Q4-roundchange-no-value-test", File: "core/qbft/qbft.go", Expect: "Q4|tested for value",
		Old: "\t\tif prepare.Value() != pv {\n\t\t\treturn false\n\t\t}\n",
		New: ""},
	{ID: "C02-Q4-roundchange-no-round-test", File: "core/qbft/qbft.go", Expect: "Q4|tested for round",
		Old: "\t\tif prepare.Round() != pr {\n\t\t\treturn false\n\t\t}\n",
		New: ""},
	{ID: "C02-Q4-roundchange-type-continue", File: "core/qbft/qbft.go", Expect: "Q4|tested for type",
		Old: "\t\tif prepare.Type() != MsgPrepare {\n\t\t\treturn false",
		New: "\t\tif prepare.Type() != MsgPrepare {\n\t\t\tcontinue"},
	{ID: "C02-Q4-roundchange-round-vs-own", File: "core/qbft/qbft.go", Expect: "Q4|tested for round",
		Old: "\t\tif prepare.Round() != pr {",
		New: "\t\tif prepare.Round() != msg.Round() {"},
	{ID: "C02-Q4-preprepare-no-leader", File: "core/qbft/qbft.go", Expect: "Q4|leader",
		Old: "\tif !d.IsLeader(instance, msg.Round(), msg.Source()) {\n\t\treturn false\n\t}\n\n\tif isZeroVal(msg.Value())",
		New: "\tif isZeroVal(msg.Value())"},
	{ID: "C02-Q4-preprepare-leader-of-prepared-round", File: "core/qbft/qbft.go", Expect: "Q4|leader",
		Old: "\tif !d.IsLeader(instance, msg.Round(), msg.Source()) {\n\t\treturn false",
		New: "\tif !d.IsLeader(instance, msg.PreparedRound(), msg.Source()) {\n\t\treturn false"},
	{ID: "C02-Q4-preprepare-leader-logged", File: "core/qbft/qbft.go", Expect: "Q4|leader",
		Old: "\tif !d.IsLeader(instance, msg.Round(), msg.Source()) {\n\t\treturn false\n\t}\n\n\tif isZeroVal(msg.Value())",
		New: "\tif !d.IsLeader(instance, msg.Round(), msg.Source()) {\n\t\t_ = fmt.Sprint(\"not leader\")\n\t}\n\n\tif isZeroVal(msg.Value())"},
	{ID: "C02-Q4-preprepare-zero-value", File: "core/qbft/qbft.go", Expect: "Q4|non-zero",
		Old: "\tif isZeroVal(msg.Value()) {\n\t\treturn false\n\t}\n\n",
		New: ""},
	{ID: "C02-Q4-preprepare-any-later-round", File: "core/qbft/qbft.go", Expect: "Q4|round justification",
		Old: "(msg.Round() == compareFailureRound+1)",
		New: "(msg.Round() >= compareFailureRound+1)"},
	{ID: "C02-Q4-preprepare-qrc-ok-ignored", File: "core/qbft/qbft.go", Expect: "Q4|round justification",
		Old: "\tpv, ok := containsJustifiedQrc(d, msg.Justification(), msg.Round())\n\tif !ok {\n\t\treturn false\n\t}\n",
		New: "\tpv, _ := containsJustifiedQrc(d, msg.Justification(), msg.Round())\n"},
	{ID: "C02-Q4-preprepare-any-value", File: "core/qbft/qbft.go", Expect: "Q4|proposes the justified",
		Old: "\treturn msg.Value() == pv // Ensure Pv is being proposed",
		New: "\treturn true"},
	{ID: "C02-Q4-decided-any-value", File: "core/qbft/qbft.go", Expect: "Q4|message's value",
		Old: "\tv := msg.Value()\n\tcommits := filterMsgs(msg.Justification(), MsgCommit, msg.Round(), &v, nil, nil)",
		New: "\tcommits := filterMsgs(msg.Justification(), MsgCommit, msg.Round(), nil, nil, nil)"},
	{ID: "C02-Q4-decided-counts-prepares", File: "core/qbft/qbft.go", Expect: "Q4|COMMITs",
		Old: "filterMsgs(msg.Justification(), MsgCommit,",
		New: "filterMsgs(msg.Justification(), MsgPrepare,"},
	{ID: "C02-Q4-decided-prepared-round", File: "core/qbft/qbft.go", Expect: "Q4|message's round",
		Old: "filterMsgs(msg.Justification(), MsgCommit, msg.Round(),",
		New: "filterMsgs(msg.Justification(), MsgCommit, msg.PreparedRound(),"},
	{ID: "C02-Q4-decided-nonempty-suffices", File: "core/qbft/qbft.go", Expect: "Q4|isJustifiedDecided verdict",
		Old: "\treturn len(commits) >= d.Quorum()",
		New: "\tif len(commits) < d.Quorum() {\n\t\treturn len(commits) > 0\n\t}\n\n\treturn true"},
	{ID: "C02-Q4-qrc-higher-pr-skipped", File: "core/qbft/qbft.go", Expect: "Q4|higher prepared round",
		Old: "\t\tif rc.PreparedRound() > pr {\n\t\t\treturn zeroVal[V](), false\n\t\t}",
		New: "\t\tif rc.PreparedRound() > pr {\n\t\t\tcontinue\n\t\t}"},
	{ID: "C02-Q4-qrc-prepares-ok-ignored", File: "core/qbft/qbft.go", Expect: "Q4|prepared quorum checked",
		Old: "\tpr, pv, ok := getSingleJustifiedPrPv(d, justification)\n\tif !ok {\n\t\treturn zeroVal[V](), false\n\t}\n",
		New: "\tpr, pv, _ := getSingleJustifiedPrPv(d, justification)\n"},
	// Q5
	{ID: "C02-Q5-roundchange-zero-pv", File: "core/qbft/qbft.go", Expect: "Q5|carries preparedValue",
		Old: "zeroVal[V](), preparedRound, preparedValue, preparedJustification)",
		New: "zeroVal[V](), preparedRound, zeroVal[V](), preparedJustification)"},
	{ID: "C02-Q5-roundchange-zero-pr", File: "core/qbft/qbft.go", Expect: "Q5|carries preparedRound",
		Old: "zeroVal[V](), preparedRound, preparedValue, preparedJustification)",
		New: "zeroVal[V](), preparedRound-1, preparedValue, preparedJustification)"},
	{ID: "C02-Q5-roundchange-current-round-as-pr", File: "core/qbft/qbft.go", Expect: "Q5|carries preparedRound",
		Old:  "zeroVal[V](), preparedRound, preparedValue, preparedJustification)",
		New:  "zeroVal[V](), round, preparedValue, preparedJustification)",
		More: [][2]string{{"\t\t\t\tpreparedValue = msg.Value()\n", "\t\t\t\tpreparedValue = msg.Value()\n\t\t\t\t_ = preparedRound\n"}}},
	{ID: "C02-Q5-prepared-value-never-set", File: "core/qbft/qbft.go", Expect: "Q5|preparedValue",
		Old: "\t\t\t\tpreparedValue = msg.Value()\n",
		New: ""},
	{ID: "C02-Q5-prepared-value-own-input", File: "core/qbft/qbft.go", Expect: "Q5|preparedValue",
		Old: "\t\t\t\tpreparedValue = msg.Value()\n",
		New: "\t\t\t\tpreparedValue = inputValue\n"},
	{ID: "C02-Q5-prepared-round-on-preprepare", File: "core/qbft/qbft.go", Expect: "Q5|preparedRound written only",
		Old: "\t\t\t\tvar errC error\n",
		New: "\t\t\t\tpreparedRound = msg.Round()\n\n\t\t\t\tvar errC error\n"},
	{ID: "C02-Q5-prepared-justification-nil", File: "core/qbft/qbft.go", Expect: "Q5|preparedJustification",
		Old: "\t\t\t\tpreparedJustification = justification\n",
		New: "\t\t\t\tpreparedJustification = nil\n"},
	{ID: "C02-Q5-timeout-plain-roundchange", File: "core/qbft/qbft.go", Expect: "Q5|carries",
		Old: "\t\t\terr = broadcastRoundChange()\n\n\t\tcase <-ctx.Done()",
		New: "\t\t\terr = broadcastMsg(MsgRoundChange, zeroVal[V](), nil)\n\n\t\tcase <-ctx.Done()"},
	{ID: "C02-Q5-commit-own-value", File: "core/qbft/qbft.go", Expect: "Q5|COMMIT",
		Old: "err = broadcastMsg(MsgCommit, preparedValue, nil)",
		New: "err = broadcastMsg(MsgCommit, inputValue, nil)"},
}
