package rules

import (
	"go/constant"
	"go/token"
	"go/types"
	"strings"

	"golang.org/x/tools/go/ssa"

	"charonverif/internal/an"
	"charonverif/internal/rt"
)

const c02P = "core/qbft"

// ---------------------------------------------------------------------------------------------
// small helpers

// c02Strip removes type-argument lists: "core/qbft.Definition[I, V, C].Quorum" -> "core/qbft.Definition.Quorum".
func c02Strip(s string) string {
	var b strings.Builder
	depth := 0
	for _, r := range s {
		switch {
		case r == '[':
			depth++
		case r == ']':
			depth--
		case depth == 0:
			b.WriteRune(r)
		}
	}
	return b.String()
}

// c02Callee is the type-argument-free name of the call target.
func c02Callee(cc *ssa.CallCommon) string { return c02Strip(an.CalleeName(cc)) }

// c02Static returns the call (value) if v is a call of the in-package static function `name`.
func c02Static(v ssa.Value, name string) *ssa.Call {
	call, ok := an.Unwrap(v).(*ssa.Call)
	if !ok || call.Call.IsInvoke() || call.Call.StaticCallee() == nil {
		return nil
	}
	if c02Callee(&call.Call) != c02P+"."+name {
		return nil
	}
	return call
}

// c02MsgCall: v is `recv.<method>()` on the Msg interface; returns recv.
func c02MsgCall(v ssa.Value, method string) (ssa.Value, bool) {
	call, ok := an.Unwrap(v).(*ssa.Call)
	if !ok || !call.Call.IsInvoke() || call.Call.Method.Name() != method {
		return nil, false
	}
	if c02Strip(an.TypeName(call.Call.Value.Type())) != c02P+".Msg" {
		return nil, false
	}
	return call.Call.Value, true
}

// c02IsMsgCallOn: v is recv.<method>() with recv the given value.
func c02IsMsgCallOn(v ssa.Value, method string, recv ssa.Value) bool {
	r, ok := c02MsgCall(v, method)
	return ok && r == recv
}

func c02LenArg(v ssa.Value) ssa.Value {
	call, ok := an.Unwrap(v).(*ssa.Call)
	if !ok {
		return nil
	}
	if b, ok := call.Call.Value.(*ssa.Builtin); ok && b.Name() == "len" && len(call.Call.Args) == 1 {
		return call.Call.Args[0]
	}
	return nil
}

func c02ConstBool(v ssa.Value) (bool, bool) {
	k, ok := v.(*ssa.Const)
	if !ok || k.Value == nil || k.Value.Kind() != constant.Bool {
		return false, false
	}
	return constant.BoolVal(k.Value), true
}

func c02IsCmp(op token.Token) bool {
	switch op {
	case token.EQL, token.NEQ, token.LSS, token.LEQ, token.GTR, token.GEQ:
		return true
	}
	return false
}

func c02Flip(op token.Token) token.Token {
	switch op {
	case token.LSS:
		return token.GTR
	case token.LEQ:
		return token.GEQ
	case token.GTR:
		return token.LSS
	case token.GEQ:
		return token.LEQ
	}
	return op
}

// c02IfOf returns the If instructions branching directly on v.
func c02IfOf(v ssa.Value) []*ssa.If {
	var out []*ssa.If
	if v.Referrers() == nil {
		return nil
	}
	for _, ref := range *v.Referrers() {
		if iff, ok := ref.(*ssa.If); ok && iff.Cond == v {
			out = append(out, iff)
		}
	}
	return out
}

// c02EdgeDom: the edge from.Succs[i] dominates block b (every path to b takes that edge).
func c02EdgeDom(from *ssa.BasicBlock, i int, b *ssa.BasicBlock) bool {
	s := from.Succs[i]
	if from.Succs[0] == from.Succs[1] {
		return false
	}
	return len(s.Preds) == 1 && s.Dominates(b)
}

// c02ReachCut returns the blocks reachable from the entry of fn when the edges for which cut
// returns true are removed.
func c02ReachCut(start *ssa.BasicBlock, cut func(b *ssa.BasicBlock, i int) bool) map[*ssa.BasicBlock]bool {
	seen := map[*ssa.BasicBlock]bool{}
	var walk func(b *ssa.BasicBlock)
	walk = func(b *ssa.BasicBlock) {
		if seen[b] {
			return
		}
		seen[b] = true
		for i, s := range b.Succs {
			if cut != nil && cut(b, i) {
				continue
			}
			walk(s)
		}
	}
	walk(start)
	return seen
}

func c02EndsInPanic(b *ssa.BasicBlock) bool {
	if len(b.Instrs) == 0 {
		return false
	}
	_, ok := b.Instrs[len(b.Instrs)-1].(*ssa.Panic)
	return ok
}

// c02AcceptRets: returns of fn whose result idx is not the constant false.
func c02AcceptRets(fn *ssa.Function, idx int) []*ssa.Return {
	var out []*ssa.Return
	for _, r := range an.Returns(fn) {
		if idx >= len(r.Results) {
			continue
		}
		if b, ok := c02ConstBool(r.Results[idx]); ok && !b {
			continue
		}
		out = append(out, r)
	}
	return out
}

// c02LoopOver returns the loops of fn ranging over a collection equivalent to coll.
func c02LoopOver(fn *ssa.Function, coll ssa.Value) []*an.Loop {
	var out []*an.Loop
	for _, l := range an.Loops(fn) {
		if rc := c02RangeColl(l); rc != nil && an.Equiv(rc, coll) {
			out = append(out, l)
		}
	}
	return out
}

// ---------------------------------------------------------------------------------------------
// The Run state machine: cells, closures, broadcasts

type c02Run struct {
	c        *rt.Ctx
	fn       *ssa.Function
	all      []*ssa.Function
	recvMsg  ssa.Value // message received from t.Receive
	classify *ssa.Call
	ruleV    ssa.Value // classify result #0
	justV    ssa.Value // classify result #1
}

func c02NewRun(c *rt.Ctx) *c02Run {
	r := &c02Run{c: c, fn: c.Fn(c02P + ".Run")}
	r.all = an.Closure(r.fn)
	// the received message
	for _, in := range an.Instrs(r.fn, false) {
		sel, ok := in.(*ssa.Select)
		if !ok {
			continue
		}
		n := 0
		for _, st := range sel.States {
			if st.Dir != types.RecvOnly {
				continue
			}
			if k, _, ok := an.FieldOf(st.Chan); ok && c02Strip(k) == c02P+".Transport.Receive" {
				for _, ref := range *sel.Referrers() {
					if ex, ok := ref.(*ssa.Extract); ok && ex.Index == 2+n {
						if r.recvMsg != nil {
							c.Bail("Run: several receives from Transport.Receive")
						}
						r.recvMsg = ex
					}
				}
			}
			n++
		}
	}
	if r.recvMsg == nil {
		c.Bail("Run: receive from Transport.Receive not found")
	}
	cl := an.Calls(r.fn, func(cc *ssa.CallCommon) bool { return c02Callee(cc) == c02P+".classify" }, false)
	if len(cl) != 1 {
		c.Bail("Run: expected exactly one classify call, found %d", len(cl))
	}
	r.classify = cl[0].(*ssa.Call)
	for _, ref := range *r.classify.Referrers() {
		if ex, ok := ref.(*ssa.Extract); ok {
			switch ex.Index {
			case 0:
				r.ruleV = ex
			case 1:
				r.justV = ex
			}
		}
	}
	if r.ruleV == nil || r.justV == nil {
		c.Bail("Run: results of classify are not both used")
	}
	return r
}

// binding resolves a free variable to the value bound by the enclosing MakeClosure.
func (r *c02Run) binding(fv *ssa.FreeVar) ssa.Value {
	fn := fv.Parent()
	idx := -1
	for i, f := range fn.FreeVars {
		if f == fv {
			idx = i
		}
	}
	if idx < 0 || fn.Parent() == nil {
		return nil
	}
	for _, in := range an.Instrs(fn.Parent(), false) {
		if mc, ok := in.(*ssa.MakeClosure); ok && mc.Fn == ssa.Value(fn) {
			b := mc.Bindings[idx]
			if f2, ok := b.(*ssa.FreeVar); ok {
				return r.binding(f2)
			}
			return b
		}
	}
	return nil
}

// cellAddr resolves an address to the Alloc of Run it denotes (directly or through a free variable).
func (r *c02Run) cellAddr(a ssa.Value) *ssa.Alloc {
	switch x := a.(type) {
	case *ssa.Alloc:
		if x.Parent() == r.fn {
			return x
		}
	case *ssa.FreeVar:
		if al, ok := r.binding(x).(*ssa.Alloc); ok && al.Parent() == r.fn {
			return al
		}
	}
	return nil
}

// cellOf: v is a load of a state cell of Run.
func (r *c02Run) cellOf(v ssa.Value) *ssa.Alloc {
	ld, ok := an.Unwrap(v).(*ssa.UnOp)
	if !ok || ld.Op != token.MUL {
		return nil
	}
	return r.cellAddr(ld.X)
}

// stores returns every store into the cell anywhere in Run and its closures.
func (r *c02Run) stores(cell *ssa.Alloc) []*ssa.Store {
	var out []*ssa.Store
	for _, f := range r.all {
		for _, in := range an.Instrs(f, false) {
			if st, ok := in.(*ssa.Store); ok && r.cellAddr(st.Addr) == cell {
				out = append(out, st)
			}
		}
	}
	return out
}

// closureOf resolves a callee value to the function literal of Run it denotes.
func (r *c02Run) closureOf(v ssa.Value) *ssa.Function {
	v = an.Unwrap(v)
	switch x := v.(type) {
	case *ssa.MakeClosure:
		if f, ok := x.Fn.(*ssa.Function); ok {
			return f
		}
	case *ssa.Function:
		if x.Parent() != nil {
			return x
		}
	case *ssa.UnOp:
		if x.Op != token.MUL {
			return nil
		}
		cell := r.cellAddr(x.X)
		if cell == nil {
			return nil
		}
		sts := r.stores(cell)
		if len(sts) != 1 {
			return nil
		}
		return r.closureOf(sts[0].Val)
	}
	return nil
}

// callSites returns the calls of the function literal anon anywhere in Run and its closures.
func (r *c02Run) callSites(anon *ssa.Function) []ssa.CallInstruction {
	var out []ssa.CallInstruction
	for _, f := range r.all {
		for _, in := range an.Instrs(f, false) {
			if ci, ok := in.(ssa.CallInstruction); ok && !ci.Common().IsInvoke() && r.closureOf(ci.Common().Value) == anon {
				out = append(out, ci)
			}
		}
	}
	return out
}

// c02Bcast is one Transport.Broadcast call with its arguments expressed at the outermost call site.
type c02Bcast struct {
	inner ssa.CallInstruction // the t.Broadcast call
	site  ssa.CallInstruction // the call in Run proper that leads to it (== inner if direct)
	args  []ssa.Value         // ctx, typ, instance, source, round, value, pr, pv, justification
	open  bool                // a parameter could not be resolved to a call site in Run
}

func (r *c02Run) bcasts() []c02Bcast {
	var out []c02Bcast
	var lift func(b c02Bcast, depth int)
	lift = func(b c02Bcast, depth int) {
		host := b.site.Parent()
		if host == r.fn {
			out = append(out, b)
			return
		}
		sites := r.callSites(host)
		if len(sites) == 0 || depth > 3 {
			b.open = true
			out = append(out, b)
			return
		}
		for _, s := range sites {
			nb := c02Bcast{inner: b.inner, site: s, args: append([]ssa.Value(nil), b.args...)}
			for i, a := range nb.args {
				if p, ok := a.(*ssa.Parameter); ok && p.Parent() == host {
					for j, hp := range host.Params {
						if hp == p && j < len(s.Common().Args) {
							nb.args[i] = s.Common().Args[j]
						}
					}
				}
			}
			lift(nb, depth+1)
		}
	}
	for _, f := range r.all {
		for _, in := range an.Instrs(f, false) {
			ci, ok := in.(ssa.CallInstruction)
			if !ok || ci.Common().IsInvoke() || ci.Common().StaticCallee() != nil {
				continue
			}
			if k, _, ok := an.FieldOf(ci.Common().Value); !ok || c02Strip(k) != c02P+".Transport.Broadcast" {
				continue
			}
			if len(ci.Common().Args) != 9 {
				r.c.Bail("Transport.Broadcast: unexpected arity")
			}
			lift(c02Bcast{inner: ci, site: ci, args: append([]ssa.Value(nil), ci.Common().Args...)}, 0)
		}
	}
	if len(out) == 0 {
		r.c.Bail("Run: no Transport.Broadcast call found")
	}
	return out
}

func (r *c02Run) msgType(name string) int64 { return constOf(r.c, c02P, name) }

// ---------------------------------------------------------------------------------------------
// Q2 — justified before buffered/classified

// ---------------------------------------------------------------------------------------------
// Q3 — dedup key re-recorded between round change and PREPARE

// c02StructLit returns the values stored into the fields of the local struct whose load is v.
func c02StructLit(v ssa.Value) map[string]ssa.Value {
	ld, ok := an.Unwrap(v).(*ssa.UnOp)
	if !ok || ld.Op != token.MUL {
		return nil
	}
	al, ok := ld.X.(*ssa.Alloc)
	if !ok {
		return nil
	}
	st, ok := al.Type().(*types.Pointer).Elem().Underlying().(*types.Struct)
	if !ok {
		return nil
	}
	out := map[string]ssa.Value{}
	for _, ref := range *al.Referrers() {
		fa, ok := ref.(*ssa.FieldAddr)
		if !ok {
			continue
		}
		for _, r2 := range *fa.Referrers() {
			if s, ok := r2.(*ssa.Store); ok && s.Addr == ssa.Value(fa) {
				name := st.Field(fa.Field).Name()
				if _, dup := out[name]; dup {
					return nil
				}
				out[name] = s.Val
			}
		}
	}
	return out
}

// c02Reaches: some CFG path leads from just after a to b.
func c02Reaches(a, b ssa.Instruction) bool {
	_, f := c02PathAvoiding(a, b, func(ssa.Instruction) bool { return false })
	return f
}

// c02PathAvoiding searches a path from just after `from` to `to` that does not execute an
// instruction satisfying stop.
func c02PathAvoiding(from, to ssa.Instruction, stop func(ssa.Instruction) bool) ([]*ssa.BasicBlock, bool) {
	if from.Parent() != to.Parent() {
		return nil, false
	}
	idx := func(in ssa.Instruction) int {
		for i, x := range in.Block().Instrs {
			if x == in {
				return i
			}
		}
		return -1
	}
	seen := map[*ssa.BasicBlock]bool{}
	var path []*ssa.BasicBlock
	var walk func(b *ssa.BasicBlock, i int) bool
	walk = func(b *ssa.BasicBlock, i int) bool {
		path = append(path, b)
		for ; i < len(b.Instrs); i++ {
			if b.Instrs[i] == to {
				return true
			}
			if stop(b.Instrs[i]) {
				path = path[:len(path)-1]
				return false
			}
		}
		for _, s := range b.Succs {
			if seen[s] {
				continue
			}
			seen[s] = true
			if walk(s, 0) {
				return true
			}
		}
		path = path[:len(path)-1]
		return false
	}
	ok := walk(from.Block(), idx(from)+1)
	return path, ok
}

// ---------------------------------------------------------------------------------------------
// Q4 — justification predicates are complete

// c02ZeroTests returns the boolean values meaning "v is the zero value" with their polarity
// (true: value is true when v is zero).
func c02ZeroTests(fn *ssa.Function, isV func(ssa.Value) bool) map[ssa.Value]bool {
	out := map[ssa.Value]bool{}
	isZero := func(x ssa.Value) bool {
		x = an.Unwrap(x)
		if c02CallOfKind(x, "zero") != nil {
			return true
		}
		if k, ok := x.(*ssa.Const); ok {
			return k.Value == nil || k.IsNil()
		}
		return false
	}
	for _, in := range an.Instrs(fn, false) {
		switch x := in.(type) {
		case *ssa.Call:
			if c02CallOfKind(x, "iszero") != nil && len(x.Call.Args) == 1 && isV(x.Call.Args[0]) {
				out[x] = true
			}
		case *ssa.BinOp:
			if x.Op != token.EQL && x.Op != token.NEQ {
				continue
			}
			if (isV(x.X) && isZero(x.Y)) || (isV(x.Y) && isZero(x.X)) {
				out[x] = x.Op == token.EQL
			}
		}
	}
	return out
}

// c02FilterSpec describes a (possibly wrapped) filterMsgs call.
type c02FilterSpec struct {
	msgs, typ, round ssa.Value
	value, pr, pv    ssa.Value // nil when the criterion is absent
}

// c02Filter resolves v to the filterMsgs criteria it was computed with, looking through the
// one-line wrappers (filterByRoundAndValue, filterRoundChange).
func c02Filter(v ssa.Value, depth int) (c02FilterSpec, bool) {
	call, ok := an.Unwrap(v).(*ssa.Call)
	if !ok || call.Call.IsInvoke() || call.Call.StaticCallee() == nil || depth > 2 {
		return c02FilterSpec{}, false
	}
	f := an.Orig(call.Call.StaticCallee())
	ptr := func(p ssa.Value) (ssa.Value, bool) { // pointer criterion -> pointee value
		if an.IsNilConst(p) {
			return nil, true
		}
		if al, ok := p.(*ssa.Alloc); ok {
			if s := an.UniqueStore(al); s != nil {
				return s, true
			}
			// a zero-valued local (`var nullPr int64`) has no store
			n := 0
			for _, ref := range *al.Referrers() {
				if _, ok := ref.(*ssa.Store); ok {
					n++
				}
			}
			if n == 0 {
				return ssa.NewConst(nil, al.Type().(*types.Pointer).Elem()), true
			}
		}
		return nil, false
	}
	if c02HelperKind(f) == "filter" {
		a := call.Call.Args
		if len(a) != 6 {
			return c02FilterSpec{}, false
		}
		sp := c02FilterSpec{msgs: a[0], typ: a[1], round: a[2]}
		var ok1, ok2, ok3 bool
		sp.value, ok1 = ptr(a[3])
		sp.pr, ok2 = ptr(a[4])
		sp.pv, ok3 = ptr(a[5])
		return sp, ok1 && ok2 && ok3
	}
	if f.Pkg == nil || f.Pkg.Pkg.Path() != call.Parent().Pkg.Pkg.Path() {
		return c02FilterSpec{}, false
	}
	rets := an.Returns(f)
	if len(rets) != 1 || len(rets[0].Results) != 1 || len(f.Blocks) != 1 {
		return c02FilterSpec{}, false
	}
	inner, ok := c02Filter(rets[0].Results[0], depth+1)
	if !ok {
		return c02FilterSpec{}, false
	}
	subst := func(x ssa.Value) ssa.Value {
		if x == nil {
			return nil
		}
		if p, ok := x.(*ssa.Parameter); ok {
			for i, fp := range f.Params {
				if fp == p {
					return call.Call.Args[i]
				}
			}
		}
		return x
	}
	return c02FilterSpec{msgs: subst(inner.msgs), typ: subst(inner.typ), round: subst(inner.round),
		value: subst(inner.value), pr: subst(inner.pr), pv: subst(inner.pv)}, true
}

func c02ParamOfType(c *rt.Ctx, fn *ssa.Function, typ string) *ssa.Parameter {
	var out *ssa.Parameter
	for _, p := range fn.Params {
		if c02Strip(an.TypeName(p.Type())) == typ {
			if out != nil {
				c.Bail("%s: several parameters of type %s", an.FuncName(fn), typ)
			}
			out = p
		}
	}
	if out == nil {
		c.Bail("%s: no parameter of type %s", an.FuncName(fn), typ)
	}
	return out
}

// ---------------------------------------------------------------------------------------------
// Q5 — ROUND-CHANGE carries the prepared cells

// ---------------------------------------------------------------------------------------------

func c02(c *rt.Ctx) {
	c.Rule("Q1", 16, func() { c02Q1Rule(c) })
	c.Rule("Q2", 2, func() { c02Q2Rule(c) })
	c.Rule("Q3", 6, func() { c02Q3Rule(c) })
	c.Rule("Q4", 16, func() { c02Q4Rule(c) })
	c.Rule("Q5", 14, func() { c02Q5Rule(c) })
}

func init() {
	Register(&Prop{
		ID: "C02",
		Decides: "core/qbft, every clause decided by assumption-driven path exploration (c02Sim: branch conditions evaluated from the rule's assumption, the truth given at forks, phi edges and inlined in-package helpers/function literals) rather than by block shapes: " +
			"(Q1) every comparison with Quorum()/Faulty()+1 (also through locals and helper parameters) counts a source-unique collection — result of a source-unique function or parameter whose callers all pass one, a locally made map keyed by msg.Source(), " +
			"a list/counter that grows only where uniq(elem) answered true, or a list completely scanned with a repeated source leading to rejection before any accepting return — each protocol function uses the threshold its rule needs, and the uniqSource closure answers true only after testing and recording dedup[msg.Source()]; " +
			"(Q2) in Run (function literals inlined) classify and every write of the message buffer are unreachable from the receive unless isJustified answered true for that very message; " +
			"(Q3) from every round change that wipes the rule-dedup map, every path to a PREPARE broadcast re-records {rule, msg.Round()} of the message being handled; " +
			"(Q4) isJustifiedRoundChange cannot accept when an element of the justification fails the type/round/value test; isJustifiedDecided cannot accept below a quorum of COMMITs of the message's own justification filtered by its round and value (filterMsgs call or hand-written filter); " +
			"isJustifiedPrePrepare cannot accept when the leader test, the non-zero test, the round justification (round 1, compareFailureRound+1 or a justified ROUND-CHANGE quorum) or the proposed-value test fails; " +
			"containsJustifiedQrc cannot accept when a ROUND-CHANGE of the quorum has a higher prepared round or the prepared quorum is not ok, and returns its pv; " +
			"(Q5) every ROUND-CHANGE broadcast reads the preparedRound/preparedValue/preparedJustification state variables (captured locals, struct fields or loop-carried registers), which are assigned only when the rule is UponQuorumPrepares, all-or-none on every path, to the round / msg.Value() / classify's justification.",
		NotDecided: "agreement itself (needs exploration of schedules and Byzantine behaviours); the arithmetic of Quorum()/Faulty(); leader election; timer behaviour.",
		Run:        c02,
		Mutants:    c02Mutants,
	})
}

var c02Mutants = []Mutant{
	// Q1
	{ID: "C02-Q1-filter-ignores-uniq", File: "core/qbft/qbft.go", Expect: "Q1",
		Old: "\t\tif uniq(msg) {\n\t\t\tresp = append(resp, msg)\n\t\t}",
		New: "\t\t_ = uniq(msg)\n\t\tresp = append(resp, msg)"},
	{ID: "C02-Q1-prepare-quorums-key", File: "core/qbft/qbft.go", Expect: "Q1|getPrepareQuorums",
		Old: "\t\tmsgs[msg.Source()] = msg",
		New: "\t\tmsgs[int64(len(msgs))] = msg"},
	{ID: "C02-Q1-count-without-uniq", File: "core/qbft/qbft.go", Expect: "Q1|getSingleJustifiedPrPv",
		Old: "\t\tif !uniq(msg) {\n\t\t\treturn 0, zeroVal[V](), false\n\t\t}\n\n\t\tif count == 0 {",
		New: "\t\t_ = uniq(msg)\n\n\t\tif count == 0 {"},
	{ID: "C02-Q1-qrc-uniq-per-iteration", File: "core/qbft/qbft.go", Expect: "Q1|getJustifiedQrc",
		Old:  "\t\t\tif !uniq(rc) {\n\t\t\t\tcontinue\n\t\t\t}",
		New:  "\t\t\tif !uniqSource[I, V, C]()(rc) {\n\t\t\t\tcontinue\n\t\t\t}",
		More: [][2]string{{"\t\t\tuniq               = uniqSource[I, V, C]()\n", ""}}},
	{ID: "C02-Q1-qrc-append-unguarded", File: "core/qbft/qbft.go", Expect: "Q1|getJustifiedQrc",
		Old: "\t\t\tif !uniq(rc) {\n\t\t\t\tcontinue\n\t\t\t}",
		New: "\t\t\tif !uniq(rc) {\n\t\t\t\thasHighestPrepared = hasHighestPrepared || rc.PreparedRound() == pr\n\t\t\t}"},
	{ID: "C02-Q1-uniq-never-records", File: "core/qbft/qbft.go", Expect: "Q1|uniqSource",
		Old: "\t\tdedup[msg.Source()] = true\n\n\t\treturn true",
		New: "\t\treturn true"},
	{ID: "C02-Q1-uniq-records-round", File: "core/qbft/qbft.go", Expect: "Q1|uniqSource",
		Old: "\t\tdedup[msg.Source()] = true\n\n\t\treturn true",
		New: "\t\tdedup[msg.Round()] = true\n\n\t\treturn true"},
	{ID: "C02-Q1-roundchange-skips-duplicates", File: "core/qbft/qbft.go", Expect: "Q1|isJustifiedRoundChange",
		Old: "\t\tif !uniq(prepare) {\n\t\t\treturn false\n\t\t}",
		New: "\t\tif !uniq(prepare) {\n\t\t\tcontinue\n\t\t}"},
	{ID: "C02-Q1-classify-fplus1", File: "core/qbft/qbft.go", Expect: "Q1|classify",
		Old: "if len(prepares) >= d.Quorum() {",
		New: "if len(prepares) >= d.Faulty()+1 {"},
	{ID: "C02-Q1-decided-quorum-minus-one", File: "core/qbft/qbft.go", Expect: "Q1|isJustifiedDecided",
		Old: "return len(commits) >= d.Quorum()",
		New: "return len(commits) >= d.Quorum()-1"},
	{ID: "C02-Q1-decided-counts-unfiltered", File: "core/qbft/qbft.go", Expect: "Q1|isJustifiedDecided",
		Old: "return len(commits) >= d.Quorum()",
		New: "_ = commits\n\n\treturn len(msg.Justification()) >= d.Quorum()"},
	{ID: "C02-Q1-fplus1-keyed-by-round", File: "core/qbft/qbft.go", Expect: "Q1|getFPlus1RoundChanges",
		Old: "highestBySource[msg.Source()] = msg",
		New: "highestBySource[msg.Round()] = msg"},
	{ID: "C02-Q1-fplus1-is-f", File: "core/qbft/qbft.go", Expect: "Q1|getFPlus1RoundChanges",
		Old: "\tif len(highestBySource) < d.Faulty()+1 {",
		New: "\tif len(highestBySource) < d.Faulty() {"},
	{ID: "C02-Q1-classify-unfiltered-round-msgs", File: "core/qbft/qbft.go", Expect: "Q1|classify",
		Old: "commits := filterByRoundAndValue(flatten(buffer), MsgCommit, msg.Round(), msg.Value())",
		New: "commits := extractRoundMsgs(buffer, msg.Round())"},
	// Q1, thresholds written as arithmetic over the cluster size (folded over n, c02n5_eval.go)
	{ID: "C02-Q1-classify-simple-majority", File: "core/qbft/qbft.go", Expect: "Q1|classify",
		Old: "if len(prepares) >= d.Quorum() {",
		New: "if len(prepares) >= d.Nodes/2+1 {"},
	{ID: "C02-Q1-decided-floor-two-thirds", File: "core/qbft/qbft.go", Expect: "Q1|isJustifiedDecided",
		Old: "return len(commits) >= d.Quorum()",
		New: "return len(commits) >= (d.Nodes*2)/3"},
	{ID: "C02-Q1-producer-n-minus-f", File: "core/qbft/qbft.go", Expect: "Q1|getJustifiedQrc",
		Old: "if len(qrc) >= d.Quorum() && hasHighestPrepared {",
		New: "if len(qrc) >= d.Nodes-d.Faulty() && hasHighestPrepared {"},
	{ID: "C02-Q1-fplus1-third-of-nodes", File: "core/qbft/qbft.go", Expect: "Q1|getFPlus1RoundChanges",
		Old: "\tif len(highestBySource) < d.Faulty()+1 {",
		New: "\tif len(highestBySource) < d.Nodes/3 {"},
	{ID: "C02-Q1-roundchange-two-f-plus-one", File: "core/qbft/qbft.go", Expect: "Q1|isJustifiedRoundChange",
		Old: "\tif len(prepares) < d.Quorum() {",
		New: "\tif q := 2*d.Faulty() + 1; len(prepares) < q {"},
	// Q2
	{ID: "C02-Q2-no-justification-check", File: "core/qbft/qbft.go", Expect: "Q2",
		Old: "\t\t\tif !isJustified(d, instance, msg, compareFailureRound) { // Drop unjust messages\n\t\t\t\td.LogUnjust(ctx, instance, process, msg)\n\t\t\t\tbreak\n\t\t\t}\n\n",
		New: ""},
	{ID: "C02-Q2-log-and-fall-through", File: "core/qbft/qbft.go", Expect: "Q2",
		Old: "\t\t\t\td.LogUnjust(ctx, instance, process, msg)\n\t\t\t\tbreak\n",
		New: "\t\t\t\td.LogUnjust(ctx, instance, process, msg)\n"},
	{ID: "C02-Q2-buffer-before-check", File: "core/qbft/qbft.go", Expect: "Q2|buffer write",
		Old:  "\t\t\tif !isJustified(d, instance, msg, compareFailureRound) { // Drop unjust messages",
		New:  "\t\t\tbufferMsg(msg)\n\n\t\t\tif !isJustified(d, instance, msg, compareFailureRound) { // Drop unjust messages",
		More: [][2]string{{"\t\t\tbufferMsg(msg)\n\n\t\t\trule, justification", "\t\t\trule, justification"}}},
	{ID: "C02-Q2-only-preprepare-checked", File: "core/qbft/qbft.go", Expect: "Q2",
		Old: "\t\t\tif !isJustified(d, instance, msg, compareFailureRound) { // Drop unjust messages",
		New: "\t\t\tif msg.Type() == MsgPrePrepare && !isJustified(d, instance, msg, compareFailureRound) { // Drop unjust messages"},
	{ID: "C02-Q2-inverted-verdict", File: "core/qbft/qbft.go", Expect: "Q2",
		Old: "\t\t\tif !isJustified(d, instance, msg, compareFailureRound) { // Drop unjust messages",
		New: "\t\t\tif isJustified(d, instance, msg, compareFailureRound) { // Drop unjust messages"},
	// Q3
	{ID: "C02-Q3-rerecord-before-round-change", File: "core/qbft/qbft.go", Expect: "Q3|re-record",
		Old: "\t\t\t\tchangeRound(msg.Round(), rule)\n\t\t\t\t// Re-record after round-change wipe to prevent equivocation.\n\t\t\t\tdedupRules[dedupKey{UponRule: rule, Round: msg.Round()}] = true\n",
		New: "\t\t\t\tdedupRules[dedupKey{UponRule: rule, Round: msg.Round()}] = true\n\t\t\t\tchangeRound(msg.Round(), rule)\n"},
	{ID: "C02-Q3-no-rerecord", File: "core/qbft/qbft.go", Expect: "Q3|re-record",
		Old: "\t\t\t\tdedupRules[dedupKey{UponRule: rule, Round: msg.Round()}] = true\n",
		New: ""},
	{ID: "C02-Q3-rerecord-after-prepare", File: "core/qbft/qbft.go", Expect: "Q3|re-record",
		Old:  "\t\t\t\tdedupRules[dedupKey{UponRule: rule, Round: msg.Round()}] = true\n",
		New:  "",
		More: [][2]string{{"\t\t\t\t\terr = broadcastMsg(MsgPrepare, msg.Value(), nil)\n", "\t\t\t\t\terr = broadcastMsg(MsgPrepare, msg.Value(), nil)\n\t\t\t\t\tdedupRules[dedupKey{UponRule: rule, Round: msg.Round()}] = true\n"}}},
	{ID: "C02-Q3-rerecord-false", File: "core/qbft/qbft.go", Expect: "Q3|re-record",
		Old: "dedupRules[dedupKey{UponRule: rule, Round: msg.Round()}] = true",
		New: "dedupRules[dedupKey{UponRule: rule, Round: msg.Round()}] = false"},
	{ID: "C02-Q3-rerecord-other-rule", File: "core/qbft/qbft.go", Expect: "Q3|re-record",
		Old: "dedupRules[dedupKey{UponRule: rule, Round: msg.Round()}] = true",
		New: "dedupRules[dedupKey{UponRule: UponQuorumPrepares, Round: msg.Round()}] = true"},
	{ID: "C02-Q3-rerecord-next-round", File: "core/qbft/qbft.go", Expect: "Q3|re-record",
		Old: "dedupRules[dedupKey{UponRule: rule, Round: msg.Round()}] = true",
		New: "dedupRules[dedupKey{UponRule: rule, Round: msg.Round() + 1}] = true"},
	{ID: "C02-Q3-prepare-own-value", File: "core/qbft/qbft.go", Expect: "Q3|PREPARE carries",
		Old: "err = broadcastMsg(MsgPrepare, msg.Value(), nil)",
		New: "err = broadcastMsg(MsgPrepare, inputValue, nil)"},
	// Q4
	{ID: "C02-Q4-roundchange-no-value-test", File: "core/qbft/qbft.go", Expect: "Q4|tested for value",
		Old: "\t\tif prepare.Value() != pv {\n\t\t\treturn false\n\t\t}\n",
		New: ""},
	{ID: "C02-Q4-roundchange-no-round-test", File: "core/qbft/qbft.go", Expect: "Q4|tested for round",
		Old: "\t\tif prepare.Round() != pr {\n\t\t\treturn false\n\t\t}\n",
		New: ""},
	{ID: "C02-Q4-roundchange-type-continue", File: "core/qbft/qbft.go", Expect: "Q4|tested for type",
		Old: "\t\tif prepare.Type() != MsgPrepare {\n\t\t\treturn false",
		New: "\t\tif prepare.Type() != MsgPrepare {\n\t\t\tcontinue"},
	{ID: "C02-Q4-roundchange-round-vs-own", File: "core/qbft/qbft.go", Expect: "Q4|tested for round",
		Old: "\t\tif prepare.Round() != pr {",
		New: "\t\tif prepare.Round() != msg.Round() {"},
	{ID: "C02-Q4-preprepare-no-leader", File: "core/qbft/qbft.go", Expect: "Q4|leader",
		Old: "\tif !d.IsLeader(instance, msg.Round(), msg.Source()) {\n\t\treturn false\n\t}\n\n\tif isZeroVal(msg.Value())",
		New: "\tif isZeroVal(msg.Value())"},
	{ID: "C02-Q4-preprepare-leader-of-prepared-round", File: "core/qbft/qbft.go", Expect: "Q4|leader",
		Old: "\tif !d.IsLeader(instance, msg.Round(), msg.Source()) {\n\t\treturn false",
		New: "\tif !d.IsLeader(instance, msg.PreparedRound(), msg.Source()) {\n\t\treturn false"},
	{ID: "C02-Q4-preprepare-leader-logged", File: "core/qbft/qbft.go", Expect: "Q4|leader",
		Old: "\tif !d.IsLeader(instance, msg.Round(), msg.Source()) {\n\t\treturn false\n\t}\n\n\tif isZeroVal(msg.Value())",
		New: "\tif !d.IsLeader(instance, msg.Round(), msg.Source()) {\n\t\t_ = fmt.Sprint(\"not leader\")\n\t}\n\n\tif isZeroVal(msg.Value())"},
	{ID: "C02-Q4-preprepare-zero-value", File: "core/qbft/qbft.go", Expect: "Q4|non-zero",
		Old: "\tif isZeroVal(msg.Value()) {\n\t\treturn false\n\t}\n\n",
		New: ""},
	{ID: "C02-Q4-preprepare-any-later-round", File: "core/qbft/qbft.go", Expect: "Q4|round justification",
		Old: "(msg.Round() == compareFailureRound+1)",
		New: "(msg.Round() >= compareFailureRound+1)"},
	{ID: "C02-Q4-preprepare-qrc-ok-ignored", File: "core/qbft/qbft.go", Expect: "Q4|round justification",
		Old: "\tpv, ok := containsJustifiedQrc(d, msg.Justification(), msg.Round())\n\tif !ok {\n\t\treturn false\n\t}\n",
		New: "\tpv, _ := containsJustifiedQrc(d, msg.Justification(), msg.Round())\n"},
	{ID: "C02-Q4-preprepare-any-value", File: "core/qbft/qbft.go", Expect: "Q4|proposes the justified",
		Old: "\treturn msg.Value() == pv // Ensure Pv is being proposed",
		New: "\treturn true"},
	{ID: "C02-Q4-decided-any-value", File: "core/qbft/qbft.go", Expect: "Q4|message's value",
		Old: "\tv := msg.Value()\n\tcommits := filterMsgs(msg.Justification(), MsgCommit, msg.Round(), &v, nil, nil)",
		New: "\tcommits := filterMsgs(msg.Justification(), MsgCommit, msg.Round(), nil, nil, nil)"},
	{ID: "C02-Q4-decided-counts-prepares", File: "core/qbft/qbft.go", Expect: "Q4|COMMITs",
		Old: "filterMsgs(msg.Justification(), MsgCommit,",
		New: "filterMsgs(msg.Justification(), MsgPrepare,"},
	{ID: "C02-Q4-decided-prepared-round", File: "core/qbft/qbft.go", Expect: "Q4|message's round",
		Old: "filterMsgs(msg.Justification(), MsgCommit, msg.Round(),",
		New: "filterMsgs(msg.Justification(), MsgCommit, msg.PreparedRound(),"},
	{ID: "C02-Q4-decided-nonempty-suffices", File: "core/qbft/qbft.go", Expect: "Q4|isJustifiedDecided verdict",
		Old: "\treturn len(commits) >= d.Quorum()",
		New: "\tif len(commits) < d.Quorum() {\n\t\treturn len(commits) > 0\n\t}\n\n\treturn true"},
	{ID: "C02-Q4-qrc-higher-pr-skipped", File: "core/qbft/qbft.go", Expect: "Q4|higher prepared round",
		Old: "\t\tif rc.PreparedRound() > pr {\n\t\t\treturn zeroVal[V](), false\n\t\t}",
		New: "\t\tif rc.PreparedRound() > pr {\n\t\t\tcontinue\n\t\t}"},
	{ID: "C02-Q4-qrc-prepares-ok-ignored", File: "core/qbft/qbft.go", Expect: "Q4|prepared quorum checked",
		Old: "\tpr, pv, ok := getSingleJustifiedPrPv(d, justification)\n\tif !ok {\n\t\treturn zeroVal[V](), false\n\t}\n",
		New: "\tpr, pv, _ := getSingleJustifiedPrPv(d, justification)\n"},
	// added with the path-exploration formulation (each targets a mechanism that a looser rule would lose)
	{ID: "C02-Q1-roundchange-break-on-duplicate", File: "core/qbft/qbft.go", Expect: "Q1|isJustifiedRoundChange",
		Old: "\t\tif !uniq(prepare) {\n\t\t\treturn false\n\t\t}",
		New: "\t\tif !uniq(prepare) {\n\t\t\tbreak\n\t\t}"},
	{ID: "C02-Q1-qrc-duplicate-kept-when-highest", File: "core/qbft/qbft.go", Expect: "Q1|getJustifiedQrc",
		Old: "\t\t\tif !uniq(rc) {\n\t\t\t\tcontinue\n\t\t\t}",
		New: "\t\t\tif !uniq(rc) && rc.PreparedRound() != pr {\n\t\t\t\tcontinue\n\t\t\t}"},
	{ID: "C02-Q1-uniq-forgives-round-zero", File: "core/qbft/qbft.go", Expect: "Q1|uniqSource closure tests",
		Old: "\t\tif dedup[msg.Source()] {\n\t\t\treturn false\n\t\t}\n\n\t\tdedup[msg.Source()] = true\n\n\t\treturn true",
		New: "\t\tif dedup[msg.Source()] && msg.Round() > 0 {\n\t\t\treturn false\n\t\t}\n\n\t\tdedup[msg.Source()] = true\n\n\t\treturn true"},
	{ID: "C02-Q1-uniq-records-only-later-rounds", File: "core/qbft/qbft.go", Expect: "Q1|uniqSource closure records",
		Old: "\t\tdedup[msg.Source()] = true\n\n\t\treturn true",
		New: "\t\tif msg.Round() > 1 {\n\t\t\tdedup[msg.Source()] = true\n\t\t}\n\n\t\treturn true"},
	{ID: "C02-Q1-single-prpv-count-before-uniq", File: "core/qbft/qbft.go", Expect: "Q1|getSingleJustifiedPrPv",
		Old: "\t\tif !uniq(msg) {\n\t\t\treturn 0, zeroVal[V](), false\n\t\t}\n\n\t\tif count == 0 {",
		New: "\t\tif !uniq(msg) && count > 0 {\n\t\t\tcontinue\n\t\t}\n\n\t\tif count == 0 {"},
	{ID: "C02-Q2-unjust-decided-passes", File: "core/qbft/qbft.go", Expect: "Q2",
		Old: "\t\t\tif !isJustified(d, instance, msg, compareFailureRound) { // Drop unjust messages",
		New: "\t\t\tif !isJustified(d, instance, msg, compareFailureRound) && msg.Type() != MsgDecided { // Drop unjust messages"},
	{ID: "C02-Q2-verdict-of-other-round", File: "core/qbft/qbft.go", Expect: "Q2",
		Old: "\t\t\tif !isJustified(d, instance, msg, compareFailureRound) { // Drop unjust messages",
		New: "\t\t\tif msg.Round() == round && !isJustified(d, instance, msg, compareFailureRound) { // Drop unjust messages"},
	{ID: "C02-Q3-rerecord-only-same-round", File: "core/qbft/qbft.go", Expect: "Q3|re-record",
		Old: "\t\t\t\tdedupRules[dedupKey{UponRule: rule, Round: msg.Round()}] = true\n",
		New: "\t\t\t\tif compareFailureRound == 0 {\n\t\t\t\t\tdedupRules[dedupKey{UponRule: rule, Round: msg.Round()}] = true\n\t\t\t\t}\n"},
	{ID: "C02-Q4-roundchange-value-first-only", File: "core/qbft/qbft.go", Expect: "Q4|tested for value",
		Old:  "\t\tif prepare.Value() != pv {\n\t\t\treturn false\n\t\t}\n",
		New:  "\t\tif i == 0 && prepare.Value() != pv {\n\t\t\treturn false\n\t\t}\n",
		More: [][2]string{{"\tfor _, prepare := range prepares {\n\t\tif !uniq(prepare) {", "\tfor i, prepare := range prepares {\n\t\tif !uniq(prepare) {"}}},
	{ID: "C02-Q4-roundchange-type-break", File: "core/qbft/qbft.go", Expect: "Q4|tested for type",
		Old: "\t\tif prepare.Type() != MsgPrepare {\n\t\t\treturn false",
		New: "\t\tif prepare.Type() != MsgPrepare {\n\t\t\tbreak"},
	{ID: "C02-Q4-qrc-higher-flag-overwritten", File: "core/qbft/qbft.go", Expect: "Q4|higher prepared round",
		Old:  "\t\tif rc.PreparedRound() > pr {\n\t\t\treturn zeroVal[V](), false\n\t\t}",
		New:  "\t\thigher = rc.PreparedRound() > pr",
		More: [][2]string{{"\tvar found bool\n", "\tvar found, higher bool\n"}, {"\treturn pv, found\n", "\tif higher {\n\t\treturn zeroVal[V](), false\n\t}\n\n\treturn pv, found\n"}}},
	{ID: "C02-Q4-preprepare-qrc-only-late-rounds", File: "core/qbft/qbft.go", Expect: "Q4|round justification",
		Old: "\tpv, ok := containsJustifiedQrc(d, msg.Justification(), msg.Round())\n\tif !ok {\n\t\treturn false\n\t}\n",
		New: "\tpv, ok := containsJustifiedQrc(d, msg.Justification(), msg.Round())\n\tif !ok && msg.Round() > 2 {\n\t\treturn false\n\t}\n"},
	{ID: "C02-Q4-preprepare-leader-or-first-round", File: "core/qbft/qbft.go", Expect: "Q4|leader",
		Old: "\tif !d.IsLeader(instance, msg.Round(), msg.Source()) {\n\t\treturn false",
		New: "\tif !d.IsLeader(instance, msg.Round(), msg.Source()) && msg.Round() != 1 {\n\t\treturn false"},
	{ID: "C02-Q4-decided-value-of-prepared", File: "core/qbft/qbft.go", Expect: "Q4|message's value",
		Old: "\tv := msg.Value()\n\tcommits := filterMsgs(msg.Justification(), MsgCommit,",
		New: "\tv := msg.PreparedValue()\n\tcommits := filterMsgs(msg.Justification(), MsgCommit,"},
	{ID: "C02-Q4-qrc-pv-of-message", File: "core/qbft/qbft.go", Expect: "Q4|returns the justified value",
		Old: "\t\tif rc.PreparedRound() == pr && rc.PreparedValue() == pv {\n\t\t\tfound = true\n\t\t}\n\t}\n\n\treturn pv, found",
		New: "\t\tif rc.PreparedRound() == pr && rc.PreparedValue() == pv {\n\t\t\tfound = true\n\t\t}\n\t}\n\n\treturn qrc[0].PreparedValue(), found"},
	{ID: "C02-Q5-justification-set-on-commits", File: "core/qbft/qbft.go", Expect: "Q5|preparedJustification written only",
		Old: "\t\t\t\tqCommit = justification\n",
		New: "\t\t\t\tqCommit = justification\n\t\t\t\tpreparedJustification = justification\n"},
	{ID: "C02-Q5-prepared-value-only-later-rounds", File: "core/qbft/qbft.go", Expect: "Q5|written together",
		Old: "\t\t\t\tpreparedValue = msg.Value()\n",
		New: "\t\t\t\tif round > 1 {\n\t\t\t\t\tpreparedValue = msg.Value()\n\t\t\t\t}\n"},
	{ID: "C02-Q5-commit-on-quorum-commits", File: "core/qbft/qbft.go", Expect: "Q5|COMMIT",
		Old: "\t\t\t\tqCommit = justification\n",
		New: "\t\t\t\tqCommit = justification\n\t\t\t\t_ = broadcastMsg(MsgCommit, msg.Value(), nil)\n"},
	// added with the hardening round (dedup recognised by its set of seen sources; difference-form comparisons)
	{ID: "C02-Q1-single-prpv-set-per-element", File: "core/qbft/qbft.go", Expect: "Q1|getSingleJustifiedPrPv",
		Old: "\t\tif !uniq(msg) {\n\t\t\treturn 0, zeroVal[V](), false\n\t\t}\n\n\t\tif count == 0 {",
		New: "\t\t_ = uniq\n\n\t\tif seen := map[int64]bool{}; seen[msg.Source()] {\n\t\t\treturn 0, zeroVal[V](), false\n\t\t}\n\n\t\tif count == 0 {"},
	{ID: "C02-Q1-roundchange-set-never-recorded", File: "core/qbft/qbft.go", Expect: "Q1|isJustifiedRoundChange",
		Old:  "\t\tif !uniq(prepare) {\n\t\t\treturn false\n\t\t}",
		New:  "\t\tif seenSrc[prepare.Source()] {\n\t\t\treturn false\n\t\t}",
		More: [][2]string{{"\tuniq := uniqSource[I, V, C]()\n\tfor _, prepare := range prepares {", "\tseenSrc := map[int64]bool{}\n\tfor _, prepare := range prepares {"}}},
	{ID: "C02-Q1-decided-difference-off-by-one", File: "core/qbft/qbft.go", Expect: "Q1|isJustifiedDecided",
		Old: "\treturn len(commits) >= d.Quorum()\n}",
		New: "\treturn d.Quorum()-len(commits) <= 1\n}"},
	{ID: "C02-Q1-qrc-set-asked-after-append", File: "core/qbft/qbft.go", Expect: "Q1|getJustifiedQrc",
		Old: "\t\t\tif !uniq(rc) {\n\t\t\t\tcontinue\n\t\t\t}",
		New: "\t\t\tif rc.PreparedRound() == pr {\n\t\t\t\tqrc = append(qrc, rc)\n\t\t\t}\n\n\t\t\tif !uniq(rc) {\n\t\t\t\tcontinue\n\t\t\t}"},
	// round 4: a ROUND-CHANGE on some path drops the prepared certificate although it is held (seed C01-r4A class)
	{ID: "C02-Q5-roundchange-stale-cert-dropped", File: "core/qbft/qbft.go", Expect: "Q5|carries prepared",
		Old: "\tbroadcastRoundChange := func() error {\n\t\treturn t.Broadcast(ctx, MsgRoundChange, instance, process, round,\n\t\t\tzeroVal[V](), preparedRound, preparedValue, preparedJustification)",
		New: "\tbroadcastRoundChange := func() error {\n\t\tpr, pv, pj := preparedRound, preparedValue, preparedJustification\n\t\tif pr < round-1 {\n\t\t\tpr, pv, pj = 0, zeroVal[V](), nil\n\t\t}\n\n\t\treturn t.Broadcast(ctx, MsgRoundChange, instance, process, round,\n\t\t\tzeroVal[V](), pr, pv, pj)"},
	{ID: "C02-Q5-roundchange-justification-once", File: "core/qbft/qbft.go", Expect: "Q5|carries preparedJustification",
		Old: "\tbroadcastRoundChange := func() error {\n\t\treturn t.Broadcast(ctx, MsgRoundChange, instance, process, round,\n\t\t\tzeroVal[V](), preparedRound, preparedValue, preparedJustification)",
		New: "\tbroadcastRoundChange := func() error {\n\t\tvar pj []Msg[I, V, C]\n\t\tif round == preparedRound+1 {\n\t\t\tpj = preparedJustification\n\t\t}\n\n\t\treturn t.Broadcast(ctx, MsgRoundChange, instance, process, round,\n\t\t\tzeroVal[V](), preparedRound, preparedValue, pj)"},
	{ID: "C02-Q5-roundchange-cert-cleared-after-send", File: "core/qbft/qbft.go", Expect: "Q5|written only",
		Old: "\tbroadcastRoundChange := func() error {\n\t\treturn t.Broadcast(ctx, MsgRoundChange, instance, process, round,\n\t\t\tzeroVal[V](), preparedRound, preparedValue, preparedJustification)",
		New: "\tbroadcastRoundChange := func() error {\n\t\tdefer func() { preparedRound, preparedValue, preparedJustification = 0, zeroVal[V](), nil }()\n\n\t\treturn t.Broadcast(ctx, MsgRoundChange, instance, process, round,\n\t\t\tzeroVal[V](), preparedRound, preparedValue, preparedJustification)"},
	{ID: "C02-Q5-fplus1-roundchange-null-when-behind", File: "core/qbft/qbft.go", Expect: "Q5|carries",
		Old: "\t\t\t\terr = broadcastRoundChange()\n\n\t\t\tcase UponQuorumRoundChanges: // Algorithm 3:11",
		New: "\t\t\t\tif preparedRound+1 < round {\n\t\t\t\t\terr = t.Broadcast(ctx, MsgRoundChange, instance, process, round, zeroVal[V](), 0, zeroVal[V](), nil)\n\t\t\t\t} else {\n\t\t\t\t\terr = broadcastRoundChange()\n\t\t\t\t}\n\n\t\t\tcase UponQuorumRoundChanges: // Algorithm 3:11"},
	// Q5
	{ID: "C02-Q5-roundchange-zero-pv", File: "core/qbft/qbft.go", Expect: "Q5|carries preparedValue",
		Old: "zeroVal[V](), preparedRound, preparedValue, preparedJustification)",
		New: "zeroVal[V](), preparedRound, zeroVal[V](), preparedJustification)"},
	{ID: "C02-Q5-roundchange-zero-pr", File: "core/qbft/qbft.go", Expect: "Q5|carries preparedRound",
		Old: "zeroVal[V](), preparedRound, preparedValue, preparedJustification)",
		New: "zeroVal[V](), preparedRound-1, preparedValue, preparedJustification)"},
	{ID: "C02-Q5-roundchange-current-round-as-pr", File: "core/qbft/qbft.go", Expect: "Q5|carries preparedRound",
		Old:  "zeroVal[V](), preparedRound, preparedValue, preparedJustification)",
		New:  "zeroVal[V](), round, preparedValue, preparedJustification)",
		More: [][2]string{{"\t\t\t\tpreparedValue = msg.Value()\n", "\t\t\t\tpreparedValue = msg.Value()\n\t\t\t\t_ = preparedRound\n"}}},
	{ID: "C02-Q5-prepared-value-never-set", File: "core/qbft/qbft.go", Expect: "Q5|preparedValue",
		Old: "\t\t\t\tpreparedValue = msg.Value()\n",
		New: ""},
	{ID: "C02-Q5-prepared-value-own-input", File: "core/qbft/qbft.go", Expect: "Q5|preparedValue",
		Old: "\t\t\t\tpreparedValue = msg.Value()\n",
		New: "\t\t\t\tpreparedValue = inputValue\n"},
	{ID: "C02-Q5-prepared-round-on-preprepare", File: "core/qbft/qbft.go", Expect: "Q5|preparedRound written only",
		Old: "\t\t\t\tvar errC error\n",
		New: "\t\t\t\tpreparedRound = msg.Round()\n\n\t\t\t\tvar errC error\n"},
	{ID: "C02-Q5-prepared-justification-nil", File: "core/qbft/qbft.go", Expect: "Q5|preparedJustification",
		Old: "\t\t\t\tpreparedJustification = justification\n",
		New: "\t\t\t\tpreparedJustification = nil\n"},
	{ID: "C02-Q5-timeout-plain-roundchange", File: "core/qbft/qbft.go", Expect: "Q5|carries",
		Old: "\t\t\terr = broadcastRoundChange()\n\n\t\tcase <-ctx.Done()",
		New: "\t\t\terr = broadcastMsg(MsgRoundChange, zeroVal[V](), nil)\n\n\t\tcase <-ctx.Done()"},
	{ID: "C02-Q5-commit-own-value", File: "core/qbft/qbft.go", Expect: "Q5|COMMIT",
		Old: "err = broadcastMsg(MsgCommit, preparedValue, nil)",
		New: "err = broadcastMsg(MsgCommit, inputValue, nil)"},
}
