package rules

// C12-RB — the check of the pre-generated builder registrations (Lock.verifyBuilderRegistrations) is bound to the
// other lock artifacts: its outcome depends on
//   * the fee recipient the definition declares for the validator (ValidatorAddresses.FeeRecipientAddress),
//   * the validator's group public key (DistValidator.PubKey),
//   * the definition's fork version (Definition.ForkVersion), and
//   * the stored registration signature (BuilderRegistration.Signature).
//
// Why it is a necessary condition: "builder registrations verify for the lock's validator keys" and the mutual
// consistency of the artifacts mean that the signed registration message is the one determined by the definition
// (fee recipient, chain) and the validator key. A verification whose every decision (every branch condition and
// every operand of the signature check) is independent of one of these inputs accepts a registration that is
// validly signed but names another fee recipient / key / chain: the artifact is no longer tied to the definition.
//
// Formulation (value provenance, no shapes): the functions of package cluster statically reachable from
// Lock.verifyBuilderRegistrations are the verification; its decisions are the conditions of all its branches and
// the arguments of every tbls.Verify call in it. The backward data slice of the decisions (through calls of
// in-package functions, results of library calls as functions of their arguments, locals, collections, loop
// bounds) must read each bound field. VIOLATION only when the slice is closed (no source it cannot follow, no call
// of a function value) and reads the field nowhere; otherwise UNDECIDED. It does not matter whether the message is
// rebuilt from the definition or the stored message is compared with it, nor how the code is cut into helpers.

import (
	"go/token"
	"go/types"
	"sort"
	"strings"

	"golang.org/x/tools/go/ssa"

	"charonverif/internal/an"
	"charonverif/internal/rt"
)

func init() {
	Extend("C12", "(RB) the outcome of Lock.verifyBuilderRegistrations depends on the definition's per-validator fee recipient, the validator public key, the definition's fork version and the stored registration signature (the registration is bound to the definition and the validator key).",
		func(c *rt.Ctx) { c.Rule("RB", 4, func() { c12n5RegBind(c) }) }, c12n5RBMutants...)
}

var c12n5RBMutants = []Mutant{
	{ID: "C12-RB-fee-recipient-from-withdrawal", File: "cluster/lock.go", Expect: "RB",
		Old: "\tfeeRecipientAddrs := l.FeeRecipientAddresses()\n", New: "\tfeeRecipientAddrs := l.WithdrawalAddresses()\n"},
	{ID: "C12-RB-fee-recipient-from-stored-message", File: "cluster/lock.go", Expect: "RB",
		Old:  "registration.NewMessage(eth2p0.BLSPubKey(val.PubKey), feeRecipientAddrs[i], uint64(",
		New:  "registration.NewMessage(eth2p0.BLSPubKey(val.PubKey), to0xHex(val.BuilderRegistration.Message.FeeRecipient), uint64(",
		More: [][2]string{{"\tfeeRecipientAddrs := l.FeeRecipientAddresses()\n", ""}}},
	{ID: "C12-RB-fork-version-zero", File: "cluster/lock.go", Expect: "RB",
		Old: "registration.GetMessageSigningRoot(regMsg, eth2p0.Version(l.ForkVersion))",
		New: "registration.GetMessageSigningRoot(regMsg, eth2p0.Version{})"},
}

type c12n5Bound struct{ typ, field, what string }

var c12n5Bounds = []c12n5Bound{
	{"cluster.ValidatorAddresses", "FeeRecipientAddress", "the fee recipient the definition declares for the validator (ValidatorAddresses.FeeRecipientAddress)"},
	{"cluster.DistValidator", "PubKey", "the validator's group public key (DistValidator.PubKey)"},
	{"cluster.Definition", "ForkVersion", "the definition's fork version (Definition.ForkVersion)"},
	{"cluster.BuilderRegistration", "Signature", "the stored registration signature (BuilderRegistration.Signature)"},
}

func c12n5StructOf(t types.Type) (*types.Struct, string) {
	if p, ok := t.Underlying().(*types.Pointer); ok {
		t = p.Elem()
	}
	st, _ := t.Underlying().(*types.Struct)
	return st, an.TypeName(t)
}

func c12n5RegBind(c *rt.Ctx) {
	root := c.Fn("cluster.Lock.verifyBuilderRegistrations")
	sp := root.Pkg
	if sp == nil {
		c.Bail("Lock.verifyBuilderRegistrations has no package")
	}
	// the anchors: the bound fields exist under their names
	for _, b := range c12n5Bounds {
		nm := b.typ[strings.LastIndex(b.typ, ".")+1:]
		tm, _ := sp.Members[nm].(*ssa.Type)
		if tm == nil {
			c.Bail("type %s not found", b.typ)
		}
		st, _ := tm.Type().Underlying().(*types.Struct)
		found := false
		for i := 0; st != nil && i < st.NumFields(); i++ {
			found = found || st.Field(i).Name() == b.field
		}
		if !found {
			c.Bail("field %s.%s not found", b.typ, b.field)
		}
	}
	// the verification: in-package functions statically reachable from the root (and their function literals)
	var fns []*ssa.Function
	seen := map[*ssa.Function]bool{}
	dynamic := ""
	var reach func(f *ssa.Function)
	reach = func(f *ssa.Function) {
		if f == nil || seen[f] || len(f.Blocks) == 0 {
			return
		}
		if f.Pkg != sp && (f.Parent() == nil || !seen[f.Parent()]) {
			return
		}
		seen[f] = true
		fns = append(fns, f)
		for _, af := range f.AnonFuncs {
			reach(af)
		}
		for _, in := range an.Instrs(f, false) {
			ci, ok := in.(ssa.CallInstruction)
			if !ok {
				continue
			}
			cc := ci.Common()
			if sc := cc.StaticCallee(); sc != nil {
				reach(sc)
				continue
			}
			if _, isB := cc.Value.(*ssa.Builtin); isB || cc.IsInvoke() {
				continue
			}
			if dynamic == "" {
				dynamic = "call of a function value in " + an.FuncName(f)
			}
		}
	}
	reach(root)
	sl := &c12nSlicer{pkg: sp, fns: fns, loops: map[*ssa.Function][]*an.Loop{}, root: root,
		field: func(t types.Type, idx int) string {
			st, name := c12n5StructOf(t)
			if st == nil || idx >= st.NumFields() {
				return ""
			}
			for _, b := range c12n5Bounds {
				if st.Field(idx).Name() == b.field && strings.HasSuffix(name, b.typ) {
					return b.typ + "." + b.field
				}
			}
			return ""
		}}
	hits := map[string]bool{}
	unknown := dynamic
	nDec := 0
	verifyPos := token.NoPos
	judge := func(v ssa.Value) {
		nDec++
		d := sl.dep(v, 0)
		for h := range d.hits {
			hits[h] = true
		}
		if d.unknown != "" && unknown == "" {
			unknown = d.unknown
		}
	}
	for _, f := range fns {
		for _, b := range f.Blocks {
			if len(b.Instrs) == 0 {
				continue
			}
			if iff, ok := b.Instrs[len(b.Instrs)-1].(*ssa.If); ok {
				judge(iff.Cond)
			}
		}
		for _, in := range an.Instrs(f, false) {
			call, ok := in.(*ssa.Call)
			if !ok || !an.Static("tbls.Verify")(&call.Call) {
				continue
			}
			if !verifyPos.IsValid() {
				verifyPos = call.Pos()
			}
			for _, a := range call.Call.Args {
				judge(a)
			}
		}
	}
	if nDec == 0 {
		c.Bail("Lock.verifyBuilderRegistrations takes no decision the rule recognises")
	}
	pos := verifyPos
	if !pos.IsValid() {
		pos = root.Pos()
	}
	name := an.FuncName(root)
	bs := append([]c12n5Bound(nil), c12n5Bounds...)
	sort.SliceStable(bs, func(i, j int) bool { return bs[i].typ+bs[i].field < bs[j].typ+bs[j].field })
	for _, b := range bs {
		cons := name + " bound to " + b.typ[strings.LastIndex(b.typ, ".")+1:] + "." + b.field
		switch {
		case hits[b.typ+"."+b.field]:
			c.Good(cons, pos, "a decision of the registration check depends on "+b.what)
		case unknown != "":
			c.Unsure(cons, pos, "no decision of the registration check is seen to depend on "+b.what+", but the data slice is not closed ("+unknown+")")
		default:
			c.Bad(cons, pos, "no branch condition and no operand of the signature check in the builder-registration verification depends on "+b.what+
				": a registration validly signed for other values passes, it is not bound to the definition / validator key")
		}
	}
}
