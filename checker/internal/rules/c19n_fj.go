package rules

import (
	"go/token"
	"go/types"
	"strings"

	"golang.org/x/tools/go/ssa"

	"charonverif/internal/an"
	"charonverif/internal/rt"
)

// ---------------------------------------------------------------------------------------------
// Y5: app/forkjoin honours the options provide relies on (Y1 checks that provide passes them).
//   * WithoutFailFast clears options.failFast, WithWorkers stores its argument into options.workers;
//   * New starts its workers in a loop bounded by options.workers;
//   * under the valuation failFast == false no path of a worker, from the return of the work function to the
//     next input, reaches a call of the cancel function of the context shared by all workers.

const (
	c19OptFF = c19FJ + ".options.failFast"
	c19OptW  = c19FJ + ".options.workers"
)

// c19FieldLoad: v is a load of struct field `key` (through a field address).
func c19FieldLoad(v ssa.Value, key string) bool {
	ld, ok := v.(*ssa.UnOp)
	if !ok || ld.Op != token.MUL {
		return false
	}
	fa, ok := ld.X.(*ssa.FieldAddr)
	return ok && an.FieldKey(fa.X.Type(), fa.Field) == key
}

// c19FieldStores lists the stores into struct field `key` made by fn or its literals.
func c19FieldStores(fn *ssa.Function, key string) []*ssa.Store {
	var out []*ssa.Store
	for _, in := range an.Instrs(fn, true) {
		st, ok := in.(*ssa.Store)
		if !ok {
			continue
		}
		if fa, ok := st.Addr.(*ssa.FieldAddr); ok && an.FieldKey(fa.X.Type(), fa.Field) == key {
			out = append(out, st)
		}
	}
	return out
}

// c19OptStores lists the values stored into options field `key` by option constructor f, its literals and the
// in-package functions it calls (their parameters replaced by the arguments of the call). whole: some function
// involved assigns a whole options value (not followed).
func c19OptStores(f *ssa.Function, key string) (vals []ssa.Value, pos []token.Pos, whole bool) {
	var visit func(g *ssa.Function, bind map[*ssa.Parameter]ssa.Value, d int)
	seen := map[*ssa.Function]bool{}
	visit = func(g *ssa.Function, bind map[*ssa.Parameter]ssa.Value, d int) {
		if d > 2 || seen[g] {
			return
		}
		seen[g] = true
		for _, in := range an.Instrs(g, true) {
			switch x := in.(type) {
			case *ssa.Store:
				if fa, ok := x.Addr.(*ssa.FieldAddr); ok && an.FieldKey(fa.X.Type(), fa.Field) == key {
					os := c19Subst(c19Origins(x.Val), bind, 0)
					if len(os) == 1 {
						vals = append(vals, os[0])
					} else {
						vals = append(vals, x.Val)
					}
					pos = append(pos, x.Pos())
				} else if pt, ok := x.Addr.Type().Underlying().(*types.Pointer); ok && an.TypeName(pt.Elem()) == c19FJ+".options" {
					if _, isParam := x.Addr.(*ssa.Parameter); isParam {
						whole = true
					}
				}
			case *ssa.Call:
				h := an.Orig(x.Call.StaticCallee())
				if x.Call.IsInvoke() || h == nil || h.Pkg != f.Pkg || len(h.Blocks) == 0 || len(h.Params) != len(x.Call.Args) {
					continue
				}
				nb := map[*ssa.Parameter]ssa.Value{}
				for k, v := range bind {
					nb[k] = v
				}
				for i, p := range h.Params {
					nb[p] = x.Call.Args[i]
				}
				visit(h, nb, d+1)
			}
		}
	}
	visit(f, map[*ssa.Parameter]ssa.Value{}, 0)
	return vals, pos, whole
}

func c19BoolConst(v ssa.Value) (val, ok bool) {
	k, isK := v.(*ssa.Const)
	if !isK || k.Value == nil || !types.Identical(k.Type().Underlying(), types.Typ[types.Bool]) {
		return false, false
	}
	return k.Value.String() == "true", true
}

func c19HasOrigin(v, target ssa.Value) bool {
	for _, o := range c19Origins(v) {
		if o == target {
			return true
		}
	}
	return false
}

func c19Y5(c *rt.Ctx) {
	newFn := c.Fn(c19FJ + ".New")
	if len(newFn.Params) < 2 {
		c.Bail("forkjoin.New: expected (rootCtx, work, opts...)")
	}
	work := newFn.Params[1]

	// option constructors
	if f := c.Fn(c19FJ + ".WithoutFailFast"); true {
		sts, _, whole := c19OptStores(f, c19OptFF)
		good, unsure, why := len(sts) > 0 || whole, whole && len(sts) == 0, "WithoutFailFast does not clear options.failFast: provide's fork-join keeps failing fast (one node's error cancels the other nodes' requests)"
		for _, st := range sts {
			if b, ok := c19BoolConst(st); !ok {
				unsure = true
			} else if b {
				good, why = false, "WithoutFailFast sets options.failFast to true: one node's error cancels the other nodes' requests"
			}
		}
		if good && unsure {
			c.Unsure("forkjoin.WithoutFailFast clears failFast", f.Pos(), "the value stored into options.failFast is not a constant")
		} else {
			c.Check("forkjoin.WithoutFailFast clears failFast", f.Pos(), good, why)
		}
	}
	if f := c.Fn(c19FJ + ".WithWorkers"); true {
		sts, _, whole := c19OptStores(f, c19OptW)
		good, unsure, why := len(sts) > 0 || whole, whole && len(sts) == 0, "WithWorkers does not set options.workers: the default of 8 workers makes nodes queue behind slow or hung ones"
		for _, st := range sts {
			switch {
			case len(f.Params) == 1 && c19Only(st, f.Params[0]):
			case func() bool { _, isK := an.ConstInt(st); return isK }():
				good, why = false, "WithWorkers stores a constant instead of its argument into options.workers: nodes queue behind slow or hung ones"
			default:
				unsure = true
			}
		}
		if good && unsure {
			c.Unsure("forkjoin.WithWorkers sets workers", f.Pos(), "the value stored into options.workers is not followed")
		} else {
			c.Check("forkjoin.WithWorkers sets workers", f.Pos(), good, why)
		}
	}

	// the cancel function(s) of contexts created in New
	var cancels []ssa.Value
	for _, ci := range an.Calls(newFn, an.Static("context.WithCancel", "context.WithCancelCause", "context.WithTimeout", "context.WithDeadline"), false) {
		if ex := c19Extract(ci, 1); ex != nil {
			cancels = append(cancels, ex)
		}
	}
	if len(cancels) == 0 {
		c.Bail("forkjoin.New creates no cancellable work context")
	}
	lin := &c19n4Lin{}
	directCancel := func(ci ssa.CallInstruction) bool {
		if _, isB := ci.Common().Value.(*ssa.Builtin); isB || ci.Common().IsInvoke() {
			return false
		}
		for _, k := range cancels {
			if lin.hasOrigin(ci.Common().Value, k) {
				return true
			}
		}
		return false
	}
	ffAtom := func(_ *c19Walker, v ssa.Value) (int, bool, bool) {
		if c19FieldLoad(v, c19OptFF) {
			return 0, false, true
		}
		return 0, false, false
	}
	hasDirect := func(b *ssa.BasicBlock) bool {
		for _, in := range b.Instrs {
			if c2, ok := in.(ssa.CallInstruction); ok && directCancel(c2) {
				return true
			}
		}
		return false
	}
	isCancel := func(ci ssa.CallInstruction) bool {
		if directCancel(ci) {
			return true
		}
		// a closure / function of the package that cancels
		for _, o := range c19Origins(ci.Common().Value) {
			var g *ssa.Function
			switch x := o.(type) {
			case *ssa.MakeClosure:
				g, _ = x.Fn.(*ssa.Function)
			case *ssa.Function:
				g = x
			}
			g = an.Orig(g)
			if g == nil || g.Pkg != newFn.Pkg || len(g.Blocks) == 0 {
				continue
			}
			// the function is walked under failFast == false: does a path from its entry reach the cancel function?
			if hasDirect(g.Blocks[0]) {
				return true
			}
			w2 := &c19Walker{atom: ffAtom, val: []bool{false},
				stop: func(b *ssa.BasicBlock, _ *c19Walker) (string, bool) { return "cancel", hasDirect(b) },
				ret:  func(*ssa.Return, *c19Walker) string { return "returns" }}
			w2.run(g.Blocks[0], nil)
			if w2.out["cancel"] || c19HasUnsure(w2.out) != "" {
				return true
			}
			for _, lit := range g.AnonFuncs {
				for _, in := range an.Instrs(lit, true) {
					if c2, ok := in.(ssa.CallInstruction); ok && directCancel(c2) {
						return true
					}
				}
			}
		}
		return false
	}
	blockCancels := func(b *ssa.BasicBlock, after ssa.Instruction) bool {
		seen := after == nil
		for _, in := range b.Instrs {
			if !seen {
				seen = in == after
				continue
			}
			if ci, ok := in.(ssa.CallInstruction); ok && isCancel(ci) {
				return true
			}
		}
		return false
	}

	// the workers: literals started with `go` that call the work function
	nWorkers := 0
	for _, in := range an.Instrs(newFn, false) {
		g, ok := in.(*ssa.Go)
		if !ok {
			continue
		}
		var wfn *ssa.Function
		switch x := an.Resolve(g.Call.Value).(type) {
		case *ssa.MakeClosure:
			wfn, _ = x.Fn.(*ssa.Function)
		case *ssa.Function:
			wfn = x
		}
		wfn = an.Orig(wfn)
		if wfn == nil || len(wfn.Blocks) == 0 {
			continue
		}
		// the worker body: the goroutine's function and the functions / methods of the package it calls
		chain := c19n4Chain(wfn, 3)
		holder := map[*ssa.Function]bool{}
		var wcalls []ssa.CallInstruction
		for _, cf := range chain {
			holder[cf] = true
			for _, in2 := range an.Instrs(cf, true) {
				ci, ok := in2.(ssa.CallInstruction)
				if !ok || ci.Common().IsInvoke() || ci.Common().StaticCallee() != nil {
					continue
				}
				if _, isB := ci.Common().Value.(*ssa.Builtin); isB {
					continue
				}
				if lin.hasOrigin(ci.Common().Value, work) {
					wcalls = append(wcalls, ci)
				}
			}
		}
		if len(wcalls) == 0 {
			continue
		}
		nWorkers++
		// one worker per options.workers
		l := an.InnermostLoop(newFn, g.Block())
		switch {
		case l == nil:
			c.Bad("forkjoin.New starts options.workers workers", g.Pos(), "the worker goroutine is not started in a loop: a single worker makes every node wait for the previous one")
		default:
			found, konst := false, false
			for _, hin := range l.Header.Instrs {
				iff, ok := hin.(*ssa.If)
				if !ok {
					continue
				}
				if bin, ok := iff.Cond.(*ssa.BinOp); ok {
					for _, op := range []ssa.Value{bin.X, bin.Y} {
						for _, o := range c19Origins(op) {
							if c19FieldLoad(o, c19OptW) {
								found = true
							}
							if _, isK := an.ConstInt(o); isK {
								if _, isPhi := op.(*ssa.Phi); !isPhi {
									konst = true
								}
							}
						}
					}
				}
			}
			switch {
			case found:
				c.Good("forkjoin.New starts options.workers workers", g.Pos(), "")
			case konst:
				c.Bad("forkjoin.New starts options.workers workers", g.Pos(), "the number of workers started is a constant, not options.workers: WithWorkers(len(nodes)) has no effect and nodes queue behind slow or hung ones")
			default:
				c.Unsure("forkjoin.New starts options.workers workers", g.Pos(), "the bound of the loop starting the workers is not followed to options.workers")
			}
		}
		// without fail-fast a worker never cancels the shared work context
		for _, wc := range wcalls {
			if !holder[wc.Parent()] {
				c.Unsure("forkjoin worker cancels only when failing fast", wc.Pos(), "the work function is called from a nested literal of the worker")
				continue
			}
			// the functions between the goroutine and the one calling the work function must not cancel on their own
			// (they run whatever the outcome of the work function)
			outer := false
			for _, cf := range chain {
				if cf == wc.Parent() {
					continue
				}
				for _, in2 := range an.Instrs(cf, true) {
					if ci, ok := in2.(ssa.CallInstruction); ok && directCancel(ci) {
						outer = true
					}
				}
			}
			if outer {
				c.Unsure("forkjoin worker cancels only when failing fast", wc.Pos(), "a function of the worker other than the one calling the work function calls the cancel function; its guard is not followed")
				continue
			}
			wl := an.InnermostLoop(wc.Parent(), wc.Block())
			atom := ffAtom
			out := map[string]bool{}
			if blockCancels(wc.Block(), wc) {
				out["cancel"] = true
			} else {
				w := &c19Walker{atom: atom, val: []bool{false},
					stop: func(b *ssa.BasicBlock, _ *c19Walker) (string, bool) {
						if wl != nil && b == wl.Header {
							return "next input", true
						}
						if b == wc.Block() {
							return "next input", true
						}
						if blockCancels(b, nil) {
							return "cancel", true
						}
						return "", false
					},
					ret: func(*ssa.Return, *c19Walker) string { return "worker exits" }}
				w.run(wc.Block(), nil)
				out = w.out
			}
			switch {
			case out["cancel"]:
				c.Bad("forkjoin worker cancels only when failing fast", wc.Pos(),
					"with options.failFast == false (WithoutFailFast, as provide asks) a path from the return of the work function reaches the cancel function of the context shared by all workers: "+
						"one node's outcome aborts the requests still running on the other nodes")
			case c19HasUnsure(out) != "":
				c.Unsure("forkjoin worker cancels only when failing fast", wc.Pos(), "the worker body cannot be followed: "+strings.TrimPrefix(c19HasUnsure(out), "?"))
			default:
				c.Good("forkjoin worker cancels only when failing fast", wc.Pos(), "outcomes with failFast off: "+c19Set(out))
			}
		}
	}
	if nWorkers == 0 {
		c.Bail("forkjoin.New: no goroutine literal calling the work function found")
	}
	c19n4CancelWaits(c, newFn, lin)
}

// c19n4CancelWaits: provide returns the first success through `defer cancel()`; the cancel function of New must
// not block (channel receive, select without default, WaitGroup.Wait) unless options.waitOnCancel was asked for,
// and waitOnCancel is off by default -- otherwise the first success is held back until every node's request ended.
func c19n4CancelWaits(c *rt.Ctx, newFn *ssa.Function, lin *c19n4Lin) {
	const key = c19FJ + ".options.waitOnCancel"
	const name = "forkjoin cancel waits only with WithWaitOnCancel"
	// default
	// (no store: the zero value, false)
	for _, st := range c19FieldStores(newFn, key) {
		if b, ok := c19BoolConst(an.Resolve(st.Val)); !ok {
			c.Unsure(name, st.Pos(), "the default of options.waitOnCancel set in New is not a constant")
			return
		} else if b {
			c.Bad(name, st.Pos(), "options.waitOnCancel is on by default: the cancel deferred by provide waits for every node's request to finish before the first success is returned")
			return
		}
	}
	var cfn []*ssa.Function
	for _, r := range c19Returns(newFn) {
		vals := c19RetVals(r)
		if len(vals) != 3 {
			c.Unsure(name, newFn.Pos(), "New does not return (fork, join, cancel)")
			return
		}
		for _, o := range lin.origins(vals[2]) {
			var g *ssa.Function
			switch x := o.(type) {
			case *ssa.MakeClosure:
				g, _ = x.Fn.(*ssa.Function)
			case *ssa.Function:
				g = x
			}
			if g != nil && g.Synthetic != "" && len(g.Blocks) > 0 {
				// bound method wrapper: the method it calls
				var inner *ssa.Function
				for _, in := range an.Instrs(g, false) {
					if ci, ok := in.(ssa.CallInstruction); ok && !ci.Common().IsInvoke() && ci.Common().StaticCallee() != nil {
						inner = ci.Common().StaticCallee()
					}
				}
				g = inner
			}
			g = an.Orig(g)
			if g == nil || len(g.Blocks) == 0 || c19n4Top(g).Pkg != newFn.Pkg {
				c.Unsure(name, newFn.Pos(), "the cancel function returned by New is not a function of the package that is followed")
				return
			}
			cfn = append(cfn, g)
		}
	}
	if len(cfn) == 0 {
		c.Unsure(name, newFn.Pos(), "the cancel function returned by New is not resolved")
		return
	}
	blocks := func(b *ssa.BasicBlock) bool {
		for _, in := range b.Instrs {
			switch x := in.(type) {
			case *ssa.UnOp:
				if x.Op == token.ARROW {
					return true
				}
			case *ssa.Select:
				if x.Blocking {
					return true
				}
			case ssa.CallInstruction:
				if f := x.Common().StaticCallee(); f != nil && !x.Common().IsInvoke() {
					if _, isGo := in.(*ssa.Go); !isGo && an.FuncName(f) == "sync.WaitGroup.Wait" {
						return true
					}
				}
			}
		}
		return false
	}
	atom := func(_ *c19Walker, v ssa.Value) (int, bool, bool) {
		if c19FieldLoad(v, key) {
			return 0, false, true
		}
		return 0, false, false
	}
	for _, g := range cfn {
		out := map[string]bool{}
		if blocks(g.Blocks[0]) {
			out["waits"] = true
		} else {
			w := &c19Walker{atom: atom, val: []bool{false},
				stop: func(b *ssa.BasicBlock, _ *c19Walker) (string, bool) { return "waits", blocks(b) },
				ret:  func(*ssa.Return, *c19Walker) string { return "returns" }}
			w.run(g.Blocks[0], nil)
			out = w.out
		}
		switch {
		case out["waits"]:
			c.Bad(name, g.Pos(), "with options.waitOnCancel == false (provide does not ask for it) the cancel function still blocks on a channel / wait group: "+
				"the cancel deferred by provide holds the first success back until every node's request has ended")
		case c19HasUnsure(out) != "":
			c.Unsure(name, g.Pos(), "the cancel function cannot be followed: "+strings.TrimPrefix(c19HasUnsure(out), "?"))
		default:
			c.Good(name, g.Pos(), "outcomes with waitOnCancel off: "+c19Set(out))
		}
	}
}

// ---------------------------------------------------------------------------------------------
// Y6: the fallback classifiers test error classes on the whole error tree (errors.As / errors.Is descend into
// multi-errors, `Unwrap() []error`), never only on one link of the chain: a class that is tested by a type
// assertion / sentinel comparison on a value derived from the classified error, and by no errors.As / errors.Is
// for the same class, misses errors nested under errors.Join (how go-eth2-client reports non-2xx answers).

type c19ClassTest struct {
	typ  types.Type // As-class
	sent string     // Is-class (sentinel)
	pos  token.Pos
}

func c19ErrFn(ci ssa.CallInstruction, names ...string) bool {
	f := ci.Common().StaticCallee()
	if f == nil || ci.Common().IsInvoke() {
		return false
	}
	n := an.FuncName(f)
	for _, want := range names {
		if n == "errors."+want || n == "app/errors."+want {
			return true
		}
	}
	return false
}

func c19SentinelKey(v ssa.Value) string {
	v = an.Unwrap(v)
	if ld, ok := v.(*ssa.UnOp); ok && ld.Op == token.MUL {
		if g, ok := ld.X.(*ssa.Global); ok {
			return g.String()
		}
	}
	if an.IsNilConst(v) {
		return ""
	}
	return v.String()
}

// c19ClassTests collects the class tests made on values derived from parameter `idx` of fn (following
// errors.Unwrap, phis, local variables and in-package callees).
func c19ClassTests(fn *ssa.Function, idx int, depth int, seen map[*ssa.Function]bool, tree, link *[]c19ClassTest) {
	if depth > 3 || seen[fn] || idx >= len(fn.Params) {
		return
	}
	seen[fn] = true
	derived := map[ssa.Value]bool{fn.Params[idx]: true}
	cells := map[ssa.Value]bool{}
	instrs := an.Instrs(fn, true)
	isD := func(v ssa.Value) bool {
		if derived[v] || derived[an.Unwrap(v)] {
			return true
		}
		return false
	}
	for changed, round := true, 0; changed && round < 10; round++ {
		changed = false
		mark := func(v ssa.Value) {
			if !derived[v] {
				derived[v], changed = true, true
			}
		}
		for _, in := range instrs {
			switch x := in.(type) {
			case *ssa.Phi:
				for _, e := range x.Edges {
					if isD(e) {
						mark(x)
					}
				}
			case *ssa.Store:
				if isD(x.Val) {
					cell := c19Cell(x.Addr)
					if !cells[cell] {
						cells[cell], changed = true, true
					}
				}
			case *ssa.UnOp:
				if x.Op == token.MUL && cells[c19Cell(x.X)] {
					mark(x)
				}
			case *ssa.Call:
				if c19ErrFn(x, "Unwrap") && len(x.Call.Args) == 1 && isD(x.Call.Args[0]) {
					mark(x)
				}
			case *ssa.MakeInterface:
				if isD(x.X) {
					mark(x)
				}
			case *ssa.ChangeInterface:
				if isD(x.X) {
					mark(x)
				}
			}
		}
	}
	for _, in := range instrs {
		switch x := in.(type) {
		case *ssa.TypeAssert:
			if !isD(x.X) {
				continue
			}
			if it, ok := x.AssertedType.Underlying().(*types.Interface); ok {
				descends := false
				for i := 0; i < it.NumMethods(); i++ {
					if it.Method(i).Name() == "Unwrap" {
						descends = true
					}
				}
				if descends {
					continue // a manual descent of the tree, not a class test
				}
			}
			*link = append(*link, c19ClassTest{typ: x.AssertedType, pos: posOf(x)})
		case *ssa.BinOp:
			if x.Op != token.EQL && x.Op != token.NEQ || !an.IsErrorType(x.X.Type()) {
				continue
			}
			for _, pr := range [][2]ssa.Value{{x.X, x.Y}, {x.Y, x.X}} {
				if isD(pr[0]) && !isD(pr[1]) {
					if k := c19SentinelKey(pr[1]); k != "" {
						*link = append(*link, c19ClassTest{sent: k, pos: posOf(x)})
					}
				}
			}
		case ssa.CallInstruction:
			cc := x.Common()
			switch {
			case c19ErrFn(x, "As") && len(cc.Args) == 2 && isD(cc.Args[0]):
				if p, ok := an.Unwrap(cc.Args[1]).Type().Underlying().(*types.Pointer); ok {
					*tree = append(*tree, c19ClassTest{typ: p.Elem(), pos: x.Pos()})
				}
			case c19ErrFn(x, "AsType") && len(cc.Args) == 1 && isD(cc.Args[0]):
				if res := cc.Signature().Results(); res.Len() > 0 {
					*tree = append(*tree, c19ClassTest{typ: res.At(0).Type(), pos: x.Pos()})
				}
			case c19ErrFn(x, "Is") && len(cc.Args) == 2 && isD(cc.Args[0]):
				*tree = append(*tree, c19ClassTest{sent: c19SentinelKey(cc.Args[1]), pos: x.Pos()})
			default:
				g := an.Orig(cc.StaticCallee())
				if cc.IsInvoke() || g == nil || g.Pkg != fn.Pkg || len(g.Blocks) == 0 {
					continue
				}
				for i, a := range cc.Args {
					if isD(a) {
						c19ClassTests(g, i, depth+1, seen, tree, link)
					}
				}
			}
		}
	}
}

func c19Y6(c *rt.Ctx) {
	for _, name := range c19Classifiers {
		fn := c.Fn(name)
		short := name[strings.LastIndex(name, ".")+1:]
		if len(fn.Params) != 1 || !an.IsErrorType(fn.Params[0].Type()) {
			c.Bail("%s is not func(error) bool", short)
		}
		var tree, link []c19ClassTest
		c19ClassTests(fn, 0, 0, map[*ssa.Function]bool{}, &tree, &link)
		bad := false
		for _, l := range link {
			covered := false
			for _, t := range tree {
				if l.typ != nil && t.typ != nil && types.Identical(l.typ, t.typ) {
					covered = true
				}
				if l.typ == nil && t.typ == nil && l.sent == t.sent {
					covered = true
				}
			}
			if covered {
				continue
			}
			bad = true
			what := "the sentinel " + l.sent + " is compared with one link of the error chain only (no errors.Is for it)"
			if l.typ != nil {
				what = "the error class " + an.Short(types.TypeString(l.typ, nil)) + " is tested by a type assertion on one link of the error chain only (no errors.As for it)"
			}
			c.Bad(short+" tests error classes on the whole error tree", l.pos, what+
				": errors nested under a multi-error (errors.Join / Unwrap() []error, as go-eth2-client reports non-2xx answers) are not classified as unavailability and the fallback nodes are not consulted")
		}
		if !bad {
			c.Good(short+" tests error classes on the whole error tree", fn.Pos(), "")
		}
	}
}
