package rules

// Path view for the C11 rules: the paths explored by an.Tracer (which steps into in-package helpers,
// closures and deferred calls) are re-read as *provenance terms* (c11X): the result of a call is the
// term call(callee; args), a map read is lookup(map, key), an element of a ranged collection is
// elem(coll, index) / rkey / rval of one individual iteration, a branch decision is a fact (term, truth).
// Rules are predicates over the ordered events and facts of every path, so they do not depend on how the
// code is cut into blocks, helpers, closures, named booleans or hoisted locals.

import (
	"fmt"
	"go/token"
	"go/types"
	"os"
	"strconv"
	"strings"

	"golang.org/x/tools/go/ssa"

	"charonverif/internal/an"
)

type c11Fact struct {
	at    int // event index of the branch
	x     *c11X
	truth bool
	base  *an.Sym
}

type c11Path struct {
	p      *an.Path
	evOf   map[int]int        // opaque ID -> event producing it
	loads  map[string]*an.Sym // cell -> symbol of the (first) load of the unwritten cell
	stores map[string][]int   // cell -> store events
	memo   map[*an.Sym]*c11X
	facts  []c11Fact
	depth  int
}

func c11NewPath(p *an.Path) *c11Path {
	q := &c11Path{p: p, evOf: map[int]int{}, loads: map[string]*an.Sym{}, stores: map[string][]int{}, memo: map[*an.Sym]*c11X{}}
	for i, e := range p.Evs {
		if e.Res != nil && e.Res.Kind == an.KOpaque && e.Res.ID > 0 {
			switch e.Kind {
			case "call", "lookup", "builtin", "range", "next", "recv", "go":
				if _, dup := q.evOf[e.Res.ID]; !dup {
					q.evOf[e.Res.ID] = i
				}
			}
		}
		switch e.Kind {
		case "load":
			if e.Res != nil && e.Res.Kind == an.KInit && len(e.Res.Args) == 1 {
				if _, dup := q.loads[e.Res.Cell]; !dup {
					q.loads[e.Res.Cell] = e.Res
				}
			}
		case "store":
			if len(e.Args) == 2 && e.Args[0] != nil && e.Args[0].Kind == an.KAddr {
				q.stores[e.Args[0].Cell] = append(q.stores[e.Args[0].Cell], i)
			}
		}
	}
	for i, e := range p.Evs {
		if e.Kind == "branch" && len(e.Args) == 1 {
			q.facts = append(q.facts, c11Fact{at: i, x: q.tm(e.Args[0]), truth: e.Taken, base: e.Args[0]})
		}
	}
	return q
}

func c11mk(op, name string, v ssa.Value, args ...*c11X) *c11X {
	return &c11X{Op: op, Name: name, Args: args, V: v}
}

// symType is the static type of a symbol where it can be told (nil otherwise).
func (q *c11Path) symType(s *an.Sym, d int) types.Type {
	if s == nil || d > 12 {
		return nil
	}
	switch s.Kind {
	case an.KConst:
		return s.T
	case an.KOpaque, an.KParam, an.KFresh:
		if s.V != nil {
			return s.V.Type()
		}
	case an.KExtract:
		if t, ok := q.symType(s.Args[0], d+1).(*types.Tuple); ok && s.Index < t.Len() {
			return t.At(s.Index).Type()
		}
	case an.KInit:
		if len(s.Args) == 1 {
			if s.V != nil {
				return s.V.Type()
			}
			return nil
		}
		if par, idx, ok := q.parentOf(s); ok {
			return structFieldType(q.symType(par, d+1), idx)
		}
	case an.KField:
		return structFieldType(q.symType(s.Args[0], d+1), s.Index)
	case an.KStruct:
		if len(s.Args) == 1 && s.Args[0] != nil {
			return q.symType(s.Args[0], d+1)
		}
	case an.KAddr:
		if s.V != nil {
			return s.V.Type()
		}
	case an.KPure:
		switch {
		case s.Name == "index" && len(s.Args) == 2:
			switch t := typeUnder(q.symType(s.Args[0], d+1)).(type) {
			case *types.Slice:
				return t.Elem()
			case *types.Array:
				return t.Elem()
			}
		}
	}
	return nil
}

func typeUnder(t types.Type) types.Type {
	if t == nil {
		return nil
	}
	return t.Underlying()
}

func structFieldType(t types.Type, idx int) types.Type {
	if t == nil {
		return nil
	}
	if p, ok := t.Underlying().(*types.Pointer); ok {
		t = p.Elem()
	}
	st, ok := t.Underlying().(*types.Struct)
	if !ok || idx < 0 || idx >= st.NumFields() {
		return nil
	}
	return st.Field(idx).Type()
}

// parentOf splits a field-of-unwritten-content symbol (made by selecting a field of a loaded struct value)
// into the loaded struct value and the field index.
func (q *c11Path) parentOf(s *an.Sym) (*an.Sym, int, bool) {
	i := strings.LastIndex(s.Cell, ".#")
	if i < 0 {
		return nil, 0, false
	}
	idx, err := strconv.Atoi(s.Cell[i+2:])
	if err != nil {
		return nil, 0, false
	}
	par, ok := q.loads[s.Cell[:i]]
	if !ok {
		// a field of a field of a loaded value
		par = &an.Sym{Kind: an.KInit, Cell: s.Cell[:i], ID: s.ID, V: s.V}
		if strings.LastIndex(par.Cell, ".#") < 0 {
			return nil, 0, false
		}
	}
	return par, idx, true
}

func (q *c11Path) fieldKey(parent *an.Sym, idx int, given string) string {
	if given != "" {
		return given
	}
	if t := q.symType(parent, 0); t != nil {
		if k := an.FieldKey(t, idx); k != "?" {
			return k
		}
	}
	return "#" + strconv.Itoa(idx)
}

// tm is the provenance term of a symbol.
func (q *c11Path) tm(s *an.Sym) *c11X {
	if s == nil {
		return c11mk("none", "", nil)
	}
	if x, ok := q.memo[s]; ok {
		return x
	}
	x := q.tm0(s)
	if x.T == nil {
		x.T = q.symType(s, 0)
	}
	q.memo[s] = x
	return x
}

func (q *c11Path) tms(ss []*an.Sym) []*c11X {
	out := make([]*c11X, len(ss))
	for i, s := range ss {
		out[i] = q.tm(s)
	}
	return out
}

func (q *c11Path) tm0(s *an.Sym) *c11X {
	switch s.Kind {
	case an.KConst:
		if s.C == nil {
			return c11mk("const", "nil", nil)
		}
		return c11mk("const", s.C.ExactString(), nil)
	case an.KParam:
		return c11mk("param", s.V.Name(), s.V)
	case an.KOpaque:
		if s.ID > 0 {
			if i, ok := q.evOf[s.ID]; ok {
				e := q.p.Evs[i]
				switch e.Kind {
				case "call":
					if e.Name != "" {
						return c11mk("call", e.Name, nil, q.tms(e.Args)...)
					}
				case "lookup":
					op := "lookup"
					if lk, isLk := e.In.(*ssa.Lookup); isLk && lk.CommaOk {
						op = "lookup2"
					}
					return c11mk(op, "", nil, q.tm(e.Args[0]), q.tm(e.Args[1]))
				case "builtin":
					if e.Name == "len" || e.Name == "cap" {
						return c11mk(e.Name, "", nil, q.tms(e.Args)...)
					}
				case "range":
					return c11mk("range", "#"+strconv.Itoa(s.ID), nil, q.tm(e.Args[0]))
				case "next":
					var coll *c11X
					if r := q.tm(e.Args[0]); r.Op == "range" && len(r.Args) == 1 {
						coll = r.Args[0]
					} else {
						coll = r
					}
					return c11mk("next", "#"+strconv.Itoa(s.ID), nil, coll)
				}
			}
		}
		return c11mk("opaque", s.Key(), nil)
	case an.KExtract:
		in := q.tm(s.Args[0])
		switch in.Op {
		case "next":
			switch s.Index {
			case 0:
				return c11mk("nextok", in.Name, nil, in.Args...)
			case 1:
				return c11mk("rkey", in.Name, nil, in.Args...)
			case 2:
				return c11mk("rval", in.Name, nil, in.Args...)
			}
		case "lookup2":
			if s.Index == 0 {
				return c11mk("lookup", "", nil, in.Args...)
			}
			return c11mk("lookupok", "", nil, in.Args...)
		case "assert":
			if s.Index == 0 {
				return in
			}
			return c11mk("assertok", in.Name, nil, in.Args...)
		}
		return c11mk("extract", strconv.Itoa(s.Index), nil, in)
	case an.KInit:
		if len(s.Args) == 1 {
			// the content the cell had before anything was written to it on the path: named structurally, never
			// through a store made (later) on the path
			return q.content0(s.Args[0], false)
		}
		if par, idx, ok := q.parentOf(s); ok {
			return c11FieldTerm(q.tm(par), idx, q.fieldKey(par, idx, s.Field))
		}
		return c11mk("opaque", s.Key(), nil)
	case an.KField:
		return c11FieldTerm(q.tm(s.Args[0]), s.Index, q.fieldKey(s.Args[0], s.Index, ""))
	case an.KAddr:
		return c11mk("ptrto", "", nil, q.content(s))
	case an.KStruct:
		x := c11mk("struct", "", nil)
		var base *an.Sym
		if len(s.Args) == 1 {
			base = s.Args[0]
		}
		idx := make([]int, 0, len(s.Fields))
		for i := range s.Fields {
			idx = append(idx, i)
		}
		for i := 0; i < len(idx); i++ {
			for j := i + 1; j < len(idx); j++ {
				if idx[j] < idx[i] {
					idx[i], idx[j] = idx[j], idx[i]
				}
			}
		}
		for _, i := range idx {
			x.Args = append(x.Args, c11mk("fld", "#"+strconv.Itoa(i), nil, q.tm(s.Fields[i])))
		}
		if base != nil {
			x.Args = append(x.Args, c11mk("base", "", nil, q.tm(base)))
		}
		return x
	case an.KAppend:
		return c11mk("append", "", nil, q.tms(s.Args)...)
	case an.KFresh:
		return c11mk("make", "#"+strconv.Itoa(s.ID), s.V)
	case an.KPure:
		switch {
		case s.Name == "index" && len(s.Args) == 2:
			return c11mk("elem", "", nil, q.tm(s.Args[0]), q.tm(s.Args[1]))
		case s.Name == "slice" && len(s.Args) == 3:
			if s.Args[1] != nil || s.Args[2] != nil {
				return c11mk("subslice", "", nil, q.tms(s.Args)...)
			}
			if s.Args[0] != nil && s.Args[0].Kind == an.KAddr {
				return c11mk("slice", "", nil, q.content(s.Args[0]))
			}
			return c11mk("slice", "", nil, q.tm(s.Args[0]))
		case strings.HasPrefix(s.Name, "assert:") && len(s.Args) == 1:
			return c11mk("assert", strings.TrimPrefix(s.Name, "assert:"), nil, q.tm(s.Args[0]))
		}
		return c11mk("pure", s.Name, nil, q.tms(s.Args)...)
	case an.KBin:
		return c11mk("binop", s.Op.String(), nil, q.tm(s.Args[0]), q.tm(s.Args[1]))
	case an.KNot:
		return c11mk("unop", "!", nil, q.tm(s.Args[0]))
	case an.KTuple:
		return c11mk("tuple", "", nil, q.tms(s.Args)...)
	case an.KClosure, an.KFunc:
		if s.Fn != nil {
			return c11mk("func", an.FuncName(s.Fn), nil)
		}
		return c11mk("func", s.Key(), nil)
	}
	return c11mk("opaque", s.Key(), nil)
}

// c11FieldTerm selects field idx (named key) of a struct-valued term; a field of a struct value built on the path is
// the value it was built with.
func c11FieldTerm(parent *c11X, idx int, key string) *c11X {
	if parent != nil && parent.Op == "struct" {
		want := "#" + strconv.Itoa(idx)
		for _, a := range parent.Args {
			if a.Op == "fld" && a.Name == want && len(a.Args) == 1 {
				return a.Args[0]
			}
		}
		for _, a := range parent.Args {
			if a.Op == "base" && len(a.Args) == 1 {
				return c11FieldTerm(a.Args[0], idx, key)
			}
		}
		return c11mk("zero", key, nil)
	}
	return c11mk("field", key, nil, parent)
}

// pointee is the value a pointer-typed symbol points to (address computation or pointer value; the
// dereference of a pointer value is transparent, as in c11B.ptr).
func (q *c11Path) pointee(p *an.Sym) *c11X { return q.pointee0(p, true) }

func (q *c11Path) pointee0(p *an.Sym, useStores bool) *c11X {
	if p == nil {
		return c11mk("none", "", nil)
	}
	if p.Kind == an.KAddr {
		return q.content0(p, useStores)
	}
	return q.tm(p)
}

// content is the term of what is stored at address a: the stored value for a path-local variable written
// exactly once on the path, the structural name of the cell otherwise.
func (q *c11Path) content(a *an.Sym) *c11X { return q.content0(a, true) }

func (q *c11Path) content0(a *an.Sym, useStores bool) *c11X {
	if a == nil {
		return c11mk("none", "", nil)
	}
	if a.Kind != an.KAddr {
		return c11mk("deref", "", nil, q.tm(a))
	}
	q.depth++
	defer func() { q.depth-- }()
	if q.depth > 60 {
		return c11mk("var", a.Cell, nil)
	}
	if useStores {
		if st := q.stores[a.Cell]; len(st) == 1 {
			return q.tm(q.p.Evs[st[0]].Args[1])
		} else if len(st) > 1 {
			return c11mk("var", a.Cell, nil)
		}
	}
	switch v := a.V.(type) {
	case *ssa.FieldAddr:
		if len(a.Args) == 1 {
			return c11mk("field", an.FieldKey(v.X.Type(), v.Field), nil, q.pointee0(a.Args[0], useStores))
		}
	case *ssa.Alloc:
		// a variable of a lexical ancestor (captured) or a path-local variable never written: a container made
		// once and kept in it is named by the variable
		if sts := an.AllStores(v); len(sts) == 1 {
			switch mk := sts[0].Val.(type) {
			case *ssa.MakeMap, *ssa.MakeChan, *ssa.MakeSlice:
				return c11mk("make", "var:"+a.Cell, mk.(ssa.Value))
			}
		}
		return c11mk("var", a.Cell, v)
	case *ssa.Global:
		return c11mk("global", an.Short(v.String()), nil)
	}
	if len(a.Args) == 2 && a.V == nil {
		// element j of a slice of a path-local array (`[]T{a, b}`) is what was stored into the array's j-th cell
		if sl := a.Args[0]; sl != nil && sl.Kind == an.KPure && sl.Name == "slice" && len(sl.Args) == 3 &&
			sl.Args[0] != nil && sl.Args[0].Kind == an.KAddr && sl.Args[1] == nil {
			if _, isC := a.Args[1].IsConstInt(); isC {
				if st := q.stores[sl.Args[0].Cell+"["+a.Args[1].Key()+"]"]; len(st) == 1 {
					return q.tm(q.p.Evs[st[0]].Args[1])
				}
			}
		}
		// element j of a slice grown by append on the path (from nothing) is the j-th appended value
		if sl := a.Args[0]; sl != nil && sl.Kind == an.KAppend {
			if j, isC := a.Args[1].IsConstInt(); isC {
				base, elems, spread := an.AppendElems(sl)
				if !spread && (base == nil || base.IsNil()) && j >= 0 && int(j) < len(elems) {
					return q.tm(elems[j])
				}
			}
		}
		return c11mk("elem", "", nil, q.pointee0(a.Args[0], useStores), q.tm(a.Args[1]))
	}
	return c11mk("var", a.Cell, nil)
}

// truthOf returns the decided truth of the latest fact before event `before` whose term satisfies m.
func (q *c11Path) truthOf(before int, m func(x *c11X) bool) (truth, known bool) {
	for _, f := range q.facts {
		if f.at >= before {
			break
		}
		if m(f.x) {
			truth, known = f.truth, true
		}
	}
	return
}

// c11Resolved: the term contains no part the walker could not name.
func c11Resolved(x *c11X) bool {
	if x == nil {
		return false
	}
	switch x.Op {
	case "opaque", "var", "deref", "pure":
		return false
	}
	for _, a := range x.Args {
		if !c11Resolved(a) {
			return false
		}
	}
	return true
}

// c11Differ: the two terms are different AND the difference is between parts the walker named completely (constants,
// parameters, fields, elements, map reads, iteration variables, calls of different functions), so that they denote
// different values; false when they are the same or when a differing part is something the walker could not see through.
func c11Differ(a, b *c11X) bool {
	if a == nil || b == nil || c11Same(a, b) {
		return false
	}
	vague := func(x *c11X) bool {
		switch x.Op {
		case "opaque", "var", "deref", "pure", "none", "ptrto":
			return true
		case "call":
			return x.Name == ""
		}
		return false
	}
	if vague(a) || vague(b) {
		return false
	}
	if a.Op != b.Op {
		return a.Op != "call" && b.Op != "call"
	}
	if a.Name != b.Name || len(a.Args) != len(b.Args) {
		return true
	}
	for i := range a.Args {
		if c11Differ(a.Args[i], b.Args[i]) {
			return true
		}
	}
	return false
}

// ---------------------------------------------------------------------------------------------
// Feasibility: a branch that assumes a freshly constructed error to be nil cannot be taken.

// c11NeverNil: every result the function returns at index i is a non-nil interface by construction
// (a concrete value boxed into the interface, or the result of such a function).
func c11NeverNil(fn *ssa.Function, i int, d int) bool {
	if fn == nil || len(fn.Blocks) == 0 || d > 4 {
		return false
	}
	rets := an.Returns(fn)
	if len(rets) == 0 {
		return false
	}
	for _, r := range rets {
		if i >= len(r.Results) {
			return false
		}
		switch v := r.Results[i].(type) {
		case *ssa.MakeInterface:
			if _, isPtr := v.X.Type().Underlying().(*types.Pointer); isPtr {
				if _, isAlloc := v.X.(*ssa.Alloc); !isAlloc {
					return false
				}
			}
		case *ssa.Call:
			if v.Call.IsInvoke() || !c11NeverNil(v.Call.StaticCallee(), 0, d+1) || v.Call.Signature().Results().Len() != 1 {
				return false
			}
		default:
			return false
		}
	}
	return true
}

// c11KnownLen: the length of a slice value that is nil or was grown from nil by non-spreading appends.
func c11KnownLen(s *an.Sym) (int64, bool) {
	if s == nil {
		return 0, false
	}
	if s.IsNil() {
		return 0, true
	}
	if s.Kind == an.KPure && s.Name == "slice" && len(s.Args) == 3 && s.Args[0] != nil && s.Args[1] == nil && s.Args[2] == nil && s.Args[0].Kind == an.KAddr {
		// the full slice of an array variable (`[]T{a, b}`)
		if al, ok := s.Args[0].V.(*ssa.Alloc); ok {
			if p, ok := al.Type().Underlying().(*types.Pointer); ok {
				if arr, ok := p.Elem().Underlying().(*types.Array); ok {
					return arr.Len(), true
				}
			}
		}
	}
	if s.Kind == an.KAppend && !s.Spread && len(s.Args) >= 1 {
		if n, ok := c11KnownLen(s.Args[0]); ok {
			return n + int64(len(s.Args)-1), true
		}
	}
	return 0, false
}

// infeasible reports a path that took the `== nil` edge on a value that is never nil.
func (q *c11Path) infeasible() bool {
	for _, f := range q.facts {
		b := f.base
		// k < len(s) for a slice whose length the path determines (nil, or grown from nil by append on the path)
		if b.Kind == an.KBin && b.Op == token.LSS && len(b.Args) == 2 {
			if k, isC := b.Args[0].IsConstInt(); isC {
				if l := b.Args[1]; l.Kind == an.KOpaque && l.Name == "len" && len(l.Args) == 1 {
					if n, known := c11KnownLen(l.Args[0]); known && (k < n) != f.truth {
						return true
					}
				}
			}
		}
		if b.Kind != an.KBin || b.Op != token.EQL || len(b.Args) != 2 || !f.truth {
			continue
		}
		v := b.Args[0]
		if v.IsNil() {
			v = b.Args[1]
		} else if !b.Args[1].IsNil() {
			continue
		}
		idx := 0
		if v.Kind == an.KExtract {
			idx, v = v.Index, v.Args[0]
		}
		if v.Kind != an.KOpaque || v.ID == 0 {
			continue
		}
		i, ok := q.evOf[v.ID]
		if !ok || q.p.Evs[i].Kind != "call" {
			continue
		}
		if c11NeverNil(q.p.Evs[i].Callee, idx, 0) {
			return true
		}
	}
	return false
}

// c11Trace explores fn and returns the feasible paths.
func c11Trace(tr *an.H11Tracer) (paths []*c11Path, res *an.TraceResult) {
	if tr.NeverNil == nil {
		memo := map[[2]any]bool{}
		tr.NeverNil = func(fn *ssa.Function, idx int) bool {
			k := [2]any{fn, idx}
			if v, ok := memo[k]; ok {
				return v
			}
			v := c11NeverNil(fn, idx, 0)
			memo[k] = v
			return v
		}
	}
	if tr.Inline == nil {
		root := tr.Root
		tr.Inline = func(f *ssa.Function) bool {
			// instances of generic functions belong to no package: judge them by their generic origin
			return f.Parent() != nil || (an.Orig(f).Pkg != nil && an.Orig(f).Pkg == an.Orig(root).Pkg) || (root.Parent() != nil && an.Orig(f).Pkg == c11TopPkg(root))
		}
	}
	if tr.MaxBlockVisits == 0 && tr.MaxVisits > 0 {
		tr.MaxBlockVisits = tr.MaxVisits + 1
	}
	res = tr.Run()
	h1617Dump("C11 "+an.FuncName(tr.Root), res)
	if c11Debug {
		fmt.Printf("C11 trace %s: %d paths truncated=%v pruned=%d\n", an.FuncName(tr.Root), len(res.Paths), res.Truncated, res.Pruned)
	}
	for pi, p := range res.Paths {
		q := c11NewPath(p)
		if c11Debug && os.Getenv("C11_DEBUG") == "paths" && pi%97 == 0 {
			fmt.Printf(" path %d end=%s infeasible=%v\n", pi, p.End, q.infeasible())
			for _, f := range q.facts {
				fmt.Printf("    %v %s\n", f.truth, f.base.Key())
			}
		}
		if q.infeasible() {
			continue
		}
		paths = append(paths, q)
	}
	return paths, res
}

// c11Reaches computes the in-package functions (and function literals) from which an instruction satisfying
// pred can be reached through static calls and closure creation; used to step only into the helpers that
// matter for a rule.
func c11Reaches(pkg *ssa.Package, pred func(ssa.Instruction) bool) map[*ssa.Function]bool {
	funcs := an.PkgFuncs(pkg)
	out := map[*ssa.Function]bool{}
	for _, f := range funcs {
		for _, in := range an.Instrs(f, false) {
			if pred(in) {
				out[f] = true
				break
			}
		}
	}
	for changed := true; changed; {
		changed = false
		for _, f := range funcs {
			if out[f] {
				continue
			}
			for _, in := range an.Instrs(f, false) {
				hit := false
				switch x := in.(type) {
				case ssa.CallInstruction:
					if g := x.Common().StaticCallee(); g != nil && out[g] {
						hit = true
					}
				}
				if mc, ok := in.(*ssa.MakeClosure); ok && out[mc.Fn.(*ssa.Function)] {
					hit = true
				}
				if hit {
					out[f] = true
					changed = true
					break
				}
			}
		}
	}
	return out
}

func c11EvPos(e an.Ev) token.Pos {
	if e.In != nil {
		return posOf(e.In)
	}
	return token.NoPos
}

var _ = fmt.Sprint

// c11TopPkg is the package of the outermost enclosing function of fn.
func c11TopPkg(fn *ssa.Function) *ssa.Package {
	for fn.Parent() != nil {
		fn = fn.Parent()
	}
	return an.Orig(fn).Pkg
}
