package rules

import (
	"go/types"
	"strings"

	"golang.org/x/tools/go/ssa"

	"charonverif/internal/an"
	"charonverif/internal/rt"
)

// N7 (round 5): every answer of Add comes from the run goroutine.
//
// The duty set is owned by the single run goroutine; Add can only know whether a duty is pending, expired or
// exempt by asking it. Path by path through Add (in-package helpers followed): a returned status is either the
// value received on the reply channel Add made itself and handed to the run goroutine on inputChan, or it is
// returned after a receive from the channel the run goroutine closes when it ends. A path that returns a status
// without either receive answers from state kept outside the actor (a mirror set, a cache, a counter): such a copy
// is positively not the duty set (entries of dropped reports, expiries and refusals are decided in run only), so a
// duty registered after its deadline can be answered Scheduled although it will never be reported.

// c16AddMethods returns the non-actor methods of core.deadliner that take a duty and return a DeadlineStatus.
func c16AddMethods(c *rt.Ctx, pkgFuncs []*ssa.Function, actor map[*ssa.Function]bool) []*ssa.Function {
	var out []*ssa.Function
	for _, fn := range pkgFuncs {
		if fn.Parent() != nil || actor[fn] || fn.Signature.Recv() == nil || len(fn.Blocks) == 0 {
			continue
		}
		if !strings.HasSuffix(an.TypeName(fn.Signature.Recv().Type()), dlnr) {
			continue
		}
		sig := fn.Signature
		if sig.Params().Len() != 1 || sig.Results().Len() != 1 {
			continue
		}
		if an.TypeName(sig.Params().At(0).Type()) != "core.Duty" || an.TypeName(sig.Results().At(0).Type()) != "core.DeadlineStatus" {
			continue
		}
		// the method that implements Deadliner.Add: exported, or the only candidate
		out = append(out, fn)
	}
	if len(out) > 1 {
		var exp []*ssa.Function
		for _, fn := range out {
			if fn.Object() != nil && fn.Object().Exported() {
				exp = append(exp, fn)
			}
		}
		if len(exp) > 0 {
			out = exp
		}
	}
	return out
}

// c16ClosedByActor lists the fields of the deadliner the run goroutine closes (its termination signal).
func c16ClosedByActor(actorFns []*ssa.Function, pkgFuncs []*ssa.Function, actor map[*ssa.Function]bool) map[string]bool {
	closed := map[string]bool{}
	for _, fn := range pkgFuncs {
		top := fn
		for top.Parent() != nil {
			top = top.Parent()
		}
		if !actor[fn] && !actor[top] {
			continue
		}
		for _, in := range an.Instrs(fn, false) {
			var cc *ssa.CallCommon
			switch x := in.(type) {
			case *ssa.Call:
				cc = &x.Call
			case *ssa.Defer:
				cc = &x.Call
			}
			if cc == nil {
				continue
			}
			if b, ok := cc.Value.(*ssa.Builtin); ok && b.Name() == "close" && len(cc.Args) == 1 {
				if k, _, ok := an.FieldOf(an.Resolve(cc.Args[0])); ok {
					closed[k] = true
				}
			}
		}
	}
	return closed
}

// symMentions reports whether the symbol tree of s contains x.
func c16SymMentions(s, x *an.Sym, d int) bool {
	if s == nil || d > 8 {
		return false
	}
	if an.SymEq(s, x) {
		return true
	}
	for _, a := range s.Args {
		if c16SymMentions(a, x, d+1) {
			return true
		}
	}
	for _, f := range s.Fields {
		if c16SymMentions(f, x, d+1) {
			return true
		}
	}
	return false
}

func c16AddAnswers(c *rt.Ctx, pkgFuncs, actorFns []*ssa.Function, actor map[*ssa.Function]bool) {
	adds := c16AddMethods(c, pkgFuncs, actor)
	if len(adds) == 0 {
		c.Bail("no method of core.deadliner taking a Duty and returning a DeadlineStatus found (Add)")
	}
	closed := c16ClosedByActor(actorFns, pkgFuncs, actor)
	inputKey := dlnr + ".inputChan"
	for _, add := range adds {
		local := func(fn *ssa.Function) bool {
			if fn.Pkg == add.Pkg || fn.Parent() != nil {
				return true
			}
			o := fn.Origin() // instance of a generic function of the package
			return o != nil && o.Pkg == add.Pkg
		}
		tr := &an.Tracer{Root: add, Inline: local}
		res := tr.Run()
		h1617Dump("C16 Add", res)
		if res.Truncated || len(res.Paths) == 0 {
			c.Bail("%s: path enumeration failed", an.FuncName(add))
		}
		agg := newAgg(c)
		what := an.FuncName(add) + " answers with the run goroutine's reply"
		nRet := 0
		for _, p := range res.Paths {
			if p.End != "return" || len(p.Results) != 1 {
				continue
			}
			nRet++
			result := p.Results[0]
			// the receives of the path: replies (from a channel made on this path that was handed over on inputChan),
			// termination (from a channel field the run goroutine closes), others
			var handed []*an.Sym // payloads sent on inputChan
			var replies []*an.Sym
			quit, other := false, false
			last := posOf(add.Blocks[0].Instrs[0])
			note := func(ch, recv *an.Sym) {
				switch {
				case ch.Kind == an.KFresh:
					for _, h := range handed {
						if c16SymMentions(h, ch, 0) {
							replies = append(replies, recv)
							return
						}
					}
					other = true
				case closed[ch.FieldName()]:
					quit = true
				default:
					other = true
				}
			}
			for _, e := range p.Evs {
				switch e.Kind {
				case "send":
					if e.Args[0].FieldName() == inputKey {
						handed = append(handed, e.Args[1])
					}
				case "recv":
					if len(e.Args) > 0 && e.Res != nil {
						note(e.Args[0], e.Res)
					}
				case "select":
					if e.Chosen < 0 {
						continue
					}
					st := e.States[e.Chosen]
					if st.Dir == types.SendOnly && st.Chan.FieldName() == inputKey {
						handed = append(handed, st.Send)
					}
					if st.Dir == types.RecvOnly {
						note(st.Chan, st.Recv)
					}
				}
				if e.Kind == "branch" || e.Kind == "call" || e.Kind == "select" {
					last = posOf(e.In)
				}
			}
			isReply := false
			for _, r := range replies {
				// the received value, or the first component of a (value, ok) receive
				if an.SymEq(result, r) || (result.Kind == an.KExtract && len(result.Args) == 1 && an.SymEq(result.Args[0], r)) {
					isReply = true
				}
			}
			switch {
			case isReply:
				agg.ok(what, add.Pos())
			case quit:
				agg.ok(what, add.Pos()) // the run goroutine has ended: nothing is scheduled any more
			case len(replies) > 0:
				if _, isConst := result.IsConstInt(); isConst {
					agg.unsure(what, last, "a path of Add receives the run goroutine's reply but returns a constant status")
				} else {
					agg.unsure(what, last, "a path of Add receives the run goroutine's reply but returns another value ("+result.Key()+")")
				}
			case other || unresolvedLocalCall(p.Evs, 0) || c16NotFollowed(p.Evs, local):
				agg.unsure(what, last, "a path of Add returns after a receive or call that cannot be attributed to the run goroutine")
			default:
				detail := "a path of Add returns a status ("
				if v, isConst := result.IsConstInt(); isConst {
					detail += c16StatusName(c, v)
				} else {
					detail += result.Key()
				}
				detail += ") without having received the run goroutine's reply or its termination signal: the answer comes from state kept outside the goroutine that owns the duty set"
				if f := c16ConsultedState(p, inputKey, closed); f != "" {
					detail += " (consulted: " + f + ")"
				}
				detail += ", which is not the duty set (refusals, expiries and dropped reports are decided in run only), so a registration after the deadline can be answered as scheduled and is never reported"
				agg.bad(what, last, detail)
			}
		}
		if nRet == 0 {
			c.Bail("%s: no returning path found", an.FuncName(add))
		}
		agg.flush()
	}
}

func c16StatusName(c *rt.Ctx, v int64) string {
	for _, n := range []string{"DeadlineScheduled", "DeadlineExpired", "DeadlineExempt"} {
		if obj := c.Pkg("core").Types.Scope().Lookup(n); obj != nil {
			if constOf(c, "core", n) == v {
				return n
			}
		}
	}
	return itoa(int(v))
}

// c16ConsultedState names the first field of the deadliner (other than its channels) a path reads or calls a
// method on.
func c16ConsultedState(p *an.Path, inputKey string, closed map[string]bool) string {
	var scan func(s *an.Sym, d int) string
	scan = func(s *an.Sym, d int) string {
		if s == nil || d > 6 {
			return ""
		}
		if f := s.FieldName(); strings.HasPrefix(f, dlnr+".") && f != inputKey && !closed[f] {
			return f
		}
		for _, a := range s.Args {
			if f := scan(a, d+1); f != "" {
				return f
			}
		}
		return ""
	}
	for _, e := range p.Evs {
		if e.Kind != "call" && e.Kind != "load" && e.Kind != "lookup" && e.Kind != "branch" {
			continue
		}
		for _, a := range e.Args {
			if f := scan(a, 0); f != "" {
				return f
			}
		}
	}
	return ""
}

// c16NotFollowed reports a call to a function of the package (or an instance of one of its generic functions) that
// the path enumeration did not step into.
func c16NotFollowed(evs []an.Ev, local func(*ssa.Function) bool) bool {
	for i, e := range evs {
		if e.Kind != "call" || e.Callee == nil || !local(e.Callee) {
			continue
		}
		if i+1 < len(evs) && evs[i+1].Kind == "enter" {
			continue
		}
		return true
	}
	return false
}
