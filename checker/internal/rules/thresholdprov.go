package rules

import (
	"go/token"
	"sort"
	"strings"

	"golang.org/x/tools/go/ssa"
	"golang.org/x/tools/go/ssa/ssautil"

	"charonverif/internal/an"
	"charonverif/internal/rt"
)

// TP — threshold provenance. The threshold handed to a threshold-scheme primitive (Shamir split, Pedersen DKG
// configuration, FROST participant) must be, by provenance, exactly the cluster's configured threshold: a
// parameter / `*Threshold` field reached through conversions only, or the documented default
// (`cluster.Threshold(n)` on the `configured <= 0` edge). Any arithmetic, clamping (max/min) or other call in
// between makes the key material follow a polynomial of another degree than the lock records: every node
// still succeeds and agrees, but threshold-sized share subsets no longer reconstruct the group key.

func init() {
	Extend("C11", "(TP) the threshold given to the Pedersen DKG configuration and to the FROST participants is the configured threshold by provenance (default only on the <=0 edge).",
		func(c *rt.Ctx) { thresholdProv(c, "C11") },
		Mutant{ID: "TP-C11-pedersen-clamp", File: "dkg/pedersen/dkg.go", Expect: "TP",
			Old: "\tif threshold <= 0 {\n\t\tthreshold = cluster.Threshold(len(nodes))\n",
			New: "\tif safe := cluster.Threshold(len(nodes)); threshold < safe {\n\t\tthreshold = safe\n"},
		Mutant{ID: "TP-C11-frost-plus-one", File: "dkg/frost.go", Expect: "TP",
			Old: "\t\t\tshareIdx,\n\t\t\tthreshold,\n\t\t\tdgkCtx,", New: "\t\t\tshareIdx,\n\t\t\tthreshold+1,\n\t\t\tdgkCtx,"},
		// the default replaces a configured value on another edge than `configured <= 0`
		Mutant{ID: "TP-C11-pedersen-default-below-two", File: "dkg/pedersen/dkg.go", Expect: "TP",
			Old: "\tif threshold <= 0 {\n\t\tthreshold = cluster.Threshold(len(nodes))\n",
			New: "\tif threshold <= 1 {\n\t\tthreshold = cluster.Threshold(len(nodes))\n"},
		// clamping hidden in a helper (the rule follows the helper's return values)
		Mutant{ID: "TP-C11-reshare-helper-clamp", File: "dkg/pedersen/reshare.go", Expect: "TP",
			Old: "\t\t\tThreshold:    newThreshold,",
			New: "\t\t\tThreshold: func(t, old int) int {\n\t\t\t\tif t < old {\n\t\t\t\t\treturn old\n\t\t\t\t}\n\n\t\t\t\treturn t\n\t\t\t}(newThreshold, config.Threshold+1),"},
		// the caller passes something that is not the configured threshold
		Mutant{ID: "TP-C11-frost-caller-numnodes", File: "dkg/frost.go", Expect: "TP",
			Old: "\tvalidators, err := newFrostParticipants(numValidators, numNodes, threshold, shareIdx, dgkCtx)",
			New: "\tvalidators, err := newFrostParticipants(numValidators, numNodes, numNodes-threshold+1, shareIdx, dgkCtx)"},
		// the default also replaces configured values below it
		Mutant{ID: "TP-C11-reshare-default-also-clamps", File: "dkg/pedersen/reshare.go", Expect: "TP",
			Old: "\tif newThreshold <= 0 {\n\t\tnewThreshold = cluster.Threshold(len(newNodes))\n",
			New: "\tif newThreshold <= 0 || newThreshold < cluster.Threshold(len(newNodes)) {\n\t\tnewThreshold = cluster.Threshold(len(newNodes))\n"})
	Extend("C12", "(TP) the threshold given to tbls.ThresholdSplit when creating a cluster is the configured threshold by provenance.",
		func(c *rt.Ctx) { thresholdProv(c, "C12") },
		Mutant{ID: "TP-C12-split-clamp", File: "cmd/createcluster.go", Expect: "TP",
			Old: "\t\tshares, err := tbls.ThresholdSplit(secret, uint(numNodes), uint(threshold))",
			New: "\t\tshares, err := tbls.ThresholdSplit(secret, uint(numNodes), uint(max(threshold, cluster.Threshold(numNodes))))"},
		// the caller hands the split something else than the definition's threshold
		Mutant{ID: "TP-C12-split-caller-safe-threshold", File: "cmd/createcluster.go", Expect: "TP",
			Old: "\tpubkeys, shareSets, err := getTSSShares(secrets, def.Threshold, numNodes)",
			New: "\tpubkeys, shareSets, err := getTSSShares(secrets, cluster.Threshold(numNodes), numNodes)"},
		// a wrapper that rounds the threshold up to an odd number
		Mutant{ID: "TP-C12-split-helper-rounds", File: "cmd/createcluster.go", Expect: "TP",
			Old: "\t\tshares, err := tbls.ThresholdSplit(secret, uint(numNodes), uint(threshold))",
			New: "\t\tshares, err := tbls.ThresholdSplit(secret, uint(numNodes), func(t int) uint { return uint(t | 1) }(threshold))"},
		// a local that is reassigned before the split
		Mutant{ID: "TP-C12-split-local-reassigned", File: "cmd/createcluster.go", Expect: "TP",
			Old: "\tfor _, secret := range secrets {\n\t\tshares, err := tbls.ThresholdSplit(secret, uint(numNodes), uint(threshold))",
			New: "\tif threshold < numNodes {\n\t\tthreshold++\n\t}\n\n\tfor _, secret := range secrets {\n\t\tshares, err := tbls.ThresholdSplit(secret, uint(numNodes), uint(threshold))"})
}

type tpSink struct {
	fn   *ssa.Function
	at   ssa.Instruction
	v    ssa.Value
	what string
}

// tri-state verdict of a provenance walk
type tpVerdict int

const (
	tpOK tpVerdict = iota
	tpBad
	tpUnsure
)

func thresholdProv(c *rt.Ctx, prop string) {
	min := map[string]int{"C11": 3, "C12": 1}[prop]
	c.Rule("TP", min, func() {
		var sinks []tpSink
		for _, pk := range c.P.Pkgs {
			rel := strings.TrimPrefix(strings.TrimPrefix(pk.PkgPath, "github.com/obolnetwork/charon"), "/")
			if strings.HasPrefix(rel, "testutil") {
				continue
			}
			isDKG := rel == "dkg" || strings.HasPrefix(rel, "dkg/")
			if (prop == "C11") != isDKG {
				continue
			}
			sp := c.P.SSAPkgs[pk.PkgPath]
			if sp == nil {
				continue
			}
			for _, fn := range an.PkgFuncs(sp) {
				if strings.HasSuffix(c.P.Fset.Position(fn.Pos()).Filename, "testutils.go") || tpTestHelper(fn) {
					continue
				}
				for _, in := range an.Instrs(fn, false) {
					switch x := in.(type) {
					case *ssa.Call:
						switch an.CalleeName(&x.Call) {
						case "tbls.ThresholdSplit", "tbls.ThresholdSplitInsecure":
							sinks = append(sinks, tpSink{fn, x, x.Call.Args[len(x.Call.Args)-1], "tbls.ThresholdSplit threshold"})
						case "github.com/coinbase/kryptology/pkg/dkg/frost.NewDkgParticipant":
							if len(x.Call.Args) >= 2 {
								sinks = append(sinks, tpSink{fn, x, x.Call.Args[1], "frost.NewDkgParticipant threshold"})
							}
						}
					case *ssa.Store:
						if fa, ok := x.Addr.(*ssa.FieldAddr); ok {
							k := an.FieldKey(fa.X.Type(), fa.Field)
							if k == "github.com/drand/kyber/share/dkg.Config.Threshold" {
								sinks = append(sinks, tpSink{fn, x, x.Val, "kyber dkg.Config.Threshold"})
							}
						}
					}
				}
			}
		}
		w := &tpWalker{c: c}
		for _, s := range sinks {
			w.seen = map[ssa.Value]bool{}
			vd, why := w.accept(s.v, s.at.Block(), 0)
			k := an.FuncName(s.fn) + " " + s.what
			switch vd {
			case tpOK:
				c.Good(k, s.at.Pos(), "configured threshold by provenance")
			case tpBad:
				c.Bad(k, s.at.Pos(), "the threshold handed to the threshold scheme is not the configured one: "+why)
			default:
				c.Unsure(k, s.at.Pos(), "cannot follow the provenance of the threshold handed to the threshold scheme: "+why)
			}
		}
	})
}

// tpWalker decides whether a value is, by provenance, the configured threshold: a parameter (every in-repo call
// site passes an accepted value), a `*Threshold` field, a conversion / local / spill slot / phi of accepted values,
// the successful return value of an in-repo helper, or the default cluster.Threshold(n) on the `configured <= 0`
// edge only. Arithmetic, clamping builtins, constants and foreign calls are rejected; shapes the walker does not
// know are undecided.
type tpWalker struct {
	c      *rt.Ctx
	seen   map[ssa.Value]bool
	stores map[string][]*ssa.Store // field key -> stores anywhere in the repository (lazily built)
	sites  map[*ssa.Function][]ssa.CallInstruction

	seenField map[string]bool
}

// accept decides value v as it flows out of block at.
func (w *tpWalker) accept(v ssa.Value, at *ssa.BasicBlock, d int) (tpVerdict, string) {
	if d > 12 {
		return tpUnsure, "provenance too deep"
	}
	v = an.Unwrap(v)
	switch x := v.(type) {
	case *ssa.Parameter:
		return w.param(x, d)
	case *ssa.FreeVar:
		b := an.ClosureBinding(x)
		if b == nil {
			return tpUnsure, "free variable binding not found"
		}
		if al, ok := b.(*ssa.Alloc); ok {
			return w.alloc(al, d)
		}
		return w.accept(b, nil, d+1)
	case *ssa.Field:
		return w.field(an.FieldKey(x.X.Type(), x.Field), fieldNameOf(x.X.Type(), x.Field), d)
	case *ssa.UnOp:
		if x.Op == token.MUL {
			switch a := x.X.(type) {
			case *ssa.FieldAddr:
				return w.field(an.FieldKey(a.X.Type(), a.Field), fieldNameOf(a.X.Type(), a.Field), d)
			case *ssa.Alloc:
				// straight-line spill slot first (functions with defer), then all stores
				if sv := an.SpillValue(x); sv != ssa.Value(x) {
					return w.accept(sv, x.Block(), d+1)
				}
				return w.alloc(a, d)
			case *ssa.FreeVar:
				return w.accept(a, at, d+1)
			}
			return tpUnsure, "load through an untracked pointer"
		}
		return tpBad, "derived by " + x.Op.String()
	case *ssa.Phi:
		if w.seen[x] {
			return tpOK, "" // loop-carried: decided by the other edges
		}
		w.seen[x] = true
		for i, e := range x.Edges {
			if vd, why := w.accept(e, x.Block().Preds[i], d+1); vd != tpOK {
				return vd, why
			}
		}
		return tpOK, ""
	case *ssa.Extract:
		if call, ok := x.Tuple.(*ssa.Call); ok {
			return w.call(call, x.Index, at, d)
		}
		return tpUnsure, "component of a non-call tuple"
	case *ssa.Call:
		return w.call(x, 0, at, d)
	case *ssa.BinOp:
		return tpBad, "arithmetic (" + x.Op.String() + ")"
	case *ssa.Const:
		return tpBad, "a constant"
	}
	return tpUnsure, "unrecognised provenance"
}

func (w *tpWalker) call(x *ssa.Call, idx int, at *ssa.BasicBlock, d int) (tpVerdict, string) {
	name := an.CalleeName(&x.Call)
	if name == "cluster.Threshold" {
		if at == nil {
			at = x.Block()
		}
		if w.onDefaultEdge(at, d) {
			return tpOK, ""
		}
		return tpBad, "the default cluster.Threshold(n) replaces the configured value on an edge other than `configured <= 0`"
	}
	body := an.StaticBody(&x.Call)
	if body == nil {
		return tpBad, "result of " + name + "(…)"
	}
	if w.seen[x] {
		return tpOK, ""
	}
	w.seen[x] = true
	cases := an.SuccessCases(body)
	if len(cases) == 0 {
		return tpUnsure, "helper " + an.FuncName(body) + " has no successful return"
	}
	for _, rc := range cases {
		if idx >= len(rc.Vals) {
			return tpUnsure, "helper result index out of range"
		}
		if vd, why := w.accept(rc.Vals[idx], rc.At, d+1); vd != tpOK {
			return vd, "via " + an.FuncName(body) + ": " + why
		}
	}
	return tpOK, ""
}

// onDefaultEdge: block at is confined to the `X <= 0` edge of a branch on a configured threshold X.
func (w *tpWalker) onDefaultEdge(at *ssa.BasicBlock, d int) bool {
	fn := at.Parent()
	for _, b := range fn.Blocks {
		if len(b.Instrs) == 0 {
			continue
		}
		iff, ok := b.Instrs[len(b.Instrs)-1].(*ssa.If)
		if !ok {
			continue
		}
		cond := iff.Cond
		neg := false
		for {
			u, ok := cond.(*ssa.UnOp)
			if !ok || u.Op != token.NOT {
				break
			}
			cond, neg = u.X, !neg
		}
		bin, ok := cond.(*ssa.BinOp)
		if !ok {
			continue
		}
		x, y, op := bin.X, bin.Y, bin.Op
		if _, isC := an.ConstInt(x); isC {
			x, y = y, x
			switch op {
			case token.LSS:
				op = token.GTR
			case token.LEQ:
				op = token.GEQ
			case token.GTR:
				op = token.LSS
			case token.GEQ:
				op = token.LEQ
			}
		}
		n, isC := an.ConstInt(y)
		if !isC {
			continue
		}
		// which truth value of (x op n) means "x <= 0" ?
		var whenTrue bool
		switch {
		case (op == token.LEQ && n == 0) || (op == token.LSS && n == 1) || (op == token.EQL && n == 0):
			whenTrue = true
		case (op == token.GTR && n == 0) || (op == token.GEQ && n == 1) || (op == token.NEQ && n == 0):
			whenTrue = false
		default:
			continue
		}
		if neg {
			whenTrue = !whenTrue
		}
		succ := b.Succs[1]
		if whenTrue {
			succ = b.Succs[0]
		}
		if !an.EdgeConfines(b, succ, at) {
			continue
		}
		sub := &tpWalker{c: w.c, seen: map[ssa.Value]bool{}, stores: w.stores, sites: w.sites}
		if vd, _ := sub.accept(x, b, d+1); vd == tpOK {
			return true
		}
	}
	return false
}

func (w *tpWalker) callSites() map[*ssa.Function][]ssa.CallInstruction {
	if w.sites != nil {
		return w.sites
	}
	w.sites = map[*ssa.Function][]ssa.CallInstruction{}
	for g := range ssautil.AllFunctions(w.c.P.SSA) {
		if !an.InRepo(g) || g.Synthetic != "" {
			continue
		}
		if g.Pkg != nil && strings.Contains(g.Pkg.Pkg.Path(), "/testutil") {
			continue
		}
		if tpTestHelper(g) {
			continue
		}
		for _, in := range an.Instrs(g, false) {
			ci, ok := in.(ssa.CallInstruction)
			if !ok {
				continue
			}
			if f := an.StaticBody(ci.Common()); f != nil {
				w.sites[an.Orig(f)] = append(w.sites[an.Orig(f)], ci)
			}
		}
	}
	return w.sites
}

// param: every in-repo static call site must pass an accepted value (an exported or otherwise uncalled function
// receives the configured value from outside the analysed code).
func (w *tpWalker) param(x *ssa.Parameter, d int) (tpVerdict, string) {
	if w.seen[x] {
		return tpOK, ""
	}
	w.seen[x] = true
	fn := x.Parent()
	idx := an.ParamIndex(x)
	sites := w.callSites()[an.Orig(fn)]
	sort.Slice(sites, func(i, j int) bool { return sites[i].Pos() < sites[j].Pos() })
	for _, ci := range sites {
		if idx >= len(ci.Common().Args) {
			continue
		}
		if vd, why := w.accept(ci.Common().Args[idx], ci.Block(), d+1); vd != tpOK {
			return vd, "caller " + an.FuncName(ci.Parent()) + ": " + why
		}
	}
	if len(sites) == 0 && fn.Parent() != nil {
		return tpUnsure, "function literal " + an.FuncName(fn) + " receives the threshold through a dynamic call"
	}
	return tpOK, ""
}

// alloc: a local variable (spilled because it is captured or address-taken): every store must be accepted.
func (w *tpWalker) alloc(al *ssa.Alloc, d int) (tpVerdict, string) {
	if w.seen[al] {
		return tpOK, ""
	}
	w.seen[al] = true
	sts := an.StoresTo(al)
	if len(sts) == 0 {
		return tpBad, "a local that is never assigned (zero)"
	}
	for _, st := range sts {
		if vd, why := w.accept(st.Val, st.Block(), d+1); vd != tpOK {
			return vd, why
		}
	}
	return tpOK, ""
}

// field: a field whose name says threshold is the configured value; any other field is followed to the values
// stored into it anywhere in the repository.
func (w *tpWalker) field(key, name string, d int) (tpVerdict, string) {
	if strings.Contains(name, "hreshold") {
		return tpOK, ""
	}
	if w.stores == nil {
		w.stores = map[string][]*ssa.Store{}
		for g := range ssautil.AllFunctions(w.c.P.SSA) {
			if !an.InRepo(g) {
				continue
			}
			for _, in := range an.Instrs(g, false) {
				if st, ok := in.(*ssa.Store); ok {
					if fa, ok := st.Addr.(*ssa.FieldAddr); ok {
						k := an.FieldKey(fa.X.Type(), fa.Field)
						w.stores[k] = append(w.stores[k], st)
					}
				}
			}
		}
	}
	sts := w.stores[key]
	if len(sts) == 0 {
		return tpBad, "read from field " + name + " (never assigned a threshold)"
	}
	if w.seenField[key] {
		return tpOK, ""
	}
	if w.seenField == nil {
		w.seenField = map[string]bool{}
	}
	w.seenField[key] = true
	for _, st := range sts {
		if vd, why := w.accept(st.Val, st.Block(), d+1); vd != tpOK {
			return vd, "field " + name + ": " + why
		}
	}
	return tpOK, ""
}

// tpTestHelper: functions taking a *testing.T (test fixtures living in non-test files).
func tpTestHelper(fn *ssa.Function) bool {
	for f := fn; f != nil; f = f.Parent() {
		for _, p := range f.Params {
			if an.TypeName(p.Type()) == "testing.T" {
				return true
			}
		}
	}
	return false
}
