package rules

import (
	"go/token"
	"strings"

	"golang.org/x/tools/go/ssa"
	"golang.org/x/tools/go/ssa/ssautil"

	"charonverif/internal/an"
	"charonverif/internal/rt"
)

// TP — threshold provenance. The threshold handed to a threshold-scheme primitive (Shamir split, Pedersen DKG
// configuration, FROST participant) must be, by provenance, exactly the cluster's configured threshold: a
// parameter / `*Threshold` field reached through conversions only, or the documented default
// (`cluster.Threshold(n)` on the `configured <= 0` edge). Any arithmetic, clamping (max/min) or other call in
// between makes the key material follow a polynomial of another degree than the lock records: every node
// still succeeds and agrees, but threshold-sized share subsets no longer reconstruct the group key.

func init() {
	Extend("C11", "(TP) the threshold given to the Pedersen DKG configuration and to the FROST participants is the configured threshold by provenance (default only on the <=0 edge).",
		func(c *rt.Ctx) { thresholdProv(c, "C11") },
		Mutant{ID: "TP-C11-pedersen-clamp", File: "dkg/pedersen/dkg.go", Expect: "TP",
			Old: "\tif threshold <= 0 {\n\t\tthreshold = cluster.Threshold(len(nodes))\n",
			New: "\tif safe := cluster.Threshold(len(nodes)); threshold < safe {\n\t\tthreshold = safe\n"},
		Mutant{ID: "TP-C11-frost-plus-one", File: "dkg/frost.go", Expect: "TP",
			Old: "\t\t\tshareIdx,\n\t\t\tthreshold,\n\t\t\tdgkCtx,", New: "\t\t\tshareIdx,\n\t\t\tthreshold+1,\n\t\t\tdgkCtx,"})
	Extend("C12", "(TP) the threshold given to tbls.ThresholdSplit when creating a cluster is the configured threshold by provenance.",
		func(c *rt.Ctx) { thresholdProv(c, "C12") },
		Mutant{ID: "TP-C12-split-clamp", File: "cmd/createcluster.go", Expect: "TP",
			Old: "\t\tshares, err := tbls.ThresholdSplit(secret, uint(numNodes), uint(threshold))",
			New: "\t\tshares, err := tbls.ThresholdSplit(secret, uint(numNodes), uint(max(threshold, cluster.Threshold(numNodes))))"})
}

type tpSink struct {
	fn   *ssa.Function
	at   ssa.Instruction
	v    ssa.Value
	what string
}

func thresholdProv(c *rt.Ctx, prop string) {
	min := map[string]int{"C11": 3, "C12": 1}[prop]
	c.Rule("TP", min, func() {
		var sinks []tpSink
		for _, pk := range c.P.Pkgs {
			rel := strings.TrimPrefix(strings.TrimPrefix(pk.PkgPath, "github.com/obolnetwork/charon"), "/")
			if strings.HasPrefix(rel, "testutil") {
				continue
			}
			isDKG := rel == "dkg" || strings.HasPrefix(rel, "dkg/")
			if (prop == "C11") != isDKG {
				continue
			}
			sp := c.P.SSAPkgs[pk.PkgPath]
			if sp == nil {
				continue
			}
			for _, fn := range an.PkgFuncs(sp) {
				if strings.HasSuffix(c.P.Fset.Position(fn.Pos()).Filename, "testutils.go") || tpTestHelper(fn) {
					continue
				}
				for _, in := range an.Instrs(fn, false) {
					switch x := in.(type) {
					case *ssa.Call:
						switch an.CalleeName(&x.Call) {
						case "tbls.ThresholdSplit", "tbls.ThresholdSplitInsecure":
							sinks = append(sinks, tpSink{fn, x, x.Call.Args[len(x.Call.Args)-1], "tbls.ThresholdSplit threshold"})
						case "github.com/coinbase/kryptology/pkg/dkg/frost.NewDkgParticipant":
							if len(x.Call.Args) >= 2 {
								sinks = append(sinks, tpSink{fn, x, x.Call.Args[1], "frost.NewDkgParticipant threshold"})
							}
						}
					case *ssa.Store:
						if fa, ok := x.Addr.(*ssa.FieldAddr); ok {
							k := an.FieldKey(fa.X.Type(), fa.Field)
							if k == "github.com/drand/kyber/share/dkg.Config.Threshold" {
								sinks = append(sinks, tpSink{fn, x, x.Val, "kyber dkg.Config.Threshold"})
							}
						}
					}
				}
			}
		}
		for _, s := range sinks {
			ok, why := tpAccept(c, s.v, 0)
			c.Check(an.FuncName(s.fn)+" "+s.what, s.at.Pos(), ok, "the threshold handed to the threshold scheme is not the configured one: "+why)
		}
	})
}

func tpAccept(c *rt.Ctx, v ssa.Value, d int) (bool, string) {
	if d > 4 {
		return false, "provenance too deep"
	}
	v = an.Resolve(v)
	switch x := v.(type) {
	case *ssa.Parameter:
		// every in-repo static call site must pass an accepted value
		fn := x.Parent()
		idx := -1
		for i, p := range fn.Params {
			if p == x {
				idx = i
			}
		}
		n := 0
		for g := range ssautil.AllFunctions(c.P.SSA) {
			if g.Blocks == nil || g.Pkg == nil || !strings.HasPrefix(g.Pkg.Pkg.Path(), "github.com/obolnetwork/charon") {
				continue
			}
			if strings.Contains(g.Pkg.Pkg.Path(), "/testutil") {
				continue
			}
			for _, in := range an.Instrs(g, false) {
				ci, ok := in.(ssa.CallInstruction)
				if !ok || an.Orig(ci.Common().StaticCallee()) != an.Orig(fn) || idx >= len(ci.Common().Args) {
					continue
				}
				n++
				if ok2, why := tpAccept(c, ci.Common().Args[idx], d+1); !ok2 {
					return false, "caller " + an.FuncName(g) + ": " + why
				}
			}
		}
		_ = n
		return true, ""
	case *ssa.Field:
		if strings.Contains(fieldNameOf(x.X.Type(), x.Field), "hreshold") {
			return true, ""
		}
		return false, "read from field " + fieldNameOf(x.X.Type(), x.Field)
	case *ssa.UnOp:
		if x.Op == token.MUL {
			if fa, ok := x.X.(*ssa.FieldAddr); ok {
				if strings.Contains(fieldNameOf(fa.X.Type(), fa.Field), "hreshold") {
					return true, ""
				}
				return false, "read from field " + fieldNameOf(fa.X.Type(), fa.Field)
			}
			if fv, ok := x.X.(*ssa.FreeVar); ok {
				return tpFreeVar(c, fv, d)
			}
		}
		return false, "derived by " + x.Op.String()
	case *ssa.FreeVar:
		return tpFreeVar(c, x, d)
	case *ssa.Phi:
		if len(x.Edges) == 2 {
			for i := 0; i < 2; i++ {
				conf, def := x.Edges[i], x.Edges[1-i]
				call, ok := an.Unwrap(def).(*ssa.Call)
				if !ok || an.CalleeName(&call.Call) != "cluster.Threshold" {
					continue
				}
				if ok2, why := tpAccept(c, conf, d+1); !ok2 {
					return false, why
				}
				// the default edge must be the `configured <= 0` edge
				defBlock := x.Block().Preds[1-i]
				for _, cd := range an.CondsOn(x.Parent(), an.Resolve(conf)) {
					n, isC := an.ConstInt(cd.Other)
					if !isC || cd.Neg {
						continue
					}
					if (cd.Op == token.LEQ && n == 0) || (cd.Op == token.LSS && n == 1) || (cd.Op == token.EQL && n == 0) {
						t := cd.Succ(true)
						if t == defBlock || t.Dominates(defBlock) {
							return true, ""
						}
					}
				}
				return false, "the default cluster.Threshold(n) replaces the configured value on an edge other than `configured <= 0`"
			}
		}
		for _, e := range x.Edges {
			if ok, why := tpAccept(c, e, d+1); !ok {
				return false, why
			}
		}
		return true, ""
	case *ssa.Call:
		return false, "result of " + an.CalleeName(&x.Call) + "(…)"
	case *ssa.BinOp:
		return false, "arithmetic (" + x.Op.String() + ")"
	case *ssa.Const:
		return false, "a constant"
	case *ssa.Extract:
		return false, "a call result"
	}
	return false, "unrecognised provenance"
}

func tpFreeVar(c *rt.Ctx, fv *ssa.FreeVar, d int) (bool, string) {
	cl := fv.Parent()
	par := cl.Parent()
	if par == nil {
		return false, "free variable without parent"
	}
	for _, in := range an.Instrs(par, false) {
		mc, ok := in.(*ssa.MakeClosure)
		if !ok || mc.Fn != ssa.Value(cl) {
			continue
		}
		for i, f := range cl.FreeVars {
			if f == fv {
				b := mc.Bindings[i]
				if al, ok := b.(*ssa.Alloc); ok {
					if s := an.UniqueStore(al); s != nil {
						return tpAccept(c, s, d+1)
					}
					return false, "captured variable assigned more than once"
				}
				return tpAccept(c, b, d+1)
			}
		}
	}
	return false, "free variable binding not found"
}

// tpTestHelper: functions taking a *testing.T (test fixtures living in non-test files).
func tpTestHelper(fn *ssa.Function) bool {
	for f := fn; f != nil; f = f.Parent() {
		for _, p := range f.Params {
			if an.TypeName(p.Type()) == "testing.T" {
				return true
			}
		}
	}
	return false
}
