package rules

import (
	"go/token"
	"go/types"

	"golang.org/x/tools/go/ssa"

	"charonverif/internal/an"
)

// C08 S1, lists kept in memory. The identifier list and the value list handed to Recover may live in fields of a
// struct (a parameter object, a scratch buffer taken from a sync.Pool, package state) instead of SSA registers.
// Such a list is a *location* (base, field); what the loop does with it is read from the stores to the location:
//
//	put    loc = append(loc, x)
//	reset  loc = nil | make(T, 0, ..) | loc[:0]   (directly, in an in-package helper that receives the base, or deferred)
//
// "The lists are built from THIS call's input only" (necessary for every clause about Recover: a stale pair from
// another call is interpolated like a genuine share): a location whose base is fresh (a local struct, new(T)) starts
// empty; a location whose base outlives the call (sync.Pool, package variable, state reached through a parameter)
// starts empty only if a reset lies on every path from the function entry to the first put, or - relying on the
// invariant "stored buffers are empty" - on every path from a put to an exit of the function. When neither holds
// there is a feasible pair of calls in which the second one interpolates over pairs of the first: VIOLATION.

type c08Loc struct {
	Base  ssa.Value // canonical: the Alloc / FreeVar cell holding the pointer, the Alloc of the struct, the Global, or the pointer value
	Field int
}

// c08CanonBase strips loads of variable cells and type changes.
func c08CanonBase(v ssa.Value) ssa.Value {
	for i := 0; i < 8; i++ {
		switch x := v.(type) {
		case *ssa.ChangeType:
			v = x.X
			continue
		case *ssa.UnOp:
			if x.Op == token.MUL {
				switch x.X.(type) {
				case *ssa.Alloc, *ssa.FreeVar, *ssa.Global:
					return x.X
				}
			}
		}
		break
	}
	return v
}

func c08LocOfAddr(addr ssa.Value) (c08Loc, bool) {
	fa, ok := addr.(*ssa.FieldAddr)
	if !ok {
		return c08Loc{}, false
	}
	return c08Loc{Base: c08CanonBase(fa.X), Field: fa.Field}, true
}

// c08LocOfLoad: v is a load of a struct field through a pointer.
func c08LocOfLoad(v ssa.Value) (c08Loc, bool) {
	ld, ok := v.(*ssa.UnOp)
	if !ok || ld.Op != token.MUL {
		return c08Loc{}, false
	}
	return c08LocOfAddr(ld.X)
}

// c08EmptyOrTruncated: v is an empty list, or loc[:0] of the location itself (capacity kept, length 0).
func c08EmptyOrTruncated(v ssa.Value) bool {
	if c08EmptyList(v) {
		return true
	}
	if sl, ok := v.(*ssa.Slice); ok && sl.High != nil {
		if hi, isConst := an.ConstInt(sl.High); isConst && hi == 0 {
			return true
		}
	}
	return false
}

type c08LocEvent struct {
	At   ssa.Instruction
	Kind string    // "put" | "reset" | "odd" | "defer-reset"
	Elem ssa.Value // put: the appended element
	Call *ssa.Call // put: the append call
	Why  string
}

// c08LocEvents lists what function g does with location (key, field); key is the canonical base inside g.
func c08LocEvents(g *ssa.Function, key ssa.Value, field int, depth int) []c08LocEvent {
	var out []c08LocEvent
	for _, b := range g.Blocks {
		for _, in := range b.Instrs {
			switch x := in.(type) {
			case *ssa.Store:
				// *base = T{}: the whole struct is overwritten
				whole := false
				if ld, isLoad := x.Addr.(*ssa.UnOp); isLoad && ld.Op == token.MUL && ld.X == key {
					whole = true
				} else if x.Addr == key {
					if pt, isPtr := key.Type().Underlying().(*types.Pointer); isPtr {
						_, whole = pt.Elem().Underlying().(*types.Struct)
					}
				}
				if whole {
					if k, isConst := x.Val.(*ssa.Const); isConst && k.Value == nil {
						out = append(out, c08LocEvent{At: x, Kind: "reset"})
					} else {
						out = append(out, c08LocEvent{At: x, Kind: "odd", Why: "the struct holding the list is overwritten as a whole"})
					}
					continue
				}
				loc, ok := c08LocOfAddr(x.Addr)
				if !ok || loc.Base != key || loc.Field != field {
					continue
				}
				if c08EmptyOrTruncated(x.Val) {
					out = append(out, c08LocEvent{At: x, Kind: "reset"})
					continue
				}
				if call, ok := x.Val.(*ssa.Call); ok {
					if bi, isB := call.Call.Value.(*ssa.Builtin); isB && bi.Name() == "append" && len(call.Call.Args) == 2 {
						if l2, isLoc := c08LocOfLoad(call.Call.Args[0]); isLoc && l2.Base == key && l2.Field == field {
							if elems := appendedElems(call); len(elems) == 1 {
								out = append(out, c08LocEvent{At: x, Kind: "put", Elem: elems[0], Call: call})
								continue
							}
						}
					}
				}
				out = append(out, c08LocEvent{At: x, Kind: "odd", Why: "the list is assigned a value that is neither empty nor append(list, one element)"})
			case ssa.CallInstruction:
				if _, isGo := x.(*ssa.Go); isGo {
					continue
				}
				cc := x.Common()
				_, deferred := x.(*ssa.Defer)
				kind := ""
				sub := func(h *ssa.Function, hkey ssa.Value) {
					if h == nil || h.Blocks == nil || depth >= 3 {
						kind = "odd"
						return
					}
					switch c08LocSummary(h, hkey, field, depth+1) {
					case "resets":
						kind = "reset"
					case "odd":
						kind = "odd"
					}
				}
				switch fv := cc.Value.(type) {
				case *ssa.MakeClosure:
					h, _ := fv.Fn.(*ssa.Function)
					for j, bnd := range fv.Bindings {
						if bnd == key && h != nil && j < len(h.FreeVars) {
							sub(h, h.FreeVars[j])
						}
					}
				}
				if !cc.IsInvoke() {
					if h := cc.StaticCallee(); h != nil {
						h = an.Orig(h)
						for i, a := range cc.Args {
							if c08CanonBase(a) != key && a != key {
								continue
							}
							if _, isPtrOrStruct := a.Type().Underlying().(*types.Pointer); !isPtrOrStruct {
								continue
							}
							if h.Pkg != g.Pkg || h.Blocks == nil || i >= len(h.Params) {
								continue // handed to a library (sync.Pool.Put, a lock): does not write the field
							}
							sub(h, h.Params[i])
						}
					}
				}
				switch {
				case kind == "reset" && deferred:
					out = append(out, c08LocEvent{At: x, Kind: "defer-reset"})
				case kind == "reset":
					out = append(out, c08LocEvent{At: x, Kind: "reset"})
				case kind == "odd":
					out = append(out, c08LocEvent{At: x, Kind: "odd", Why: "the list is written inside " + an.CalleeName(cc) + " in a way this rule does not model"})
				}
			}
		}
	}
	return out
}

// c08LocSummary: what a call of h does to field `field` of the struct reached through key:
// "" nothing, "resets" emptied on every path to a return, "odd" anything else.
func c08LocSummary(h *ssa.Function, key ssa.Value, field int, depth int) string {
	evs := c08LocEvents(h, key, field, depth)
	if len(evs) == 0 {
		return ""
	}
	cut := map[ssa.Instruction]bool{}
	for _, e := range evs {
		if e.Kind != "reset" {
			return "odd"
		}
		cut[e.At] = true
	}
	if c08PathAvoiding(h.Blocks[0], 0, func(in ssa.Instruction) bool { _, ok := in.(*ssa.Return); return ok }, cut) {
		return "odd"
	}
	return "resets"
}

// c08PathAvoiding: a path from instruction index idx of block b to an instruction satisfying target exists on which no
// instruction of cut is executed.
func c08PathAvoiding(b *ssa.BasicBlock, idx int, target func(ssa.Instruction) bool, cut map[ssa.Instruction]bool) bool {
	seen := map[*ssa.BasicBlock]bool{}
	var visit func(b *ssa.BasicBlock, from int) bool
	visit = func(b *ssa.BasicBlock, from int) bool {
		for i := from; i < len(b.Instrs); i++ {
			in := b.Instrs[i]
			if target(in) {
				return true
			}
			if cut[in] {
				return false
			}
		}
		for _, s := range b.Succs {
			if !seen[s] {
				seen[s] = true
				if visit(s, 0) {
					return true
				}
			}
		}
		return false
	}
	return visit(b, idx)
}

func c08InstrIndex(in ssa.Instruction) int {
	for i, x := range in.Block().Instrs {
		if x == in {
			return i
		}
	}
	return 0
}

// c08BaseOrigin classifies where the struct behind a location comes from.
// fresh: created by this call; persistent != "": outlives the call (names the storage); unknown: cannot tell.
func c08BaseOrigin(fn *ssa.Function, base ssa.Value, field int) (fresh bool, persistent string, unknown string) {
	fresh = true
	seen := map[ssa.Value]bool{}
	var val func(v ssa.Value, d int)
	var cell func(c ssa.Value, d int)
	mark := func(p string) {
		fresh = false
		if persistent == "" {
			persistent = p
		}
	}
	unk := func(u string) {
		fresh = false
		if unknown == "" {
			unknown = u
		}
	}
	val = func(v ssa.Value, d int) {
		if seen[v] || d > 6 {
			return
		}
		seen[v] = true
		switch x := v.(type) {
		case *ssa.Alloc:
			if _, isStruct := x.Type().(*types.Pointer).Elem().Underlying().(*types.Struct); isStruct {
				return // a struct created by this call
			}
			cell(x, d+1)
		case *ssa.Phi:
			for _, e := range x.Edges {
				val(e, d+1)
			}
		case *ssa.ChangeType:
			val(x.X, d+1)
		case *ssa.Extract:
			val(x.Tuple, d+1)
		case *ssa.TypeAssert:
			val(x.X, d+1)
		case *ssa.Global:
			mark("package variable " + x.Name())
		case *ssa.UnOp:
			if x.Op != token.MUL {
				unk("an operand this rule does not model")
				return
			}
			switch a := x.X.(type) {
			case *ssa.Global:
				mark("package variable " + a.Name())
			case *ssa.Alloc:
				cell(a, d+1)
			case *ssa.FieldAddr:
				if al, isLocal := c08CanonBase(a.X).(*ssa.Alloc); isLocal {
					if _, isStruct := al.Type().(*types.Pointer).Elem().Underlying().(*types.Struct); isStruct {
						unk("a pointer kept in a local struct")
						return
					}
				}
				mark("state reached through field " + an.FieldKey(a.X.Type(), a.Field))
			default:
				unk("a pointer loaded from memory this rule does not model")
			}
		case *ssa.Call:
			if h := x.Call.StaticCallee(); h != nil && !x.Call.IsInvoke() {
				if n := an.FuncName(h); n == "sync.Pool.Get" {
					mark("sync.Pool")
					return
				}
				if h = an.Orig(h); h.Pkg == fn.Pkg && h.Blocks != nil && d < 4 {
					for _, r := range an.Returns(h) {
						for _, res := range r.Results {
							if _, isPtr := res.Type().Underlying().(*types.Pointer); isPtr || types.IsInterface(res.Type()) {
								// a getter that hands the buffer out emptied (`s := pool.Get().(*T); s.reset(); return s`)
								cut, other := map[ssa.Instruction]bool{}, false
								for _, e := range c08LocEvents(h, c08CanonBase(res), field, 1) {
									if e.Kind == "reset" {
										cut[e.At] = true
									} else {
										other = true
									}
								}
								ret := r
								if len(cut) > 0 && !other && !c08PathAvoiding(h.Blocks[0], 0, func(in ssa.Instruction) bool { return in == ssa.Instruction(ret) }, cut) {
									continue
								}
								val(res, d+1)
							}
						}
					}
					return
				}
			}
			unk("the result of " + an.CalleeName(&x.Call))
		case *ssa.Parameter:
			unk("a parameter (owned by the caller)")
		case *ssa.FreeVar:
			unk("a captured variable")
		case *ssa.Const:
			// nil: no struct at all on this edge
		default:
			unk("a value this rule does not model")
		}
	}
	cell = func(c ssa.Value, d int) {
		refs := c.Referrers()
		if refs == nil {
			unk("a variable without visible stores")
			return
		}
		n := 0
		for _, r := range *refs {
			if st, ok := r.(*ssa.Store); ok && st.Addr == c {
				n++
				val(st.Val, d+1)
			}
		}
		if n == 0 {
			unk("a variable without visible stores")
		}
	}
	val(base, 0)
	return fresh, persistent, unknown
}

// c08LocFill describes how the location list v (a load of base.field) is filled in fn. nil when v is no such load.
// start: "ok" the list holds only what this call put into it, "bad" (positive evidence, why), "unsure".
func c08LocFill(fn *ssa.Function, v ssa.Value) (fl *c08Fill, start, why string) {
	loc, ok := c08LocOfLoad(v)
	if !ok {
		return nil, "", ""
	}
	evs := c08LocEvents(fn, loc.Base, loc.Field, 0)
	fl = &c08Fill{Kind: "append", Start: true, Loc: true}
	var put *c08LocEvent
	resets := map[ssa.Instruction]bool{}
	var deferred []ssa.Instruction
	for i := range evs {
		e := &evs[i]
		switch e.Kind {
		case "put":
			if put != nil {
				fl.Odd = "the list is extended at more than one place"
				continue
			}
			put = e
		case "reset":
			resets[e.At] = true
		case "defer-reset":
			deferred = append(deferred, e.At)
		case "odd":
			fl.Odd = e.Why
		}
	}
	// the field's address must not leave the function in another way
	for _, b := range fn.Blocks {
		for _, in := range b.Instrs {
			fa, isFA := in.(*ssa.FieldAddr)
			if !isFA {
				continue
			}
			if l2, _ := c08LocOfAddr(fa); l2 != loc {
				continue
			}
			for _, r := range *fa.Referrers() {
				switch y := r.(type) {
				case *ssa.DebugRef:
				case *ssa.UnOp:
				case *ssa.Store:
					if y.Addr != ssa.Value(fa) {
						fl.Odd = "the address of the list is stored"
					}
				default:
					fl.Odd = "the address of the list is used in a way this rule does not model"
				}
			}
		}
	}
	if put == nil {
		if fl.Odd == "" {
			fl.Odd = "no append to the list found"
		}
		return fl, "unsure", fl.Odd
	}
	fl.Puts = []c08Put{{Elem: put.Elem, At: put.Call, Key: "0"}}
	fl.PutStore = put.At
	fl.Loop = an.InnermostLoop(fn, put.At.Block())
	if fl.Loop == nil {
		fl.Odd = "the list is not extended inside a loop"
		return fl, "unsure", fl.Odd
	}
	if fl.Odd != "" {
		return fl, "unsure", fl.Odd
	}
	fresh, persistent, unknown := c08BaseOrigin(fn, loc.Base, loc.Field)
	isPut := func(in ssa.Instruction) bool { return in == put.At }
	top := !c08PathAvoiding(fn.Blocks[0], 0, isPut, resets)
	if fresh || top {
		return fl, "ok", ""
	}
	// deferred reset registered before any put: every exit runs it
	for _, d := range deferred {
		if d.Block() == put.At.Block() && c08InstrIndex(d) < c08InstrIndex(put.At) || d.Block() != put.At.Block() && d.Block().Dominates(put.At.Block()) {
			return fl, "ok", ""
		}
	}
	isExit := func(in ssa.Instruction) bool {
		switch in.(type) {
		case *ssa.Return:
			return true
		}
		return false
	}
	dirtyExit := c08PathAvoiding(put.At.Block(), c08InstrIndex(put.At)+1, isExit, resets)
	if !dirtyExit {
		return fl, "ok", "" // invariant: a buffer is empty whenever the call that used it has returned
	}
	if persistent != "" {
		return fl, "bad", "the list lives in a buffer that outlives the call (" + persistent + "): it is not emptied on every path before the first append, and a return is reachable after an append " +
			"without emptying it (an early error return): the next call that picks up the buffer hands the stale (identifier, value) pairs of that call to Recover together with its own"
	}
	return fl, "unsure", "the list lives in a struct that comes from " + unknown + " and is not emptied before the first append"
}

// c08LonePut: an iteration of loop l can execute put a without put b (a path header .. a .. header that avoids b).
func c08LonePut(l *an.Loop, a, b ssa.Instruction) bool {
	cut := map[ssa.Instruction]bool{b: true}
	inLoop := func(target func(ssa.Instruction) bool, from *ssa.BasicBlock, idx int) bool {
		seen := map[*ssa.BasicBlock]bool{}
		var visit func(bb *ssa.BasicBlock, k int) bool
		visit = func(bb *ssa.BasicBlock, k int) bool {
			for i := k; i < len(bb.Instrs); i++ {
				if target(bb.Instrs[i]) {
					return true
				}
				if cut[bb.Instrs[i]] {
					return false
				}
			}
			for _, s := range bb.Succs {
				if !l.Body[s] {
					continue
				}
				if s == l.Header {
					if target(nil) {
						return true
					}
					continue
				}
				if !seen[s] {
					seen[s] = true
					if visit(s, 0) {
						return true
					}
				}
			}
			return false
		}
		return visit(from, idx)
	}
	toA := inLoop(func(in ssa.Instruction) bool { return in != nil && in == a }, l.Header, 0)
	back := inLoop(func(in ssa.Instruction) bool { return in == nil }, a.Block(), c08InstrIndex(a)+1)
	return toA && back
}
