package rules

import (
	"fmt"
	"go/token"
	"go/types"
	"os"

	"golang.org/x/tools/go/ssa"

	"charonverif/internal/an"
	"charonverif/internal/rt"
)

// ---------------------------------------------------------------------------------------------
// V3 (body of the filter) — the commit quorum counts only messages that match the criteria
//
// The obligations on classify/isJustifiedDecided establish WHICH criteria the commit quorum is filtered
// with (type COMMIT, the message's round, the message's value). They are worth nothing unless the filter
// function itself applies a criterion it was given. This part walks the filter function in the activation
// of the very call that computes the commit quorum (so `value != nil`, a `hasValue` flag, ... evaluate to
// what this caller passes) under the assumption "the element's accessor differs from the criterion" (the
// comparison instructions of that accessor with that criterion are assumed to say "different"): no
// instruction that adds an element to the result may be reachable. A criterion whose "unset" encoding is
// a value the caller can pass (the zero value of V for a by-value criterion fed with msg.Value()) leaves
// such a path, and votes for different values add up to a quorum.

// n4resolve is resolve, additionally looking through loads of pointers to single-assignment locals
// (`*value` with value = &v in a caller) and variables captured by a function literal that only reads them.
func (e *c03Eng) n4resolve(fr *c03Frame, v ssa.Value) (ssa.Value, *c03Frame) {
	for i := 0; i < 16; i++ {
		v, fr = e.resolve(fr, v)
		switch x := v.(type) {
		case *ssa.FreeVar:
			nv, nfr, ok := c03n4Binding(fr, x)
			if !ok {
				return v, fr
			}
			v, fr = nv, nfr
			continue
		case *ssa.UnOp:
			if x.Op != token.MUL {
				return v, fr
			}
			nv, nfr, ok := e.n4pointee(fr, x.X, 0)
			if !ok {
				return v, fr
			}
			v, fr = nv, nfr
			continue
		}
		return v, fr
	}
	return v, fr
}

// n4pointee: the value held by the single-assignment local p points to; p may be handed out by a helper
// returning the address of a copy of its argument (`ptrTo(v)`).
func (e *c03Eng) n4pointee(fr *c03Frame, p ssa.Value, d int) (ssa.Value, *c03Frame, bool) {
	if d > 3 {
		return nil, nil, false
	}
	p, pfr := e.n4resolve(fr, p)
	switch x := p.(type) {
	case *ssa.Alloc:
		if st := c03n4OnlyStore(x); st != nil {
			return st.Val, pfr, true
		}
	case *ssa.Call:
		nf := e.enter(pfr, x)
		if nf == nil {
			return nil, nil, false
		}
		rets := an.Returns(nf.fn)
		if len(rets) != 1 || len(rets[0].Results) != 1 {
			return nil, nil, false
		}
		return e.n4pointee(nf, rets[0].Results[0], d+1)
	}
	return nil, nil, false
}

// c03n4Binding: the value bound to free variable fv of the function literal activated in fr.
func c03n4Binding(fr *c03Frame, fv *ssa.FreeVar) (ssa.Value, *c03Frame, bool) {
	if fr == nil || fr.site == nil || fr.up == nil || fv.Parent() != fr.fn {
		return nil, nil, false
	}
	mc, ok := an.Unwrap(fr.site.Common().Value).(*ssa.MakeClosure)
	if !ok || mc.Fn != ssa.Value(fr.fn) {
		return nil, nil, false
	}
	for i, f := range fr.fn.FreeVars {
		if f == fv && i < len(mc.Bindings) {
			return mc.Bindings[i], fr.up, true
		}
	}
	return nil, nil, false
}

// c03n4OnlyStore: the single store into local al, when every other use of al is a load or a capture by a
// function literal that only loads it.
func c03n4OnlyStore(al *ssa.Alloc) *ssa.Store {
	if al.Referrers() == nil {
		return nil
	}
	var only *ssa.Store
	for _, ref := range *al.Referrers() {
		switch x := ref.(type) {
		case *ssa.DebugRef, *ssa.Return:
		case *ssa.UnOp:
			if x.Op != token.MUL {
				return nil
			}
		case *ssa.Store:
			if x.Addr != ssa.Value(al) || only != nil {
				return nil
			}
			only = x
		case *ssa.MakeClosure:
			fn, ok := x.Fn.(*ssa.Function)
			if !ok {
				return nil
			}
			for i, b := range x.Bindings {
				if b != ssa.Value(al) {
					continue
				}
				if i >= len(fn.FreeVars) || fn.FreeVars[i].Referrers() == nil {
					return nil
				}
				for _, r := range *fn.FreeVars[i].Referrers() {
					switch y := r.(type) {
					case *ssa.DebugRef:
					case *ssa.UnOp:
						if y.Op != token.MUL {
							return nil
						}
					default:
						return nil
					}
				}
			}
		case ssa.CallInstruction:
			// handed on as a pointer argument (`filterMsgs(..., &value, ...)`): fine as long as the callee
			// chain only reads through it, which is what the filter activations walked here do
			_ = x
		default:
			return nil
		}
	}
	return only
}

// c03n4Crit is one criterion of the commit-quorum filter.
type c03n4Crit struct {
	name     string // "type", "round", "value"
	arg      int    // argument index at a positional filterMsgs call (-1: not known)
	accessor string // Msg method the criterion is compared with
	term     string // spelling of the criterion in the caller
}

// c03n4Cmp is a comparison, inside the filter, of an accessor of a message with a value that comes from
// outside the filter (a criterion), spelled in the caller.
type c03n4Cmp struct {
	bin      *ssa.BinOp
	accessor string
	term     string
	v        ssa.Value // the criterion, resolved
	vfr      *c03Frame
}

// c03n4Body collects, in the activation ff of the filter function and the in-package helpers and function
// literals it calls, the instructions adding an element to the result and the comparisons of an element's
// accessor with a criterion.
type c03n4Body struct {
	e       *c03Eng
	ff      *c03Frame
	resT    types.Type
	sinks   []c03Point
	cmps    []c03n4Cmp
	invoked map[string]bool // accessors applied to a message inside the filter
	absent  map[string]bool // accessors compared with the pointee of a pointer this caller passes as nil
	memory  bool            // the filter reads a captured variable, a global or a field the rule cannot follow
}

func (e *c03Eng) n4Body(ff *c03Frame) *c03n4Body {
	b := &c03n4Body{e: e, ff: ff, resT: ff.fn.Signature.Results().At(0).Type(), invoked: map[string]bool{}, absent: map[string]bool{}}
	b.scan(ff, 0, map[*ssa.Function]bool{})
	return b
}

func (b *c03n4Body) scan(fr *c03Frame, d int, seen map[*ssa.Function]bool) {
	if d > 3 || seen[fr.fn] {
		return
	}
	seen[fr.fn] = true
	for _, in := range an.Instrs(fr.fn, false) {
		switch x := in.(type) {
		case *ssa.BinOp:
			if x.Op != token.EQL && x.Op != token.NEQ {
				continue
			}
			for _, sides := range [2][2]ssa.Value{{x.X, x.Y}, {x.Y, x.X}} {
				acc := b.accessorOf(fr, sides[0])
				if acc == "" {
					continue
				}
				rv, rfr := b.e.n4resolve(fr, sides[1])
				if ld, ok := rv.(*ssa.UnOp); ok && ld.Op == token.MUL {
					// `*pv` where this caller passes a nil pointer: the criterion is absent
					if p, _ := b.e.n4resolve(rfr, ld.X); an.IsNilConst(p) {
						b.absent[acc] = true
					}
					continue
				}
				if c03IsAncestor(b.ff, rfr) {
					continue // computed inside the filter
				}
				if t := b.e.term(rfr, rv); t != "" {
					b.cmps = append(b.cmps, c03n4Cmp{bin: x, accessor: acc, term: t, v: rv, vfr: rfr})
				}
			}
		case ssa.CallInstruction:
			cc := x.Common()
			if bi, ok := cc.Value.(*ssa.Builtin); ok {
				if call, isCall := x.(*ssa.Call); isCall && bi.Name() == "append" && types.Identical(call.Type(), b.resT) {
					b.sinks = append(b.sinks, c03Point{fr: fr, in: call})
				}
				continue
			}
			if cc.IsInvoke() && c03IsMsgIface(cc.Value.Type()) {
				b.invoked[cc.Method.Name()] = true
				continue
			}
			if nf := b.e.enter(fr, x); nf != nil {
				b.scan(nf, d+1, seen)
			}
		case *ssa.UnOp:
			if x.Op == token.MUL {
				rv, _ := b.e.n4resolve(fr, x)
				if ld, ok := rv.(*ssa.UnOp); ok && ld.Op == token.MUL {
					switch an.Unwrap(ld.X).(type) {
					case *ssa.FreeVar, *ssa.Global, *ssa.FieldAddr:
						b.memory = true
					}
				}
			}
		case *ssa.Store:
			// an element written into a pre-sized result (`resp[n] = msg`)
			if ia, ok := x.Addr.(*ssa.IndexAddr); ok && types.Identical(ia.X.Type(), b.resT) {
				b.sinks = append(b.sinks, c03Point{fr: fr, in: x})
			}
		}
	}
}

// accessorOf: v is an accessor applied to a message inside the filter (an element of the filtered list);
// the name of the accessor, else "".
func (b *c03n4Body) accessorOf(fr *c03Frame, v ssa.Value) string {
	rv, rfr := b.e.n4resolve(fr, v)
	call, ok := rv.(*ssa.Call)
	if !ok || !call.Call.IsInvoke() || len(call.Call.Args) != 0 {
		return ""
	}
	if !c03IsMsgIface(call.Call.Value.Type()) || !c03IsAncestor(b.ff, rfr) {
		return ""
	}
	return call.Call.Method.Name()
}

// bins: the comparisons of accessor acc with the criterion spelled term.
func (b *c03n4Body) bins(acc, term string) []*ssa.BinOp {
	var out []*ssa.BinOp
	for _, cm := range b.cmps {
		if cm.accessor == acc && cm.term == term {
			out = append(out, cm.bin)
		}
	}
	return out
}

// enforced: walking the filter as entered from call (made in fr) under "every comparison of accessor acc with
// the criterion spelled term says 'different'", no instruction adding an element to the result is reachable.
func (b *c03n4Body) enforced(fr *c03Frame, call *ssa.Call, acc, term string) (c03Tri, token.Pos) {
	bins := b.bins(acc, term)
	if len(bins) == 0 || len(b.sinks) == 0 {
		return c03Maybe, token.NoPos
	}
	facts := c03NoFacts()
	for _, arg := range call.Call.Args {
		// a pointer criterion this caller passes as the address of a local is not nil
		if _, isPtr := arg.Type().Underlying().(*types.Pointer); isPtr {
			if t := b.e.term(fr, arg); len(t) > 1 && t[0] == '&' {
				facts.term("zero?("+t+")", c03Bool(false))
			}
		}
	}
	for _, bin := range bins {
		facts.val(bin, c03Bool(bin.Op == token.NEQ)) // the element differs from the criterion
	}
	ue := b.e.under(facts)
	res, at := c03Yes, token.NoPos
	for _, s := range b.sinks {
		reach, und := ue.reachable(s)
		switch {
		case reach && !und && !b.memory:
			return c03No, s.pos()
		case reach:
			res, at = c03Maybe, s.pos()
		}
	}
	return res, at
}

// c03n4ParamUnused: parameter i of fn is never read.
func c03n4ParamUnused(fn *ssa.Function, i int) bool {
	if i < 0 || i >= len(fn.Params) || fn.Params[i].Referrers() == nil {
		return false
	}
	for _, r := range *fn.Params[i].Referrers() {
		if _, dbg := r.(*ssa.DebugRef); !dbg {
			return false
		}
	}
	return true
}

// c03n4SemFallback enables n4SemSpec as a fallback of eng.filter (renamed filter function, criteria handed over
// as a parameter object or by value with a flag). Switched off: not validated yet (a run on such a patch did not
// terminate within the time budget of round 4); such shapes stay UNDECIDED as before.
const c03n4SemFallback = false

// n4SemSpec reads the criteria of a filter call off the filter's body instead of its parameter list: call
// enters an in-package function with a single []Msg result and a single parameter of that type (the list)
// that adds elements to its result and compares accessors of messages with values handed in by the caller.
// The criterion of an accessor is the caller's spelling of what it is compared with ("" when the accessor
// is never consulted inside the filter). Whether a criterion is applied on every path is decided by
// c03V3FilterBody. ok=false: the callee does not have this shape.
func (e *c03Eng) n4SemSpec(fr *c03Frame, call *ssa.Call) (c03Spec, int, bool) {
	ff := e.enter(fr, call)
	if ff == nil || ff.fn.Signature.Results().Len() != 1 {
		return c03Spec{}, 0, false
	}
	resT := ff.fn.Signature.Results().At(0).Type()
	sl, isSlice := resT.Underlying().(*types.Slice)
	if !isSlice || !c03IsMsgIface(sl.Elem()) {
		return c03Spec{}, 0, false
	}
	list := -1
	for i, p := range ff.fn.Params {
		if types.Identical(p.Type(), resT) {
			if list >= 0 {
				return c03Spec{}, 0, false
			}
			list = i
		}
	}
	if list < 0 || list >= len(call.Call.Args) {
		return c03Spec{}, 0, false
	}
	b := e.n4Body(ff)
	if os.Getenv("C03DEBUG") != "" {
		fmt.Fprintf(os.Stderr, "c03: semspec %s: sinks=%d cmps=%d invoked=%v\n", ff.fn.Name(), len(b.sinks), len(b.cmps), b.invoked)
	}
	if len(b.sinks) == 0 || len(b.cmps) == 0 {
		return c03Spec{}, 0, false
	}
	sp := c03Spec{msgs: e.term(fr, call.Call.Args[list]), call: call, cfr: fr, sem: true}
	st := c03SpecOK
	crit := func(acc string) string {
		var t string
		n := 0
		for _, cm := range b.cmps {
			if cm.accessor != acc {
				continue
			}
			if n == 0 || cm.term != t {
				n++
			}
			t = cm.term
			if acc == "Type" {
				sp.typV, sp.typFr = cm.v, cm.vfr
			}
		}
		switch {
		case n == 1:
			if acc == "Type" || acc == "Round" {
				return t // never optional: whether it is applied on every path is decided by c03V3FilterBody
			}
			// an optional criterion is present for this caller iff the filter applies it
			switch tri, _ := b.enforced(fr, call, acc, t); tri {
			case c03Yes:
				return t
			case c03Maybe:
				st = c03SpecUnknown
			}
			return ""
		case n > 1:
			st = c03SpecUnknown // compared with several different things
		case b.absent[acc]:
		case b.invoked[acc]:
			st = c03SpecUnknown // consulted, but not in a comparison the rule can read
		}
		return ""
	}
	sp.typ, sp.round, sp.value = crit("Type"), crit("Round"), crit("Value")
	sp.pr, sp.pv = crit("PreparedRound"), crit("PreparedValue")
	if sp.msgs == "" || sp.typ == "" || sp.round == "" {
		st = c03SpecUnknown
	}
	if os.Getenv("C03DEBUG") != "" {
		fmt.Fprintf(os.Stderr, "c03: semspec %s: st=%d %s absent=%v\n", ff.fn.Name(), st, sp.key(), b.absent)
	}
	return sp, st, true
}

// c03V3FilterBody checks the filter function as entered from the call sp (the call that computes the
// commit quorum named by who).
func c03V3FilterBody(c *rt.Ctx, e *c03Eng, sp c03Spec, who string) {
	key := func(cr string) string { return who + ": the filter keeps only messages of the given " + cr }
	pos := sp.call.Pos()
	if sp.cfr == nil {
		c.Unsure(key("value"), pos, "the activation of the filter call is not known")
		return
	}
	ff := e.enter(sp.cfr, sp.call)
	if ff == nil || ff.fn.Signature.Results().Len() != 1 {
		c.Unsure(key("value"), pos, "the filter function could not be entered from this call")
		return
	}
	b := e.n4Body(ff)
	crits := []c03n4Crit{
		{"type", 1, "Type", sp.typ},
		{"round", 2, "Round", sp.round},
		{"value", 3, "Value", sp.value},
	}
	if len(b.sinks) == 0 {
		c.Unsure(key("value"), ff.fn.Pos(), "no instruction adding an element to the filter's result was found (the result is built in a way the rule cannot read)")
		return
	}
	for _, cr := range crits {
		k := key(cr.name)
		if sp.sem {
			cr.arg = -1
		}
		if cr.term == "" {
			if cr.name == "value" {
				continue // no value criterion passed: reported by the obligation on the caller
			}
			c.Unsure(k, pos, "the criterion has no spelling in the caller")
			continue
		}
		bins := b.bins(cr.accessor, cr.term)
		if len(bins) == 0 {
			if c03n4ParamUnused(ff.fn, cr.arg) || (cr.arg >= 0 && !b.invoked[cr.accessor]) {
				c.Bad(k, ff.fn.Pos(), "the filter never consults "+cr.accessor+"() of a message against its "+cr.name+" criterion: messages of any "+cr.name+" are counted towards the commit quorum")
			} else {
				c.Unsure(k, ff.fn.Pos(), "no comparison of an element's "+cr.accessor+"() with the "+cr.name+" criterion was found in the filter")
			}
			continue
		}
		res, at := b.enforced(sp.cfr, sp.call, cr.accessor, cr.term)
		if at == token.NoPos {
			at = pos
		}
		detail := "a message whose " + cr.accessor + "() differs from the " + cr.name + " criterion passed by this caller (" + cr.term + ") can be added to the filter's result: " +
			"the comparison is skipped on some path"
		if cr.name == "value" {
			detail += " (e.g. a criterion value that the filter reads as 'unset'), so votes for different values add up to the commit quorum and the decided value is not the committed one"
		}
		res.report(c, k, at, "", detail, "whether an element that differs from the "+cr.name+" criterion can be added to the result could not be decided (a branch in the filter could not be looked into, or the filter reads a captured variable, global or field the rule cannot follow)")
	}
}
