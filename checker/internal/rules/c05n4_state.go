package rules

import (
	"go/constant"
	"go/token"
	"strings"

	"golang.org/x/tools/go/ssa"

	"charonverif/internal/an"
)

// c05guards are the acceptance conditions of Consensus.handle as queries of the H05 engine, shared by A1
// (they dominate the send) and A7 (they dominate everything that touches consensus state).
type c05guards struct {
	built                                 *an.H05Term
	main, gater, values, newMsg, deadline *c05callQ
	just, duty                            *an.H05ForallQ
	limitsAt                              func(in ssa.Instruction, f *an.H05Frame) an.H05Verdict
}

func c05BuildGuards(e *c05env, h *c05Handle) *c05guards {
	c := e.c
	en := e.engine()
	expired := constOf(c, "core", "DeadlineExpired")
	const cons = c05Q + ".Consensus"
	lenOf := func(t *an.H05Term) *an.H05Term { return an.H05T("builtin", "len", t) }
	vals0 := an.H05ExtractT(0, an.H05CallT(c05N("valuesByHash"), h.values))
	built := an.H05ExtractT(0, an.H05CallT(c05N("newMsg"), h.msg, h.just, vals0))

	qMain := c05CallQ(c05N("verifyMsg"), an.H05ErrNil, "no verifyMsg(pbMsg.GetMsg(), c.pubkeys) call in handle", h.msg, h.pubkeys)
	qGater := &c05callQ{name: "c.gaterFunc", spec: an.H05Spec{BoolIdx: 0, BoolWant: true}, args: []*an.H05Term{h.duty},
		missing: "no c.gaterFunc(duty) call on the message's duty in handle",
		callee: func(en *an.H05, g *ssa.Call, f *an.H05Frame) bool {
			if g.Call.IsInvoke() || g.Call.StaticCallee() != nil {
				return false
			}
			return an.H05Same(en.Term(g.Call.Value, f), h.gater)
		}}
	// the amplification limits, as a mechanism: the number of justifications is bounded by the cluster size
	// and the number of values by the number of justifications — wherever the comparisons live
	// (verifyMsgLimits, a differently named helper, inline)
	qLimJust := &c05boundQ{coll: h.just, what: "justification", by: []*an.H05Term{lenOf(h.pubkeys), lenOf(h.peers)}, req: h.pb}
	qLimVals := &c05boundQ{coll: h.values, what: "value", by: []*an.H05Term{lenOf(h.just)}, req: h.pb}
	limitsAt := func(in ssa.Instruction, f *an.H05Frame) an.H05Verdict {
		lj := h.est(en, qLimJust, in, f)
		lv := h.est(en, qLimVals, in, f)
		if c05Rank(lv) < c05Rank(lj) {
			lj, lv = lv, lj
		}
		if lj.Yes && lv.Yes && lj.Wit == nil {
			lj.Wit, lj.WitFrame = lv.Wit, lv.WitFrame
		}
		return lj // the worse of the two
	}
	qJust := &an.H05ForallQ{Name: "verifyMsg", Coll: h.just,
		Missing: "no verifyMsg call on the elements of a loop over pbMsg.GetJustification()",
		Inner: func(elem *an.H05Term) an.H05Query {
			return c05CallQ(c05N("verifyMsg"), an.H05ErrNil, "no verifyMsg(justification, c.pubkeys) call in the loop", elem, h.pubkeys)
		}}
	qDuty := &an.H05ForallQ{Name: "dutyeq", Coll: h.just,
		Missing: "no comparison of DutyFromProto(justification.GetDuty()) with the message duty in a loop over pbMsg.GetJustification()",
		Inner: func(elem *an.H05Term) an.H05Query {
			return &an.H05EqQ{A: an.H05CallT("core.DutyFromProto", an.H05Field(c05PB+".QBFTMsg.Duty", elem)), B: h.duty,
				Missing: "no comparison of the justification's duty with the message duty in the loop"}
		}}
	qValues := c05CallQ(c05N("valuesByHash"), an.H05ErrNil, "no valuesByHash(pbMsg.GetValues()) call in handle", h.values)
	qBuilt := c05CallQ(c05N("newMsg"), an.H05ErrNil, "no newMsg(pbMsg.GetMsg(), pbMsg.GetJustification(), values) call over the verified parts in handle", h.msg, h.just, vals0)
	qDeadline := &c05callQ{name: "c.deadliner.Add", spec: an.H05Spec{BoolIdx: -1, NotConst: constant.MakeInt64(expired)}, args: []*an.H05Term{h.duty},
		missing: "no c.deadliner.Add(duty) on the message's duty before the send",
		callee: func(en *an.H05, g *ssa.Call, f *an.H05Frame) bool {
			return an.Invoke("core.Deadliner.Add")(&g.Call) && an.H05Same(en.Term(g.Call.Value, f), h.deadliner)
		}}

	return &c05guards{built: built, main: qMain, gater: qGater, values: qValues, newMsg: qBuilt, deadline: qDeadline,
		just: qJust, duty: qDuty, limitsAt: limitsAt}
}

// ---------------------------------------------------------------------------------------------
// A7: a rejected message leaves no trace in the consensus state
//
// "anything else is rejected without touching consensus state": every effect of Consensus.handle (and of the
// helpers it runs) on the state reachable from the Consensus object — an update of / a store into memory
// reached from the receiver (the per-duty instance map that getRecvBuffer/getInstanceIO fill), a call of a
// function that does so, a call of a method of the deadliner that takes the duty (Add schedules it) — is
// dominated by ALL acceptance checks of A1, not only the final send. Effects on the instance state
// additionally need the deadliner's verdict (an expired duty is never cleaned up again).
//
// The effect is identified by what it does (which memory it writes, which object it is invoked on), not by
// the name of the helper: write summaries are computed over the package's functions.

type c05fx struct {
	memo map[c05fxKey]int // 1 computing, 2 writes, 3 does not
}

type c05fxKey struct {
	fn *ssa.Function
	j  int
}

// c05MemRoot strips selections and loads: the parameter or captured variable the memory is reached from.
func c05MemRoot(v ssa.Value) ssa.Value {
	for i := 0; i < 24 && v != nil; i++ {
		switch x := v.(type) {
		case *ssa.Parameter, *ssa.FreeVar:
			return v
		case *ssa.FieldAddr:
			v = x.X
		case *ssa.Field:
			v = x.X
		case *ssa.IndexAddr:
			v = x.X
		case *ssa.Index:
			v = x.X
		case *ssa.Lookup:
			v = x.X
		case *ssa.Extract:
			v = x.Tuple
		case *ssa.ChangeType:
			v = x.X
		case *ssa.UnOp:
			if x.Op != token.MUL {
				return nil
			}
			v = x.X
		default:
			return nil
		}
	}
	return nil
}

// c05WrittenMem: the memory the instruction writes (nil: none) — map update, delete, store through a pointer.
func c05WrittenMem(in ssa.Instruction) ssa.Value {
	switch x := in.(type) {
	case *ssa.MapUpdate:
		return x.Map
	case *ssa.Store:
		if _, local := x.Addr.(*ssa.Alloc); local {
			return nil
		}
		return x.Addr
	case ssa.CallInstruction:
		if b, ok := x.Common().Value.(*ssa.Builtin); ok && b.Name() == "delete" && len(x.Common().Args) > 0 {
			return x.Common().Args[0]
		}
	}
	return nil
}

// writes: fn (or an in-package function it calls statically) writes memory reached from its parameter j.
func (a *c05fx) writes(fn *ssa.Function, j int) bool {
	if fn == nil || fn.Blocks == nil || j < 0 || j >= len(fn.Params) {
		return false
	}
	k := c05fxKey{fn, j}
	switch a.memo[k] {
	case 1, 3:
		return false
	case 2:
		return true
	}
	a.memo[k] = 1
	res := false
	p := ssa.Value(fn.Params[j])
	for _, in := range an.Instrs(fn, false) {
		if m := c05WrittenMem(in); m != nil && c05MemRoot(m) == p {
			res = true
			break
		}
		ci, ok := in.(ssa.CallInstruction)
		if !ok || ci.Common().IsInvoke() {
			continue
		}
		callee := ci.Common().StaticCallee()
		if callee == nil || callee.Pkg != fn.Pkg {
			continue
		}
		for i, arg := range ci.Common().Args {
			if c05MemRoot(arg) == p && a.writes(callee, i) {
				res = true
			}
		}
		if res {
			break
		}
	}
	if res {
		a.memo[k] = 2
	} else {
		a.memo[k] = 3
	}
	return res
}

type c05effect struct {
	in       ssa.Instruction
	f        *an.H05Frame
	what     string
	instance bool // touches the instance state (as opposed to scheduling the duty at the deadliner)
}

// c05StateEffects lists the effects on consensus state of the activations reachable from handle (outside
// the verification anchors).
func c05StateEffects(e *c05env, h *c05Handle) []c05effect {
	en := e.engine()
	fx := &c05fx{memo: map[c05fxKey]int{}}
	isRecv := func(v ssa.Value, f *an.H05Frame) bool {
		if v == nil {
			return false
		}
		t := en.Term(v, f)
		return an.H05Same(t, h.recv) || c05PartOf(t, h.recv)
	}
	inAnchor := func(f *an.H05Frame) bool {
		for g := f; g != nil && g.Parent != nil; g = g.Parent {
			if en.Anchors[an.FuncName(g.Fn)] {
				return true
			}
		}
		return false
	}
	var out []c05effect
	seen := map[c05site]bool{}
	add := func(in ssa.Instruction, f *an.H05Frame, what string, instance bool) {
		if k := (c05site{in, f}); !seen[k] {
			seen[k] = true
			out = append(out, c05effect{in, f, what, instance})
		}
	}
	en.Walk(h.root, func(in ssa.Instruction, f *an.H05Frame) {
		if inAnchor(f) {
			return
		}
		if m := c05WrittenMem(in); m != nil {
			if isRecv(c05MemRoot(m), f) {
				add(in, f, "a write into the Consensus object", true)
			}
			return
		}
		ci, ok := in.(ssa.CallInstruction)
		if !ok {
			return
		}
		cc := ci.Common()
		if cc.IsInvoke() {
			if len(cc.Args) > 0 && an.H05Same(en.Term(cc.Value, f), h.deadliner) {
				add(in, f, "c.deadliner."+cc.Method.Name(), false)
			}
			return
		}
		callee := cc.StaticCallee()
		if callee == nil || callee.Pkg != h.fn.Pkg || callee.Blocks == nil {
			return
		}
		if en.Child(f, ci) != nil && !en.Anchors[an.FuncName(callee)] {
			return // the walk looks into it: its own writes / calls are the effects
		}
		for i, arg := range cc.Args {
			if fx.writes(callee, i) && isRecv(arg, f) {
				add(in, f, strings.TrimPrefix(an.FuncName(callee), c05Q+"."), true)
			}
		}
	})
	return out
}

func c05A7(e *c05env) {
	c := e.c
	en := e.engine()
	h := c05ResolveHandle(e)
	g := c05BuildGuards(e, h)
	type guard struct {
		name string
		at   func(in ssa.Instruction, f *an.H05Frame) an.H05Verdict
	}
	q := func(name string, query an.H05Query) guard {
		return guard{name, func(in ssa.Instruction, f *an.H05Frame) an.H05Verdict { return h.est(en, query, in, f) }}
	}
	checks := []guard{
		q("verifyMsg(msg)", g.main), q("gaterFunc(duty)", g.gater), {"verifyMsgLimits(pbMsg)", g.limitsAt},
		q("verifyMsg of every justification", g.just), q("justification duty == message duty", g.duty),
		q("valuesByHash(values)", g.values), q("newMsg(msg, justification, values)", g.newMsg),
	}
	expiry := q("deadliner.Add(duty) not expired", g.deadline)
	for _, fx := range c05StateEffects(e, h) {
		gs := checks
		if fx.instance {
			gs = append(append([]guard{}, checks...), expiry)
		}
		worst := an.H05Verdict{Yes: true}
		var failed []string
		for _, gd := range gs {
			v := gd.at(fx.in, fx.f)
			if v.Yes {
				continue
			}
			if !v.Unsure {
				failed = append(failed, gd.name)
			}
			if worst.Yes || c05Rank(v) < c05Rank(worst) || (v.Unsure && !worst.Unsure && c05Rank(worst) >= 3) {
				w := v
				w.Why = gd.name + ": " + v.Why
				worst = w
			}
		}
		if len(failed) > 0 {
			worst = an.H05Verdict{Why: "consensus state is touched (" + fx.what + ") before the message is accepted: not guarded by " + strings.Join(failed, ", ") +
				" — a message rejected afterwards has already created the duty's instance / scheduled the duty"}
		}
		c05Report(c, "handle state effect "+fx.what+" only after all checks", posOf(fx.in), worst, "every acceptance check dominates the effect")
	}
}

var _ = constant.MakeBool
