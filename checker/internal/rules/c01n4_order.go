package rules

import (
	"go/types"

	"golang.org/x/tools/go/ssa"

	"charonverif/internal/an"
	"charonverif/internal/rt"
)

// R1 (c): the aggregate store gates the broadcaster.
//
// core.SigAgg hands an aggregate to its subscribers in subscription order and stops at the first error
// (R1s below). core.AggSigDB.Store rejects a second, different aggregate for a stored (duty, validator) with
// "mismatching data". Hence "a node hands at most one signing root per duty and validator to the beacon node"
// needs the store to be subscribed to the aggregator BEFORE the broadcaster on every path of core.Wire, and the
// store's error to be what its subscriber returns. The obligation is stated on the resolved roles of the wire
// functions (interface method bound to the field), never on field or variable names.

type c01Edge struct {
	sub    string              // role of the subscription function called
	cb     string              // role of the callback handed over
	call   ssa.CallInstruction // the subscription call in core.Wire's own body
	direct bool                // the wire function itself is handed over (no adapter literal)
	inner  ssa.CallInstruction // adapters: the call of the wire function inside the literal
}

const (
	c01RoleAgg   = "core.SigAgg.Subscribe"
	c01RoleStore = "core.AggSigDB.Store"
	c01RoleBcast = "core.Broadcaster.Broadcast"
)

func c01R1Order(c *rt.Ctx, wire *ssa.Function, edges []c01Edge, unresolved bool) {
	construct := "core.Wire AggSigDB.Store subscribed to SigAgg.Subscribe before Broadcaster.Broadcast"
	gates := map[ssa.Instruction]bool{} // subscription calls installing the store as an error-returning subscriber
	var firstGate ssa.Instruction
	var weak, stores, bcasts []c01Edge
	for _, e := range edges {
		if e.sub != c01RoleAgg {
			continue
		}
		switch e.cb {
		case c01RoleStore:
			stores = append(stores, e)
			if e.direct || c01ResultReturned(e.inner) {
				gates[e.call] = true
				if firstGate == nil || e.call.Pos() < firstGate.Pos() {
					firstGate = e.call
				}
			} else {
				weak = append(weak, e)
			}
		case c01RoleBcast:
			bcasts = append(bcasts, e)
		}
	}
	if len(bcasts) == 0 || len(stores) == 0 {
		// the sink rules above report a stage that is not connected; there is nothing to order
		c.Unsure(construct, wire.Pos(), "the subscriptions of AggSigDB.Store and Broadcaster.Broadcast to the aggregator are not both resolved in core.Wire's own body")
		return
	}
	var bad, unsure []string
	var at ssa.Instruction
	for _, b := range bcasts {
		// one adapter that stores and then broadcasts: the order is decided inside the literal
		handled := false
		for _, s := range stores {
			if s.call != b.call || s.inner == nil || b.inner == nil || s.inner.Parent() != b.inner.Parent() {
				continue
			}
			handled = true
			if ok, _ := an.Guarded(s.inner, b.inner, an.DefaultGuard); ok {
				continue
			}
			at = b.call
			if an.Dominates(b.inner, s.inner) {
				bad = append(bad, "the function subscribed to the aggregator invokes Broadcaster.Broadcast before AggSigDB.Store")
			} else {
				unsure = append(unsure, "the function subscribed to the aggregator invokes both AggSigDB.Store and Broadcaster.Broadcast and the checker cannot show that a store error cuts the broadcast off")
			}
		}
		if handled {
			continue
		}
		if c01ReachAvoiding(wire, b.call, gates) {
			at = b.call
			if len(weak) > 0 {
				unsure = append(unsure, "AggSigDB.Store is subscribed through an adapter whose result the checker cannot follow to the adapter's return")
			} else {
				bad = append(bad, "Broadcaster.Broadcast is subscribed to the aggregator on a path of core.Wire on which AggSigDB.Store has not been subscribed yet: "+
					"the aggregator calls its subscribers in subscription order and stops at the first error, so the store's 'mismatching data' rejection no longer keeps a second, "+
					"different aggregate for the same duty and validator from being broadcast")
			}
		}
	}
	switch {
	case len(bad) > 0 && !unresolved:
		c.Bad(construct, posOf(at), bad[0])
	case len(bad) > 0 || len(unsure) > 0:
		msg := append(bad, unsure...)[0]
		if unresolved {
			msg += " (some wire fields are not resolved)"
		}
		c.Unsure(construct, posOf(at), msg)
	case firstGate != nil:
		c.Good(construct, posOf(firstGate), "")
	default:
		c.Good(construct, posOf(bcasts[0].call), "")
	}
}

// c01ReachAvoiding: target can be reached from the entry of fn without executing any instruction of gates.
func c01ReachAvoiding(fn *ssa.Function, target ssa.Instruction, gates map[ssa.Instruction]bool) bool {
	if len(fn.Blocks) == 0 {
		return false
	}
	seen := map[*ssa.BasicBlock]bool{}
	var walk func(b *ssa.BasicBlock) bool
	walk = func(b *ssa.BasicBlock) bool {
		if seen[b] {
			return false
		}
		seen[b] = true
		for _, in := range b.Instrs {
			if in == target {
				return true
			}
			if gates[in] {
				return false
			}
		}
		for _, s := range b.Succs {
			if walk(s) {
				return true
			}
		}
		return false
	}
	return walk(fn.Blocks[0])
}

// c01ResultReturned: the error produced by call reaches a return of the calling function literal.
func c01ResultReturned(call ssa.CallInstruction) bool {
	if call == nil || call.Value() == nil {
		return false
	}
	yes, _ := c01FlowsToReturn(call.Value(), 0)
	return yes
}

// c01FlowsToReturn: value v (an error) reaches a return of its function: directly, through a phi, a local variable,
// or through a call that takes it and yields an error (helpers of the same package are stepped into: the parameter
// must reach their return; wrappers of other packages such as errors.Wrap are taken to keep the error non-nil).
// opaque = v is also used in a way the checker does not follow.
func c01FlowsToReturn(v ssa.Value, depth int) (yes, opaque bool) {
	seen := map[ssa.Value]bool{}
	var flows func(x ssa.Value, d int) bool
	flows = func(x ssa.Value, d int) bool {
		if x == nil || seen[x] || d > 8 || x.Referrers() == nil {
			return false
		}
		seen[x] = true
		for _, ref := range *x.Referrers() {
			switch r := ref.(type) {
			case *ssa.Return:
				return true
			case *ssa.DebugRef, *ssa.BinOp, *ssa.If:
			case *ssa.Phi:
				if flows(r, d+1) {
					return true
				}
			case *ssa.ChangeInterface:
				if flows(r, d+1) {
					return true
				}
			case *ssa.Extract:
				if an.IsErrorType(r.Type()) && flows(r, d+1) {
					return true
				}
			case *ssa.Store:
				al, ok := r.Addr.(*ssa.Alloc)
				if !ok || r.Val != x || al.Referrers() == nil {
					opaque = true
					continue
				}
				for _, lr := range *al.Referrers() {
					if ld, ok := lr.(*ssa.UnOp); ok && flows(ld, d+1) {
						return true
					}
				}
			case ssa.CallInstruction:
				cc := r.Common()
				idx := -1
				for i, a := range cc.Args {
					if a == x {
						idx = i
					}
				}
				call, isCall := r.(*ssa.Call)
				if idx < 0 {
					if !(cc.IsInvoke() && cc.Value == x) { // err.Error() and the like are plain reads
						opaque = true
					}
					continue
				}
				if !isCall {
					opaque = true // handed to a deferred / concurrent call
					continue
				}
				res := cc.Signature().Results()
				if res.Len() != 1 || !an.IsErrorType(res.At(0).Type()) {
					continue // consumed by an observer (tracker, logger, span)
				}
				if h := cc.StaticCallee(); h != nil && len(h.Blocks) > 0 && h.Pkg != nil && x.Parent() != nil && h.Pkg == x.Parent().Pkg && depth < 3 {
					pi := idx
					if cc.Signature().Recv() != nil {
						pi = idx // StaticCallee args already include the receiver
					}
					if pi >= len(h.Params) {
						opaque = true
						continue
					}
					py, po := c01FlowsToReturn(h.Params[pi], depth+1)
					if po {
						opaque = true
					}
					if !py {
						continue
					}
				}
				if flows(call, d+1) {
					return true
				}
			default:
				opaque = true
			}
		}
		return false
	}
	yes = flows(v, 0)
	return yes, opaque
}

// c01GateFields: the wire fields bound (anywhere in package core) to the method value core.AggSigDB.Store.
func c01GateFields(pkg *ssa.Package) map[string]bool {
	out := map[string]bool{}
	for _, f := range an.PkgFuncs(pkg) {
		for _, in := range an.Instrs(f, false) {
			st, ok := in.(*ssa.Store)
			if !ok {
				continue
			}
			fa, ok := st.Addr.(*ssa.FieldAddr)
			if !ok || an.TypeName(fa.X.Type()) != c01WF {
				continue
			}
			mc, ok := an.Unwrap(st.Val).(*ssa.MakeClosure)
			if !ok || len(mc.Bindings) != 1 {
				continue
			}
			bf, _ := mc.Fn.(*ssa.Function)
			if bf == nil || bf.Synthetic == "" || bf.Object() == nil {
				continue
			}
			if an.TypeName(mc.Bindings[0].Type())+"."+bf.Object().Name() == c01RoleStore {
				out[c01FieldName(fa.X.Type(), fa.Field)] = true
			}
		}
	}
	return out
}

// c01R1bGate: a wrapper installed in front of AggSigDB.Store must hand the store's error back to the aggregator
// (synchronously): it is that error which stops the aggregator before it reaches the broadcaster.
func c01R1bGate(c *rt.Ctx, construct string, g *ssa.Function, fwd []ssa.CallInstruction) {
	construct += " and returns the store's error"
	for _, ci := range fwd {
		call, isCall := ci.(*ssa.Call)
		if !isCall {
			c.Bad(construct, posOf(ci), "AggSigDB.Store is started with go/defer: its 'mismatching data' rejection can no longer stop the aggregator before the broadcaster")
			continue
		}
		if ci.Parent() != g {
			c.Unsure(construct, posOf(ci), "AggSigDB.Store is called from a nested function literal: whether its error reaches the aggregator is not followed")
			continue
		}
		yes, opaque := c01FlowsToReturn(call, 0)
		switch {
		case yes:
			c.Good(construct, posOf(ci), "")
		case opaque:
			c.Unsure(construct, posOf(ci), "the checker cannot follow the store's error to the wrapper's return")
		default:
			c.Bad(construct, posOf(ci), "the wrapper does not return the error of AggSigDB.Store: the aggregator goes on to the broadcaster although the store rejected the aggregate ('mismatching data')")
		}
	}
}

var _ = types.Identical
