package rules

import (
	"fmt"
	"go/token"
	"go/types"
	"os"
	"strings"

	"golang.org/x/tools/go/ssa"

	"charonverif/internal/an"
	"charonverif/internal/rt"
)

// C13 — DKG reliable broadcast (package dkg/bcast). Rules B1..B6 of DESIGN §5, reformulated as predicates over
// the event sequences of symbolic paths (toolkit in c13h.go, walker an.Tracer) so that they are independent of how
// the code is cut into helpers, closures, named booleans, switch/if chains, loop forms and defer/explicit unlock.
// Roles are recognised by resolved entities only: named function types (Callback, CheckMessage, hashFunc, signFunc,
// verifyFunc, p2p.SendFunc), struct fields (server.dedup, server.msgIDFuncs, Component.allowedMsgIDs, Component.peers,
// client.peers, client.p2pNode), static callees (k1util.Verify65/Sign, p2p.PeerIDToKey, anypb getters, sha256.New ...).

const (
	c13Pkg    = "dkg/bcast"
	c13Srv    = c13Pkg + ".server"
	c13Cli    = c13Pkg + ".client"
	c13Comp   = c13Pkg + ".Component"
	c13Funcs  = c13Pkg + ".messageIDFuncs"
	c13AnyPkg = "google.golang.org/protobuf/types/known/anypb"
)

func init() {
	const srv, cli, impl = "dkg/bcast/server.go", "dkg/bcast/client.go", "dkg/bcast/impl.go"
	Register(&Prop{
		ID: "C13",
		Decides: "dkg/bcast, decided on the event sequences of all paths (in-package helpers, closures, bound methods and defers stepped into): " +
			"(B1) a registered callback runs only after verifyFunc returned nil on the very (id, any-message) whose UnmarshalNew is delivered, the registry being consulted under that id only; " +
			"(B2) the signature handler signs only the hashFunc output of the (id, message) that the registered checkMessage accepted, after that hash was recorded in (or found equal to the entry of) server.dedup under a key bound to (sender, id); " +
			"a dedup entry is written only if a lookup of the same key said absent or the entry found equals the hash written; " +
			"(B3) the verifier accepts only if len(sigs)==len(peers), the id is present in the allow-list, and every sigs[i] verifies (ok, nil error) against PeerIDToKey(peers[i]) over the hash that the hash function handed to newPeerK1Verifier " +
			"computes for (id, message); the signer signs only the hash it is given and only for allow-listed ids; New builds server and client objects holding one (hash, sign, verify) triple whose hash closure is bound to the session hash, whose verifier is " +
			"bound to that hash closure, signer and verifier being bound to the returned component whose peer list is the client's; " +
			"(B4) on every successful path the hasher absorbs exactly pairs (length of field, field), the fields including session hash, id, type URL and value, every successful path absorbing the same fields, the result being Sum of that hasher; " +
			"(B5) dedup/msgIDFuncs/allowedMsgIDs only under their mutexes, no unlock between the dedup lookup and the store it guards (followed into callers); " +
			"(B7) the dedup table only grows: no value derived from server.dedup (locals, closure captures, inner maps, helper parameters, getter results) is handed to delete/clear/maps.DeleteFunc in any function, literal or callback of the package, " +
			"and another table is assigned to the field only on an object under construction or when the installed table is nil/empty; " +
			"(B6) the client sends exactly the (id, message, signatures) it verified, the local signature being over the hash of that message, stored in the verified list at the index i with peers[i]==p2pNode.ID().",
		NotDecided: "the agreement conclusion itself (no two members deliver different payloads), secp256k1 arithmetic, that the signed hash does not bind the originating sender " +
			"(left to application callbacks), the redundant length-65 test (k1util.Recover rejects other lengths), checkMessage/callback bodies, the errors of writes into a hash.Hash (never non-nil); " +
			"loops are unrolled to a bound (verifier: up to two signatures; hash: up to seven fields), collections whose length the path does not determine give UNDECIDED.",
		Run: c13,
		Mutants: []Mutant{
			// ---- B1
			{ID: "C13-B1-callback-before-verify", File: srv, Expect: "B1|verifyFunc→callback",
				Old: "\tif err := s.verifyFunc(msg.GetId(), msg.GetMessage(), msg.GetSignatures()); err != nil {\n\t\treturn nil, false, errors.Wrap(err, \"verify signatures\")\n\t}\n\n\tinner, err := msg.GetMessage().UnmarshalNew()\n\tif err != nil {\n\t\treturn nil, false, errors.Wrap(err, \"unmarshal any\")\n\t}\n\n\tfn, found := s.getMessageIDFunc(msg.GetId())\n\tif !found {\n\t\treturn nil, false, errors.New(\"unknown message id\", z.Str(\"message_id\", msg.GetId()))\n\t}\n\n\tif err := fn.callback(ctx, pID, msg.GetId(), inner); err != nil {\n\t\treturn nil, false, errors.Wrap(err, \"callback\")\n\t}\n",
				New: "\tinner, err := msg.GetMessage().UnmarshalNew()\n\tif err != nil {\n\t\treturn nil, false, errors.Wrap(err, \"unmarshal any\")\n\t}\n\n\tfn, found := s.getMessageIDFunc(msg.GetId())\n\tif !found {\n\t\treturn nil, false, errors.New(\"unknown message id\", z.Str(\"message_id\", msg.GetId()))\n\t}\n\n\tif err := fn.callback(ctx, pID, msg.GetId(), inner); err != nil {\n\t\treturn nil, false, errors.Wrap(err, \"callback\")\n\t}\n\n\tif err := s.verifyFunc(msg.GetId(), msg.GetMessage(), msg.GetSignatures()); err != nil {\n\t\treturn nil, false, errors.Wrap(err, \"verify signatures\")\n\t}\n"},
			{ID: "C13-B1-verify-error-dropped", File: srv, Expect: "B1|verifyFunc→callback",
				Old: "\t\treturn nil, false, errors.Wrap(err, \"verify signatures\")",
				New: "\t\t_ = errors.Wrap(err, \"verify signatures\")"},
			{ID: "C13-B1-verify-weakened", File: srv, Expect: "B1|verifyFunc→callback",
				Old: "msg.GetSignatures()); err != nil {",
				New: "msg.GetSignatures()); err != nil && len(msg.GetSignatures()) == 0 {"},
			{ID: "C13-B1-other-id-delivered", File: srv, Expect: "B1|callback id",
				Old: "fn.callback(ctx, pID, msg.GetId(), inner)",
				New: "fn.callback(ctx, pID, msg.GetMessage().GetTypeUrl(), inner)"},
			{ID: "C13-B1-verify-other-message", File: srv, Expect: "B1|payload",
				Old: "s.verifyFunc(msg.GetId(), msg.GetMessage(), msg.GetSignatures())",
				New: "s.verifyFunc(msg.GetId(), (*pb.BCastMessage)(nil).GetMessage(), msg.GetSignatures())"},
			{ID: "C13-B1-unmarshal-error-dropped", File: srv, Expect: "B1|payload",
				Old: "\t\treturn nil, false, errors.Wrap(err, \"unmarshal any\")",
				New: "\t\t_ = errors.Wrap(err, \"unmarshal any\")"},
			// ---- B2
			{ID: "C13-B2-skip-dedup", File: srv, Expect: "B2|dedupHash→signFunc",
				Old: "\tif err := s.dedupHash(pID, req.GetId(), reqMessageHash); err != nil {\n\t\treturn nil, false, errors.Wrap(err, \"dedup\")\n\t}\n",
				New: ""},
			{ID: "C13-B2-dedup-error-logged", File: srv, Expect: "B2|dedupHash→signFunc",
				Old: "\t\treturn nil, false, errors.Wrap(err, \"dedup\")",
				New: "\t\t_ = errors.Wrap(err, \"dedup\")"},
			{ID: "C13-B2-sign-before-dedup", File: srv, Expect: "B2|dedupHash→signFunc",
				Old: "\tif err := s.dedupHash(pID, req.GetId(), reqMessageHash); err != nil {\n\t\treturn nil, false, errors.Wrap(err, \"dedup\")\n\t}\n\n\tsig, err := s.signFunc(req.GetId(), reqMessageHash)\n\tif err != nil {\n\t\treturn nil, false, errors.Wrap(err, \"sign hash\")\n\t}\n",
				New: "\tsig, err := s.signFunc(req.GetId(), reqMessageHash)\n\tif err != nil {\n\t\treturn nil, false, errors.Wrap(err, \"sign hash\")\n\t}\n\n\tif err := s.dedupHash(pID, req.GetId(), reqMessageHash); err != nil {\n\t\treturn nil, false, errors.Wrap(err, \"dedup\")\n\t}\n"},
			{ID: "C13-B2-sign-message-only", File: srv, Expect: "B2|hashFunc→signFunc",
				Old: "s.signFunc(req.GetId(), reqMessageHash)",
				New: "s.signFunc(req.GetId(), req.GetMessage().GetValue())"},
			{ID: "C13-B2-dedup-other-id", File: srv, Expect: "B2|dedupHash→signFunc",
				Old: "s.dedupHash(pID, req.GetId(), reqMessageHash)",
				New: "s.dedupHash(pID, req.GetMessage().GetTypeUrl(), reqMessageHash)"},
			{ID: "C13-B2-check-error-dropped", File: srv, Expect: "B2|checkMessage→signFunc",
				Old: "\t\treturn nil, false, errors.Wrap(err, \"signature request message check\")",
				New: "\t\t_ = errors.Wrap(err, \"signature request message check\")"},
			{ID: "C13-B2-dedup-not-found-only", File: srv, Expect: "B2|dedupHash compare",
				Old: "if ok && !bytes.Equal(prevHash, hash) {",
				New: "if !ok && !bytes.Equal(prevHash, hash) {"},
			{ID: "C13-B2-dedup-self-compare", File: srv, Expect: "B2|dedupHash compare",
				Old: "if ok && !bytes.Equal(prevHash, hash) {",
				New: "if ok && !bytes.Equal(hash, hash) && prevHash != nil {"},
			{ID: "C13-B2-dedup-store-first", File: srv, Expect: "B2|dedupHash compare",
				Old: "\tprevHash, ok := s.dedup[key]\n\tif ok && !bytes.Equal(prevHash, hash) {\n\t\treturn errors.New(\"duplicate ID, mismatching hash\")\n\t}\n\n\ts.dedup[key] = hash\n",
				New: "\tprevHash, ok := s.dedup[key]\n\ts.dedup[key] = hash\n\n\tif ok && !bytes.Equal(prevHash, hash) {\n\t\treturn errors.New(\"duplicate ID, mismatching hash\")\n\t}\n"},
			// ---- B3
			{ID: "C13-B3-length-test-weakened", File: impl, Expect: "B3|len(sigs)",
				Old: "if len(sigs) != len(c.peers) {",
				New: "if len(sigs) > len(c.peers) {"},
			{ID: "C13-B3-length-test-deleted", File: impl, Expect: "B3|len(sigs)",
				Old: "\t\tif len(sigs) != len(c.peers) {\n\t\t\treturn errors.New(\"invalid number of signatures\")\n\t\t}\n",
				New: ""},
			{ID: "C13-B3-empty-sigs-accepted", File: impl, Expect: "B3|len(sigs)",
				Old: "\t\tif len(sigs) != len(c.peers) {\n",
				New: "\t\tif len(sigs) == 0 {\n\t\t\treturn nil\n\t\t}\n\n\t\tif len(sigs) != len(c.peers) {\n"},
			{ID: "C13-B3-invalid-sig-break", File: impl, Expect: "B3|every signature checked",
				Old: "\t\t\t} else if !ok {\n\t\t\t\treturn errors.New(\"invalid signature\")",
				New: "\t\t\t} else if !ok {\n\t\t\t\tbreak"},
			{ID: "C13-B3-peer-zero", File: impl, Expect: "B3|same index",
				Old: "p2p.PeerIDToKey(c.peers[i])",
				New: "p2p.PeerIDToKey(c.peers[len(c.peers)-1-i])"},
			{ID: "C13-B3-peer-half-index", File: impl, Expect: "B3|same index",
				Old: "p2p.PeerIDToKey(c.peers[i])",
				New: "p2p.PeerIDToKey(c.peers[i/2])"},
			{ID: "C13-B3-invalid-sig-logged", File: impl, Expect: "B3|every signature checked",
				Old: "\t\t\t} else if !ok {\n\t\t\t\treturn errors.New(\"invalid signature\")",
				New: "\t\t\t} else if !ok {\n\t\t\t\t_ = errors.New(\"invalid signature\")"},
			{ID: "C13-B3-skip-short-sig", File: impl, Expect: "B3|every signature checked",
				Old: "\t\t\t\treturn errors.New(\"invalid signature length, expect 65 bytes [R || S || V] format\")",
				New: "\t\t\t\tcontinue"},
			{ID: "C13-B3-verifier-id-not-allowlisted", File: impl, Expect: "B3|verifier msgIDAllowed",
				Old: "\t\tif !c.msgIDAllowed(msgID) {\n\t\t\treturn errors.New(\"invalid message id\")\n\t\t}\n\n\t\thash, err",
				New: "\t\tif !c.msgIDAllowed(msgID) && len(sigs) == 0 {\n\t\t\treturn errors.New(\"invalid message id\")\n\t\t}\n\n\t\thash, err"},
			{ID: "C13-B3-hash-of-other-id", File: impl, Expect: "B3|hash provenance",
				Old: "hash, err := hashFunc(msgID, anyPB)",
				New: "hash, err := hashFunc(anyPB.GetTypeUrl(), anyPB)"},
			{ID: "C13-B3-signer-any-id", File: impl, Expect: "B3|signer",
				Old: "\t\tif !c.msgIDAllowed(msgID) {\n\t\t\treturn nil, errors.New(\"invalid message id\")",
				New: "\t\tif !c.msgIDAllowed(msgID) && len(hash) == 0 {\n\t\t\treturn nil, errors.New(\"invalid message id\")"},
			{ID: "C13-B3-wiring-unbound-hash", File: impl, Expect: "B3|New wiring",
				Old: "verifyFunc := c.newPeerK1Verifier(hashFunc)",
				New: "verifyFunc := c.newPeerK1Verifier(newHashAny(nil))"},
			// ---- B4
			{ID: "C13-B4-drop-session", File: impl, Expect: "B4|session hash",
				Old: "[][]byte{sessionHash, []byte(msgID),",
				New: "[][]byte{[]byte(msgID),"},
			{ID: "C13-B4-drop-msgid", File: impl, Expect: "B4|message id",
				Old: "[][]byte{sessionHash, []byte(msgID),",
				New: "[][]byte{sessionHash,"},
			{ID: "C13-B4-typeurl-twice", File: impl, Expect: "B4|message id",
				Old: "[][]byte{sessionHash, []byte(msgID),",
				New: "[][]byte{sessionHash, []byte(anyPB.GetTypeUrl()),"},
			{ID: "C13-B4-wrong-length-prefix", File: impl, Expect: "B4|length prefix",
				Old: "uint64(len(field))",
				New: "uint64(len(sessionHash))"},
			{ID: "C13-B4-skip-empty-field", File: impl, Expect: "B4|every field",
				Old: "\t\t\tif err := binary.Write(h, binary.BigEndian,",
				New: "\t\t\tif len(field) == 0 {\n\t\t\t\tcontinue\n\t\t\t}\n\n\t\t\tif err := binary.Write(h, binary.BigEndian,"},
			// ---- B7 (the dedup table only grows)
			{ID: "C13-B7-mismatch-evicts-entry", File: srv, Expect: "B7|dedup only grows",
				Old: "\t\treturn errors.New(\"duplicate ID, mismatching hash\")\n",
				New: "\t\tdelete(s.dedup, key)\n\n\t\treturn errors.New(\"duplicate ID, mismatching hash\")\n"},
			{ID: "C13-B7-table-replaced-by-latest", File: srv, Expect: "B7|dedup only grows",
				Old: "\ts.dedup[key] = hash\n",
				New: "\ts.dedup = map[dedupKey][]byte{key: hash}\n"},
			{ID: "C13-B7-helper-deletefunc-on-param", File: srv, Expect: "B7|dedup only grows",
				Old: "\t\treturn errors.New(\"duplicate ID, mismatching hash\")\n",
				New: "\t\tforgetPeer(s.dedup, pID)\n\n\t\treturn errors.New(\"duplicate ID, mismatching hash\")\n",
				More: [][2]string{
					{"\t\"context\"\n", "\t\"context\"\n\t\"maps\"\n"},
					{"func (s *server) handleSigRequest(", "func forgetPeer(table map[dedupKey][]byte, pID peer.ID) {\n\tmaps.DeleteFunc(table, func(k dedupKey, _ []byte) bool { return k.PeerID == pID })\n}\n\nfunc (s *server) handleSigRequest("},
				}},
			{ID: "C13-B7-clear-on-rejected-request", File: srv, Expect: "B7|dedup only grows",
				Old: "\t\treturn nil, false, errors.Wrap(err, \"signature request message check\")\n",
				New: "\t\ts.mu.Lock()\n\t\tclear(s.dedup)\n\t\ts.mu.Unlock()\n\n\t\treturn nil, false, errors.Wrap(err, \"signature request message check\")\n"},
			{ID: "C13-B7-reset-in-registered-callback", File: srv, Expect: "B7|dedup only grows",
				Old: "\tp2p.RegisterHandler(\"bcast\", p2pNode, protocolIDMsg,\n\t\tfunc() proto.Message { return new(pb.BCastMessage) },\n",
				New: "\tp2p.RegisterHandler(\"bcast\", p2pNode, protocolIDMsg,\n\t\tfunc() proto.Message {\n\t\t\ts.mu.Lock()\n\t\t\ts.dedup = make(map[dedupKey][]byte)\n\t\t\ts.mu.Unlock()\n\n\t\t\treturn new(pb.BCastMessage)\n\t\t},\n"},
			// ---- B5
			{ID: "C13-B5-dedup-unlock-between", File: srv, Expect: "B5",
				Old: "\ts.dedup[key] = hash\n",
				New: "\ts.mu.Unlock()\n\ts.mu.Lock()\n\ts.dedup[key] = hash\n"},
			{ID: "C13-B5-register-wrong-mutex", File: srv, Expect: "B5",
				Old: "func (s *server) registerMessageIDFuncs(msgID string, cb Callback, cm CheckMessage) {\n\ts.msgIDFuncsMutex.Lock()\n\tdefer s.msgIDFuncsMutex.Unlock()",
				New: "func (s *server) registerMessageIDFuncs(msgID string, cb Callback, cm CheckMessage) {\n\ts.mu.Lock()\n\tdefer s.mu.Unlock()"},
			{ID: "C13-B5-lookup-unlocked", File: srv, Expect: "B5",
				Old: "func (s *server) getMessageIDFunc(msgID string) (messageIDFuncs, bool) {\n\ts.msgIDFuncsMutex.Lock()\n\tdefer s.msgIDFuncsMutex.Unlock()\n",
				New: "func (s *server) getMessageIDFunc(msgID string) (messageIDFuncs, bool) {\n"},
			{ID: "C13-B5-register-allow-unlocked", File: impl, Expect: "B5",
				Old: "\tc.allowedMsgIDsMutex.Lock()\n\tdefer c.allowedMsgIDsMutex.Unlock()\n\n\tc.allowedMsgIDs[msgID] = struct{}{}",
				New: "\tc.allowedMsgIDs[msgID] = struct{}{}"},
			{ID: "C13-B5-dedup-unlocked", File: srv, Expect: "B5",
				Old: "func (s *server) dedupHash(pID peer.ID, msgID string, hash []byte) error {\n\ts.mu.Lock()\n\tdefer s.mu.Unlock()\n",
				New: "func (s *server) dedupHash(pID peer.ID, msgID string, hash []byte) error {\n"},
			{ID: "C13-B5-dedup-early-unlock", File: srv, Expect: "B5",
				Old: "\tprevHash, ok := s.dedup[key]\n",
				New: "\ts.mu.Unlock()\n\tprevHash, ok := s.dedup[key]\n\ts.mu.Lock()\n"},
			{ID: "C13-B5-allowed-unlocked", File: impl, Expect: "B5",
				Old: "\tc.allowedMsgIDsMutex.Lock()\n\tdefer c.allowedMsgIDsMutex.Unlock()\n\n\t_, allowed",
				New: "\t_, allowed"},
			// ---- B6
			{ID: "C13-B6-verify-error-dropped", File: cli, Expect: "B6|verifyFunc→sendFunc",
				Old: "\t\treturn errors.Wrap(err, \"verify signatures\")",
				New: "\t\t_ = errors.Wrap(err, \"verify signatures\")"},
			{ID: "C13-B6-send-other-sigs", File: cli, Expect: "B6|sent message",
				Old: "Signatures: sigs,",
				New: "Signatures: sigs[:len(sigs)-1],"},
			{ID: "C13-B6-local-sig-index", File: cli, Expect: "B6|local signature",
				Old: "\t\t\tsigs[i] = sig\n\n\t\t\tcontinue",
				New: "\t\t\tsigs[len(sigs)-1-i] = sig\n\n\t\t\tcontinue"},
			{ID: "C13-B6-sign-hash-of-other-id", File: cli, Expect: "B6|local signature",
				Old: "hash, err := c.hashFunc(msgID, anyMsg)",
				New: "hash, err := c.hashFunc(\"\", anyMsg)"},
			{ID: "C13-B6-sign-truncated-hash", File: cli, Expect: "B6|local signature",
				Old: "c.signFunc(msgID, hash)",
				New: "c.signFunc(msgID, hash[:len(hash)/2])"},
			// ---- added with the path-based reformulation (mechanisms that are now decided on event sequences)
			{ID: "C13-B1-lookup-other-id", File: srv, Expect: "B1|callback lookup id",
				Old: "fn, found := s.getMessageIDFunc(msg.GetId())",
				New: "fn, found := s.getMessageIDFunc(msg.GetMessage().GetTypeUrl())"},
			{ID: "C13-B1-verify-in-goroutine", File: srv, Expect: "B1|verifyFunc→callback",
				Old: "\tif err := s.verifyFunc(msg.GetId(), msg.GetMessage(), msg.GetSignatures()); err != nil {\n\t\treturn nil, false, errors.Wrap(err, \"verify signatures\")\n\t}\n",
				New: "\tgo func() { _ = s.verifyFunc(msg.GetId(), msg.GetMessage(), msg.GetSignatures()) }()\n"},
			{ID: "C13-B1-deliver-raw-any", File: srv, Expect: "B1|payload",
				Old:  "fn.callback(ctx, pID, msg.GetId(), inner)",
				New:  "fn.callback(ctx, pID, msg.GetId(), msg.GetMessage())",
				More: [][2]string{{"\tinner, err := msg.GetMessage().UnmarshalNew()\n\tif err != nil {", "\t_, err := msg.GetMessage().UnmarshalNew()\n\tif err != nil {"}}},
			{ID: "C13-B2-check-lookup-other-id", File: srv, Expect: "B2|checkMessage→signFunc",
				Old: "fn, found := s.getMessageIDFunc(req.GetId())",
				New: "fn, found := s.getMessageIDFunc(req.GetMessage().GetTypeUrl())"},
			{ID: "C13-B2-check-other-message", File: srv, Expect: "B2|checkMessage→signFunc",
				Old: "fn.checkMessage(ctx, pID, req.GetMessage())",
				New: "fn.checkMessage(ctx, pID, (*pb.BCastSigRequest)(nil).GetMessage())"},
			{ID: "C13-B2-dedup-accepts-mismatch", File: srv, Expect: "B2|dedupHash",
				Old: "\t\treturn errors.New(\"duplicate ID, mismatching hash\")",
				New: "\t\treturn nil"},
			{ID: "C13-B2-dedup-other-peer", File: srv, Expect: "B2|dedupHash→signFunc",
				Old: "s.dedupHash(pID, req.GetId(), reqMessageHash)",
				New: "s.dedupHash(\"\", req.GetId(), reqMessageHash)"},
			{ID: "C13-B2-dedup-async", File: srv, Expect: "B2|dedupHash→signFunc",
				Old: "\tif err := s.dedupHash(pID, req.GetId(), reqMessageHash); err != nil {\n\t\treturn nil, false, errors.Wrap(err, \"dedup\")\n\t}\n",
				New: "\tgo func() { _ = s.dedupHash(pID, req.GetId(), reqMessageHash) }()\n"},
			{ID: "C13-B2-dedup-key-without-id", File: srv, Expect: "B2|dedupHash→signFunc",
				Old: "key := dedupKey{PeerID: pID, MsgID: msgID}",
				New: "key := dedupKey{PeerID: pID}"},
			{ID: "C13-B3-verify-first-sig-only", File: impl, Expect: "B3|every signature checked",
				Old: "k1util.Verify65(pubkey, hash, sig)",
				New: "k1util.Verify65(pubkey, hash, sigs[0])"},
			{ID: "C13-B3-allowlist-other-key", File: impl, Expect: "B3|verifier msgIDAllowed",
				Old: "_, allowed := c.allowedMsgIDs[msgID]",
				New: "_, allowed := c.allowedMsgIDs[\"\"]"},
			{ID: "C13-B3-allowlist-result-inverted", File: impl, Expect: "B3|signer",
				Old: "\t\tif !c.msgIDAllowed(msgID) {\n\t\t\treturn nil, errors.New(\"invalid message id\")",
				New: "\t\tif c.msgIDAllowed(msgID) {\n\t\t\treturn nil, errors.New(\"invalid message id\")"},
			{ID: "C13-B3-signer-signs-id", File: impl, Expect: "B3|signer",
				Old: "k1util.Sign(c.secret, hash)",
				New: "k1util.Sign(c.secret, []byte(msgID))"},
			{ID: "C13-B3-hash-error-dropped", File: impl, Expect: "B3|hash provenance",
				Old: "\t\t\treturn errors.Wrap(err, \"hash any\")\n\t\t}\n\n\t\tfor i, sig := range sigs {",
				New: "\t\t\t_ = errors.Wrap(err, \"hash any\")\n\t\t}\n\n\t\tfor i, sig := range sigs {"},
			{ID: "C13-B4-prefix-after-field", File: impl, Expect: "B4|length prefix",
				Old: "\t\t\tif err := binary.Write(h, binary.BigEndian, uint64(len(field))); err != nil {\n\t\t\t\treturn nil, errors.Wrap(err, \"write field length\")\n\t\t\t}\n\n\t\t\tif _, err := h.Write(field); err != nil {\n\t\t\t\treturn nil, errors.Wrap(err, \"write field\")\n\t\t\t}\n",
				New: "\t\t\tif _, err := h.Write(field); err != nil {\n\t\t\t\treturn nil, errors.Wrap(err, \"write field\")\n\t\t\t}\n\n\t\t\tif err := binary.Write(h, binary.BigEndian, uint64(len(field))); err != nil {\n\t\t\t\treturn nil, errors.Wrap(err, \"write field length\")\n\t\t\t}\n"},
			{ID: "C13-B4-other-digest", File: impl, Expect: "B4|result is the digest",
				Old: "return h.Sum(nil), nil",
				New: "return sha256.New().Sum(nil), nil"},
			{ID: "C13-B4-break-after-first", File: impl, Expect: "B4|every field",
				Old: "\t\t\t\treturn nil, errors.Wrap(err, \"write field\")\n\t\t\t}\n",
				New: "\t\t\t\treturn nil, errors.Wrap(err, \"write field\")\n\t\t\t}\n\n\t\t\tif len(anyPB.GetValue()) == 0 {\n\t\t\t\tbreak\n\t\t\t}\n"},
			{ID: "C13-B5-dedup-relock-in-closure", File: srv, Expect: "B5",
				Old: "\ts.dedup[key] = hash\n",
				New: "\tfunc() { s.mu.Unlock(); s.mu.Lock() }()\n\ts.dedup[key] = hash\n"},
			{ID: "C13-B6-verify-after-send", File: cli, Expect: "B6|verifyFunc→sendFunc",
				Old:  "\tif err := c.verifyFunc(msgID, anyMsg, sigs); err != nil {\n\t\treturn errors.Wrap(err, \"verify signatures\")\n\t}\n",
				New:  "",
				More: [][2]string{{"\t\t\treturn errors.Wrap(err, \"send message\")\n\t\t}\n\t}\n\n\treturn nil", "\t\t\treturn errors.Wrap(err, \"send message\")\n\t\t}\n\t}\n\n\treturn c.verifyFunc(msgID, anyMsg, sigs)"}}},
			{ID: "C13-B6-send-other-message", File: cli, Expect: "B6|sent message",
				Old: "Message:    anyMsg,",
				New: "Message:    &anypb.Any{},"},
			{ID: "C13-B6-local-hash-error-dropped", File: cli, Expect: "B6|local signature",
				Old: "\thash, err := c.hashFunc(msgID, anyMsg)\n\tif err != nil {\n\t\treturn errors.Wrap(err, \"hash any\")\n\t}\n",
				New: "\thash, _ := c.hashFunc(msgID, anyMsg)\n"},
			{ID: "C13-B6-local-sig-for-every-peer", File: cli, Expect: "B6|local signature",
				Old: "\t\tif c.p2pNode.ID() == pID {\n\t\t\t// Sign self locally.",
				New: "\t\tif c.p2pNode.ID() != \"\" {\n\t\t\t// Sign self locally."},
			{ID: "C13-B3-wiring-client-other-peers", File: impl, Expect: "B3|New wiring",
				Old: "newClient(p2pNode, peers, p2p.SendReceive",
				New: "newClient(p2pNode, peers[1:], p2p.SendReceive"},
			{ID: "C13-B3-wiring-signer-of-other-component", File: impl, Expect: "B3|New wiring",
				Old: "signFunc := c.newK1Signer()",
				New: "signFunc := (&Component{allowedMsgIDs: map[string]struct{}{\"\": {}}, secret: secret}).newK1Signer()"},
			{ID: "C13-B3-wiring-server-hash-unbound", File: impl, Expect: "B3|New wiring",
				Old: "newServer(p2pNode, signFunc, hashFunc, verifyFunc)",
				New: "newServer(p2pNode, signFunc, newHashAny(nil), verifyFunc)"},
			{ID: "C13-B3-wiring-component-other-peers", File: impl, Expect: "B3|New wiring",
				Old: "\t\tpeers:         peers,\n",
				New: "\t\tpeers:         append([]peer.ID{}, peers[1:]...),\n"},
		},
	})
}

// ---------------------------------------------------------------------------------------------
// static helpers (wiring in New, constructors, lock discipline); the behavioural rules use the path
// toolkit of c13h.go

// c13Binding returns the value bound to free variable fv where its closure is created.
func c13Binding(fv *ssa.FreeVar) ssa.Value {
	fn := fv.Parent()
	par := fn.Parent()
	if par == nil {
		return nil
	}
	idx := -1
	for i, x := range fn.FreeVars {
		if x == fv {
			idx = i
		}
	}
	var out ssa.Value
	for _, in := range an.Instrs(par, false) {
		if mc, ok := in.(*ssa.MakeClosure); ok && mc.Fn == ssa.Value(fn) && idx >= 0 && idx < len(mc.Bindings) {
			if out != nil {
				return nil
			}
			out = mc.Bindings[idx]
		}
	}
	return out
}

// c13UniqueStore returns the only value ever stored into cell a (closures sharing the cell
// included), or nil if there are none or several.
func c13UniqueStore(a *ssa.Alloc) ssa.Value {
	var val ssa.Value
	n := 0
	var visit func(addr ssa.Value, refs []ssa.Instruction) bool
	visit = func(addr ssa.Value, refs []ssa.Instruction) bool {
		for _, ref := range refs {
			switch x := ref.(type) {
			case *ssa.Store:
				if x.Addr == addr {
					val = x.Val
					n++
				}
			case *ssa.MakeClosure:
				cl, ok := x.Fn.(*ssa.Function)
				if !ok {
					return false
				}
				for i, b := range x.Bindings {
					if b == addr && i < len(cl.FreeVars) {
						if !visit(cl.FreeVars[i], *cl.FreeVars[i].Referrers()) {
							return false
						}
					}
				}
			case *ssa.UnOp, *ssa.DebugRef:
			case *ssa.FieldAddr, *ssa.IndexAddr:
				// partial writes through the cell: give up only if something is stored through them
				for _, r2 := range *x.(ssa.Value).Referrers() {
					if st, ok := r2.(*ssa.Store); ok && st.Addr == x.(ssa.Value) {
						return false
					}
				}
			default:
				return false // address escapes
			}
		}
		return true
	}
	if !visit(a, *a.Referrers()) || n != 1 {
		return nil
	}
	return val
}

// c13Origin looks through conversions and through loads of single-assignment cells (locals
// captured by closures, free variables).
func c13Origin(v ssa.Value) ssa.Value {
	for i := 0; i < 16; i++ {
		v = an.Unwrap(v)
		u, ok := v.(*ssa.UnOp)
		if !ok || u.Op != token.MUL {
			return v
		}
		var cell *ssa.Alloc
		switch a := u.X.(type) {
		case *ssa.Alloc:
			cell = a
		case *ssa.FreeVar:
			cell, _ = c13Binding(a).(*ssa.Alloc)
		}
		if cell == nil {
			return v
		}
		s := c13UniqueStore(cell)
		if s == nil {
			return v
		}
		v = s
	}
	return v
}

// c13Returned resolves the single function (literal, bound method or named function) that fn returns.
func c13Returned(c *rt.Ctx, fn *ssa.Function) *ssa.Function {
	var out *ssa.Function
	for _, r := range an.Returns(fn) {
		if len(r.Results) != 1 {
			c.Bail("%s: expected one result", an.FuncName(fn))
		}
		var f *ssa.Function
		switch x := c13Origin(returnValues(r)[0]).(type) {
		case *ssa.MakeClosure:
			f, _ = x.Fn.(*ssa.Function)
		case *ssa.Function:
			f = x
		}
		if f == nil || len(f.Blocks) == 0 {
			c.Bail("%s does not return a function whose body is known", an.FuncName(fn))
		}
		if out != nil && out != f {
			c.Bail("%s returns more than one function", an.FuncName(fn))
		}
		out = f
	}
	if out == nil {
		c.Bail("%s returns no function", an.FuncName(fn))
	}
	return out
}

// c13Outer returns the outermost enclosing function.
func c13Outer(fn *ssa.Function) *ssa.Function {
	for fn.Parent() != nil {
		fn = fn.Parent()
	}
	return fn
}

// c13DynSites lists the dynamic calls in the package whose function value has the named type.
func c13DynSites(c *rt.Ctx, typ string) []ssa.CallInstruction {
	var out []ssa.CallInstruction
	for _, fn := range an.PkgFuncs(c.SSAPkg(c13Pkg)) {
		for _, in := range an.Instrs(fn, false) {
			ci, ok := in.(ssa.CallInstruction)
			if !ok {
				continue
			}
			cc := ci.Common()
			if cc.IsInvoke() || cc.StaticCallee() != nil {
				continue
			}
			if _, isB := cc.Value.(*ssa.Builtin); isB {
				continue
			}
			if an.TypeName(cc.Value.Type()) == typ {
				out = append(out, ci)
			}
		}
	}
	return out
}

const (
	c13TCallback = c13Pkg + ".Callback"
	c13TCheck    = c13Pkg + ".CheckMessage"
	c13THash     = c13Pkg + ".hashFunc"
	c13TSign     = c13Pkg + ".signFunc"
	c13TVerify   = c13Pkg + ".verifyFunc"
	c13TSend     = "p2p.SendFunc"
)

// origin classes of a symbol that is not what a rule expected
const (
	c13Known   = iota // built on the path by operations the walker models: definitely something else
	c13Unknown        // loaded from memory or produced outside the walker's view: cannot tell
)

func (p *c13P) originClass(s *an.Sym) int {
	if s == nil {
		return c13Unknown
	}
	switch s.Kind {
	case an.KInit, an.KParam:
		return c13Unknown
	case an.KOpaque:
		if _, ok := p.def[s.Key()]; ok {
			return c13Known
		}
		return c13Unknown
	case an.KExtract:
		if len(s.Args) == 1 {
			return p.originClass(s.Args[0])
		}
	}
	return c13Known
}

// ---------------------------------------------------------------------------------------------

func c13(c *rt.Ctx) {
	c13N = c13ResolveNames(c.SSAPkg(c13Pkg))
	if os.Getenv("C13_TRACE") != "" {
		for _, n := range strings.Split(os.Getenv("C13_TRACE"), ",") {
			if f := c.FnOpt(n); f != nil {
				c13Trace(f, 8)
			}
		}
		os.Unsetenv("C13_TRACE")
	}
	c.Rule("B1", 4, func() { c13B1(c) })
	c.Rule("B2", 4, func() { c13B2(c) })
	c.Rule("B3", 10, func() { c13B3(c) })
	c.Rule("B4", 7, func() { c13B4(c) })
	c.Rule("B5", 7, func() { c13B5(c) })
	c.Rule("B6", 3, func() { c13B6(c) })
	c.Rule("B7", 2, func() { c13B7(c) })
}

// c13Lookups lists the positions (< before) of the lookups into the map held in struct field `field`.
func (p *c13P) lookupsOf(field string, before int) []int {
	var out []int
	for j, e := range p.Evs {
		if j >= before {
			break
		}
		if e.Kind == "lookup" && len(e.Args) == 2 && e.Args[0].FieldName() == field {
			out = append(out, j)
		}
	}
	return out
}

// c13Roots runs eval on root and then on the outermost function of every site the walk from root did not
// execute; sites that no walk reaches are reported undecided under construct k.
func c13Roots(c *rt.Ctx, agg *h1617Agg, root *ssa.Function, sites []ssa.CallInstruction, k string, eval func(root *ssa.Function) *c13T) {
	visited := map[ssa.Instruction]bool{}
	done := map[*ssa.Function]bool{}
	run := func(r *ssa.Function) {
		if done[r] {
			return
		}
		done[r] = true
		if t := eval(r); t != nil {
			for in := range t.res.Visited {
				visited[in] = true
			}
		}
	}
	if root != nil {
		run(root)
	}
	for _, s := range sites {
		if !visited[s] {
			for _, r := range c13EntryRoots(c13PkgOf(s.Parent()), s.Parent()) {
				run(r)
			}
		}
	}
	for _, s := range sites {
		if !visited[s] {
			agg.unsure(c13ShortName(c13Outer(s.Parent()))+" "+k, s.Pos(), "call site is not reached by the path enumeration (function literal that escapes, or unreachable code)")
		}
	}
}

// B1: every invocation of a registered callback is preceded, on every path, by a verifyFunc call on the same
// (id, message) whose error is known to be nil; the payload is UnmarshalNew of that message (error nil); the
// registry of callbacks is consulted under that id only.
func c13B1(c *rt.Ctx) {
	sites := c13DynSites(c, c13TCallback)
	if len(sites) == 0 {
		c.Bail("no call of a Callback value in dkg/bcast")
	}
	agg := newAgg(c)
	seen := 0
	c13Roots(c, agg, nil, sites, "verifyFunc→callback", func(root *ssa.Function) *c13T {
		name := c13ShortName(root)
		t := c13Trace(root, 3)
		if !t.usable() {
			agg.unsure(name+" verifyFunc→callback", root.Pos(), "path enumeration failed")
			return t
		}
		for _, p := range t.paths {
			for i, e := range p.Evs {
				if e.Kind != "call" || c13Role(e) != c13TCallback {
					continue
				}
				seen++
				pos := e.In.Pos()
				if len(e.Args) != 4 {
					agg.unsure(name+" callback", pos, "unexpected callback arity")
					continue
				}
				g := -1
				why := "no call of the server's verifyFunc precedes the callback"
				for j := 0; j < i; j++ {
					if c13Role(p.Evs[j]) != c13TVerify || p.Evs[j].Kind != "call" {
						continue
					}
					if p.passed(j, i) {
						g = j
					} else {
						why = "the error of verifyFunc is not known to be nil when the callback runs (result dropped, or the failing branch falls through)"
					}
				}
				agg.check(name+" verifyFunc→callback", pos, g >= 0, "callback is reachable without a successful verifyFunc: "+why)
				if g < 0 {
					continue
				}
				ga := p.Evs[g].Args
				if len(ga) != 3 {
					agg.unsure(name+" callback id = verified id", pos, "unexpected verifyFunc arity")
					continue
				}
				agg.check(name+" callback id = verified id", pos, p.same(e.Args[2], ga[0]),
					"the message id handed to the callback is not the id that was verified")
				k := name + " callback lookup id = verified id"
				if lks := p.lookupsOf(c13N.registry, i); len(lks) == 0 {
					agg.unsure(k, pos, "cannot trace the callback to a lookup of server.msgIDFuncs")
				} else {
					good := true
					for _, j := range lks {
						if !p.same(p.Evs[j].Args[1], ga[0]) {
							good = false
						}
					}
					agg.check(k, pos, good, "the callback is looked up under a different id than the verified one")
				}
				// payload
				k = name + " payload = UnmarshalNew(verified message)"
				u, ri := p.producer(e.Args[3])
				isUM := u >= 0 && ri == 0 && (c13StaticName(p.Evs[u]) == c13AnyPkg+".Any.UnmarshalNew" || c13StaticName(p.Evs[u]) == c13AnyPkg+".UnmarshalNew")
				switch {
				case !isUM && p.same(e.Args[3], ga[1]):
					agg.bad(k, pos, "the payload delivered is the any-wrapper itself, not the UnmarshalNew of the verified any-message")
				case !isUM:
					agg.unsure(k, pos, "payload is not the result of an anypb UnmarshalNew call; provenance not recognised")
				case len(p.Evs[u].Args) == 0 || !p.same(p.Evs[u].Args[0], ga[1]):
					agg.bad(k, pos, "the any-message that is unmarshalled and delivered is not the one passed to verifyFunc")
				case !p.passed(u, i):
					agg.bad(k, pos, "UnmarshalNew error is not checked before delivery")
				default:
					agg.ok(k, pos)
				}
			}
		}
		return t
	})
	agg.flush()
	if seen == 0 {
		c.Bail("no call through a Callback value on any path of the functions that contain one")
	}
}

// c13DedupRoot: m is the map held in server.dedup, a map looked up in it (nested tables), or a map made on the
// path that is stored into such a map.
func (p *c13P) dedupRoot(m *an.Sym, d int) bool {
	if m == nil || d > 4 {
		return false
	}
	if m.FieldName() == c13N.dedup {
		return true
	}
	x := m
	if x.Kind == an.KExtract && len(x.Args) == 1 && x.Index == 0 {
		x = x.Args[0]
	}
	if i, ok := p.def[x.Key()]; ok && p.Evs[i].Kind == "lookup" {
		return p.dedupRoot(p.Evs[i].Args[0], d+1)
	}
	if _, parent := p.storedUnder(m); parent != nil {
		return p.dedupRoot(parent, d+1)
	}
	if m.Kind == an.KFresh {
		// a map made on the path that is installed in the dedup field (lazy construction of the table)
		for _, e := range p.Evs {
			if e.Kind == "store" && len(e.Args) == 2 && an.SymEq(e.Args[1], m) && e.Args[0].FieldName() == c13N.dedup {
				return true
			}
		}
	}
	return false
}

// storedUnder: the map m made on the path is stored as a value into another map -> (key, that map).
func (p *c13P) storedUnder(m *an.Sym) (key, parent *an.Sym) {
	if m == nil || m.Kind != an.KFresh {
		return nil, nil
	}
	for _, e := range p.Evs {
		if e.Kind == "mapupdate" && len(e.Args) == 3 && an.SymEq(e.Args[2], m) {
			return e.Args[1], e.Args[0]
		}
	}
	return nil, nil
}

// keyMentions: the key of an access to table m (key k) involves x: in k, in the derivation of m, or in the key
// under which m is stored in its parent table.
func (p *c13P) keyMentions(m, k, x *an.Sym) bool {
	if p.mentions(k, x) || p.mentions(m, x) {
		return true
	}
	if k2, parent := p.storedUnder(m); parent != nil {
		return p.keyMentions(parent, k2, x)
	}
	return false
}

// contains: x occurs structurally in s (operands only; results of lookups and calls are not expanded).
func (p *c13P) contains(s, x *an.Sym, d int) bool {
	if s == nil || d > 8 {
		return false
	}
	if p.same(s, x) {
		return true
	}
	for _, a := range s.Args {
		if p.contains(a, x, d+1) {
			return true
		}
	}
	return false
}

// lookupParts returns the value and presence symbols of lookup event j.
func (p *c13P) lookupParts(j int) (val, found *an.Sym) {
	e := p.Evs[j]
	if lk, ok := e.In.(*ssa.Lookup); ok && lk.CommaOk {
		return &an.Sym{Kind: an.KExtract, Args: []*an.Sym{e.Res}, Index: 0}, &an.Sym{Kind: an.KExtract, Args: []*an.Sym{e.Res}, Index: 1}
	}
	return e.Res, nil
}

var c13BytesEq = map[string]bool{"bytes.Equal": true, "slices.Equal": true}

// equalKnown: between events from and before, a bytes.Equal/slices.Equal of a and b was evaluated and is known
// to be true before `before`.
func (p *c13P) equalKnown(a, b *an.Sym, from, before int) bool {
	for q := from; q < before && q < len(p.Evs); q++ {
		e := p.Evs[q]
		if e.Kind != "call" || !c13BytesEq[c13StaticName(e)] || len(e.Args) != 2 {
			continue
		}
		if !((p.same(e.Args[0], a) && p.same(e.Args[1], b)) || (p.same(e.Args[0], b) && p.same(e.Args[1], a))) {
			continue
		}
		if t, known := p.boolAt(e.Res, before); known && t {
			return true
		}
	}
	return false
}

// dedupAccepted decides whether, before event i, hash was recorded in (or matched against the entry of) the
// dedup table under a key bound to both pid and id.
func (p *c13P) dedupAccepted(i int, pid, id, hash *an.Sym) (bool, string) {
	why := "signFunc is reached without the hash having been recorded in server.dedup (dedupHash)"
	for j := 0; j < i; j++ {
		e := p.Evs[j]
		switch e.Kind {
		case "mapupdate":
			if len(e.Args) != 3 || !p.dedupRoot(e.Args[0], 0) {
				continue
			}
			bound := func(x *an.Sym) bool { return p.keyMentions(e.Args[0], e.Args[1], x) }
			switch {
			case !p.same(e.Args[2], hash) && p.dedupRoot(e.Args[2], 0):
				continue // a nested table being installed; the entry itself is judged at its own update
			case !p.same(e.Args[2], hash) && p.mentions(e.Args[2], hash):
				why = "?the value recorded in server.dedup is derived from the hash signed in a way that is not recognised"
			case !p.same(e.Args[2], hash):
				why = "the hash deduplicated is not the hash signed"
			case !bound(id):
				why = "the id deduplicated is not the id signed"
			case !bound(pid):
				why = "dedupHash is not keyed by the requesting peer"
			default:
				return true, ""
			}
		case "lookup":
			if len(e.Args) != 2 || !p.dedupRoot(e.Args[0], 0) {
				continue
			}
			bound := func(x *an.Sym) bool { return p.keyMentions(e.Args[0], e.Args[1], x) }
			if !bound(id) || !bound(pid) {
				continue
			}
			prev, _ := p.lookupParts(j)
			if p.equalKnown(prev, hash, j, i) {
				return true, ""
			}
		}
	}
	return false, why
}

// B2: on every path of handleSigRequest, signFunc signs the output of hashFunc over the (id, message) that the
// registered checkMessage accepted, after that hash was recorded in / matched against server.dedup for
// (requesting peer, id); and the dedup table never replaces an entry by a different hash.
func c13B2(c *rt.Ctx) {
	sites := c13DynSites(c, c13TSign)
	// everything but the client's own local signing (decided by B6): calls through client.signFunc and calls
	// executed on the paths of client.Broadcast
	clientSide := map[ssa.Instruction]bool{}
	for _, bc := range c13SendRoots(c) {
		for in := range c13Trace(bc, 2).res.Visited {
			clientSide[in] = true
		}
	}
	var srvSites []ssa.CallInstruction
	for _, s := range sites {
		if k, _, ok := an.FieldOf(s.Common().Value); (!ok || k != c13N.cliSign) && !clientSide[s] {
			srvSites = append(srvSites, s)
		}
	}
	if len(srvSites) == 0 {
		c.Bail("no call of the server's signFunc in dkg/bcast")
	}
	isSrvSite := map[ssa.Instruction]bool{}
	for _, s := range srvSites {
		isSrvSite[s] = true
	}
	agg := newAgg(c)
	seen := 0
	c13Roots(c, agg, nil, srvSites, "dedupHash→signFunc", func(root *ssa.Function) *c13T {
		name := c13ShortName(root)
		t := c13Trace(root, 3)
		if !t.usable() {
			agg.unsure(name+" dedupHash→signFunc", root.Pos(), "path enumeration failed")
			return t
		}
		var pidP ssa.Value
		for _, prm := range root.Params {
			if an.TypeName(prm.Type()) == "github.com/libp2p/go-libp2p/core/peer.ID" {
				if pidP != nil {
					pidP = nil
					break
				}
				pidP = prm
			}
		}
		for _, p := range t.paths {
			for i, e := range p.Evs {
				if e.Kind != "call" || !isSrvSite[e.In] {
					continue
				}
				seen++
				pos := e.In.Pos()
				sa := e.Args
				if len(sa) != 2 {
					agg.unsure(name+" signFunc", pos, "unexpected shape")
					continue
				}
				// hashFunc → signFunc
				k := name + " hashFunc→signFunc"
				h, ri := p.producer(sa[1])
				var ha []*an.Sym
				switch {
				case h < 0 && p.originClass(sa[1]) == c13Unknown:
					agg.unsure(k, pos, "cannot trace the value signed to a call")
				case h < 0 || ri != 0 || c13Role(p.Evs[h]) != c13THash:
					agg.bad(k, pos, "the value signed is not the output of s.hashFunc")
				case !p.passed(h, i):
					agg.bad(k, pos, "hashFunc error not checked before signing")
				default:
					ha = p.Evs[h].Args
					agg.check(k, pos, len(ha) == 2 && p.same(sa[0], ha[0]), "the id passed to signFunc is not the id that was hashed")
				}
				// dedup → signFunc
				k = name + " dedupHash→signFunc"
				if pidP == nil {
					agg.unsure(k, pos, "cannot identify the requesting peer among the parameters of "+name)
				} else {
					pid := &an.Sym{Kind: an.KParam, V: pidP}
					ok, why := p.dedupAccepted(i, pid, sa[0], sa[1])
					if !ok && strings.HasPrefix(why, "?") {
						agg.unsure(k, pos, why[1:])
					} else {
						agg.check(k, pos, ok, why)
					}
				}
				// checkMessage → signFunc
				k = name + " checkMessage→signFunc"
				good, unsure, why := false, "", "signFunc is reached without the registered checkMessage"
				for j := 0; j < i; j++ {
					ck := p.Evs[j]
					if ck.Kind != "call" || c13Role(ck) != c13TCheck {
						continue
					}
					lks := p.lookupsOf(c13N.registry, j)
					idOK := len(lks) > 0
					for _, l := range lks {
						if !p.same(p.Evs[l].Args[1], sa[0]) {
							idOK = false
						}
					}
					switch {
					case !p.passed(j, i):
						why = "checkMessage is not a checked guard of signFunc: its error is not known to be nil when signing"
					case ha != nil && (len(ck.Args) != 3 || !p.same(ck.Args[2], ha[1])):
						why = "the message checked is not the message hashed and signed"
					case len(lks) == 0:
						unsure = "cannot trace checkMessage to a lookup of server.msgIDFuncs"
					case !idOK:
						why = "checkMessage is looked up under a different id than the one signed"
					default:
						good = true
					}
				}
				if !good && unsure != "" {
					agg.unsure(k, pos, unsure)
				} else {
					agg.check(k, pos, good, why)
				}
			}
		}
		return t
	})
	agg.flush()
	c13Dedup(c, false)
	if seen == 0 {
		c.Bail("no call through server.signFunc on any path of the functions that contain one")
	}
}

// c13Dedup analyses every function that writes the dedup table. lock == false (rule B2): a hash is stored
// under a key only if a lookup of that key in the same table said "absent" or the entry found equals the hash
// stored; an accepting return implies one of the two. lock == true (rule B5): the mutex is not released
// between that lookup and the store. When the store sits in a helper and the lookup in its caller, the walk is
// repeated from the in-package callers of the helper.
func c13Dedup(c *rt.Ctx, lock bool) {
	funcs := an.PkgFuncs(c.SSAPkg(c13Pkg))
	isTable := c13n4IsTable(c)
	var holders []*ssa.Function
	for _, fn := range funcs {
		if fn.Parent() == nil && len(mapUpdates(fn, isTable)) > 0 {
			holders = append(holders, fn)
		}
	}
	if len(holders) == 0 {
		c.Bail("no function writes server.dedup")
	}
	callersOf := func(targets []*ssa.Function) []*ssa.Function {
		isT := map[*ssa.Function]bool{}
		for _, f := range targets {
			isT[f] = true
		}
		var out []*ssa.Function
		seen := map[*ssa.Function]bool{}
		for _, g := range funcs {
			for _, in := range an.Instrs(g, false) {
				call, ok := in.(*ssa.Call)
				if !ok {
					continue
				}
				if f := call.Call.StaticCallee(); f != nil && isT[f] {
					if o := c13Outer(g); !seen[o] && !isT[o] {
						seen[o] = true
						out = append(out, o)
					}
				}
			}
		}
		return out
	}
	for _, g := range holders {
		name := c13ShortName(g)
		k := name + " compare-then-store"
		if lock {
			k = name + " lookup+store in one critical section"
		}
		roots := []*ssa.Function{g}
		for depth := 0; ; depth++ {
			agg := newAgg(c)
			incomplete := false
			for _, r := range roots {
				if c13DedupRoot(c, agg, r, k, lock, depth == 0) {
					incomplete = true
				}
			}
			up := callersOf(roots)
			if !incomplete || len(up) == 0 || depth >= 2 {
				agg.flush()
				break
			}
			roots = up
		}
	}
}

// c13DedupRoot evaluates the dedup obligations on the paths of root; it reports whether some store had no
// lookup of its key before it on the path (the lookup may sit in a caller).
func c13DedupRoot(c *rt.Ctx, agg *h1617Agg, g *ssa.Function, k string, lock, own bool) (incomplete bool) {
	name := c13ShortName(g)
	t := c13Trace(g, 3)
	if !t.usable() {
		agg.unsure(k, g.Pos(), "path enumeration failed")
		return false
	}
	errIdx := -1
	res := g.Signature.Results()
	for i := 0; i < res.Len(); i++ {
		if an.IsErrorType(res.At(i).Type()) {
			errIdx = i
		}
	}
	pairs, stores := 0, 0
	for _, p := range t.paths {
		accepted := false
		var firstPos token.Pos
		for w, e := range p.Evs {
			if e.Kind == "lookup" && len(e.Args) == 2 && p.dedupRoot(e.Args[0], 0) {
				if !firstPos.IsValid() {
					firstPos = posOf(e.In)
				}
				prev, _ := p.lookupParts(w)
				for q := w + 1; q < len(p.Evs); q++ {
					x := p.Evs[q]
					if x.Kind == "call" && c13BytesEq[c13StaticName(x)] && len(x.Args) == 2 && (p.same(x.Args[0], prev) || p.same(x.Args[1], prev)) {
						if tv, known := p.boolAt(x.Res, len(p.Evs)); known && tv {
							accepted = true
						}
					}
				}
			}
			if e.Kind != "mapupdate" || len(e.Args) != 3 || !p.dedupRoot(e.Args[0], 0) {
				continue
			}
			accepted = true
			if e.Args[0].Kind == an.KFresh {
				continue // a table made on this path has no earlier entries to protect
			}
			stores++
			pos := posOf(e.In)
			verdict, why := "", "the write to dedup is not preceded by a lookup of the same key: an existing entry can be replaced by a different hash"
			for j := 0; j < w; j++ {
				l := p.Evs[j]
				if l.Kind != "lookup" || len(l.Args) != 2 || !p.same(l.Args[0], e.Args[0]) || !p.same(l.Args[1], e.Args[1]) {
					continue
				}
				if lock {
					pairs++
					if verdict == "" {
						verdict = "good"
					}
					for q := j + 1; q < w; q++ {
						u := p.Evs[q]
						if u.Kind == "call" && (c13StaticName(u) == "sync.Mutex.Unlock" || c13StaticName(u) == "sync.RWMutex.Unlock") && len(u.Args) == 1 && c13SameOwner(u.Args[0].FieldName(), c13N.dedup) {
							verdict, why = "bad", "the mutex is released between the lookup of the stored hash and the store: two requests with different hashes can both pass"
							pos = u.In.Pos()
						}
					}
					continue
				}
				prev, found := p.lookupParts(j)
				switch {
				case p.equalKnown(prev, e.Args[2], j, w):
					verdict = "good"
				case found != nil:
					tv, known := p.boolAt(found, w)
					switch {
					case known && !tv:
						verdict = "good"
					case known:
						verdict, why = "bad", "an existing entry can be overwritten without the stored hash having been found equal to the new one"
					default:
						verdict, why = "bad", "the hash is stored before the presence/equality test: a different hash replaces the stored one"
					}
				default:
					tested := false
					for q := j + 1; q < w; q++ {
						if b := p.Evs[q]; b.Kind == "branch" && p.contains(b.Args[0], prev, 0) {
							tested = true
						}
					}
					if isNil, known := p.nilAt(prev, w); known && isNil {
						verdict = "good"
					} else if !tested {
						verdict, why = "bad", "the entry found under the key is never tested before it is replaced: an existing entry can be overwritten"
					} else if verdict == "" {
						verdict, why = "unsure", "the outcome of the lookup that precedes the store is tested in a form that is not recognised"
					}
				}
				if verdict == "good" {
					break
				}
			}
			switch verdict {
			case "good":
				agg.ok(k, pos)
			case "unsure":
				agg.unsure(k, pos, why)
			case "bad":
				agg.bad(k, pos, why)
			default: // no lookup of the key on this path
				incomplete = true
				if !lock {
					agg.bad(k, pos, why)
				}
			}
		}
		if !lock && own && errIdx >= 0 && p.End == "return" && errIdx < len(p.Results) {
			if isNil, known := p.nilAt(p.Results[errIdx], len(p.Evs)); !known {
				agg.unsure(k, g.Pos(), "cannot classify a return of "+name+" as accepting or rejecting")
			} else if isNil && !accepted && firstPos.IsValid() {
				agg.bad(k, firstPos, "a request is accepted (nil error) although its hash was neither stored nor found equal to the stored one")
			}
		}
	}
	if lock && pairs == 0 {
		incomplete = true
		agg.unsure(k, g.Pos(), "no lookup of the key that is stored precedes the store on any path")
	}
	if stores == 0 {
		agg.unsure(k, g.Pos(), "the store into server.dedup is not reached by the path enumeration")
	}
	return incomplete
}

// c13FieldSym: s is the content of struct field key, read directly or through a local that is assigned once
// with a read of that field (`peers := c.peers`, also when captured by the traced literal).
func c13FieldSym(s *an.Sym, key string) bool {
	if s == nil {
		return false
	}
	if s.FieldName() == key {
		return true
	}
	if s.Kind != an.KInit || len(s.Args) != 1 || s.Args[0].Kind != an.KAddr || len(s.Args[0].Args) != 0 {
		return false
	}
	al, ok := s.Args[0].V.(*ssa.Alloc)
	if !ok {
		return false
	}
	v := c13UniqueStore(al)
	if v == nil {
		return false
	}
	in, ok := c13Origin(v).(ssa.Instruction)
	return ok && isLoadOfField(in, key)
}

// c13ErrClass classifies the error result of a finished path: +1 accepting (nil), -1 rejecting, 0 unknown.
func (p *c13P) errClass(idx int) int {
	if p.End != "return" || idx >= len(p.Results) {
		return 0
	}
	isNil, known := p.nilAt(p.Results[idx], len(p.Evs))
	switch {
	case !known:
		return 0
	case isNil:
		return 1
	}
	return -1
}

// mentionsLenOf: the expression s contains len(x) for an x satisfying pred.
func (p *c13P) mentionsLenOf(s *an.Sym, pred func(*an.Sym) bool, d int) bool {
	if s == nil || d > 6 {
		return false
	}
	if x := p.lenOf(s); x != nil && pred(x) {
		return true
	}
	if s.Kind == an.KOpaque {
		return false
	}
	for _, a := range s.Args {
		if p.mentionsLenOf(a, pred, d+1) {
			return true
		}
	}
	return false
}

// c13ConstIdx: s is a non-negative integer constant.
func c13ConstIdx(s *an.Sym) (int64, bool) {
	n, ok := s.IsConstInt()
	return n, ok && n >= 0
}

// allowListed decides whether, before event `before`, the allow-list (Component.allowedMsgIDs) was consulted under
// key id and the entry is known to be present. The test may sit in msgIDAllowed, in any helper or inline.
func (p *c13P) allowListed(id ssa.Value, before int, what string) (bool, string) {
	why := what + " without testing msgIDAllowed(msgID)"
	for j, e := range p.Evs {
		if j >= before {
			break
		}
		if e.Kind != "lookup" || len(e.Args) != 2 || e.Args[0].FieldName() != c13N.allow {
			continue
		}
		if !c13IsParam(e.Args[1], id) {
			why = "msgIDAllowed is applied to something other than the message id concerned"
			continue
		}
		val, found := p.lookupParts(j)
		if found == nil {
			found = val // map[string]bool style
		}
		if tv, known := p.boolAt(found, before); known && tv {
			return true, ""
		}
		why = "msgIDAllowed is not a checked guard: the id is not known to be allow-listed at that point"
	}
	return false, why
}

// originThroughCalls resolves v (used at event `at`) through single-assignment cells and, when it is a parameter
// of a helper the walker stepped into, through the argument at the call that entered the helper.
func (p *c13P) originThroughCalls(v ssa.Value, at int) ssa.Value {
	for d := 0; d < 6; d++ {
		v = c13Origin(v)
		prm, ok := v.(*ssa.Parameter)
		if !ok {
			return v
		}
		found := false
		for j := at - 1; j >= 0; j-- {
			e := p.Evs[j]
			if e.Kind != "enter" || e.Callee != prm.Parent() {
				continue
			}
			ci, ok := e.In.(ssa.CallInstruction)
			if !ok {
				return v
			}
			idx := -1
			for i, q := range prm.Parent().Params {
				if q == prm {
					idx = i
				}
			}
			args := ci.Common().Args
			if ci.Common().IsInvoke() || idx < 0 || idx >= len(args) {
				return v
			}
			v, at, found = args[idx], j, true
			break
		}
		if !found {
			return v
		}
	}
	return v
}

// B3: verifier closure, signer closure, wiring in New.
func c13B3(c *rt.Ctx) {
	anch := c13Anchors(c)
	vf := anch.vfn
	mk := c13MakerFn(vf) // nil if the verifier is not a closure
	if len(vf.Params) != 3 {
		c.Bail("verifier: unexpected signature")
	}
	idP, anyP, sigsP := vf.Params[0], vf.Params[1], vf.Params[2]
	const (
		kLen   = "verifier len(sigs) == len(peers)"
		kAllow = "verifier msgIDAllowed"
		kIdx   = "verifier sigs[i] against peers[i] (same index)"
		kHash  = "verifier hash provenance"
		kAll   = "verifier every signature checked"
	)
	t := c13Trace(vf, 3)
	if !t.usable() {
		c.Bail("verifier: path enumeration failed")
	}
	agg := newAgg(c)
	isPeers := func(s *an.Sym) bool { return c13FieldSym(s, c13N.compPeers) }
	isSigs := func(s *an.Sym) bool { return c13IsParam(s, sigsP) }
	nAccept, nIter, nVerify := 0, 0, 0
	for _, p := range t.paths {
		for _, e := range p.Evs {
			if e.Kind == "call" && c13StaticName(e) == "app/k1util.Verify65" {
				nVerify++
			}
		}
		end := len(p.Evs)
		switch p.errClass(0) {
		case 0:
			agg.unsure("verifier return", vf.Pos(), "cannot classify a return of the verifier as accepting or rejecting")
			continue
		case -1:
			continue
		}
		nAccept++
		pos := vf.Pos()
		// (1) len(sigs) == len(peers)
		{
			eq, ltRej, gtRej, other := false, false, false, false
			for _, e := range p.Evs {
				if e.Kind != "branch" {
					continue
				}
				b := e.Args[0]
				if b.Kind != an.KBin || len(b.Args) != 2 {
					continue
				}
				x, y := p.lenOf(b.Args[0]), p.lenOf(b.Args[1])
				if x == nil || y == nil {
					// len(sigs) tested in a form that is not a plain comparison of two lengths
					_, isC0 := b.Args[0].IsConstInt()
					_, isC1 := b.Args[1].IsConstInt()
					if !isC0 && !isC1 && (p.mentionsLenOf(b.Args[0], isSigs, 0) || p.mentionsLenOf(b.Args[1], isSigs, 0)) {
						other = true
					}
					continue
				}
				sx, sy := isSigs(x), isSigs(y)
				px, py := isPeers(x), isPeers(y)
				if !(sx || sy) {
					continue
				}
				if !((sx && py) || (sy && px)) {
					if (sx && p.originClass(y) == c13Unknown && !sy) || (sy && p.originClass(x) == c13Unknown && !sx) {
						other = true
					}
					continue
				}
				switch b.Op {
				case token.EQL:
					if e.Taken {
						eq = true
					}
				case token.LSS: // x < y
					if !e.Taken {
						if sx { // !(len(sigs) < len(peers))
							ltRej = true
						} else { // !(len(peers) < len(sigs))
							gtRej = true
						}
					}
				}
			}
			why := ""
			switch {
			case eq || (ltRej && gtRej):
			case other:
				agg.unsure(kLen, pos, "len(sigs) is compared with a length whose origin is not recognised")
				why = "-"
			case !ltRej && !gtRej:
				why = "the verifier accepts without comparing len(sigs) with len(peers)"
			case !ltRej:
				why = "the verifier accepts fewer signatures than there are peers: a subset of the members suffices"
			default:
				why = "the verifier accepts more signatures than there are peers"
			}
			if why != "-" {
				agg.check(kLen, pos, why == "", why)
			}
		}
		// (2) msgIDAllowed(msgID)
		{
			good, why := p.allowListed(idP, end, "the verifier accepts")
			agg.check(kAllow, pos, good, why)
		}
		// (3) number of signatures on this path, from the decided bound tests k < len(sigs|peers) (false) or
		// k == len(sigs|peers) (true)
		n := int64(-1)
		for _, e := range p.Evs {
			l, k, rel, ok := p.boundTest(e)
			if !ok || k < 0 || !(isSigs(l) || isPeers(l)) {
				continue
			}
			if (rel == "<" && !e.Taken) || (rel == "==" && e.Taken) {
				if n < 0 || k < n {
					n = k
				}
			}
		}
		// every verification executed on an accepting path succeeded
		for _, e := range p.Evs {
			if e.Kind != "call" || c13StaticName(e) != "app/k1util.Verify65" || len(e.Args) != 3 {
				continue
			}
			tv, known := p.boolAt(c13Result(e, 0), end)
			switch {
			case !p.okNil(c13Result(e, 1), end):
				agg.bad(kAll, e.In.Pos(), "the error result of Verify65 is not known to be nil when the verifier accepts")
			case !known || !tv:
				agg.bad(kAll, e.In.Pos(), "the ok result of Verify65 is not known to be true when the verifier accepts (invalid signature accepted)")
			}
		}
		if n < 0 {
			agg.unsure(kAll, pos, "cannot determine how many signatures an accepting path covers (loop form not recognised)")
			continue
		}
		if n > 0 {
			nIter++
		}
		// the Verify65 calls of the path
		type vrf struct {
			at     int
			sigIdx int64 // -1: not an element of sigs
		}
		var vs []vrf
		unknownSig := false
		for j, e := range p.Evs {
			if e.Kind != "call" || c13StaticName(e) != "app/k1util.Verify65" || len(e.Args) != 3 {
				continue
			}
			v := vrf{at: j, sigIdx: -1}
			if base, idx, ok := c13Elem(e.Args[2]); ok && isSigs(base) {
				if k, ok := c13ConstIdx(idx); ok {
					v.sigIdx = k
				}
			}
			if v.sigIdx < 0 {
				unknownSig = true
			}
			vs = append(vs, v)
		}
		for i := int64(0); i < n; i++ {
			var v *vrf
			for q := range vs {
				if vs[q].sigIdx == i {
					v = &vs[q]
				}
			}
			if v == nil {
				if unknownSig {
					agg.unsure(kAll, pos, "a signature passed to Verify65 is not recognised as an element of the sigs parameter")
				} else {
					agg.bad(kAll, pos, fmt.Sprintf("an accepting path covers %d signature(s) but never verifies sigs[%d] (a signature is skipped)", n, i))
				}
				continue
			}
			e := p.Evs[v.at]
			vpos := e.In.Pos()
			agg.ok(kAll, vpos)
			// same index
			kq, ri := p.producer(e.Args[0])
			if kq < 0 || ri != 0 || c13StaticName(p.Evs[kq]) != "p2p.PeerIDToKey" || len(p.Evs[kq].Args) != 1 {
				if kq < 0 && p.originClass(e.Args[0]) == c13Unknown {
					agg.unsure(kIdx, vpos, "public key is not PeerIDToKey of an indexed element; provenance not recognised")
				} else {
					agg.bad(kIdx, vpos, "the public key is not derived from c.peers by p2p.PeerIDToKey")
				}
			} else {
				base, idx, ok := c13Elem(p.Evs[kq].Args[0])
				k, isC := int64(-1), false
				if ok {
					k, isC = c13ConstIdx(idx)
				}
				switch {
				case !ok:
					agg.unsure(kIdx, vpos, "public key is not PeerIDToKey of an indexed element; provenance not recognised")
				case !isPeers(base):
					agg.bad(kIdx, vpos, "the public key is not derived from c.peers")
				case !isC || k != i:
					agg.bad(kIdx, vpos, "sigs[i] is verified against a peer at a different index")
				case !p.passed(kq, v.at):
					agg.bad(kIdx, vpos, "PeerIDToKey error is not checked")
				default:
					agg.ok(kIdx, vpos)
				}
			}
			// hash provenance
			hq, ri := p.producer(e.Args[1])
			switch {
			case hq < 0 && p.originClass(e.Args[1]) == c13Unknown:
				agg.unsure(kHash, vpos, "cannot trace the hash verified to a call")
			case hq < 0 || ri != 0 || c13Role(p.Evs[hq]) != c13THash:
				agg.bad(kHash, vpos, "the hash verified is not the output of the captured hashFunc")
			default:
				h := p.Evs[hq]
				org := c13SymStatic(p.fnvalAt(hq), 0)
				src, _ := org.(*ssa.Parameter)
				switch {
				case src == nil || mk == nil || src.Parent() != mk:
					switch org.(type) {
					case *ssa.MakeClosure, *ssa.Function, *ssa.Call:
						agg.bad(kHash, vpos, "the hash function called is not the hashFunc handed to the constructor of the verifier")
					default:
						agg.unsure(kHash, vpos, "the origin of the hash function called by the verifier is not traced to a parameter of its constructor")
					}
				case len(h.Args) != 2 || !c13IsParam(h.Args[0], idP):
					agg.bad(kHash, vpos, "the hash is not computed over the message id being verified")
				case !c13IsParam(h.Args[1], anyP):
					agg.bad(kHash, vpos, "the hash is not computed over the message being verified")
				case !p.passed(hq, v.at):
					agg.bad(kHash, vpos, "hashFunc error is not checked")
				default:
					agg.ok(kHash, vpos)
				}
			}
		}
	}
	if nIter == 0 && nAccept > 0 && nVerify > 0 {
		agg.unsure(kAll, vf.Pos(), "no accepting path that covers at least one signature could be enumerated")
	}
	agg.flush()
	if nVerify == 0 {
		c.Bail("no call to k1util.Verify65 on any path of the verifier")
	}
	if nAccept == 0 {
		c.Bail("verifier has no accepting path")
	}

	// signer
	sfn := anch.sfn
	{
		sf := sfn
		if len(sf.Params) != 2 {
			c.Bail("signer: unexpected signature")
		}
		ts := c13Trace(sf, 3)
		if !ts.usable() {
			c.Bail("signer: path enumeration failed")
		}
		sagg := newAgg(c)
		nSign := 0
		const k = "signer msgIDAllowed→Sign"
		for _, p := range ts.paths {
			for i, e := range p.Evs {
				if e.Kind != "call" || c13StaticName(e) != "app/k1util.Sign" {
					continue
				}
				nSign++
				good, why := p.allowListed(sf.Params[0], i, "the signer signs")
				if good && (len(e.Args) != 2 || !c13IsParam(e.Args[1], sf.Params[1])) {
					good, why = false, "the signer signs something other than the hash it was given"
				}
				sagg.check(k, e.In.Pos(), good, why)
			}
		}
		if nSign == 0 {
			c.Bail("no call to k1util.Sign on any path of the signer")
		}
		sagg.flush()
	}

	// wiring
	c13Wiring(c, anch)
}

// c13Wiring decides, on the paths of New (constructors and helpers stepped into): the server and the client
// objects built there hold one and the same (hash, sign, verify) triple; the hash closure is bound to New's
// session hash; signer and verifier are bound to the component that New returns; the verifier is bound to
// that very hash closure; the client iterates over the same peer list as the component (index convention).
func c13Wiring(c *rt.Ctx, anch c13Anch) {
	vf, sf, hfn := anch.vfn, anch.sfn, anch.hfn
	const (
		kSess = "New wiring: hash bound to session"
		kComp = "New wiring: verifier and signer of one component"
		kSrv  = "New wiring: server"
		kCli  = "New wiring: client"
	)
	nw := c.Fn(c13Pkg + ".New")
	var sessP, peersP ssa.Value
	for _, prm := range nw.Params {
		switch an.TypeName(prm.Type()) {
		case "[]byte":
			if sessP != nil {
				c.Bail("New: more than one []byte parameter")
			}
			sessP = prm
		case "[]github.com/libp2p/go-libp2p/core/peer.ID":
			if peersP != nil {
				c.Bail("New: more than one []peer.ID parameter")
			}
			peersP = prm
		}
	}
	if sessP == nil || peersP == nil {
		c.Bail("New: session hash or peers parameter not found")
	}
	t := c13Trace(nw, 2)
	if !t.usable() {
		c.Bail("New: path enumeration failed")
	}
	agg := newAgg(c)
	pos := nw.Pos()
	nObj := 0
	for _, p := range t.paths {
		if p.End != "return" || len(p.Results) != 1 {
			continue
		}
		comp := p.Results[0]
		end := len(p.Evs)
		// content of a closure binding: captured variables are cells, bound receivers are values
		content := func(b *an.Sym) *an.Sym {
			if b != nil && b.Kind == an.KAddr {
				if v := p.cellValue(b.Cell, "", end, 0); v != nil {
					return v
				}
			}
			return b
		}
		isClosureOf := func(v *an.Sym, fn *ssa.Function) bool { return v != nil && v.Kind == an.KClosure && v.Fn == fn }
		// boundTo: some binding of closure cl (or of a closure bound into it) satisfies pred; unknown reports a
		// binding whose content the path does not determine
		var boundTo2 func(cl *an.Sym, pred func(*an.Sym) bool, d int) (found, unknown bool)
		boundTo2 = func(cl *an.Sym, pred func(*an.Sym) bool, d int) (found, unknown bool) {
			var leaves []*an.Sym
			for _, b := range cl.Args {
				// a struct value bound as receiver / captured as a parameter object binds each of its fields
				var ls []*an.Sym
				c13Leaves(content(b), 0, &ls)
				leaves = append(leaves, b)
				for _, l := range ls {
					leaves = append(leaves, l, content(l))
				}
			}
			for _, v := range leaves {
				if pred(v) {
					return true, false
				}
			}
			for _, v := range leaves {
				switch {
				case v != nil && v.Kind == an.KClosure && d < 3:
					f, u := boundTo2(v, pred, d+1)
					if f {
						return true, false
					}
					unknown = unknown || u
				case v != nil && v.Kind != an.KParam && p.originClass(v) == c13Unknown:
					unknown = true
				}
			}
			return false, unknown
		}
		boundTo := func(cl *an.Sym, pred func(*an.Sym) bool) bool { f, _ := boundTo2(cl, pred, 0); return f }
		boundUnknown := func(cl *an.Sym, pred func(*an.Sym) bool) bool { f, u := boundTo2(cl, pred, 0); return !f && u }
		isComp := func(v *an.Sym) bool { return an.SymEq(v, comp) }
		// every hash closure made on the path is bound to the session hash
		for _, e := range p.Evs {
			for _, v := range append(append([]*an.Sym{}, e.Args...), e.Res) {
				if isClosureOf(v, hfn) {
					isSess := func(x *an.Sym) bool { return c13IsParam(x, sessP) }
					if boundUnknown(v, isSess) {
						agg.unsure(kSess, pos, "cannot determine what the hash closure is bound to")
					} else {
						agg.check(kSess, pos, boundTo(v, isSess), "newHashAny is not given the sessionHash parameter")
					}
				}
			}
		}
		// the server and client objects
		objs := map[string]*an.Sym{}
		var order []string
		for _, e := range p.Evs {
			if e.Kind != "store" || len(e.Args) != 2 || e.Args[0].Kind != an.KAddr || len(e.Args[0].Args) != 1 {
				continue
			}
			f := e.Args[0].Field
			if strings.HasPrefix(f, c13Srv+".") || strings.HasPrefix(f, c13Cli+".") {
				base := e.Args[0].Args[0]
				k := f[:strings.LastIndex(f, ".")] + "@" + base.Key()
				if objs[k] == nil {
					objs[k] = base
					order = append(order, k)
				}
			}
		}
		var triple [3]*an.Sym // hash, sign, verify of the first object; the others must agree
		for _, k := range order {
			nObj++
			isSrv := strings.HasPrefix(k, c13Srv+"@")
			kk := kCli
			what := "newClient"
			if isSrv {
				kk, what = kSrv, "newServer"
			}
			f := p.fieldStores(objs[k], end)
			h, sg, vr := f["hashFunc"], f["signFunc"], f["verifyFunc"]
			why := ""
			switch {
			case h == nil || sg == nil || vr == nil:
				agg.unsure(kk, pos, "a function field of the object built by "+what+" is not assigned on the path")
				continue
			case !isClosureOf(h, hfn):
				why = what + " is not given the session-bound hash function built by newHashAny"
			case !isClosureOf(sg, sf):
				why = what + " is not given the signer built by newK1Signer"
			case !isClosureOf(vr, vf):
				why = what + " is not given the verifier built by newPeerK1Verifier"
			case boundUnknown(vr, func(x *an.Sym) bool { return an.SymEq(x, h) }):
				agg.unsure(kk, pos, "cannot determine which hash function the verifier given to "+what+" is bound to")
				continue
			case !boundTo(vr, func(x *an.Sym) bool { return an.SymEq(x, h) }):
				why = "the verifier given to " + what + " is not bound to the hash function given to " + what
			case triple[0] != nil && !(an.SymEq(triple[0], h) && an.SymEq(triple[1], sg) && an.SymEq(triple[2], vr)):
				why = "client and server are not given one and the same (hash, sign, verify) triple"
			case !isSrv && (f["peers"] == nil || !c13IsParam(f["peers"], peersP)):
				why = "newClient is not given the peers parameter of New"
			}
			if triple[0] == nil {
				triple = [3]*an.Sym{h, sg, vr}
			}
			agg.check(kk, pos, why == "", why)
			if why != "" {
				continue
			}
			// one component, one peer list
			cf := map[string]*an.Sym{}
			if comp.Kind == an.KAddr {
				cf = p.fieldStores(comp, end)
				if whole := p.cellValue(comp.Cell, "", end, 0); whole != nil && whole.Kind == an.KStruct {
					for i, v := range whole.Fields {
						name := an.FieldKey(c13TypeOfAddr(comp), i)
						name = name[strings.LastIndex(name, ".")+1:]
						if cf[name] == nil {
							cf[name] = v
						}
					}
				}
			}
			switch {
			case boundUnknown(sg, isComp) || boundUnknown(vr, isComp):
				agg.unsure(kComp, pos, "cannot determine which component the signer or the verifier is bound to")
			case !boundTo(sg, isComp) || !boundTo(vr, isComp):
				agg.bad(kComp, pos, "signer and verifier are not both built on the component that New returns (different allow-lists / keys)")
			case cf["peers"] == nil:
				agg.unsure(kComp, pos, "cannot find the peer list of the component that New returns")
			case !c13IsParam(cf["peers"], peersP):
				agg.bad(kComp, pos, "the component (verifier) and the client do not iterate over the same peer list")
			default:
				agg.ok(kComp, pos)
			}
		}
	}
	agg.flush()
	if nObj < 2 {
		c.Unsure(kSrv, pos, "New does not build both a server and a client object on its paths")
	}
}

// c13Lit is a collection whose elements are determined on the path: a local array (possibly sliced in full), or
// a chain of appends of enumerated elements onto an empty slice.
type c13Lit struct {
	arr   *an.Sym   // the array object (elements are found among the stores of the path)
	elems []*an.Sym // or the appended elements
	n     int64
}

func c13LitOf(x *an.Sym, d int) (c13Lit, bool) {
	if x == nil || d > 3 {
		return c13Lit{}, false
	}
	if x.Kind == an.KAppend {
		base, elems, spread := an.AppendElems(x)
		if spread {
			return c13Lit{}, false
		}
		empty := base == nil || base.IsNil()
		if !empty && base.Kind == an.KFresh {
			if ms, ok := base.V.(*ssa.MakeSlice); ok {
				if n, isC := an.ConstInt(ms.Len); isC && n == 0 {
					empty = true
				}
			}
		}
		if !empty {
			if l, ok := c13LitOf(base, d+1); ok && l.n == 0 {
				empty = true
			}
		}
		if !empty {
			return c13Lit{}, false
		}
		return c13Lit{elems: elems, n: int64(len(elems))}, true
	}
	if x.Kind == an.KFresh {
		if ms, ok := x.V.(*ssa.MakeSlice); ok {
			if n, isC := an.ConstInt(ms.Len); isC {
				return c13Lit{elems: []*an.Sym{}, n: n}, true // make([]T, n): elements are assigned through the path's memory
			}
		}
		return c13Lit{}, false
	}
	if x.Kind == an.KPure && x.Name == "slice" && len(x.Args) == 3 && x.Args[1] == nil && x.Args[2] != nil {
		if hi, isC := x.Args[2].IsConstInt(); isC && hi >= 0 {
			// s[:0], make([]T, n, k): the elements are assigned through the path's memory
			return c13Lit{elems: []*an.Sym{}, n: hi}, true
		}
	}
	if x.Kind == an.KPure && x.Name == "slice" && len(x.Args) == 3 && x.Args[1] == nil && x.Args[2] == nil {
		x = x.Args[0]
	}
	if x == nil || x.Kind != an.KAddr {
		return c13Lit{}, false
	}
	al, isAlloc := x.V.(*ssa.Alloc)
	if !isAlloc {
		return c13Lit{}, false
	}
	ptr, isPtr := al.Type().Underlying().(*types.Pointer)
	if !isPtr {
		return c13Lit{}, false
	}
	at, isArr := ptr.Elem().Underlying().(*types.Array)
	if !isArr {
		return c13Lit{}, false
	}
	return c13Lit{arr: x, n: at.Len()}, true
}

// c13BoundTest decodes a decided branch that compares an integer constant with len(x): it returns x, and the
// truth the branch asserts for the relation rel(k, len(x)) with rel one of "<" (k < len), ">" (k > len), "==".
func (p *c13P) boundTest(e an.Ev) (x *an.Sym, k int64, rel string, ok bool) {
	if e.Kind != "branch" {
		return nil, 0, "", false
	}
	b := e.Args[0]
	if b.Kind != an.KBin || len(b.Args) != 2 || (b.Op != token.LSS && b.Op != token.EQL) {
		return nil, 0, "", false
	}
	if kk, isC := b.Args[0].IsConstInt(); isC {
		if l := p.lenOf(b.Args[1]); l != nil {
			if b.Op == token.EQL {
				return l, kk, "==", true
			}
			return l, kk, "<", true
		}
	}
	if kk, isC := b.Args[1].IsConstInt(); isC {
		if l := p.lenOf(b.Args[0]); l != nil {
			if b.Op == token.EQL {
				return l, kk, "==", true
			}
			return l, kk, ">", true // len < k
		}
	}
	return nil, 0, "", false
}

// lenArgIndexed: the branch base b compares with len(v) where the program value v is somewhere indexed or ranged
// over (a collection that is iterated), as opposed to a value whose length is merely inspected.
func (p *c13P) lenArgIndexed(b *an.Sym) bool {
	for _, a := range b.Args {
		if a == nil || a.Kind != an.KOpaque {
			continue
		}
		i, ok := p.def[a.Key()]
		if !ok || p.Evs[i].Kind != "builtin" || p.Evs[i].Name != "len" {
			continue
		}
		call, ok := p.Evs[i].In.(*ssa.Call)
		if !ok || len(call.Call.Args) != 1 {
			continue
		}
		v := call.Call.Args[0]
		refs := v.Referrers()
		if refs == nil {
			return true // parameter-less value without referrer list: be conservative
		}
		for _, r := range *refs {
			switch x := r.(type) {
			case *ssa.IndexAddr:
				if x.X == v {
					return true
				}
			case *ssa.Index:
				if x.X == v {
					return true
				}
			case *ssa.Range:
				return true
			}
		}
	}
	return false
}

// litBounds inspects the decided comparisons of a constant with len(x): infeasible if one contradicts the known
// length of a literal; unresolved if the length of some x is not known (the path may or may not be feasible).
func (p *c13P) litBounds() (infeasible, unresolved bool) {
	for _, e := range p.Evs {
		x, k, rel, ok := p.boundTest(e)
		if !ok {
			continue
		}
		lit, isLit := c13LitOf(x, 0)
		if !isLit {
			if p.lenArgIndexed(e.Args[0]) {
				unresolved = true // the length of a collection that is iterated by index is not known
			}
			continue
		}
		var truth bool
		switch rel {
		case "<":
			truth = k < lit.n
		case ">":
			truth = k > lit.n
		default:
			truth = k == lit.n
		}
		if truth != e.Taken {
			infeasible = true
		}
	}
	return
}

// litElem resolves a load of literal[k] to the element's value before event `before`; s itself if it is not an
// indexed load.
func (p *c13P) litElem(s *an.Sym, before int) (out *an.Sym, resolved bool) {
	base, idx, ok := c13Elem(s)
	if !ok {
		return s, true
	}
	lit, isLit := c13LitOf(base, 0)
	if !isLit {
		return s, false
	}
	if lit.arr == nil {
		if k, isC := idx.IsConstInt(); isC && k >= 0 && k < int64(len(lit.elems)) {
			return lit.elems[k], true
		}
		return s, false
	}
	val := p.cellValue(lit.arr.Cell, "["+idx.Key()+"]", before, 0)
	if val == nil {
		return s, false
	}
	return val, true
}

// cellValue returns the value last stored (before event `before`) into cell+suffix, looking through whole-value
// copies of the enclosing object (`tmp := [4]T{...}; arr = tmp`).
func (p *c13P) cellValue(cell, suffix string, before, d int) *an.Sym {
	if d > 4 {
		return nil
	}
	for j := before - 1; j >= 0; j-- {
		if j >= len(p.Evs) {
			continue
		}
		e := p.Evs[j]
		if e.Kind != "store" || len(e.Args) != 2 || e.Args[0].Kind != an.KAddr {
			continue
		}
		switch e.Args[0].Cell {
		case cell + suffix:
			return e.Args[1]
		case cell:
			if v := e.Args[1]; v != nil && v.Kind == an.KInit && suffix != "" {
				return p.cellValue(v.Cell, suffix, j, d+1)
			}
			return nil
		}
	}
	return nil
}

var c13PutLen = map[string]bool{
	"encoding/binary.bigEndian.PutUint64": true, "encoding/binary.littleEndian.PutUint64": true,
	"encoding/binary.bigEndian.PutUint32": true, "encoding/binary.littleEndian.PutUint32": true,
}

var c13AppendLen = map[string]bool{
	"encoding/binary.bigEndian.AppendUint64": true, "encoding/binary.littleEndian.AppendUint64": true,
	"encoding/binary.bigEndian.AppendUint32": true, "encoding/binary.littleEndian.AppendUint32": true,
}

// B4: on every successful path of the hash closure the hasher absorbs, in order, pairs (length of field, field)
// and nothing else; the fields absorbed include the session hash, the message id, the type URL and the value of
// the any-message; every successful path absorbs the same fields; the result is the Sum of that hasher.
func c13B4(c *rt.Ctx) {
	hf := c13Anchors(c).hfn
	mk := c13MakerFn(hf)
	if len(hf.Params) != 2 {
		c.Bail("hash function: unexpected signature")
	}
	const (
		kDigest = "newHashAny result is the digest"
		kPrefix = "newHashAny length prefix"
		kEvery  = "newHashAny every field absorbed"
	)
	roleNames := []string{"session hash", "message id", "type URL", "value"}
	roleWhy := []string{
		"the session hash does not flow into the digest: signatures from another ceremony verify",
		"the message id does not flow into the digest: signatures can be replayed under another id",
		"the any type URL does not flow into the digest",
		"the any value (payload bytes) does not flow into the digest",
	}
	t := c13Trace(hf, 8)
	if !t.usable() {
		c.Bail("hash closure: path enumeration failed")
	}
	agg := newAgg(c)
	anyP := hf.Params[1]
	getter := func(p *c13P, s *an.Sym, name, field string) bool {
		if q, ri := p.producer(s); q >= 0 && ri == 0 && c13StaticName(p.Evs[q]) == c13AnyPkg+".Any."+name {
			return len(p.Evs[q].Args) == 1 && c13IsParam(p.Evs[q].Args[0], anyP)
		}
		return s.FieldName() == c13AnyPkg+".Any."+field && s.Kind == an.KInit && len(s.Args) == 1 && len(s.Args[0].Args) == 1 && c13IsParam(s.Args[0].Args[0], anyP)
	}
	role := func(p *c13P, s *an.Sym) int {
		switch {
		case c13IsMakerParam(s, mk, "[]byte"):
			return 0 // the byte string the hash closure is bound to (New wiring: the session hash)
		case c13IsParam(s, hf.Params[0]):
			return 1
		case getter(p, s, "GetTypeUrl", "TypeUrl"):
			return 2
		case getter(p, s, "GetValue", "Value"):
			return 3
		}
		return -1
	}
	var wpos token.Pos
	nAccept := 0
	roleSeen := [4]bool{}
	unknownField := ""
	var firstSet map[string]bool
	setsDiffer, openLoop := false, false
	for _, p := range t.paths {
		infeasible, unresolved := p.litBounds()
		if p.errClass(1) != 1 || infeasible {
			if p.errClass(1) == 0 {
				agg.unsure("newHashAny return", hf.Pos(), "cannot classify a return of the hash closure")
			}
			continue
		}
		if unresolved {
			openLoop = true
		}
		// the hasher
		// the hasher: an incremental one (sha256.New, Write..., Sum) or a one-shot digest of a byte string that is
		// built on the path (sha256.Sum256(concatenation))
		var h *an.Sym
		oneShot := -1
		for j, e := range p.Evs {
			if e.Kind == "call" && c13StaticName(e) == "crypto/sha256.New" && h == nil {
				h = e.Res
			}
			if e.Kind == "call" && c13StaticName(e) == "crypto/sha256.Sum256" && len(e.Args) == 1 && oneShot < 0 {
				oneShot = j
			}
		}
		if h == nil && oneShot < 0 {
			agg.unsure(kDigest, hf.Pos(), "no sha256.New / sha256.Sum256 on a successful path of the hash closure")
			continue
		}
		nAccept++
		onH := func(s *an.Sym) bool { return h != nil && an.SymEq(s, h) }
		type item = c13Item
		var items []item
		// result
		if h != nil {
			q, _ := p.producer(p.Results[0])
			good := q >= 0 && c13InvokeName(p.Evs[q]) == "Sum" && len(p.Evs[q].Args) >= 1 && onH(p.Evs[q].Args[0])
			rp := hf.Pos()
			if q >= 0 {
				rp = p.Evs[q].In.Pos()
			}
			agg.check(kDigest, rp, good, "the value returned on success is not h.Sum of the hasher that absorbed the fields")
		} else {
			e := p.Evs[oneShot]
			r := p.Results[0]
			good := an.SymEq(r, e.Res)
			if !good && r != nil && r.Kind == an.KPure && r.Name == "slice" && len(r.Args) == 3 && r.Args[0] != nil && r.Args[0].Kind == an.KAddr {
				v := p.cellValue(r.Args[0].Cell, "", len(p.Evs), 0)
				good = v != nil && an.SymEq(v, e.Res) && r.Args[1] == nil && r.Args[2] == nil
			}
			agg.check(kDigest, e.In.Pos(), good, "the value returned on success is not the (whole) digest of the byte string that absorbed the fields")
			if !wpos.IsValid() {
				wpos = e.In.Pos()
			}
			if its, ok := p.concat(e.Args[0], oneShot, 0); ok {
				items = its
			} else if q, ri := p.producer(e.Args[0]); q >= 0 && ri == 0 && c13StaticName(p.Evs[q]) == "bytes.Buffer.Bytes" && len(p.Evs[q].Args) == 1 {
				h = p.Evs[q].Args[0] // the content of a bytes.Buffer: what was written into the buffer
			} else {
				agg.unsure(kPrefix, e.In.Pos(), "the byte string that is hashed is not recognised as a concatenation of length prefixes and fields")
				continue
			}
		}
		// absorption sequence
		for j, e := range p.Evs {
			if e.Kind != "call" || h == nil {
				continue
			}
			switch {
			case (c13InvokeName(e) == "Write" || c13StaticName(e) == "bytes.Buffer.Write") && len(e.Args) == 2 && onH(e.Args[0]):
				if !wpos.IsValid() {
					wpos = e.In.Pos()
				}
				x := e.Args[1]
				// a length encoded into a scratch buffer?
				var lenField *an.Sym
				isBuf := false
				for q := 0; q < j; q++ {
					pe := p.Evs[q]
					if pe.Kind == "call" && c13PutLen[c13StaticName(pe)] && len(pe.Args) == 3 && p.same(pe.Args[1], x) {
						isBuf = true
						lenField = p.lenOf(pe.Args[2])
					}
				}
				if q, ri := p.producer(x); q >= 0 && ri == 0 && c13AppendLen[c13StaticName(p.Evs[q])] && len(p.Evs[q].Args) == 3 {
					isBuf = true
					lenField = p.lenOf(p.Evs[q].Args[2])
				}
				if its, ok := p.concat(x, j, 0); ok && !isBuf && len(its) > 0 {
					items = append(items, its...) // a concatenation written at once
				} else if isBuf {
					items = append(items, item{isLen: true, field: lenField, at: j})
				} else {
					items = append(items, item{field: x, at: j})
				}
			case c13StaticName(e) == "encoding/binary.Write" && len(e.Args) == 3 && onH(e.Args[0]):
				if !wpos.IsValid() {
					wpos = e.In.Pos()
				}
				items = append(items, item{isLen: true, field: p.lenOf(e.Args[2]), at: j})
			}
		}
		if len(items) == 0 {
			agg.unsure(kPrefix, hf.Pos(), "no write into the hasher on a successful path")
			continue
		}
		set := map[string]bool{}
		for q := 0; q < len(items); q++ {
			it := items[q]
			pos := p.Evs[it.at].In.Pos()
			if it.isLen {
				switch {
				case it.field == nil:
					agg.unsure(kPrefix, pos, "a fixed-size value that is not recognised as the length of a field is written into the hasher")
				case q+1 >= len(items) || items[q+1].isLen:
					agg.bad(kPrefix, pos, "a length prefix is not followed by its field")
				default:
					nx := items[q+1]
					npos := p.Evs[nx.at].In.Pos()
					a, _ := p.litElem(it.field, it.at)
					b, _ := p.litElem(nx.field, nx.at)
					if p.same(it.field, nx.field) || p.same(a, b) {
						agg.ok(kPrefix, npos)
					} else {
						agg.bad(kPrefix, npos, "the length prefix written is not the length of the field that follows")
					}
				}
				continue
			}
			if q == 0 || !items[q-1].isLen {
				agg.bad(kPrefix, pos, "the field written is not preceded by its length")
			}
			f, resolved := p.litElem(it.field, it.at)
			set[p.ck(f)] = true
			switch r := role(p, f); {
			case r >= 0:
				roleSeen[r] = true
			case !resolved || p.originClass(f) == c13Unknown:
				unknownField = "a field written into the hasher could not be resolved to its source (" + f.Key() + ")"
			}
		}
		if firstSet == nil {
			firstSet = set
		} else if len(set) != len(firstSet) {
			setsDiffer = true
		} else {
			for k := range set {
				if !firstSet[k] {
					setsDiffer = true
				}
			}
		}
	}
	agg.flush()
	if nAccept == 0 {
		c.Bail("hash closure has no successful path (after pruning infeasible loop exits)")
	}
	if !wpos.IsValid() {
		c.Bail("no write into the hasher in the hash closure")
	}
	if setsDiffer && openLoop {
		c.Unsure(kEvery, wpos, "the fields are absorbed in a loop over a collection whose length is not determined on the path")
	} else {
		c.Check(kEvery, wpos, !setsDiffer, "successful paths absorb different sets of fields: an iteration can skip its field or the loop can be left early and still return a digest (ambiguous concatenation)")
	}
	for r := range roleNames {
		k := "newHashAny absorbs " + roleNames[r]
		switch {
		case roleSeen[r]:
			c.Good(k, wpos, "")
		case unknownField != "":
			c.Unsure(k, wpos, unknownField)
		default:
			c.Bad(k, wpos, roleWhy[r])
		}
	}
}

// B5: lock discipline, decided on paths (c13Locks in c13n_ext.go): every access of a table held in a struct field
// of the package (server.dedup, server.msgIDFuncs, Component.allowedMsgIDs, wherever they live and whatever they are
// called) happens, on every path of every entry function, under a mutex of the object that owns the table, and all
// accesses of one table agree on that mutex (taken directly, in a helper such as locked(mu, fn), with defer or with
// explicit unlocks); the dedup lookup and the store it guards are in one critical section (c13Dedup).
func c13B5(c *rt.Ctx) {
	c13Locks(c)
	c13Dedup(c, true)
}

// B6: the client sends what it verified.
func c13B6(c *rt.Ctx) {
	roots := c13SendRoots(c)
	if len(roots) != 1 {
		c.Bail("%d functions send through a SendFunc (expected one: client.Broadcast)", len(roots))
	}
	fn := roots[0]
	const (
		kVerify = "Broadcast verifyFunc→sendFunc"
		kMsg    = "Broadcast sent message = verified (id, message, signatures)"
		kLocal  = "Broadcast local signature over the verified message at the local index"
	)
	isSend := func(e an.Ev) bool {
		return e.Kind == "call" && (c13Role(e) == c13TSend || e.Name == "field:"+c13N.cliSend)
	}
	t := c13Trace(fn, 2)
	if !t.usable() {
		c.Bail("client.Broadcast: path enumeration failed")
	}
	agg := newAgg(c)
	nSend, nSign := 0, 0
	for _, p := range t.paths {
		lastV := -1 // the verification that guards a send on this path
		for i, e := range p.Evs {
			if !isSend(e) {
				continue
			}
			nSend++
			pos := e.In.Pos()
			g := -1
			why := "the broadcast message is sent without c.verifyFunc"
			for j := 0; j < i; j++ {
				if p.Evs[j].Kind != "call" || c13Role(p.Evs[j]) != c13TVerify {
					continue
				}
				if p.passed(j, i) {
					g = j
				} else {
					why = "c.verifyFunc is not a checked guard of the send: its error is not known to be nil when sending"
				}
			}
			agg.check(kVerify, pos, g >= 0, why)
			if g < 0 {
				continue
			}
			lastV = g
			va := p.Evs[g].Args
			if len(e.Args) < 5 || len(va) != 3 {
				agg.unsure(kMsg, pos, "unexpected sendFunc arity")
				continue
			}
			msg := e.Args[4]
			if msg.Kind != an.KAddr || an.TypeName(c13TypeOfAddr(msg)) != "dkg/dkgpb/v1.BCastMessage" {
				agg.unsure(kMsg, pos, "the message sent is not a BCastMessage built on the path")
				continue
			}
			f := p.fieldStores(msg, i)
			why = ""
			switch {
			case f["Id"] == nil || !p.same(f["Id"], va[0]):
				why = "the id sent is not the id verified"
			case f["Message"] == nil || !p.same(f["Message"], va[1]):
				why = "the message sent is not the message verified"
			case f["Signatures"] == nil || !p.same(f["Signatures"], va[2]):
				why = "the signatures sent are not the signatures verified"
			}
			agg.check(kMsg, pos, why == "", why)
		}
		if lastV < 0 {
			continue
		}
		va := p.Evs[lastV].Args
		// local signature(s) that precede the verification
		for i := 0; i < lastV; i++ {
			e := p.Evs[i]
			if e.Kind != "call" || c13Role(e) != c13TSign {
				continue
			}
			nSign++
			pos := e.In.Pos()
			sa := e.Args
			if len(sa) != 2 {
				agg.unsure(kLocal, pos, "unexpected signFunc arity")
				continue
			}
			h, ri := p.producer(sa[1])
			if h < 0 && p.originClass(sa[1]) == c13Unknown {
				agg.unsure(kLocal, pos, "cannot trace the value signed locally to a call")
				continue
			}
			why := ""
			switch {
			case h < 0 || ri != 0 || c13Role(p.Evs[h]) != c13THash:
				why = "the local signature is not over the output of c.hashFunc"
			case !p.passed(h, i):
				why = "hashFunc error not checked before signing locally"
			case len(p.Evs[h].Args) != 2 || !p.same(p.Evs[h].Args[0], va[0]) || !p.same(p.Evs[h].Args[1], va[1]):
				why = "the hash signed locally is not the hash of the (id, message) that is verified and sent"
			case !p.same(sa[0], va[0]):
				why = "the local signature is requested under a different id"
			}
			if why != "" {
				agg.bad(kLocal, pos, why)
				continue
			}
			sig := c13Result(e, 0)
			st := -1
			for j := i + 1; j < lastV; j++ {
				x := p.Evs[j]
				if x.Kind == "store" && len(x.Args) == 2 && p.same(x.Args[1], sig) {
					if a := x.Args[0]; a.Kind == an.KAddr && len(a.Args) == 2 {
						st = j
					}
				}
			}
			if st < 0 {
				agg.unsure(kLocal, pos, "cannot find where the local signature is placed into a signature list")
				continue
			}
			addr := p.Evs[st].Args[0]
			base, idx := addr.Args[0], addr.Args[1]
			switch {
			case !p.same(base, va[2]):
				why = "the local signature is not stored into the list that is verified"
			case !p.passed(i, st):
				why = "signFunc error not checked"
			default:
				// the slot is the index of the local peer: peers[idx] == p2pNode.ID() is known to hold
				onEq, sawTest, sawID := false, false, false
				for j := 0; j < st; j++ {
					b := p.Evs[j]
					if b.Kind != "branch" {
						continue
					}
					x := b.Args[0]
					if x.Kind != an.KBin || x.Op != token.EQL || len(x.Args) != 2 {
						continue
					}
					for _, pr := range [][2]*an.Sym{{x.Args[0], x.Args[1]}, {x.Args[1], x.Args[0]}} {
						q, _ := p.producer(pr[0])
						if q < 0 || c13InvokeName(p.Evs[q]) != "ID" || len(p.Evs[q].Args) == 0 || !c13FieldSym(p.Evs[q].Args[0], c13N.cliHost) {
							continue
						}
						sawID = true
						eb, ei, ok := c13Elem(pr[1])
						if !ok || !c13FieldSym(eb, c13N.cliPeers) {
							continue
						}
						sawTest = true
						if b.Taken && p.same(ei, idx) {
							onEq = true
						}
					}
				}
				// or the slot is slices.Index(peers, p2pNode.ID()): the index itself, or an index found equal to it
				selfIndex := func(x *an.Sym) bool {
					q, _ := p.producer(x)
					if q < 0 || !strings.HasPrefix(c13StaticName(p.Evs[q]), "slices.Index") || len(p.Evs[q].Args) != 2 || !c13FieldSym(p.Evs[q].Args[0], c13N.cliPeers) {
						return false
					}
					q2, _ := p.producer(p.Evs[q].Args[1])
					return q2 >= 0 && c13InvokeName(p.Evs[q2]) == "ID" && len(p.Evs[q2].Args) > 0 && c13FieldSym(p.Evs[q2].Args[0], c13N.cliHost)
				}
				if selfIndex(idx) {
					onEq = true
				}
				for j := 0; j < st && !onEq; j++ {
					b := p.Evs[j]
					if b.Kind != "branch" || !b.Taken {
						continue
					}
					x := b.Args[0]
					if x.Kind == an.KBin && x.Op == token.EQL && len(x.Args) == 2 &&
						((p.same(x.Args[0], idx) && selfIndex(x.Args[1])) || (p.same(x.Args[1], idx) && selfIndex(x.Args[0]))) {
						onEq = true
					}
				}
				switch {
				case onEq:
				case sawTest:
					why = "the local signature is not stored at the index of the local peer"
				case sawID:
					why = "the local signature is not stored on the `p2pNode.ID() == peers[i]` edge"
				default:
					agg.unsure(kLocal, pos, "cannot find the test that identifies the local peer's slot")
					continue
				}
			}
			agg.check(kLocal, pos, why == "", why)
		}
	}
	agg.flush()
	if nSend == 0 {
		c.Bail("no call to c.sendFunc on any path of client.Broadcast")
	}
	if nSign == 0 {
		c.Unsure(kLocal, fn.Pos(), "no call through client.signFunc precedes a successful verification on any path of client.Broadcast")
	}
}

// c13TypeOfAddr: static type of the object a KAddr symbol of an executed Alloc points to.
func c13TypeOfAddr(s *an.Sym) types.Type {
	if s == nil || s.V == nil {
		return nil
	}
	return s.V.Type()
}
