package rules

import (
	"fmt"
	"go/token"
	"sort"
	"strings"

	"golang.org/x/tools/go/ssa"

	"charonverif/internal/an"
	"charonverif/internal/rt"
)

// C13 — DKG reliable broadcast (package dkg/bcast). Rules B1..B6 of DESIGN §5.

const (
	c13Pkg    = "dkg/bcast"
	c13Srv    = c13Pkg + ".server"
	c13Cli    = c13Pkg + ".client"
	c13Comp   = c13Pkg + ".Component"
	c13Funcs  = c13Pkg + ".messageIDFuncs"
	c13AnyPkg = "google.golang.org/protobuf/types/known/anypb"
)

func init() {
	const srv, cli, impl = "dkg/bcast/server.go", "dkg/bcast/client.go", "dkg/bcast/impl.go"
	Register(&Prop{
		ID: "C13",
		Decides: "dkg/bcast: (B1) a registered callback is invoked only after verifyFunc succeeded on the very (id, any-message) whose UnmarshalNew is delivered, " +
			"looked up under the same id; (B2) the signature handler signs only the hashFunc output of the checked (id, message), after dedupHash accepted that hash for (sender, id), " +
			"and dedupHash stores a hash only if no different hash was stored before; (B3) the verifier accepts only if len(sigs)==len(peers), the id is allow-listed, " +
			"and every sigs[i] verifies against peers[i] over the session-bound hash of (id, message); the signer signs only allow-listed ids; New wires one hash/sign/verify triple into client and server; " +
			"(B4) the hash absorbs session hash, id, type URL and value, each length-prefixed; (B5) dedup/msgIDFuncs/allowedMsgIDs only under their mutexes, dedup lookup+store in one critical section; " +
			"(B6) the client sends exactly the (id, message, signatures) it verified, the local signature being over the hash of that message at the local index.",
		NotDecided: "the agreement conclusion itself (no two members deliver different payloads), secp256k1 arithmetic, that the signed hash does not bind the originating sender " +
			"(left to application callbacks), the redundant length-65 test (k1util.Recover rejects other lengths), checkMessage/callback bodies.",
		Run: c13,
		Mutants: []Mutant{
			// ---- B1
			{ID: "C13-B1-callback-before-verify", File: srv, Expect: "B1|verifyFunc→callback",
				Old: "\tif err := s.verifyFunc(msg.GetId(), msg.GetMessage(), msg.GetSignatures()); err != nil {\n\t\treturn nil, false, errors.Wrap(err, \"verify signatures\")\n\t}\n\n\tinner, err := msg.GetMessage().UnmarshalNew()\n\tif err != nil {\n\t\treturn nil, false, errors.Wrap(err, \"unmarshal any\")\n\t}\n\n\tfn, found := s.getMessageIDFunc(msg.GetId())\n\tif !found {\n\t\treturn nil, false, errors.New(\"unknown message id\", z.Str(\"message_id\", msg.GetId()))\n\t}\n\n\tif err := fn.callback(ctx, pID, msg.GetId(), inner); err != nil {\n\t\treturn nil, false, errors.Wrap(err, \"callback\")\n\t}\n",
				New: "\tinner, err := msg.GetMessage().UnmarshalNew()\n\tif err != nil {\n\t\treturn nil, false, errors.Wrap(err, \"unmarshal any\")\n\t}\n\n\tfn, found := s.getMessageIDFunc(msg.GetId())\n\tif !found {\n\t\treturn nil, false, errors.New(\"unknown message id\", z.Str(\"message_id\", msg.GetId()))\n\t}\n\n\tif err := fn.callback(ctx, pID, msg.GetId(), inner); err != nil {\n\t\treturn nil, false, errors.Wrap(err, \"callback\")\n\t}\n\n\tif err := s.verifyFunc(msg.GetId(), msg.GetMessage(), msg.GetSignatures()); err != nil {\n\t\treturn nil, false, errors.Wrap(err, \"verify signatures\")\n\t}\n"},
			{ID: "C13-B1-verify-error-dropped", File: srv, Expect: "B1|verifyFunc→callback",
				Old: "\t\treturn nil, false, errors.Wrap(err, \"verify signatures\")",
				New: "\t\t_ = errors.Wrap(err, \"verify signatures\")"},
			{ID: "C13-B1-verify-weakened", File: srv, Expect: "B1|verifyFunc→callback",
				Old: "msg.GetSignatures()); err != nil {",
				New: "msg.GetSignatures()); err != nil && len(msg.GetSignatures()) == 0 {"},
			{ID: "C13-B1-other-id-delivered", File: srv, Expect: "B1|callback id",
				Old: "fn.callback(ctx, pID, msg.GetId(), inner)",
				New: "fn.callback(ctx, pID, msg.GetMessage().GetTypeUrl(), inner)"},
			{ID: "C13-B1-verify-other-message", File: srv, Expect: "B1|payload",
				Old: "s.verifyFunc(msg.GetId(), msg.GetMessage(), msg.GetSignatures())",
				New: "s.verifyFunc(msg.GetId(), (*pb.BCastMessage)(nil).GetMessage(), msg.GetSignatures())"},
			{ID: "C13-B1-unmarshal-error-dropped", File: srv, Expect: "B1|payload",
				Old: "\t\treturn nil, false, errors.Wrap(err, \"unmarshal any\")",
				New: "\t\t_ = errors.Wrap(err, \"unmarshal any\")"},
			// ---- B2
			{ID: "C13-B2-skip-dedup", File: srv, Expect: "B2|dedupHash→signFunc",
				Old: "\tif err := s.dedupHash(pID, req.GetId(), reqMessageHash); err != nil {\n\t\treturn nil, false, errors.Wrap(err, \"dedup\")\n\t}\n",
				New: ""},
			{ID: "C13-B2-dedup-error-logged", File: srv, Expect: "B2|dedupHash→signFunc",
				Old: "\t\treturn nil, false, errors.Wrap(err, \"dedup\")",
				New: "\t\t_ = errors.Wrap(err, \"dedup\")"},
			{ID: "C13-B2-sign-before-dedup", File: srv, Expect: "B2|dedupHash→signFunc",
				Old: "\tif err := s.dedupHash(pID, req.GetId(), reqMessageHash); err != nil {\n\t\treturn nil, false, errors.Wrap(err, \"dedup\")\n\t}\n\n\tsig, err := s.signFunc(req.GetId(), reqMessageHash)\n\tif err != nil {\n\t\treturn nil, false, errors.Wrap(err, \"sign hash\")\n\t}\n",
				New: "\tsig, err := s.signFunc(req.GetId(), reqMessageHash)\n\tif err != nil {\n\t\treturn nil, false, errors.Wrap(err, \"sign hash\")\n\t}\n\n\tif err := s.dedupHash(pID, req.GetId(), reqMessageHash); err != nil {\n\t\treturn nil, false, errors.Wrap(err, \"dedup\")\n\t}\n"},
			{ID: "C13-B2-sign-message-only", File: srv, Expect: "B2|hashFunc→signFunc",
				Old: "s.signFunc(req.GetId(), reqMessageHash)",
				New: "s.signFunc(req.GetId(), req.GetMessage().GetValue())"},
			{ID: "C13-B2-dedup-other-id", File: srv, Expect: "B2|dedupHash→signFunc",
				Old: "s.dedupHash(pID, req.GetId(), reqMessageHash)",
				New: "s.dedupHash(pID, req.GetMessage().GetTypeUrl(), reqMessageHash)"},
			{ID: "C13-B2-check-error-dropped", File: srv, Expect: "B2|checkMessage→signFunc",
				Old: "\t\treturn nil, false, errors.Wrap(err, \"signature request message check\")",
				New: "\t\t_ = errors.Wrap(err, \"signature request message check\")"},
			{ID: "C13-B2-dedup-not-found-only", File: srv, Expect: "B2|dedupHash compare",
				Old: "if ok && !bytes.Equal(prevHash, hash) {",
				New: "if !ok && !bytes.Equal(prevHash, hash) {"},
			{ID: "C13-B2-dedup-self-compare", File: srv, Expect: "B2|dedupHash compare",
				Old: "if ok && !bytes.Equal(prevHash, hash) {",
				New: "if ok && !bytes.Equal(hash, hash) && prevHash != nil {"},
			{ID: "C13-B2-dedup-store-first", File: srv, Expect: "B2|dedupHash compare",
				Old: "\tprevHash, ok := s.dedup[key]\n\tif ok && !bytes.Equal(prevHash, hash) {\n\t\treturn errors.New(\"duplicate ID, mismatching hash\")\n\t}\n\n\ts.dedup[key] = hash\n",
				New: "\tprevHash, ok := s.dedup[key]\n\ts.dedup[key] = hash\n\n\tif ok && !bytes.Equal(prevHash, hash) {\n\t\treturn errors.New(\"duplicate ID, mismatching hash\")\n\t}\n"},
			// ---- B3
			{ID: "C13-B3-length-test-weakened", File: impl, Expect: "B3|len(sigs)",
				Old: "if len(sigs) != len(c.peers) {",
				New: "if len(sigs) > len(c.peers) {"},
			{ID: "C13-B3-length-test-deleted", File: impl, Expect: "B3|len(sigs)",
				Old: "\t\tif len(sigs) != len(c.peers) {\n\t\t\treturn errors.New(\"invalid number of signatures\")\n\t\t}\n",
				New: ""},
			{ID: "C13-B3-empty-sigs-accepted", File: impl, Expect: "B3|len(sigs)",
				Old: "\t\tif len(sigs) != len(c.peers) {\n",
				New: "\t\tif len(sigs) == 0 {\n\t\t\treturn nil\n\t\t}\n\n\t\tif len(sigs) != len(c.peers) {\n"},
			{ID: "C13-B3-invalid-sig-break", File: impl, Expect: "B3|every signature checked",
				Old: "\t\t\t} else if !ok {\n\t\t\t\treturn errors.New(\"invalid signature\")",
				New: "\t\t\t} else if !ok {\n\t\t\t\tbreak"},
			{ID: "C13-B3-peer-zero", File: impl, Expect: "B3|same index",
				Old: "p2p.PeerIDToKey(c.peers[i])",
				New: "p2p.PeerIDToKey(c.peers[len(c.peers)-1-i])"},
			{ID: "C13-B3-peer-half-index", File: impl, Expect: "B3|same index",
				Old: "p2p.PeerIDToKey(c.peers[i])",
				New: "p2p.PeerIDToKey(c.peers[i/2])"},
			{ID: "C13-B3-invalid-sig-logged", File: impl, Expect: "B3|every signature checked",
				Old: "\t\t\t} else if !ok {\n\t\t\t\treturn errors.New(\"invalid signature\")",
				New: "\t\t\t} else if !ok {\n\t\t\t\t_ = errors.New(\"invalid signature\")"},
			{ID: "C13-B3-skip-short-sig", File: impl, Expect: "B3|every signature checked",
				Old: "\t\t\t\treturn errors.New(\"invalid signature length, expect 65 bytes [R || S || V] format\")",
				New: "\t\t\t\tcontinue"},
			{ID: "C13-B3-verifier-id-not-allowlisted", File: impl, Expect: "B3|verifier msgIDAllowed",
				Old: "\t\tif !c.msgIDAllowed(msgID) {\n\t\t\treturn errors.New(\"invalid message id\")\n\t\t}\n\n\t\thash, err",
				New: "\t\tif !c.msgIDAllowed(msgID) && len(sigs) == 0 {\n\t\t\treturn errors.New(\"invalid message id\")\n\t\t}\n\n\t\thash, err"},
			{ID: "C13-B3-hash-of-other-id", File: impl, Expect: "B3|hash provenance",
				Old: "hash, err := hashFunc(msgID, anyPB)",
				New: "hash, err := hashFunc(anyPB.GetTypeUrl(), anyPB)"},
			{ID: "C13-B3-signer-any-id", File: impl, Expect: "B3|signer",
				Old: "\t\tif !c.msgIDAllowed(msgID) {\n\t\t\treturn nil, errors.New(\"invalid message id\")",
				New: "\t\tif !c.msgIDAllowed(msgID) && len(hash) == 0 {\n\t\t\treturn nil, errors.New(\"invalid message id\")"},
			{ID: "C13-B3-wiring-unbound-hash", File: impl, Expect: "B3|New wiring",
				Old: "verifyFunc := c.newPeerK1Verifier(hashFunc)",
				New: "verifyFunc := c.newPeerK1Verifier(newHashAny(nil))"},
			// ---- B4
			{ID: "C13-B4-drop-session", File: impl, Expect: "B4|session hash",
				Old: "[][]byte{sessionHash, []byte(msgID),",
				New: "[][]byte{[]byte(msgID),"},
			{ID: "C13-B4-drop-msgid", File: impl, Expect: "B4|message id",
				Old: "[][]byte{sessionHash, []byte(msgID),",
				New: "[][]byte{sessionHash,"},
			{ID: "C13-B4-typeurl-twice", File: impl, Expect: "B4|message id",
				Old: "[][]byte{sessionHash, []byte(msgID),",
				New: "[][]byte{sessionHash, []byte(anyPB.GetTypeUrl()),"},
			{ID: "C13-B4-wrong-length-prefix", File: impl, Expect: "B4|length prefix",
				Old: "uint64(len(field))",
				New: "uint64(len(sessionHash))"},
			{ID: "C13-B4-skip-empty-field", File: impl, Expect: "B4|every field",
				Old: "\t\t\tif err := binary.Write(h, binary.BigEndian,",
				New: "\t\t\tif len(field) == 0 {\n\t\t\t\tcontinue\n\t\t\t}\n\n\t\t\tif err := binary.Write(h, binary.BigEndian,"},
			// ---- B5
			{ID: "C13-B5-dedup-unlock-between", File: srv, Expect: "B5",
				Old: "\ts.dedup[key] = hash\n",
				New: "\ts.mu.Unlock()\n\ts.mu.Lock()\n\ts.dedup[key] = hash\n"},
			{ID: "C13-B5-register-wrong-mutex", File: srv, Expect: "B5",
				Old: "func (s *server) registerMessageIDFuncs(msgID string, cb Callback, cm CheckMessage) {\n\ts.msgIDFuncsMutex.Lock()\n\tdefer s.msgIDFuncsMutex.Unlock()",
				New: "func (s *server) registerMessageIDFuncs(msgID string, cb Callback, cm CheckMessage) {\n\ts.mu.Lock()\n\tdefer s.mu.Unlock()"},
			{ID: "C13-B5-lookup-unlocked", File: srv, Expect: "B5",
				Old: "func (s *server) getMessageIDFunc(msgID string) (messageIDFuncs, bool) {\n\ts.msgIDFuncsMutex.Lock()\n\tdefer s.msgIDFuncsMutex.Unlock()\n",
				New: "func (s *server) getMessageIDFunc(msgID string) (messageIDFuncs, bool) {\n"},
			{ID: "C13-B5-allowed-unlocked", File: impl, Expect: "B5",
				Old: "\tc.allowedMsgIDsMutex.Lock()\n\tdefer c.allowedMsgIDsMutex.Unlock()\n\n\t_, allowed",
				New: "\t_, allowed"},
			// ---- B6
			{ID: "C13-B6-verify-error-dropped", File: cli, Expect: "B6|verifyFunc→sendFunc",
				Old: "\t\treturn errors.Wrap(err, \"verify signatures\")",
				New: "\t\t_ = errors.Wrap(err, \"verify signatures\")"},
			{ID: "C13-B6-send-other-sigs", File: cli, Expect: "B6|sent message",
				Old: "Signatures: sigs,",
				New: "Signatures: sigs[:len(sigs)-1],"},
			{ID: "C13-B6-local-sig-index", File: cli, Expect: "B6|local signature",
				Old: "\t\t\tsigs[i] = sig\n\n\t\t\tcontinue",
				New: "\t\t\tsigs[len(sigs)-1-i] = sig\n\n\t\t\tcontinue"},
			{ID: "C13-B6-sign-hash-of-other-id", File: cli, Expect: "B6|local signature",
				Old: "hash, err := c.hashFunc(msgID, anyMsg)",
				New: "hash, err := c.hashFunc(\"\", anyMsg)"},
			{ID: "C13-B6-sign-truncated-hash", File: cli, Expect: "B6|local signature",
				Old: "c.signFunc(msgID, hash)",
				New: "c.signFunc(msgID, hash[:len(hash)/2])"},
		},
	})
}

// ---------------------------------------------------------------------------------------------
// helpers (all prefixed c13)

// c13Binding returns the value bound to free variable fv where its closure is created.
func c13Binding(fv *ssa.FreeVar) ssa.Value {
	fn := fv.Parent()
	par := fn.Parent()
	if par == nil {
		return nil
	}
	idx := -1
	for i, x := range fn.FreeVars {
		if x == fv {
			idx = i
		}
	}
	var out ssa.Value
	for _, in := range an.Instrs(par, false) {
		if mc, ok := in.(*ssa.MakeClosure); ok && mc.Fn == ssa.Value(fn) && idx >= 0 && idx < len(mc.Bindings) {
			if out != nil {
				return nil
			}
			out = mc.Bindings[idx]
		}
	}
	return out
}

// c13UniqueStore returns the only value ever stored into cell a (closures sharing the cell
// included), or nil if there are none or several.
func c13UniqueStore(a *ssa.Alloc) ssa.Value {
	var val ssa.Value
	n := 0
	var visit func(addr ssa.Value, refs []ssa.Instruction) bool
	visit = func(addr ssa.Value, refs []ssa.Instruction) bool {
		for _, ref := range refs {
			switch x := ref.(type) {
			case *ssa.Store:
				if x.Addr == addr {
					val = x.Val
					n++
				}
			case *ssa.MakeClosure:
				cl, ok := x.Fn.(*ssa.Function)
				if !ok {
					return false
				}
				for i, b := range x.Bindings {
					if b == addr && i < len(cl.FreeVars) {
						if !visit(cl.FreeVars[i], *cl.FreeVars[i].Referrers()) {
							return false
						}
					}
				}
			case *ssa.UnOp, *ssa.DebugRef:
			case *ssa.FieldAddr, *ssa.IndexAddr:
				// partial writes through the cell: give up only if something is stored through them
				for _, r2 := range *x.(ssa.Value).Referrers() {
					if st, ok := r2.(*ssa.Store); ok && st.Addr == x.(ssa.Value) {
						return false
					}
				}
			default:
				return false // address escapes
			}
		}
		return true
	}
	if !visit(a, *a.Referrers()) || n != 1 {
		return nil
	}
	return val
}

// c13Origin looks through conversions and through loads of single-assignment cells (locals
// captured by closures, free variables).
func c13Origin(v ssa.Value) ssa.Value {
	for i := 0; i < 16; i++ {
		v = an.Unwrap(v)
		u, ok := v.(*ssa.UnOp)
		if !ok || u.Op != token.MUL {
			return v
		}
		var cell *ssa.Alloc
		switch a := u.X.(type) {
		case *ssa.Alloc:
			cell = a
		case *ssa.FreeVar:
			cell, _ = c13Binding(a).(*ssa.Alloc)
		}
		if cell == nil {
			return v
		}
		s := c13UniqueStore(cell)
		if s == nil {
			return v
		}
		v = s
	}
	return v
}

// c13Same: two operands denote the same value (after looking through single-assignment cells).
func c13Same(a, b ssa.Value) bool {
	return an.Equiv(a, b) || an.Equiv(c13Origin(a), c13Origin(b))
}

// c13Is: v is value p (a parameter, typically) possibly through a single-assignment cell.
func c13Is(v, p ssa.Value) bool { return an.Unwrap(v) == p || c13Origin(v) == p }

// c13LenArg: v == len(x) -> x.
func c13LenArg(v ssa.Value) ssa.Value {
	if call, ok := an.Unwrap(v).(*ssa.Call); ok {
		if b, ok := call.Call.Value.(*ssa.Builtin); ok && b.Name() == "len" && len(call.Call.Args) == 1 {
			return call.Call.Args[0]
		}
	}
	return nil
}

// c13FieldLoad: v is a load of the named struct field.
func c13FieldLoad(v ssa.Value, key string) bool {
	in, ok := an.Unwrap(v).(ssa.Instruction)
	return ok && isLoadOfField(in, key)
}

// c13RetVal returns the value returned at result idx, looking through the spill cell that a
// `defer` introduces for results (last store in the returning block).
func c13RetVal(r *ssa.Return, idx int) ssa.Value {
	if idx >= len(r.Results) {
		return nil
	}
	v := r.Results[idx]
	if u, ok := v.(*ssa.UnOp); ok && u.Op == token.MUL {
		if a, ok := u.X.(*ssa.Alloc); ok {
			ins := r.Block().Instrs
			for i := len(ins) - 1; i >= 0; i-- {
				if st, ok := ins[i].(*ssa.Store); ok && st.Addr == ssa.Value(a) {
					return st.Val
				}
			}
			return nil
		}
	}
	return v
}

// c13Exits classifies the returns of fn by their error result (index errIdx): accepting
// (nil), rejecting (provably non-nil) and unclassified.
func c13Exits(fn *ssa.Function, errIdx int) (accept, reject, unknown []*ssa.Return) {
	for _, r := range an.Returns(fn) {
		if fn.Recover != nil && r.Block() == fn.Recover {
			continue
		}
		v := c13RetVal(r, errIdx)
		switch {
		case v == nil:
			unknown = append(unknown, r)
		case an.IsNilConst(v):
			accept = append(accept, r)
		case c13NonNil(fn, v, r):
			reject = append(reject, r)
		default:
			unknown = append(unknown, r)
		}
	}
	return
}

// c13NonNil: error value v is non-nil at return r: built by app/errors.New/Wrap, or r lies on
// the `v != nil` edge of a test of v.
func c13NonNil(fn *ssa.Function, v ssa.Value, r *ssa.Return) bool {
	if call, ok := v.(*ssa.Call); ok && an.Static("app/errors.New", "app/errors.Wrap")(&call.Call) {
		return true
	}
	for _, cd := range an.CondsOn(fn, v) {
		if cd.Other == nil || !an.IsNilConst(cd.Other) {
			continue
		}
		var nn *ssa.BasicBlock
		switch cd.Op {
		case token.NEQ:
			nn = cd.Succ(true)
		case token.EQL:
			nn = cd.Succ(false)
		default:
			continue
		}
		if len(nn.Preds) == 1 && nn.Dominates(r.Block()) {
			return true
		}
	}
	return false
}

// c13Returned resolves the single function literal that fn returns.
func c13Returned(c *rt.Ctx, fn *ssa.Function) *ssa.Function {
	var out *ssa.Function
	for _, r := range an.Returns(fn) {
		if len(r.Results) != 1 {
			c.Bail("%s: expected one result", an.FuncName(fn))
		}
		var f *ssa.Function
		switch x := an.Unwrap(r.Results[0]).(type) {
		case *ssa.MakeClosure:
			f, _ = x.Fn.(*ssa.Function)
		case *ssa.Function: // literal without free variables
			if x.Parent() == fn {
				f = x
			}
		}
		if f == nil {
			c.Bail("%s does not return a function literal", an.FuncName(fn))
		}
		if out != nil && out != f {
			c.Bail("%s returns more than one function literal", an.FuncName(fn))
		}
		out = f
	}
	if out == nil {
		c.Bail("%s returns no function literal", an.FuncName(fn))
	}
	return out
}

// c13LookupID: fnVal is a function value loaded from a field of a messageIDFuncs value; returns
// the id argument of the getMessageIDFunc call that produced that value (nil if not traceable).
func c13LookupID(fnVal ssa.Value) ssa.Value {
	_, base, ok := an.FieldOf(fnVal)
	if !ok {
		return nil
	}
	if a, isAlloc := base.(*ssa.Alloc); isAlloc {
		base = c13UniqueStore(a)
		if base == nil {
			return nil
		}
	}
	ex, ok := an.Unwrap(base).(*ssa.Extract)
	if !ok || ex.Index != 0 {
		return nil
	}
	call, ok := ex.Tuple.(*ssa.Call)
	if !ok || !an.Static(c13Srv+".getMessageIDFunc")(&call.Call) || len(call.Call.Args) != 2 {
		return nil
	}
	return call.Call.Args[1]
}

// c13ResultOf: v is result #idx of call (tuple extract, or the value itself for single results).
func c13ResultOf(v ssa.Value, call ssa.CallInstruction, idx int) bool {
	v = an.Unwrap(v)
	if call.Value() == nil {
		return false
	}
	if ex, ok := v.(*ssa.Extract); ok {
		return ex.Tuple == ssa.Value(call.Value()) && ex.Index == idx
	}
	return idx == 0 && v == ssa.Value(call.Value()) && call.Common().Signature().Results().Len() == 1
}

// c13LoopIndex returns the index value of a range-over-slice loop (`i` of the header test i < len).
func c13LoopIndex(l *an.Loop) ssa.Value {
	for _, in := range l.Header.Instrs {
		if iff, ok := in.(*ssa.If); ok {
			if bin, ok := iff.Cond.(*ssa.BinOp); ok && bin.Op == token.LSS {
				return bin.X
			}
		}
	}
	return nil
}

// c13ElemIndex: v is (a load of) coll[idx] -> coll, idx.
func c13ElemIndex(v ssa.Value) (coll, idx ssa.Value) {
	v = an.Unwrap(v)
	if u, ok := v.(*ssa.UnOp); ok && u.Op == token.MUL {
		if ia, ok := u.X.(*ssa.IndexAddr); ok {
			return ia.X, ia.Index
		}
	}
	if ix, ok := v.(*ssa.Index); ok {
		return ix.X, ix.Index
	}
	return nil, nil
}

// c13SliceLit returns the elements of a slice literal value (nil if v is not one).
func c13SliceLit(v ssa.Value) []ssa.Value {
	sl, ok := an.Unwrap(v).(*ssa.Slice)
	if !ok || sl.Low != nil || sl.High != nil {
		return nil
	}
	al, ok := sl.X.(*ssa.Alloc)
	if !ok {
		return nil
	}
	var out []ssa.Value
	for _, ref := range *al.Referrers() {
		switch x := ref.(type) {
		case *ssa.Slice, *ssa.DebugRef:
		case *ssa.IndexAddr:
			n := 0
			for _, r2 := range *x.Referrers() {
				if st, ok := r2.(*ssa.Store); ok && st.Addr == ssa.Value(x) {
					out = append(out, st.Val)
					n++
				}
			}
			if n != 1 {
				return nil
			}
		default:
			return nil
		}
	}
	return out
}

// c13LitFields returns field name -> the only value stored into that field of a freshly allocated struct.
func c13LitFields(a *ssa.Alloc) map[string]ssa.Value {
	out := map[string]ssa.Value{}
	cnt := map[string]int{}
	for _, ref := range *a.Referrers() {
		fa, ok := ref.(*ssa.FieldAddr)
		if !ok {
			continue
		}
		name := an.FieldKey(fa.X.Type(), fa.Field)
		name = name[strings.LastIndex(name, ".")+1:]
		for _, r2 := range *fa.Referrers() {
			if st, ok := r2.(*ssa.Store); ok && st.Addr == ssa.Value(fa) {
				out[name] = st.Val
				cnt[name]++
			}
		}
	}
	for k, n := range cnt {
		if n != 1 {
			delete(out, k)
		}
	}
	return out
}

// c13Reaches: control can flow from just after a to b (same function).
func c13Reaches(a, b ssa.Instruction) bool {
	if a.Parent() != b.Parent() {
		return false
	}
	idx := func(in ssa.Instruction) int {
		for i, x := range in.Block().Instrs {
			if x == in {
				return i
			}
		}
		return -1
	}
	if a.Block() == b.Block() && idx(a) < idx(b) {
		return true
	}
	for _, s := range a.Block().Succs {
		if s == b.Block() || an.CanReach(s, b.Block(), nil) {
			return true
		}
	}
	return false
}

// c13Checked wraps an.Guarded for a set of sinks.
func c13Checked(g ssa.CallInstruction, sinks []ssa.Instruction, opt an.GuardOpt) (bool, string) {
	for _, s := range sinks {
		if ok, why := an.Guarded(g, s, opt); !ok {
			return false, why
		}
	}
	return true, ""
}

func c13Sinks[T ssa.Instruction](xs []T) []ssa.Instruction {
	var out []ssa.Instruction
	for _, x := range xs {
		out = append(out, x)
	}
	return out
}

// ---------------------------------------------------------------------------------------------

func c13(c *rt.Ctx) {
	c.Rule("B1", 4, func() { c13B1(c) })
	c.Rule("B2", 4, func() { c13B2(c) })
	c.Rule("B3", 12, func() { c13B3(c) })
	c.Rule("B4", 7, func() { c13B4(c) })
	c.Rule("B5", 9, func() { c13B5(c) })
	c.Rule("B6", 3, func() { c13B6(c) })
}

// B1: every invocation of a registered callback is preceded by a checked verifyFunc on the same
// (id, message); the payload is UnmarshalNew of that message; the callback was looked up under that id.
func c13B1(c *rt.Ctx) {
	hm := c.Fn(c13Srv + ".handleMessage")
	isCB := an.FieldCall(c13Funcs + ".callback")
	if len(an.Calls(hm, isCB, true)) == 0 {
		c.Bail("no call through messageIDFuncs.callback in handleMessage")
	}
	for _, fn := range an.PkgFuncs(c.SSAPkg(c13Pkg)) {
		for _, cb := range an.Calls(fn, isCB, false) {
			name := an.FuncName(fn)
			name = name[strings.LastIndex(name, ".")+1:]
			args := cb.Common().Args
			if len(args) != 4 {
				c.Unsure(name+" callback", cb.Pos(), "unexpected callback arity")
				continue
			}
			guards := an.Calls(fn, an.FieldCall(c13Srv+".verifyFunc"), false)
			var g ssa.CallInstruction
			why := "no call to s.verifyFunc in the function that invokes the callback"
			for _, x := range guards {
				ok, w := an.Guarded(x, cb, an.DefaultGuard)
				if ok {
					g = x
					break
				}
				why = w
			}
			c.Check(name+" verifyFunc→callback", cb.Pos(), g != nil, "callback is reachable without a successful verifyFunc: "+why)
			if g == nil {
				continue
			}
			ga := g.Common().Args
			c.Check(name+" callback id = verified id", cb.Pos(), c13Same(args[2], ga[0]),
				"the message id handed to the callback is not the id that was verified")
			if id := c13LookupID(cb.Common().Value); id == nil {
				c.Unsure(name+" callback lookup id = verified id", cb.Pos(), "cannot trace the callback to a getMessageIDFunc lookup")
			} else {
				c.Check(name+" callback lookup id = verified id", cb.Pos(), c13Same(id, ga[0]),
					"the callback is looked up under a different id than the verified one")
			}
			// payload
			ex, _ := an.Unwrap(args[3]).(*ssa.Extract)
			var um *ssa.Call
			if ex != nil && ex.Index == 0 {
				um, _ = ex.Tuple.(*ssa.Call)
			}
			if um == nil || !an.Static(c13AnyPkg+".Any.UnmarshalNew", c13AnyPkg+".UnmarshalNew")(&um.Call) {
				c.Unsure(name+" payload = UnmarshalNew(verified message)", cb.Pos(), "payload is not the result of an anypb UnmarshalNew call; provenance not recognised")
				continue
			}
			ok, w := an.Guarded(um, cb, an.DefaultGuard)
			switch {
			case !c13Same(um.Call.Args[0], ga[1]):
				c.Bad(name+" payload = UnmarshalNew(verified message)", cb.Pos(), "the any-message that is unmarshalled and delivered is not the one passed to verifyFunc")
			case !ok:
				c.Bad(name+" payload = UnmarshalNew(verified message)", cb.Pos(), "UnmarshalNew error is not checked before delivery: "+w)
			default:
				c.Good(name+" payload = UnmarshalNew(verified message)", cb.Pos(), "")
			}
		}
	}
}

// B2: handleSigRequest order and bindings; dedupHash compare-then-store.
func c13B2(c *rt.Ctx) {
	isSign := an.FieldCall(c13Srv + ".signFunc")
	hs := c.Fn(c13Srv + ".handleSigRequest")
	if len(an.Calls(hs, isSign, false)) == 0 {
		c.Bail("no call through server.signFunc in handleSigRequest")
	}
	for _, fn := range an.PkgFuncs(c.SSAPkg(c13Pkg)) {
		for _, sign := range an.Calls(fn, isSign, false) {
			name := an.FuncName(fn)
			name = name[strings.LastIndex(name, ".")+1:]
			sa := sign.Common().Args
			if len(sa) != 2 || len(fn.Params) < 3 {
				c.Unsure(name+" signFunc", sign.Pos(), "unexpected shape")
				continue
			}
			// hashFunc → signFunc
			var hash ssa.CallInstruction
			for _, h := range an.Calls(fn, an.FieldCall(c13Srv+".hashFunc"), false) {
				if c13ResultOf(sa[1], h, 0) {
					hash = h
				}
			}
			k := name + " hashFunc→signFunc"
			if hash == nil {
				c.Bad(k, sign.Pos(), "the value signed is not the output of s.hashFunc")
				continue
			}
			ha := hash.Common().Args
			if ok, w := an.Guarded(hash, sign, an.DefaultGuard); !ok {
				c.Bad(k, sign.Pos(), "hashFunc error not checked before signing: "+w)
			} else {
				c.Check(k, sign.Pos(), c13Same(sa[0], ha[0]), "the id passed to signFunc is not the id that was hashed")
			}
			// dedupHash → signFunc
			k = name + " dedupHash→signFunc"
			var why string
			good := false
			dd := an.Calls(fn, an.Static(c13Srv+".dedupHash"), false)
			if len(dd) == 0 {
				why = "signFunc is reached without dedupHash"
			}
			for _, d := range dd {
				da := d.Common().Args // s, pID, id, hash
				ok, w := an.Guarded(d, sign, an.DefaultGuard)
				switch {
				case !ok:
					why = "dedupHash is not a checked guard of signFunc: " + w
				case an.Unwrap(da[3]) != an.Unwrap(sa[1]):
					why = "the hash deduplicated is not the hash signed"
				case !c13Same(da[2], sa[0]):
					why = "the id deduplicated is not the id signed"
				case !c13Is(da[1], fn.Params[2]):
					why = "dedupHash is not keyed by the requesting peer"
				default:
					good = true
				}
			}
			c.Check(k, sign.Pos(), good, why)
			// checkMessage → signFunc
			k = name + " checkMessage→signFunc"
			good, why = false, "signFunc is reached without the registered checkMessage"
			for _, ck := range an.Calls(fn, an.FieldCall(c13Funcs+".checkMessage"), false) {
				ca := ck.Common().Args // ctx, pID, any
				ok, w := an.Guarded(ck, sign, an.DefaultGuard)
				id := c13LookupID(ck.Common().Value)
				switch {
				case !ok:
					why = "checkMessage is not a checked guard of signFunc: " + w
				case len(ca) != 3 || !c13Same(ca[2], ha[1]):
					why = "the message checked is not the message hashed and signed"
				case id == nil:
					why = ""
				case !c13Same(id, sa[0]):
					why = "checkMessage is looked up under a different id than the one signed"
				default:
					good = true
				}
			}
			if !good && why == "" {
				c.Unsure(k, sign.Pos(), "cannot trace checkMessage to a getMessageIDFunc lookup")
			} else {
				c.Check(k, sign.Pos(), good, why)
			}
		}
	}
	c13Dedup(c)
}

// c13Dedup: in dedupHash the stored hash is written only if no entry exists or the existing entry
// equals the new hash; otherwise an error is returned.
func c13Dedup(c *rt.Ctx) {
	const k = "dedupHash compare-then-store"
	fn := c.Fn(c13Srv + ".dedupHash")
	if len(fn.Params) != 4 {
		c.Bail("dedupHash: unexpected signature")
	}
	hashP := fn.Params[3]
	ups := mapUpdates(fn, isFieldMap(c13Srv+".dedup"))
	if len(ups) != 1 {
		c.Bail("dedupHash: expected one write to server.dedup, found %d", len(ups))
	}
	up := ups[0]
	if !c13Is(up.Value, hashP) {
		c.Bad(k, posOf(up), "the value remembered for (peer, id) is not the hash parameter")
		return
	}
	var lk *ssa.Lookup
	for _, in := range an.Instrs(fn, false) {
		if x, ok := in.(*ssa.Lookup); ok && x.CommaOk && isFieldMap(c13Srv+".dedup")(x.X) && an.Equiv(x.Index, up.Key) {
			lk = x
		}
	}
	if lk == nil || !an.Dominates(lk, up) {
		c.Bad(k, posOf(up), "the write to dedup is not preceded by a lookup of the same key")
		return
	}
	var prev, found ssa.Value
	for _, ref := range *lk.Referrers() {
		if ex, ok := ref.(*ssa.Extract); ok {
			if ex.Index == 0 {
				prev = ex
			} else {
				found = ex
			}
		}
	}
	var eq *ssa.Call
	anyEq := false
	for _, ci := range an.Calls(fn, an.Static("bytes.Equal", "slices.Equal"), false) {
		call, ok := ci.(*ssa.Call)
		if !ok || len(call.Call.Args) != 2 {
			continue
		}
		anyEq = true
		a, b := an.Unwrap(call.Call.Args[0]), an.Unwrap(call.Call.Args[1])
		if prev != nil && ((a == prev && c13Is(b, hashP)) || (b == prev && c13Is(a, hashP))) {
			eq = call
		}
	}
	if eq == nil {
		if anyEq || prev == nil {
			c.Bad(k, posOf(up), "the previously stored hash is not compared with the new hash")
		} else {
			c.Unsure(k, posOf(up), "no bytes.Equal/slices.Equal comparison recognised in dedupHash")
		}
		return
	}
	_, _, unknown := c13Exits(fn, 0)
	if len(unknown) > 0 {
		c.Unsure(k, posOf(unknown[0]), "cannot classify a return of dedupHash as accepting or rejecting")
		return
	}
	accept, _, _ := c13Exits(fn, 0)
	// (a) mismatch edge: no store, no accepting return
	good, why := false, "result of the comparison is never branched on"
	for _, cd := range an.CondsOn(fn, eq) {
		if cd.Other != nil {
			continue
		}
		ne := cd.Succ(false)
		good, why = true, ""
		if !an.EdgeCuts(ne, up, nil) {
			good, why = false, "a different hash for the same (peer, id) overwrites the stored one"
		}
		for _, r := range accept {
			if !an.EdgeCuts(ne, r, nil) {
				good, why = false, "a different hash for the same (peer, id) is accepted (nil error)"
			}
		}
		break
	}
	if good && eq.Block() == up.Block() && !an.Dominates(eq, up) {
		good, why = false, "the hash is stored before it is compared with the previous one"
	}
	// (b) when an entry exists the comparison is evaluated before the store / acceptance
	if good {
		if found == nil {
			good, why = false, "presence of a previous entry is not tested"
		}
		ok2 := false
		for _, cd := range an.CondsOn(fn, found) {
			if cd.Other != nil {
				continue
			}
			ok2 = true
			if !an.Dominates(cd.If, up) {
				good, why = false, "the hash is stored before the presence/equality test: a different hash replaces the stored one"
			}
			t := cd.Succ(true)
			avoid := map[*ssa.BasicBlock]bool{eq.Block(): true}
			if t != eq.Block() && (an.CanReach(t, up.Block(), avoid) || func() bool {
				for _, r := range accept {
					if an.CanReach(t, r.Block(), avoid) {
						return true
					}
				}
				return false
			}()) {
				good, why = false, "an existing entry can be overwritten or accepted without comparing the hashes"
			}
		}
		if good && !ok2 {
			good, why = false, "presence of a previous entry is not tested"
		}
	}
	c.Check(k, posOf(up), good, why)
}

// B3: verifier closure, signer closure, wiring in New.
func c13B3(c *rt.Ctx) {
	mk := c.Fn(c13Comp + ".newPeerK1Verifier")
	vf := c13Returned(c, mk)
	if len(vf.Params) != 3 {
		c.Bail("verifier: unexpected signature")
	}
	idP, anyP, sigsP := vf.Params[0], vf.Params[1], vf.Params[2]
	accept, _, unknown := c13Exits(vf, 0)
	for _, r := range unknown {
		c.Unsure("verifier return", posOf(r), "cannot classify a return of the verifier as accepting or rejecting")
	}
	if len(accept) == 0 {
		c.Bail("verifier has no accepting return")
	}
	sinks := c13Sinks(accept)
	isPeers := func(v ssa.Value) bool { return c13FieldLoad(v, c13Comp+".peers") }

	// (1) len(sigs) == len(peers)
	{
		ltRej, gtRej := false, false
		for _, b := range vf.Blocks {
			iff, ok := b.Instrs[len(b.Instrs)-1].(*ssa.If)
			if !ok {
				continue
			}
			bin, ok := iff.Cond.(*ssa.BinOp)
			if !ok {
				continue
			}
			x, y := c13LenArg(bin.X), c13LenArg(bin.Y)
			if x == nil || y == nil {
				continue
			}
			op := bin.Op
			switch {
			case c13Is(x, sigsP) && isPeers(y):
			case c13Is(y, sigsP) && isPeers(x):
				switch op { // flip
				case token.LSS:
					op = token.GTR
				case token.GTR:
					op = token.LSS
				case token.LEQ:
					op = token.GEQ
				case token.GEQ:
					op = token.LEQ
				}
			default:
				continue
			}
			// outcome -> truth of (len(sigs) op len(peers))
			truth := func(o int) (bool, bool) { // o: -1 lt, +1 gt
				switch op {
				case token.EQL:
					return false, true
				case token.NEQ:
					return true, true
				case token.LSS:
					return o < 0, true
				case token.LEQ:
					return o < 0, true
				case token.GTR:
					return o > 0, true
				case token.GEQ:
					return o > 0, true
				}
				return false, false
			}
			for _, o := range []int{-1, 1} {
				tv, ok := truth(o)
				if !ok {
					continue
				}
				succ := b.Succs[1]
				if tv {
					succ = b.Succs[0]
				}
				cut := true
				for _, r := range accept {
					if !an.Dominates(iff, r) || !an.EdgeCuts(succ, r, nil) {
						cut = false
					}
				}
				if cut {
					if o < 0 {
						ltRej = true
					} else {
						gtRej = true
					}
				}
			}
		}
		why := ""
		switch {
		case !ltRej && !gtRej:
			why = "the verifier accepts without comparing len(sigs) with len(peers)"
		case !ltRej:
			why = "the verifier accepts fewer signatures than there are peers: a subset of the members suffices"
		case !gtRej:
			why = "the verifier accepts more signatures than there are peers"
		}
		c.Check("verifier len(sigs) == len(peers)", posOf(accept[0]), why == "", why)
	}

	// (2) msgIDAllowed(msgID)
	{
		good, why := false, "the verifier accepts without testing msgIDAllowed(msgID)"
		for _, g := range an.Calls(vf, an.Static(c13Comp+".msgIDAllowed"), false) {
			if len(g.Common().Args) != 2 || !c13Is(g.Common().Args[1], idP) {
				why = "msgIDAllowed is applied to something other than the message id being verified"
				continue
			}
			ok, w := c13Checked(g, sinks, an.BoolGuard(0, true))
			if ok {
				good = true
				break
			}
			why = "msgIDAllowed is not a checked guard of acceptance: " + w
		}
		c.Check("verifier msgIDAllowed", posOf(accept[0]), good, why)
	}

	// (3)(4) the verification loop
	vcalls := an.Calls(vf, an.Static("app/k1util.Verify65"), false)
	if len(vcalls) == 0 {
		c.Bail("no call to k1util.Verify65 in the verifier closure")
	}
	for _, v := range vcalls {
		va := v.Common().Args // pubkey, hash, sig
		l := an.InnermostLoop(vf, v.Block())
		// same index
		{
			k := "verifier sigs[i] against peers[i] (same index)"
			good, why := true, ""
			sc, si := c13ElemIndex(va[2])
			var pc, pi ssa.Value
			if ex, ok := an.Unwrap(va[0]).(*ssa.Extract); ok && ex.Index == 0 {
				if call, ok := ex.Tuple.(*ssa.Call); ok && an.Static("p2p.PeerIDToKey")(&call.Call) {
					pc, pi = c13ElemIndex(call.Call.Args[0])
				}
			}
			switch {
			case l == nil:
				good, why = false, "Verify65 is not inside a loop"
			case sc == nil || !c13Is(sc, sigsP):
				good, why = false, "the signature verified is not an element of the sigs parameter"
			case pc == nil:
				c.Unsure(k, v.Pos(), "public key is not PeerIDToKey of an indexed element; provenance not recognised")
				good = false
				why = "-"
			case !isPeers(pc):
				good, why = false, "the public key is not derived from c.peers"
			case si != pi:
				good, why = false, "sigs[i] is verified against a peer at a different index"
			case si != c13LoopIndex(l):
				good, why = false, "the index is not the loop variable of the enclosing range loop"
			default:
				coll := l.RangeColl()
				if coll == nil || !(c13Is(coll, sigsP) || isPeers(coll)) {
					good, why = false, "the loop does not range over sigs (or c.peers)"
				}
			}
			if why != "-" {
				c.Check(k, v.Pos(), good, why)
			}
		}
		// hash provenance
		{
			k := "verifier hash provenance"
			good, why := false, "the hash verified is not the output of the captured hashFunc"
			ex, _ := an.Unwrap(va[1]).(*ssa.Extract)
			if ex != nil && ex.Index == 0 {
				if hc, ok := ex.Tuple.(*ssa.Call); ok && hc.Call.StaticCallee() == nil && !hc.Call.IsInvoke() {
					ha := hc.Call.Args
					src := c13Origin(hc.Call.Value)
					ok2, w := an.Guarded(hc, v, an.DefaultGuard)
					switch {
					case len(mk.Params) != 2 || src != ssa.Value(mk.Params[1]):
						why = "the hash function called is not the hashFunc handed to newPeerK1Verifier"
					case len(ha) != 2 || !c13Is(ha[0], idP):
						why = "the hash is not computed over the message id being verified"
					case !c13Is(ha[1], anyP):
						why = "the hash is not computed over the message being verified"
					case !ok2:
						why = "hashFunc error is not checked: " + w
					default:
						good = true
					}
				}
			}
			c.Check(k, v.Pos(), good, why)
		}
		// forall
		{
			k := "verifier every signature checked"
			good, why := true, ""
			if l == nil {
				good, why = false, "Verify65 is not inside a loop"
			} else {
				errs, boolv := an.StatusOf(v, 0)
				if len(errs) == 0 || boolv == nil {
					good, why = false, "a result of Verify65 is discarded"
				}
				type st struct {
					v    ssa.Value
					isB  bool
					what string
				}
				var sts []st
				for _, e := range errs {
					sts = append(sts, st{e, false, "error"})
				}
				if boolv != nil {
					sts = append(sts, st{boolv, true, "ok"})
				}
				for _, s := range sts {
					okS, whyS := false, "the "+s.what+" result of Verify65 is never branched on"
					for _, cd := range an.CondsOn(vf, s.v) {
						var fail *ssa.BasicBlock
						if s.isB {
							if cd.Other != nil {
								continue
							}
							fail = cd.Succ(false)
						} else {
							if cd.Other == nil || !an.IsNilConst(cd.Other) {
								continue
							}
							switch cd.Op {
							case token.NEQ:
								fail = cd.Succ(true)
							case token.EQL:
								fail = cd.Succ(false)
							default:
								continue
							}
						}
						all := true
						for _, r := range accept {
							if ok, w := an.ForallGuard(l, cd.If, fail, r); !ok {
								all = false
								whyS = "the " + s.what + " result of Verify65: " + w
							}
						}
						if all {
							okS = true
							break
						}
					}
					if !okS {
						good, why = false, whyS
					}
				}
				if good {
					for _, la := range l.Latches {
						if !v.Block().Dominates(la) {
							good, why = false, "an iteration can complete without calling Verify65 (a signature is skipped)"
						}
					}
				}
			}
			c.Check(k, v.Pos(), good, why)
		}
	}

	// signer
	{
		sf := c13Returned(c, c.Fn(c13Comp+".newK1Signer"))
		signs := an.Calls(sf, an.Static("app/k1util.Sign"), false)
		if len(signs) == 0 || len(sf.Params) != 2 {
			c.Bail("no call to k1util.Sign in the signer closure")
		}
		for _, s := range signs {
			good, why := false, "the signer signs without testing msgIDAllowed(msgID)"
			for _, g := range an.Calls(sf, an.Static(c13Comp+".msgIDAllowed"), false) {
				if len(g.Common().Args) != 2 || !c13Is(g.Common().Args[1], sf.Params[0]) {
					why = "msgIDAllowed is applied to something other than the id being signed"
					continue
				}
				ok, w := an.Guarded(g, s, an.BoolGuard(0, true))
				if ok {
					good = true
					break
				}
				why = "msgIDAllowed is not a checked guard of k1util.Sign: " + w
			}
			if good && !c13Is(s.Common().Args[1], sf.Params[1]) {
				good, why = false, "the signer signs something other than the hash it was given"
			}
			c.Check("signer msgIDAllowed→Sign", s.Pos(), good, why)
		}
	}

	// wiring
	{
		nw := c.Fn(c13Pkg + ".New")
		if len(nw.Params) != 4 {
			c.Bail("New: unexpected signature")
		}
		ver := c.OneCall(nw, an.Static(c13Comp+".newPeerK1Verifier"), "newPeerK1Verifier", false)
		hf, _ := c13Origin(ver.Common().Args[1]).(*ssa.Call)
		if hf == nil || !an.Static(c13Pkg+".newHashAny")(&hf.Call) {
			c.Unsure("New wiring: hash bound to session", ver.Pos(), "the hash function given to newPeerK1Verifier is not a direct result of newHashAny")
			return
		}
		sg := c.OneCall(nw, an.Static(c13Comp+".newK1Signer"), "newK1Signer", false)
		srv := c.OneCall(nw, an.Static(c13Pkg+".newServer"), "newServer", false)
		cl := c.OneCall(nw, an.Static(c13Pkg+".newClient"), "newClient", false)
		is := func(v ssa.Value, call ssa.CallInstruction) bool { return c13Origin(v) == ssa.Value(call.Value()) }
		c.Check("New wiring: hash bound to session", hf.Pos(), c13Is(hf.Common().Args[0], nw.Params[3]),
			"newHashAny is not given the sessionHash parameter")
		c.Check("New wiring: verifier and signer of one component", ver.Pos(), c13Same(ver.Common().Args[0], sg.Common().Args[0]),
			"signer and verifier are built on different components (different allow-lists / keys)")
		sa, ca := srv.Common().Args, cl.Common().Args
		c.Check("New wiring: server", srv.Pos(), len(sa) == 4 && is(sa[1], sg) && is(sa[2], hf) && is(sa[3], ver),
			"newServer is not given the (signer, session hash, verifier) triple built here")
		c.Check("New wiring: client", cl.Pos(), len(ca) == 7 && is(ca[4], hf) && is(ca[5], sg) && is(ca[6], ver) && c13Same(ca[1], nw.Params[1]),
			"newClient is not given the (session hash, signer, verifier) triple built here")
		// constructors store their parameters in the like-named fields
		for _, t := range []struct {
			fn, typ string
			par     map[string]int
		}{
			{c13Pkg + ".newServer", c13Srv, map[string]int{"signFunc": 1, "hashFunc": 2, "verifyFunc": 3}},
			{c13Pkg + ".newClient", c13Cli, map[string]int{"hashFunc": 4, "signFunc": 5, "verifyFunc": 6, "peers": 1}},
		} {
			f := c.Fn(t.fn)
			good, why := true, ""
			var lit *ssa.Alloc
			for _, in := range an.Instrs(f, false) {
				if a, ok := in.(*ssa.Alloc); ok && an.TypeName(a.Type()) == t.typ {
					lit = a
				}
			}
			if lit == nil {
				c.Unsure("New wiring: "+t.fn+" fields", f.Pos(), "constructor does not build its value with a composite literal")
				continue
			}
			fields := c13LitFields(lit)
			var names []string
			for n := range t.par {
				names = append(names, n)
			}
			sort.Strings(names)
			for _, n := range names {
				if v, ok := fields[n]; !ok || t.par[n] >= len(f.Params) || !c13Is(v, f.Params[t.par[n]]) {
					good, why = false, fmt.Sprintf("field %s is not initialised from the constructor's parameter", n)
				}
			}
			c.Check("New wiring: "+t.fn+" fields", f.Pos(), good, why)
		}
	}
}

// B4: the hash closure of newHashAny.
func c13B4(c *rt.Ctx) {
	mk := c.Fn(c13Pkg + ".newHashAny")
	hf := c13Returned(c, mk)
	if len(hf.Params) != 2 || len(mk.Params) != 1 {
		c.Bail("newHashAny: unexpected signature")
	}
	hcall := c.OneCall(hf, an.Static("crypto/sha256.New"), "sha256.New", false)
	h := ssa.Value(hcall.Value())
	onH := func(v ssa.Value) bool { return an.Unwrap(v) == h }
	accept, _, unknown := c13Exits(hf, 1)
	for _, r := range unknown {
		c.Unsure("newHashAny return", posOf(r), "cannot classify a return of the hash closure")
	}
	if len(accept) == 0 {
		c.Bail("hash closure has no successful return")
	}
	// result is h.Sum
	for _, r := range accept {
		good := false
		if call, ok := an.Unwrap(c13RetVal(r, 0)).(*ssa.Call); ok && call.Call.IsInvoke() && call.Call.Method.Name() == "Sum" && onH(call.Call.Value) {
			good = true
		}
		c.Check("newHashAny result is the digest", posOf(r), good, "the value returned on success is not h.Sum of the hasher that absorbed the fields")
	}
	var writes []ssa.CallInstruction
	for _, ci := range an.Calls(hf, func(cc *ssa.CallCommon) bool {
		return cc.IsInvoke() && cc.Method.Name() == "Write" && onH(cc.Value) && len(cc.Args) == 1
	}, false) {
		writes = append(writes, ci)
	}
	if len(writes) == 0 {
		c.Bail("no h.Write in the hash closure")
	}
	var fields []ssa.Value
	for _, w := range writes {
		arg := w.Common().Args[0]
		l := an.InnermostLoop(hf, w.Block())
		if l != nil && l.ElemOf(arg) {
			el := c13SliceLit(l.RangeColl())
			if el == nil {
				c.Unsure("newHashAny field list", w.Pos(), "h.Write ranges over something other than a slice literal")
				return
			}
			fields = append(fields, el...)
		} else {
			fields = append(fields, arg)
		}
		// length prefix
		good, why := false, "the field written is not preceded by its length"
		bws := an.Calls(hf, func(cc *ssa.CallCommon) bool {
			return an.Static("encoding/binary.Write")(cc) && len(cc.Args) == 3 && onH(cc.Args[0])
		}, false)
		if len(bws) == 0 && len(writes) > 1 {
			// lengths are written some other way (PutUint64 into a buffer, ...): idiom not recognised
			c.Unsure("newHashAny length prefix", w.Pos(), "no binary.Write into the hasher; length-prefix idiom not recognised")
			return
		}
		for _, bw := range bws {
			ba := bw.Common().Args
			if len(ba) != 3 || !onH(ba[0]) {
				continue
			}
			if la := c13LenArg(ba[2]); la == nil || la != arg {
				why = "the length prefix written is not the length of the field that follows"
				continue
			}
			if ok, wy := an.Guarded(bw, w, an.DefaultGuard); !ok {
				why = "length prefix write is not checked before the field: " + wy
				continue
			}
			if an.InnermostLoop(hf, bw.Block()) != nil && l != nil && an.InnermostLoop(hf, bw.Block()).Header != l.Header {
				continue
			}
			good = true
			break
		}
		c.Check("newHashAny length prefix", w.Pos(), good, why)
		// every field: no iteration skips the write, no early successful exit from the loop
		if l != nil {
			good, why = true, ""
			for _, la := range l.Latches {
				if !w.Block().Dominates(la) {
					good, why = false, "an iteration can skip absorbing its field (ambiguous concatenation)"
				}
			}
			for b := range l.Body {
				for _, s := range b.Succs {
					if l.Body[s] || b == l.Header {
						continue
					}
					for _, r := range accept {
						if s == r.Block() || an.CanReach(s, r.Block(), nil) {
							good, why = false, "the loop over the fields can be left early and still return a digest"
						}
					}
				}
			}
			for _, r := range accept {
				if l.Body[r.Block()] || !l.Header.Dominates(r.Block()) {
					good, why = false, "a digest is returned without running the loop over all fields"
				}
			}
			c.Check("newHashAny every field absorbed", w.Pos(), good, why)
		}
	}
	has := func(pred func(v ssa.Value) bool) bool {
		for _, f := range fields {
			if pred(f) {
				return true
			}
		}
		return false
	}
	getter := func(name string) func(v ssa.Value) bool {
		return func(v ssa.Value) bool {
			call, ok := an.Unwrap(v).(*ssa.Call)
			if ok && an.Static(c13AnyPkg+".Any."+name)(&call.Call) {
				return c13Is(call.Call.Args[0], hf.Params[1])
			}
			return false
		}
	}
	pos := writes[0].Pos()
	c.Check("newHashAny absorbs session hash", pos, has(func(v ssa.Value) bool { return c13Origin(v) == ssa.Value(mk.Params[0]) }),
		"the session hash does not flow into the digest: signatures from another ceremony verify")
	c.Check("newHashAny absorbs message id", pos, has(func(v ssa.Value) bool { return c13Is(v, hf.Params[0]) }),
		"the message id does not flow into the digest: signatures can be replayed under another id")
	c.Check("newHashAny absorbs type URL", pos, has(getter("GetTypeUrl")), "the any type URL does not flow into the digest")
	c.Check("newHashAny absorbs value", pos, has(getter("GetValue")), "the any value (payload bytes) does not flow into the digest")
}

// B5: lock discipline.
func c13B5(c *rt.Ctx) {
	table := an.LockTable{
		c13Srv + ".dedup":          "mu",                 // dedupHash only
		c13Srv + ".msgIDFuncs":     "msgIDFuncsMutex",    // getMessageIDFunc / registerMessageIDFuncs
		c13Comp + ".allowedMsgIDs": "allowedMsgIDsMutex", // RegisterMessageIDFuncs / msgIDAllowed
	}
	lockRule(c, []string{c13Pkg}, table)
	// A function that touches guarded state without taking the mutex itself is acceptable only as an
	// internal helper whose every use is a static call (lockRule checks those call sites). It is a
	// violation if such a function is reachable without a static call: used as a (bound-method)
	// value, a function literal that escapes, or never called inside the package (entry point).
	funcs := an.PkgFuncs(c.SSAPkg(c13Pkg))
	ls := &an.Lockset{Table: table, Funcs: funcs}
	ls.Run()
	escapes := map[string]string{}
	called := map[string]bool{}
	for _, f := range funcs {
		for _, in := range an.Instrs(f, false) {
			if ci, ok := in.(ssa.CallInstruction); ok {
				if _, isGo := in.(*ssa.Go); !isGo {
					if callee := ci.Common().StaticCallee(); callee != nil {
						called[an.FuncName(callee)] = true
					}
				}
			}
			for _, op := range an.Operands(in) {
				var target *ssa.Function
				direct := false
				switch x := op.(type) {
				case *ssa.Function:
					target = x
					if ci, ok := in.(ssa.CallInstruction); ok && ci.Common().Value == op {
						_, isGo := in.(*ssa.Go)
						direct = !isGo
					}
					if _, ok := in.(*ssa.MakeClosure); ok && x.Synthetic == "" {
						continue // literal: judged at the MakeClosure value below
					}
				case *ssa.MakeClosure:
					target, _ = x.Fn.(*ssa.Function)
					if ci, ok := in.(ssa.CallInstruction); ok && ci.Common().Value == op {
						_, isGo := in.(*ssa.Go)
						direct = !isGo
					}
				}
				if target == nil || direct {
					continue
				}
				escapes[an.FuncName(target)] = "used as a value in " + an.FuncName(f)
			}
		}
	}
	var names []string
	for n := range ls.Requires {
		names = append(names, n)
	}
	sort.Strings(names)
	byName := map[string]*ssa.Function{}
	for _, f := range funcs {
		byName[an.FuncName(f)] = f
	}
	for _, n := range names {
		pos := token.NoPos
		f := byName[n]
		if f != nil {
			pos = f.Pos()
		}
		why := escapes[n]
		if why == "" && f != nil && f.Parent() == nil && !called[n] {
			why = "never called statically inside the package (entry point)"
		}
		if why != "" {
			c.Bad("lock-free access "+n, pos, "touches guarded state without taking the mutex ("+strings.Join(ls.Requires[n], ", ")+") and is "+why)
		}
	}
	// dedup lookup and store in one critical section
	fn := c.Fn(c13Srv + ".dedupHash")
	ups := mapUpdates(fn, isFieldMap(c13Srv+".dedup"))
	var lks []*ssa.Lookup
	for _, in := range an.Instrs(fn, false) {
		if x, ok := in.(*ssa.Lookup); ok && isFieldMap(c13Srv+".dedup")(x.X) {
			lks = append(lks, x)
		}
	}
	if len(ups) == 0 || len(lks) == 0 {
		c.Bail("dedupHash: lookup or store of server.dedup not found")
	}
	good, why := true, ""
	var at token.Pos = posOf(ups[0])
	for _, u := range an.Calls(fn, an.Static("sync.Mutex.Unlock", "sync.RWMutex.Unlock"), false) {
		if _, isDefer := u.(*ssa.Defer); isDefer {
			continue
		}
		for _, lk := range lks {
			for _, up := range ups {
				if c13Reaches(lk, u) && c13Reaches(u, up) {
					good, why, at = false, "the mutex is released between the lookup of the stored hash and the store: two requests with different hashes can both pass", u.Pos()
				}
			}
		}
	}
	c.Check("dedupHash lookup+store in one critical section", at, good, why)
}

// B6: the client sends what it verified.
func c13B6(c *rt.Ctx) {
	fn := c.Fn(c13Cli + ".Broadcast")
	if len(fn.Params) != 4 {
		c.Bail("client.Broadcast: unexpected signature")
	}
	sends := c.SomeCalls(fn, an.FieldCall(c13Cli+".sendFunc"), "c.sendFunc", true)
	verifs := an.Calls(fn, an.FieldCall(c13Cli+".verifyFunc"), false)
	var verify ssa.CallInstruction
	for _, send := range sends {
		if send.Parent() != fn {
			c.Unsure("Broadcast verifyFunc→sendFunc", send.Pos(), "sendFunc is called from a function literal")
			continue
		}
		var g ssa.CallInstruction
		why := "the broadcast message is sent without c.verifyFunc"
		for _, v := range verifs {
			ok, w := an.Guarded(v, send, an.DefaultGuard)
			if ok {
				g = v
				break
			}
			why = "c.verifyFunc is not a checked guard of the send: " + w
		}
		c.Check("Broadcast verifyFunc→sendFunc", send.Pos(), g != nil, why)
		if g == nil {
			continue
		}
		verify = g
		va := g.Common().Args
		k := "Broadcast sent message = verified (id, message, signatures)"
		if len(send.Common().Args) < 5 {
			c.Unsure(k, send.Pos(), "unexpected sendFunc arity")
			continue
		}
		lit, ok := an.Unwrap(send.Common().Args[4]).(*ssa.Alloc)
		if !ok || an.TypeName(lit.Type()) != "dkg/dkgpb/v1.BCastMessage" {
			c.Unsure(k, send.Pos(), "the message sent is not a BCastMessage literal built in Broadcast")
			continue
		}
		f := c13LitFields(lit)
		why = ""
		switch {
		case f["Id"] == nil || !c13Same(f["Id"], va[0]):
			why = "the id sent is not the id verified"
		case f["Message"] == nil || !c13Same(f["Message"], va[1]):
			why = "the message sent is not the message verified"
		case f["Signatures"] == nil || !c13Same(f["Signatures"], va[2]):
			why = "the signatures sent are not the signatures verified"
		}
		c.Check(k, send.Pos(), why == "", why)
	}
	if verify == nil {
		return
	}
	va := verify.Common().Args
	// local signature
	k := "Broadcast local signature over the verified message at the local index"
	signs := an.Calls(fn, an.FieldCall(c13Cli+".signFunc"), false)
	if len(signs) == 0 {
		c.Bail("no call through client.signFunc in Broadcast")
	}
	for _, sign := range signs {
		sa := sign.Common().Args
		why := ""
		var hc ssa.CallInstruction
		for _, h := range an.Calls(fn, an.FieldCall(c13Cli+".hashFunc"), false) {
			if c13ResultOf(sa[1], h, 0) {
				hc = h
			}
		}
		var store *ssa.Store
		if sign.Value() != nil {
			for _, ref := range *sign.Value().Referrers() {
				if ex, ok := ref.(*ssa.Extract); ok && ex.Index == 0 {
					for _, r2 := range *ex.Referrers() {
						if st, ok := r2.(*ssa.Store); ok && st.Val == ssa.Value(ex) {
							store = st
						}
					}
				}
			}
		}
		switch {
		case hc == nil:
			why = "the local signature is not over the output of c.hashFunc"
		case !c13Same(hc.Common().Args[0], va[0]) || !c13Same(hc.Common().Args[1], va[1]):
			why = "the hash signed locally is not the hash of the (id, message) that is verified and sent"
		case !c13Same(sa[0], va[0]):
			why = "the local signature is requested under a different id"
		case store == nil:
			why = "the local signature is not stored into the signature list"
		}
		if why == "" {
			ia, ok := store.Addr.(*ssa.IndexAddr)
			l := an.InnermostLoop(fn, store.Block())
			okG, w := an.Guarded(sign, store, an.DefaultGuard)
			switch {
			case !ok || !c13Same(ia.X, va[2]):
				why = "the local signature is not stored into the list that is verified"
			case l == nil || !c13FieldLoad(l.RangeColl(), c13Cli+".peers"):
				why = "the local signature is not placed while ranging over c.peers"
			case ia.Index != c13LoopIndex(l):
				why = "the local signature is not stored at the index of the local peer"
			case !okG:
				why = "signFunc error not checked: " + w
			default:
				// on the equal edge of p2pNode.ID() == peers[i]
				onEq := false
				for b := range l.Body {
					iff, ok := b.Instrs[len(b.Instrs)-1].(*ssa.If)
					if !ok {
						continue
					}
					bin, ok := iff.Cond.(*ssa.BinOp)
					if !ok || (bin.Op != token.EQL && bin.Op != token.NEQ) {
						continue
					}
					isSelf := func(v ssa.Value) bool {
						call, ok := an.Unwrap(v).(*ssa.Call)
						return ok && call.Call.IsInvoke() && call.Call.Method.Name() == "ID" && c13FieldLoad(call.Call.Value, c13Cli+".p2pNode")
					}
					if !((isSelf(bin.X) && l.ElemOf(bin.Y)) || (isSelf(bin.Y) && l.ElemOf(bin.X))) {
						continue
					}
					eq := b.Succs[0]
					if bin.Op == token.NEQ {
						eq = b.Succs[1]
					}
					if len(eq.Preds) == 1 && eq.Dominates(store.Block()) {
						onEq = true
					}
				}
				if !onEq {
					why = "the local signature is not stored on the `p2pNode.ID() == peers[i]` edge"
				}
			}
		}
		c.Check(k, sign.Pos(), why == "", why)
	}
}
