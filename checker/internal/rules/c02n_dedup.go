package rules

import (
	"fmt"
	"go/token"
	"go/types"

	"golang.org/x/tools/go/ssa"

	"charonverif/internal/an"
)

// ---------------------------------------------------------------------------------------------
// Deduplication by source, recognised by what it does, not by the name of the helper that does it.
//
// "One message per source" is always implemented by a set of sources: a map that is asked whether the source of the
// element was seen (`m[e.Source()]`, `_, ok := m[e.Source()]`) and in which the source is recorded
// (`m[e.Source()] = ...`). The set may live in a closure (uniqSource), in a struct with an `add` method, or inline in
// the loop. With every in-package callee and function literal inlined by the exploration, all three are the same
// instructions: a Lookup and a MapUpdate on one map, keyed by Source() of the loop's element.

// c02MemID identifies a map: the MakeMap that made it (per activation), or the field of a struct allocated in an
// activation.
type c02MemID struct {
	v    ssa.Value
	f    *c02Frame
	path string
}

func (s *c02Sim) memID(m ssa.Value, f *c02Frame, st *c02State) (c02MemID, bool) {
	r := s.rootOf(m, f, st)
	switch x := r.V.(type) {
	case *ssa.MakeMap:
		return c02MemID{x, r.F, ""}, true
	case *ssa.UnOp:
		if x.Op != token.MUL {
			return c02MemID{}, false
		}
		path := ""
		a := x.X
		for {
			fa, ok := a.(*ssa.FieldAddr)
			if !ok {
				break
			}
			path = fmt.Sprintf(".%d", fa.Field) + path
			a = fa.X
		}
		if path == "" {
			return c02MemID{}, false
		}
		b := s.rootOf(a, r.F, st)
		for i := 0; i < 4; i++ {
			if al, ok := b.V.(*ssa.Alloc); ok {
				return c02MemID{al, b.F, path}, true
			}
			// the pointer to the set is itself kept in a field of a local struct that is assigned once (`seen: newSet()`)
			nb, ok := s.fieldOnce(b)
			if !ok {
				break
			}
			b = nb
		}
	}
	return c02MemID{}, false
}

// fieldAddrOf splits an address into the rooted base it is a field of and the field path.
func (s *c02Sim) fieldAddrOf(a ssa.Value, f *c02Frame) (c02VF, string) {
	path := ""
	for {
		fa, ok := a.(*ssa.FieldAddr)
		if !ok {
			break
		}
		path = fmt.Sprintf(".%d", fa.Field) + path
		a = fa.X
	}
	return s.rootOf(a, f, nil), path
}

// fieldOnce: v is a load of a field of a local struct (allocated in an activation the exploration knows) into which
// exactly one value is ever stored, in the struct's own function before its address is handed on; returns that value.
func (s *c02Sim) fieldOnce(v c02VF) (c02VF, bool) {
	ld, ok := v.V.(*ssa.UnOp)
	if !ok || ld.Op != token.MUL {
		return c02VF{}, false
	}
	base, path := s.fieldAddrOf(ld.X, v.F)
	al, ok := base.V.(*ssa.Alloc)
	if !ok || path == "" {
		return c02VF{}, false
	}
	sts := s.cellStores(c02Cell{al, path})
	if len(sts) != 1 || sts[0].Parent() != al.Parent() {
		return c02VF{}, false
	}
	for _, ref := range *al.Referrers() {
		switch ref.(type) {
		case *ssa.FieldAddr, *ssa.DebugRef:
			continue
		}
		if ref != ssa.Instruction(sts[0]) && !an.Dominates(sts[0], ref) {
			return c02VF{}, false
		}
	}
	if sts[0].Addr == ssa.Value(al) {
		// the whole struct is assigned once, from a composite literal built in a temporary: the field's value is what the
		// literal stored into that field
		tl, ok := sts[0].Val.(*ssa.UnOp)
		if !ok || tl.Op != token.MUL {
			return c02VF{}, false
		}
		tmp, ok := tl.X.(*ssa.Alloc)
		if !ok || tmp.Parent() != al.Parent() {
			return c02VF{}, false
		}
		ts := s.cellStores(c02Cell{tmp, path})
		if len(ts) != 1 || ts[0].Parent() != al.Parent() || ts[0].Addr == ssa.Value(tmp) || !an.Dominates(ts[0], tl) {
			return c02VF{}, false
		}
		return s.rootOf(ts[0].Val, base.F, nil), true
	}
	return s.rootOf(sts[0].Val, base.F, nil), true
}

// memStores lists, over all frames the exploration knows, the stores into the field `path` of the struct allocated by
// id.v in activation id.f.
func (s *c02Sim) memStores(id c02MemID) []c02MemStore {
	var out []c02MemStore
	for _, g := range s.allFrames() {
		for _, in := range an.Instrs(g.fn, false) {
			st, ok := in.(*ssa.Store)
			if !ok {
				continue
			}
			if _, isFA := st.Addr.(*ssa.FieldAddr); !isFA {
				continue
			}
			b, p := s.fieldAddrOf(st.Addr, g)
			if b.V == id.v && b.F == id.f && p == id.path {
				out = append(out, c02MemStore{st, g})
			}
		}
	}
	return out
}

type c02MemStore struct {
	st *ssa.Store
	f  *c02Frame
}

type c02DedupAsk struct {
	lk *ssa.Lookup
	f  *c02Frame
}

type c02DedupRec struct {
	up *ssa.MapUpdate
	f  *c02Frame
}

type c02Dedup struct {
	id   c02MemID
	asks []c02DedupAsk
	recs []c02DedupRec
}

// c02FramesFromBody lists the frames whose call chain enters from the body of loop l of frame F (F itself included).
func c02FramesFromBody(s *c02Sim, F *c02Frame, l *an.Loop) []*c02Frame {
	var out []*c02Frame
	for _, g := range s.allFrames() {
		if !g.under(F) {
			continue
		}
		ok := true
		for x := g; x != F; x = x.parent {
			if x.parent == F && !l.Body[x.site.Block()] {
				ok = false
			}
		}
		if ok {
			out = append(out, g)
		}
	}
	return out
}

// dedups finds the source sets consulted about the element of loop l (frame F): per map, the questions and the
// recordings keyed by Source() of an element satisfying isElem. Sets made inside the loop (a fresh set per element
// answers "new" every time) are reported in `why` and left out.
func (s *c02Sim) dedups(F *c02Frame, l *an.Loop, isElem func(c02VF) bool) (out []*c02Dedup, why string, otherSourceUse bool) {
	by := map[c02MemID]*c02Dedup{}
	get := func(id c02MemID) *c02Dedup {
		d := by[id]
		if d == nil {
			d = &c02Dedup{id: id}
			by[id] = d
			out = append(out, d)
		}
		return d
	}
	srcOfElem := func(k ssa.Value, g *c02Frame) bool {
		recv, ok := s.msgCall(k, g, nil, "Source")
		return ok && isElem(recv)
	}
	asked := map[ssa.Value]bool{}
	for _, g := range c02FramesFromBody(s, F, l) {
		for _, in := range an.Instrs(g.fn, false) {
			if g == F && !l.Body[in.Block()] {
				continue
			}
			switch x := in.(type) {
			case *ssa.Lookup:
				if _, isMap := x.X.Type().Underlying().(*types.Map); !isMap || !srcOfElem(x.Index, g) {
					continue
				}
				if id, ok := s.memID(x.X, g, nil); ok {
					get(id).asks = append(get(id).asks, c02DedupAsk{x, g})
					if r := s.rootOf(x.Index, g, nil); r.V != nil {
						asked[r.V] = true
					}
				}
			case *ssa.MapUpdate:
				if !srcOfElem(x.Key, g) {
					continue
				}
				if mt, isMap := x.Map.Type().Underlying().(*types.Map); isMap && c02IsBool(mt.Elem()) {
					if b, isC := c02ConstBool(s.rootOf(x.Value, g, nil).V); !isC || !b {
						continue
					}
				}
				if id, ok := s.memID(x.Map, g, nil); ok {
					get(id).recs = append(get(id).recs, c02DedupRec{x, g})
					if r := s.rootOf(x.Key, g, nil); r.V != nil {
						asked[r.V] = true
					}
				}
			}
		}
	}
	// sets made per element do not deduplicate
	var kept []*c02Dedup
	for _, d := range out {
		inside := false
		if d.id.f == F {
			if in, ok := d.id.v.(ssa.Instruction); ok && l.Body[in.Block()] {
				inside = true
			}
		} else if d.id.f.under(F) {
			for x := d.id.f; x != F; x = x.parent {
				if x.parent == F && l.Body[x.site.Block()] {
					inside = true
				}
			}
		}
		if inside {
			why = "the set of seen sources is re-created inside the loop (per element)"
			continue
		}
		if len(d.asks) == 0 {
			continue
		}
		kept = append(kept, d)
	}
	// is the element's source looked at in some other way?
	for _, g := range c02FramesFromBody(s, F, l) {
		for _, in := range an.Instrs(g.fn, false) {
			call, ok := in.(*ssa.Call)
			if !ok || !call.Call.IsInvoke() || call.Call.Method.Name() != "Source" {
				continue
			}
			if g == F && !l.Body[call.Block()] {
				continue
			}
			if recv := s.rootOf(call.Call.Value, g, nil); isElem(recv) && !asked[ssa.Value(call)] {
				otherSourceUse = true
			}
		}
	}
	return kept, why, otherSourceUse
}

// seenAtom: the assumption "the set answers: this source was seen before".
func (d *c02Dedup) seenAtom(v ssa.Value, f *c02Frame) (bool, bool) {
	match := func(lk *ssa.Lookup) bool {
		for _, a := range d.asks {
			if a.lk == lk && a.f == f {
				return true
			}
		}
		return false
	}
	switch x := v.(type) {
	case *ssa.Lookup:
		if !x.CommaOk && c02IsBool(x.Type()) && match(x) {
			return true, true
		}
	case *ssa.Extract:
		if lk, ok := x.Tuple.(*ssa.Lookup); ok && lk.CommaOk && match(lk) {
			if x.Index == 1 || c02IsBool(x.Type()) {
				return true, true
			}
		}
	}
	return false, false
}

func (d *c02Dedup) isAsk(in ssa.Instruction, f *c02Frame) bool {
	for _, a := range d.asks {
		if ssa.Instruction(a.lk) == in && a.f == f {
			return true
		}
	}
	return false
}

func (d *c02Dedup) isRec(in ssa.Instruction, f *c02Frame) bool {
	for _, a := range d.recs {
		if ssa.Instruction(a.up) == in && a.f == f {
			return true
		}
	}
	return false
}

// c02DedupOpaque: what the Q1 explorations never step into (leaf helpers without a verdict on sources).
func c02DedupOpaque(fn *ssa.Function) bool {
	if k := c02HelperKind(fn); k == "zero" || k == "iszero" {
		return true
	}
	return c02Strip(an.FuncName(fn)) == c02P+".flatten"
}

// c02NewDedupSim: an exploration of fn with every in-package callee and function literal inlined.
func c02NewDedupSim(fn *ssa.Function) *c02Sim {
	s := c02NewSim(fn)
	s.inlineAll = true
	s.opaque = c02DedupOpaque
	return s
}

// iterate explores one iteration of loop l (frame F) from its start, so that the frames of everything the body calls exist.
func (s *c02Sim) iterate(F *c02Frame, l *an.Loop) {
	oa, oi, ob, or := s.atom, s.onInstr, s.onBlock, s.onRet
	s.atom, s.onInstr, s.onRet = nil, nil, nil
	s.onBlock = func(b *ssa.BasicBlock, f *c02Frame, st *c02State) c02Act {
		if b == l.Header && f == F {
			return c02Stop
		}
		return c02Go
	}
	s.onInstr = func(in ssa.Instruction, f *c02Frame, st *c02State) c02Act {
		if _, isRet := in.(*ssa.Return); isRet && f == F {
			return c02Stop
		}
		return c02Go
	}
	for _, b := range c02LoopBodyEntries(l) {
		s.startAt(F, b, 0)
	}
	s.atom, s.onInstr, s.onBlock, s.onRet = oa, oi, ob, or
}

// growthGuarded decides idiom (c) for one growth instruction (append / increment) in frame F: some source set made
// outside the accumulating loops is such that, within one iteration of the innermost loop,
// (1) under "the source was seen before" the growth is not executed,
// (2) the growth is not executed without the set having been asked, and
// (3) an iteration that grew the accumulator has recorded the source before the next one starts.
func (s *c02Sim) growthGuarded(F *c02Frame, growth ssa.Instruction, isElem func(c02VF) bool, scope []*an.Loop) (bool, string) {
	inner := an.InnermostLoop(F.fn, growth.Block())
	if inner == nil {
		return false, "accumulation outside a loop"
	}
	return s.growthGuardedIn(F, inner, growth, F, isElem, scope)
}

// growthGuardedIn: the same for a growth instruction executed in frame gf, somewhere below the body of loop inner of
// frame F (an accumulator kept in memory and extended by a helper or method).
func (s *c02Sim) growthGuardedIn(F *c02Frame, inner *an.Loop, growth ssa.Instruction, gf *c02Frame, isElem func(c02VF) bool, scope []*an.Loop) (bool, string) {
	s.iterate(F, inner)
	if s.exhausted {
		return false, c02Undecided
	}
	ds, why0, other := s.dedups(F, inner, isElem)
	// a set made inside an enclosing accumulating loop is re-made per pass as well
	var cands []*c02Dedup
	for _, d := range ds {
		bad := false
		for _, l := range scope {
			if l == inner {
				continue
			}
			if d.id.f == F {
				if in, ok := d.id.v.(ssa.Instruction); ok && l.Body[in.Block()] {
					bad = true
				}
			} else if d.id.f.under(F) {
				for x := d.id.f; x != F; x = x.parent {
					if x.parent == F && l.Body[x.site.Block()] {
						bad = true
					}
				}
			}
		}
		if bad {
			why0 = "the set of seen sources is re-created inside the accumulating loop"
			continue
		}
		cands = append(cands, d)
	}
	why := why0
	if why == "" {
		why = "no test of the element's source against a set of seen sources on the path to the accumulation"
		if other {
			why = "?the accumulating loop inspects elem.Source() but not through a set of seen sources the rule recognises"
		}
	}
	stopAtEnd := func(b *ssa.BasicBlock, f *c02Frame, st *c02State) c02Act {
		if b == inner.Header && f == F {
			return c02Stop
		}
		return c02Go
	}
	for _, d := range cands {
		d := d
		// (1)
		hit := false
		s.atom = func(v ssa.Value, f *c02Frame, st *c02State) (bool, bool) { return d.seenAtom(v, f) }
		s.onBlock = stopAtEnd
		s.onRet = nil
		s.onInstr = func(in ssa.Instruction, f *c02Frame, st *c02State) c02Act {
			if in == growth && f == gf {
				hit = true
				return c02Stop
			}
			if _, isRet := in.(*ssa.Return); isRet && f == F {
				return c02Stop
			}
			return c02Go
		}
		for _, b := range c02LoopBodyEntries(inner) {
			s.startAt(F, b, 0)
		}
		s.atom = nil
		if s.exhausted {
			why = c02Undecided
			continue
		}
		if hit {
			why = "accumulation is not confined to elements whose source was not seen before"
			continue
		}
		// (2) and (3)
		const asked, grown, recorded = 1, 2, 4
		noAsk, noRec := false, false
		s.onInstr = func(in ssa.Instruction, f *c02Frame, st *c02State) c02Act {
			switch {
			case d.isAsk(in, f):
				st.flags |= asked
			case d.isRec(in, f):
				st.flags |= recorded
			case in == growth && f == gf:
				if st.flags&asked == 0 {
					noAsk = true
				}
				st.flags |= grown
			}
			if _, isRet := in.(*ssa.Return); isRet && f == F {
				return c02Stop
			}
			return c02Go
		}
		s.onBlock = func(b *ssa.BasicBlock, f *c02Frame, st *c02State) c02Act {
			if b == inner.Header && f == F {
				if st.flags&grown != 0 && st.flags&recorded == 0 {
					noRec = true
				}
				return c02Stop
			}
			return c02Go
		}
		for _, b := range c02LoopBodyEntries(inner) {
			s.startAt(F, b, 0)
		}
		s.onInstr, s.onBlock = nil, nil
		if s.exhausted {
			why = c02Undecided
			continue
		}
		if noAsk {
			why = "an iteration can accumulate without asking whether the source was seen"
			continue
		}
		if noRec {
			why = "an accumulated element's source is not recorded as seen: the same source is accumulated again"
			continue
		}
		return true, "only where the element's source was not seen before (and is then recorded)"
	}
	s.atom, s.onInstr, s.onBlock, s.onRet = nil, nil, nil, nil
	return false, why
}
