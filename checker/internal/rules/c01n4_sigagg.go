package rules

import (
	"go/constant"
	"go/token"
	"go/types"

	"golang.org/x/tools/go/ssa"

	"charonverif/internal/an"
	"charonverif/internal/rt"
)

// R1s — what makes the subscription order of core.Wire (R1 c) a gate: every implementation of core.SigAgg in
// core/sigagg (s1) adds a subscriber at the END of its subscriber list, (s2) calls the subscribers synchronously in
// list order, and (s3) calls no further subscriber once one returned an error. Stated on the interface core.SigAgg
// (method set, callback type) and on the slice-of-callbacks field the Subscribe method writes; no names of fields,
// locals or helpers are used.

var c01R1sMutants = []Mutant{
	{ID: "C01-R1s-subscriber-error-only-logged", File: "core/sigagg/sigagg.go", Expect: "R1s|first subscriber error",
		Old: "\t\tif err := sub(ctx, duty, cloned); err != nil {\n\t\t\treturn err\n\t\t}",
		New: "\t\tif err := sub(ctx, duty, cloned); err != nil {\n\t\t\tlog.Warn(ctx, \"Aggregate subscriber failed\", err)\n\t\t}"},
	{ID: "C01-R1s-subscribe-prepends", File: "core/sigagg/sigagg.go", Expect: "R1s|end of the subscriber list",
		Old: "\ta.subs = append(a.subs, fn)",
		New: "\ta.subs = append([]func(context.Context, core.Duty, core.SignedDataSet) error{fn}, a.subs...)"},
	{ID: "C01-R1s-subscribers-newest-first", File: "core/sigagg/sigagg.go", Expect: "R1s|subscription order",
		Old: "\tfor _, sub := range a.subs {\n",
		New: "\tfor i := len(a.subs) - 1; i >= 0; i-- {\n\t\tsub := a.subs[i]\n"},
	{ID: "C01-R1s-subscribers-run-concurrently", File: "core/sigagg/sigagg.go", Expect: "R1s|subscription order",
		Old: "\t\tif err := sub(ctx, duty, cloned); err != nil {\n\t\t\treturn err\n\t\t}",
		New: "\t\tgo func() { _ = sub(ctx, duty, cloned) }()"},
}

func init() {
	Extend("C01", "(R1s) every core.SigAgg implementation of core/sigagg appends a subscriber at the end of its list, calls the subscribers synchronously in list order and stops at the first subscriber error (this is what makes the store-before-broadcaster order of core.Wire a gate).",
		func(c *rt.Ctx) { c.Rule("R1s", 3, func() { c01R1s(c) }) }, c01R1sMutants...)
}

func c01R1s(c *rt.Ctx) {
	it := lookupIface(c, "core", "SigAgg")
	var cb types.Type
	for i := 0; i < it.NumMethods(); i++ {
		if m := it.Method(i); m.Name() == "Subscribe" {
			if ps := m.Type().(*types.Signature).Params(); ps.Len() == 1 {
				cb = ps.At(0).Type()
			}
		}
	}
	if cb == nil {
		c.Bail("core.SigAgg.Subscribe(callback) not found")
	}
	pkg := c.SSAPkg("core/sigagg")
	isList := func(t types.Type) bool {
		sl, ok := t.Underlying().(*types.Slice)
		return ok && types.Identical(sl.Elem(), cb)
	}
	nImpl := 0
	for _, mem := range pkg.Members {
		tm, ok := mem.(*ssa.Type)
		if !ok || types.IsInterface(tm.Type()) {
			continue
		}
		recv := types.Type(types.NewPointer(tm.Type()))
		if !types.Implements(recv, it) {
			continue
		}
		nImpl++
		name := an.TypeName(tm.Type())
		sel := types.NewMethodSet(recv).Lookup(pkg.Pkg, "Subscribe")
		if sel == nil {
			c.Unsure(name+".Subscribe adds the subscriber at the end of the subscriber list", tm.Pos(), "method not found")
			continue
		}
		sub := pkg.Prog.MethodValue(sel)
		if sub == nil || len(sub.Blocks) == 0 {
			c.Unsure(name+".Subscribe adds the subscriber at the end of the subscriber list", tm.Pos(), "method body not available")
			continue
		}
		// (s1) the list field and how Subscribe writes it
		listKey := ""
		construct := name + ".Subscribe adds the subscriber at the end of the subscriber list"
		for _, in := range an.Instrs(sub, true) {
			st, ok := in.(*ssa.Store)
			if !ok {
				continue
			}
			fa, ok := st.Addr.(*ssa.FieldAddr)
			if !ok || !isList(st.Val.Type()) {
				continue
			}
			key := an.FieldKey(fa.X.Type(), fa.Field)
			listKey = key
			call, ok := an.Resolve(st.Val).(*ssa.Call)
			bi, isB := (*ssa.Builtin)(nil), false
			if ok {
				bi, isB = call.Call.Value.(*ssa.Builtin)
			}
			if !ok || !isB || bi.Name() != "append" || len(call.Call.Args) != 2 {
				c.Unsure(construct, posOf(st), "the subscriber list is not written with append(list, callback)")
				continue
			}
			first := c01ListFrom(call.Call.Args[0], key, 0)
			second := c01ListFrom(call.Call.Args[1], key, 0)
			switch {
			case first && !second:
				c.Good(construct, posOf(st), "")
			case second && !first:
				c.Bad(construct, posOf(st), "the new subscriber is put in FRONT of the already subscribed ones: the subscription order of core.Wire (aggregate store before broadcaster) is reversed at run time")
			default:
				c.Unsure(construct, posOf(st), "the checker cannot tell where the new subscriber is placed in the list")
			}
		}
		if listKey == "" {
			c.Unsure(construct, sub.Pos(), "Subscribe does not store into a slice of callbacks: the subscriber collection is not followed")
			continue
		}
		// (s2), (s3) every call through an element of the list
		nCalls := 0
		for _, f := range an.PkgFuncs(pkg) {
			for _, in := range an.Instrs(f, false) {
				ci, ok := in.(ssa.CallInstruction)
				if !ok || ci.Common().IsInvoke() || ci.Common().StaticCallee() != nil {
					continue
				}
				ld, ok := c01ResolveCaptured(ci.Common().Value).(*ssa.UnOp)
				if !ok || ld.Op != token.MUL {
					continue
				}
				ia, ok := ld.X.(*ssa.IndexAddr)
				if !ok || !isList(ia.X.Type()) || !c01ListFrom(ia.X, listKey, 0) {
					continue
				}
				nCalls++
				where := an.FuncName(c01Root(f))
				order := where + " calls the subscribers synchronously in subscription order"
				stop := where + " calls no further subscriber after the first subscriber error"
				if _, isCall := in.(*ssa.Call); !isCall || f.Parent() != nil && c01StartedAsync(f) {
					c.Bad(order, posOf(in), "a subscriber is started with go/defer: the subscribers no longer run one after the other, so the aggregate store cannot stop the broadcaster")
					continue
				}
				switch c01IndexDir(ia.Index) {
				case 1:
					c.Good(order, posOf(in), "")
				case -1:
					c.Bad(order, posOf(in), "the subscriber list is walked from the last to the first element: the subscription order of core.Wire (aggregate store before broadcaster) is reversed")
				default:
					c.Unsure(order, posOf(in), "the checker cannot tell in which direction the subscriber list is walked")
				}
				// (s3)
				e := ci.Value()
				if e == nil || !an.IsErrorType(e.Type()) {
					c.Unsure(stop, posOf(in), "the subscriber call has no single error result")
					continue
				}
				conds := an.CondsOn(f, e)
				cut, branched := false, false
				for _, cd := range conds {
					if cd.Other == nil || !an.IsNilConst(cd.Other) || (cd.Op != token.EQL && cd.Op != token.NEQ) {
						continue
					}
					branched = true
					fail := cd.Succ(cd.Op == token.NEQ) // successor taken when the error is non-nil
					if fail != in.Block() && !an.CanReach(fail, in.Block(), nil) {
						cut = true
					}
				}
				used := false
				if e.Referrers() != nil {
					for _, r := range *e.Referrers() {
						if _, dbg := r.(*ssa.DebugRef); !dbg {
							used = true
						}
					}
				}
				switch {
				case cut:
					c.Good(stop, posOf(in), "")
				case branched || !used:
					c.Bad(stop, posOf(in), "after a subscriber returned an error the next subscriber is still called: the aggregate store's 'mismatching data' rejection no longer keeps the aggregate from the broadcaster")
				default:
					c.Unsure(stop, posOf(in), "the checker cannot follow how the subscriber's error is handled")
				}
			}
		}
		if nCalls == 0 {
			c.Unsure(name+" calls the subscribers synchronously in subscription order", sub.Pos(), "no call through an element of the subscriber list found in core/sigagg")
		}
	}
	if nImpl == 0 {
		c.Bail("no implementation of core.SigAgg found in core/sigagg")
	}
}

// c01StartedAsync: literal g is only used as the callee of go/defer statements of its parent.
func c01StartedAsync(g *ssa.Function) bool {
	if g.Parent() == nil {
		return false
	}
	for _, in := range an.Instrs(g.Parent(), false) {
		switch x := in.(type) {
		case *ssa.Go:
			if c01FuncValue(x.Call.Value) == g {
				return true
			}
		case *ssa.Defer:
			if c01FuncValue(x.Call.Value) == g {
				return true
			}
		}
	}
	return false
}

// c01ListFrom: v is the content of the struct field `key` (a load of it, a reslice, a local copy, or a fresh copy
// made with append(empty, field...)).
func c01ListFrom(v ssa.Value, key string, depth int) bool {
	if depth > 6 {
		return false
	}
	v = an.Resolve(v)
	switch x := v.(type) {
	case *ssa.UnOp:
		if x.Op != token.MUL {
			return false
		}
		if fa, ok := x.X.(*ssa.FieldAddr); ok {
			return an.FieldKey(fa.X.Type(), fa.Field) == key
		}
	case *ssa.Field:
		return an.FieldKey(x.X.Type(), x.Field) == key
	case *ssa.Slice:
		if _, isAlloc := x.X.(*ssa.Alloc); isAlloc {
			return false
		}
		return c01ListFrom(x.X, key, depth+1)
	case *ssa.Call:
		if b, ok := x.Call.Value.(*ssa.Builtin); ok && b.Name() == "append" && len(x.Call.Args) == 2 {
			if !c01EmptyList(x.Call.Args[0]) {
				return false
			}
			return c01ListFrom(x.Call.Args[1], key, depth+1)
		}
	}
	return false
}

func c01EmptyList(v ssa.Value) bool {
	v = an.Resolve(v)
	if an.IsNilConst(v) {
		return true
	}
	if ms, ok := v.(*ssa.MakeSlice); ok {
		n, isC := an.ConstInt(ms.Len)
		return isC && n == 0
	}
	return false
}

// c01IndexDir: +1 when idx is a loop counter that only grows by a positive constant, -1 when it only shrinks, 0 otherwise.
func c01IndexDir(idx ssa.Value) int {
	step := func(b *ssa.BinOp, phi *ssa.Phi) int {
		if b.X != ssa.Value(phi) {
			return 0
		}
		k, ok := b.Y.(*ssa.Const)
		if !ok || k.Value == nil || k.Value.Kind() != constant.Int {
			return 0
		}
		s := constant.Sign(k.Value)
		switch b.Op {
		case token.ADD:
			return s
		case token.SUB:
			return -s
		}
		return 0
	}
	var phi *ssa.Phi
	switch x := idx.(type) {
	case *ssa.Phi:
		phi = x
	case *ssa.BinOp:
		p, ok := x.X.(*ssa.Phi)
		if !ok {
			return 0
		}
		phi = p
	default:
		return 0
	}
	dir, n := 0, 0
	for _, e := range phi.Edges {
		b, ok := e.(*ssa.BinOp)
		if !ok || b.X != ssa.Value(phi) {
			continue // the initial value
		}
		d := step(b, phi)
		if d == 0 {
			return 0
		}
		if n > 0 && d != dir {
			return 0
		}
		dir = d
		n++
	}
	if n == 0 {
		return 0
	}
	if b, ok := idx.(*ssa.BinOp); ok && step(b, phi) != dir {
		return 0
	}
	return dir
}

// c01ResolveCaptured is an.Resolve that also looks through single-assignment variables captured by a function literal.
func c01ResolveCaptured(v ssa.Value) ssa.Value {
	for i := 0; i < 6; i++ {
		v = an.Resolve(v)
		ld, ok := v.(*ssa.UnOp)
		if !ok || ld.Op != token.MUL {
			return v
		}
		fv, ok := ld.X.(*ssa.FreeVar)
		if !ok {
			return v
		}
		cell := c01Cell(fv)
		if cell == nil {
			return v
		}
		src := an.UniqueStore(cell)
		if src == nil {
			return v
		}
		v = src
	}
	return v
}
