package rules

import (
	"go/token"

	"golang.org/x/tools/go/ssa"

	"charonverif/internal/an"
	"charonverif/internal/rt"
)

func c07P9P10(c *rt.Ctx) {
	c.Rule("P9", 1, func() {
		fn := c.Fn("core/parsigdb.MemDB.store")
		n := 0
		for _, r := range an.Returns(fn) {
			if len(r.Results) != 3 {
				continue
			}
			rv := returnValues(r)
			if an.IsNilConst(rv[0]) {
				continue
			}
			if _, isLoad := rv[0].(*ssa.UnOp); isLoad && r.Block().Comment == "recover" {
				continue
			}
			n++
			good := false
			v := an.Unwrap(rv[0])
			if call, ok := v.(*ssa.Call); ok {
				if b, ok := call.Call.Value.(*ssa.Builtin); ok && b.Name() == "append" && an.IsNilConst(call.Call.Args[0]) {
					good = true
				}
				if f := call.Call.StaticCallee(); f != nil && an.FuncName(f) == "slices.Clone" {
					good = true
				}
			}
			c.Check("store returns a private snapshot", posOf(r), good,
				"store hands the stored slice itself to the threshold matcher: the exempt-cap eviction filters that slice in place under a later lock, so the matcher can see a repeated or missing share")
		}
		if n == 0 {
			c.Bail("store: no non-nil list returned")
		}
	})
	c.Rule("P10", 1, func() {
		fn := c.Fn("core/parsigdb.MemDB.trackExemptUnsafe")
		for _, call := range c.SomeCalls(fn, an.Static("core/parsigdb.MemDB.evictExemptShareEntryUnsafe"), "evictExemptShareEntryUnsafe", false) {
			good := false
			if ld, ok := an.Unwrap(call.Common().Args[2]).(*ssa.UnOp); ok && ld.Op == token.MUL {
				if ia, ok := ld.X.(*ssa.IndexAddr); ok {
					if k, ok := an.ConstInt(ia.Index); ok && k == 0 {
						// the indexed list is the tracked list (lookup of exemptEntries, possibly appended)
						x := an.Unwrap(ia.X)
						for i := 0; i < 4; i++ {
							if ap, ok := x.(*ssa.Call); ok {
								if b, ok := ap.Call.Value.(*ssa.Builtin); ok && b.Name() == "append" {
									x = an.Unwrap(ap.Call.Args[0])
									continue
								}
							}
							break
						}
						if k2, _, ok := an.FieldOf(x); ok && k2 == memdb+".exemptEntries" {
							good = true
						}
					}
				}
			}
			c.Check("trackExemptUnsafe evicts the oldest tracked entry", call.Pos(), good,
				"the entry evicted at the cap is not element 0 of the tracked list: the partial just stored is deleted again (store still reports success) and threshold is never reached for new duties")
		}
	})
}
