package rules

import (
	"golang.org/x/tools/go/ssa"

	"charonverif/internal/an"
	"charonverif/internal/rt"
)

// freshList decides whether a returned list is memory of its own (a copy), following in-package
// callees (a locking wrapper returns what its *Unsafe body returns).
func (k *c07k) freshList(v ssa.Value, depth int) c07v {
	v = an.H07ReachingDef(v)
	if an.IsNilConst(v) {
		return c07Ok()
	}
	if depth > 3 {
		return c07Unsure("origin of the returned list is too deep to follow")
	}
	switch x := v.(type) {
	case *ssa.MakeSlice:
		return c07Ok()
	case *ssa.Phi:
		out := c07Ok()
		for _, e := range x.Edges {
			out = out.and(k.freshList(e, depth+1))
		}
		return out
	case *ssa.Slice:
		if al, ok := an.Resolve(x.X).(*ssa.Alloc); ok && al.Heap {
			return c07Ok() // slice of a freshly allocated array (composite literal)
		}
		return k.freshList(x.X, depth+1)
	case *ssa.Call:
		if b, ok := x.Call.Value.(*ssa.Builtin); ok {
			if b.Name() == "append" && len(x.Call.Args) > 0 {
				// append(nil, xs...) / append([]T{}, xs...) / append(s[:0:0], xs...) copy; append(fresh, ...) stays fresh
				if sl, ok := an.Resolve(x.Call.Args[0]).(*ssa.Slice); ok && sl.Max != nil {
					if n, isC := an.ConstInt(sl.Max); isC && n == 0 {
						return c07Ok()
					}
				}
				return k.freshList(x.Call.Args[0], depth+1)
			}
			return c07Unsure("returned list is the result of builtin " + b.Name())
		}
		if f := x.Call.StaticCallee(); f != nil && an.FuncName(f) == "slices.Clone" {
			return c07Ok()
		}
	}
	if call, idx, ok := c07resultOf(v); ok {
		if g := k.ix.Callee(&call.Call); g != nil {
			out, n := c07Ok(), 0
			for _, r := range an.Returns(g) {
				rv := returnValues(r)
				if idx >= len(rv) {
					continue
				}
				n++
				out = out.and(k.freshList(rv[idx], depth+1))
			}
			if n == 0 {
				return c07Unsure(an.FuncName(g) + " has no return")
			}
			return out
		}
	}
	if c07entries(v) {
		return c07Bad("stored slice")
	}
	return c07Unsure("origin of the returned list is not recognised")
}

func init() {
	Extend("C07", "", func(*rt.Ctx) {},
		Mutant{ID: "C07-P9-return-resliced-stored", File: "core/parsigdb/memory.go", Expect: "P9",
			Old: "\treturn append([]core.ParSignedData(nil), db.entries[k]...), true, nil", New: "\treturn db.entries[k][:len(db.entries[k]):len(db.entries[k])], true, nil"},
		Mutant{ID: "C07-P10-evict-second-oldest", File: "core/parsigdb/memory.go", Expect: "P10",
			Old: "\t\tdb.evictExemptShareEntryUnsafe(ctx, stored[0], shareIdx)", New: "\t\tdb.evictExemptShareEntryUnsafe(ctx, stored[1], shareIdx)"},
		Mutant{ID: "C07-P10-evict-last", File: "core/parsigdb/memory.go", Expect: "P10",
			Old: "\t\tdb.evictExemptShareEntryUnsafe(ctx, stored[0], shareIdx)", New: "\t\tdb.evictExemptShareEntryUnsafe(ctx, stored[len(stored)-1], shareIdx)"})
}

func c07P9P10(c *rt.Ctx) {
	k := newC07k(c)
	c.Rule("P9", 1, func() {
		// every function that inserts into entries (directly or through helpers) and returns a list returns a private
		// snapshot, never the stored slice
		n := 0
		for _, fn := range k.ix.Funcs {
			if fn.Parent() != nil || !k.growsEntries(fn) {
				continue
			}
			res := fn.Signature.Results()
			li := -1
			for i := 0; i < res.Len(); i++ {
				if an.TypeName(res.At(i).Type()) == "[]core.ParSignedData" && li < 0 {
					li = i
				}
			}
			if li < 0 {
				continue
			}
			for _, r := range an.Returns(fn) {
				if len(r.Results) != res.Len() || r.Block().Comment == "recover" {
					continue
				}
				rv := returnValues(r)
				if an.IsNilConst(an.Resolve(rv[li])) || !k.touchesEntries(rv[li], 0, map[ssa.Value]bool{}) {
					continue // not the per-key list (e.g. the matcher's result handed on)
				}
				n++
				v := k.freshList(rv[li], 0)
				if v.st == c07bad {
					v.why = "store hands the stored slice itself to the threshold matcher: the exempt-cap eviction filters that slice in place under a later lock, so the matcher can see a repeated or missing share"
				}
				k.report("store returns a private snapshot", posOf(r), v)
			}
		}
		if n == 0 {
			c.Bail("store: no non-nil list returned")
		}
	})
	c.Rule("P10", 1, func() {
		if len(k.trackers()) == 0 {
			c.Bail("no function writes exemptEntries back")
		}
		if k.p10() == 0 {
			c.Bail("no removal from entries is reached from the function that maintains exemptEntries")
		}
	})
}
