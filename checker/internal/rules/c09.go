package rules

import (
	"fmt"
	"go/constant"
	"go/token"
	"go/types"
	"sort"
	"strings"

	"golang.org/x/tools/go/ssa"

	"charonverif/internal/an"
	"charonverif/internal/load"
	"charonverif/internal/rt"
)

func init() {
	Register(&Prop{
		ID: "C09",
		Decides: "sigagg.Aggregator: (G1) every non-nil result of aggregate is the very value handed to a.verifyFunc together with the pubkey parameter, on the nil-error edge of that call; " +
			"(G2) subscribers are called only from Aggregate, after the per-validator loop, with (a clone of) the set filled only by checked aggregate results; any aggregate error leaves without publishing (all-or-nothing); " +
			"(G3) the map given to tbls.ThresholdAggregate is keyed by ShareIdx of the supplied partials and its size is tested against a.threshold after it was filled; " +
			"(G4) the verifier chain NewVerifier -> core.VerifyEth2SignedData -> signing.Verify -> GetDataRoot/GetDomain -> tbls.Verify passes the same pubkey, the data's own DomainName/Epoch/MessageRoot/Signature and hashes SigningData{ObjectRoot: root, Domain: GetDomain(name, epoch)}; each link reports success only through the next one; " +
			"(G5) every core.Eth2SignedData implementor returns one signing.Domain* constant, equal to the reference table; (G6) production code builds the aggregator with sigagg.NewVerifier and verifyFunc is only set by New.",
		NotDecided: "cryptographic validity (that tbls.Verify accepts only signatures of the group key, that threshold aggregation of disagreeing/invalid shares fails verification); per-type Epoch() derivations; correctness of the beacon node's domain answer.",
		Run:        c09,
		Mutants: []Mutant{
			// G1
			{ID: "C09-G1-log-not-return", File: "core/sigagg/sigagg.go", Expect: "G1",
				Old: "\t\treturn nil, err\n\t}\n\n\tspan.SetStatus(codes.Ok, \"success\")",
				New: "\t}\n\n\tspan.SetStatus(codes.Ok, \"success\")"},
			{ID: "C09-G1-verify-other-value", File: "core/sigagg/sigagg.go", Expect: "G1",
				Old: "a.verifyFunc(ctx, pubkey, aggSig)", New: "a.verifyFunc(ctx, pubkey, fullSig)"},
			{ID: "C09-G1-return-unverified", File: "core/sigagg/sigagg.go", Expect: "G1",
				Old: "return aggSig, nil", New: "return fullSig, nil"},
			{ID: "C09-G1-inverted-check", File: "core/sigagg/sigagg.go", Expect: "G1",
				Old: "a.verifyFunc(ctx, pubkey, aggSig); err != nil {", New: "a.verifyFunc(ctx, pubkey, aggSig); err == nil {"},
			{ID: "C09-G1-other-pubkey", File: "core/sigagg/sigagg.go", Expect: "G1",
				Old: "a.verifyFunc(ctx, pubkey, aggSig)", New: "a.verifyFunc(ctx, core.PubKey(\"\"), aggSig)"},
			{ID: "C09-G1-verify-only-attestations", File: "core/sigagg/sigagg.go", Expect: "G1",
				Old: "\tif err := a.verifyFunc(ctx, pubkey, aggSig); err != nil {\n\t\tspan.RecordError(err)\n\t\tspan.SetStatus(codes.Error, err.Error())\n\n\t\treturn nil, err\n\t}",
				New: "\tif _, isAtt := aggSig.(core.VersionedAttestation); isAtt {\n\tif err := a.verifyFunc(ctx, pubkey, aggSig); err != nil {\n\t\tspan.RecordError(err)\n\t\tspan.SetStatus(codes.Error, err.Error())\n\n\t\treturn nil, err\n\t}\n\t}"},
			{ID: "C09-G1-fast-path-skips-verify", File: "core/sigagg/sigagg.go", Expect: "G1",
				Old: "\tif err := a.verifyFunc(ctx, pubkey, aggSig); err != nil {",
				New: "\tif a.threshold == 1 {\n\t\treturn aggSig, nil\n\t}\n\n\tif err := a.verifyFunc(ctx, pubkey, aggSig); err != nil {"},
			// G2
			{ID: "C09-G2-publish-inside-loop", File: "core/sigagg/sigagg.go", Expect: "G2",
				Old: "\t\toutput[pubkey] = signed\n\t}",
				New: "\t\toutput[pubkey] = signed\n\n\t\tfor _, sub := range a.subs {\n\t\t\tif err := sub(ctx, duty, output); err != nil {\n\t\t\t\treturn err\n\t\t\t}\n\t\t}\n\t}"},
			{ID: "C09-G2-log-and-continue", File: "core/sigagg/sigagg.go", Expect: "G2",
				Old: "\t\t\treturn errors.Wrap(err, \"threshold aggregate\", z.Any(\"pubkey\", pubkey))",
				New: "\t\t\tlog.Warn(ctx, \"threshold aggregate\", err, z.Any(\"pubkey\", pubkey))\n\t\t\tcontinue"},
			{ID: "C09-G2-break-on-error", File: "core/sigagg/sigagg.go", Expect: "G2",
				Old: "\t\t\treturn errors.Wrap(err, \"threshold aggregate\", z.Any(\"pubkey\", pubkey))",
				New: "\t\t\tbreak"},
			{ID: "C09-G2-store-before-check", File: "core/sigagg/sigagg.go", Expect: "G2",
				Old: "\t\tsigned, err := a.aggregate(ctx, pubkey, parSigs)\n\t\tif err != nil {",
				New: "\t\tsigned, err := a.aggregate(ctx, pubkey, parSigs)\n\t\toutput[pubkey] = signed\n\t\tif err != nil && len(output) == 0 {"},
			{ID: "C09-G2-subscribe-publishes", File: "core/sigagg/sigagg.go", Expect: "G2",
				Old: "\ta.subs = append(a.subs, fn)",
				New: "\ta.subs = append(a.subs, fn)\n\t_ = a.subs[0](context.Background(), core.Duty{}, core.SignedDataSet{})"},
			// G3
			{ID: "C09-G3-threshold-minus-one", File: "core/sigagg/sigagg.go", Expect: "G3",
				Old: "\tif len(blsSigs) < a.threshold {", New: "\tif len(blsSigs) < a.threshold-1 {"},
			{ID: "C09-G3-count-with-duplicates", File: "core/sigagg/sigagg.go", Expect: "G3",
				Old: "\tif len(blsSigs) < a.threshold {", New: "\tif len(parSigs) < a.threshold {"},
			{ID: "C09-G3-only-empty", File: "core/sigagg/sigagg.go", Expect: "G3",
				Old: "\tif len(blsSigs) < a.threshold {", New: "\tif len(blsSigs) == 0 {"},
			{ID: "C09-G3-not-keyed-by-share", File: "core/sigagg/sigagg.go", Expect: "G3",
				Old: "\t\tblsSigs[parSig.ShareIdx] = sig", New: "\t\tblsSigs[len(blsSigs)+1] = sig"},
			{ID: "C09-G3-conjunct-weakened", File: "core/sigagg/sigagg.go", Expect: "G3",
				Old: "\t\tblsSigs[parSig.ShareIdx] = sig\n\t}\n\n\tif len(blsSigs) < a.threshold {",
				New: "\t\tblsSigs[parSig.ShareIdx] = sig\n\t}\n\n\tif len(blsSigs) < a.threshold && a.threshold < 0 {"},
			// G4
			{ID: "C09-G4-constant-domain", File: "core/eth2signeddata.go", Expect: "G4",
				Old: "signing.Verify(ctx, eth2Cl, data.DomainName(), epoch,", New: "signing.Verify(ctx, eth2Cl, signing.DomainBeaconAttester, epoch,"},
			{ID: "C09-G4-epoch-shift", File: "core/eth2signeddata.go", Expect: "G4",
				Old: "signing.Verify(ctx, eth2Cl, data.DomainName(), epoch,", New: "signing.Verify(ctx, eth2Cl, data.DomainName(), epoch+1,"},
			{ID: "C09-G4-epoch-error-ignored", File: "core/eth2signeddata.go", Expect: "G4",
				Old: "\tepoch, err := data.Epoch(ctx, eth2Cl)\n\tif err != nil {\n\t\treturn err\n\t}",
				New: "\tepoch, err := data.Epoch(ctx, eth2Cl)\n\tif err != nil {\n\t\tepoch = 0\n\t}"},
			{ID: "C09-G4-verifier-logs-failure", File: "core/sigagg/sigagg.go", Expect: "G4",
				Old: "\t\t\treturn errors.Wrap(err, \"verify aggregate signature\")",
				New: "\t\t\tlog.Warn(ctx, \"verify aggregate signature\", err)"},
			{ID: "C09-G4-verifier-skips-non-eth2", File: "core/sigagg/sigagg.go", Expect: "G4",
				Old: "\t\t\treturn errors.New(\"invalid eth2 signed data\")", New: "\t\t\treturn nil"},
			{ID: "C09-G4-epoch-zero", File: "eth2util/signing/signing.go", Expect: "G4",
				Old: "GetDataRoot(ctx, eth2Cl, domain, epoch, sigRoot)", New: "GetDataRoot(ctx, eth2Cl, domain, 0, sigRoot)"},
			{ID: "C09-G4-verify-raw-root", File: "eth2util/signing/signing.go", Expect: "G4",
				Old: "\treturn tbls.Verify(pubkey, sigData[:], tbls.Signature(signature))",
				New: "\tsigData = sigRoot\n\n\treturn tbls.Verify(pubkey, sigData[:], tbls.Signature(signature))"},
			{ID: "C09-G4-dataroot-error-ignored", File: "eth2util/signing/signing.go", Expect: "G4",
				Old: "\tsigData, err := GetDataRoot(ctx, eth2Cl, domain, epoch, sigRoot)\n\tif err != nil {\n\t\treturn err\n\t}",
				New: "\tsigData, err := GetDataRoot(ctx, eth2Cl, domain, epoch, sigRoot)\n\tif err != nil && ctx.Err() != nil {\n\t\treturn err\n\t}"},
			{ID: "C09-G4-root-not-hashed", File: "eth2util/signing/signing.go", Expect: "G4",
				Old: "ObjectRoot: root, Domain: domain", New: "ObjectRoot: eth2p0.Root(domain), Domain: domain"},
			{ID: "C09-G4-domain-error-ignored", File: "eth2util/signing/signing.go", Expect: "G4",
				Old: "\tdomain, err := GetDomain(ctx, eth2Cl, name, epoch)\n\tif err != nil {\n\t\treturn [32]byte{}, err\n\t}",
				New: "\tdomain, err := GetDomain(ctx, eth2Cl, name, epoch)\n\tif err != nil && ctx.Err() != nil {\n\t\treturn [32]byte{}, err\n\t}"},
			{ID: "C09-G4-domain-epoch-zero", File: "eth2util/signing/signing.go", Expect: "G4",
				Old: "return eth2Cl.Domain(ctx, domainTyped, epoch)", New: "return eth2Cl.Domain(ctx, domainTyped, 0)"},
			{ID: "C09-G4-domain-fixed-key", File: "eth2util/signing/signing.go", Expect: "G4",
				Old: "domainType, ok := spec[string(name)]", New: "domainType, ok := spec[string(DomainBeaconAttester)]"},
			// G5
			{ID: "C09-G5-sync-message-domain", File: "core/eth2signeddata.go", Expect: "G5",
				Old: "func (SignedSyncMessage) DomainName() signing.DomainName {\n\treturn signing.DomainSyncCommittee\n",
				New: "func (SignedSyncMessage) DomainName() signing.DomainName {\n\treturn signing.DomainSyncCommitteeSelectionProof\n"},
			{ID: "C09-G5-aggregate-domain", File: "core/eth2signeddata.go", Expect: "G5",
				Old: "func (SignedAggregateAndProof) DomainName() signing.DomainName {\n\treturn signing.DomainAggregateAndProof\n",
				New: "func (SignedAggregateAndProof) DomainName() signing.DomainName {\n\treturn signing.DomainSelectionProof\n"},
			{ID: "C09-G5-domain-string", File: "eth2util/signing/signing.go", Expect: "G5",
				Old: "DomainName = \"DOMAIN_VOLUNTARY_EXIT\"", New: "DomainName = \"DOMAIN_DEPOSIT\""},
			{ID: "C09-G5-two-domains", File: "core/eth2signeddata.go", Expect: "G5",
				Old: "func (SignedRandao) DomainName() signing.DomainName {\n\treturn signing.DomainRandao\n",
				New: "func (s SignedRandao) DomainName() signing.DomainName {\n\tif s.SignedEpoch.Epoch == 0 {\n\t\treturn signing.DomainBeaconProposer\n\t}\n\n\treturn signing.DomainRandao\n"},
			// G6
			{ID: "C09-G6-stub-verifier", File: "app/app.go", Expect: "G6",
				Old: "sigagg.New(lock.Threshold, sigagg.NewVerifier(eth2Cl))",
				New: "sigagg.New(lock.Threshold, func(context.Context, core.PubKey, core.SignedData) error { return nil })"},
			{ID: "C09-G6-new-drops-verifier", File: "core/sigagg/sigagg.go", Expect: "G6",
				Old: "\t\tverifyFunc: verifyFunc,\n", New: "\t\tverifyFunc: func(context.Context, core.PubKey, core.SignedData) error { return nil },\n"},
			{ID: "C09-G6-subscribe-resets-verifier", File: "core/sigagg/sigagg.go", Expect: "G6",
				Old: "\ta.subs = append(a.subs, fn)",
				New: "\ta.subs = append(a.subs, fn)\n\ta.verifyFunc = func(context.Context, core.PubKey, core.SignedData) error { return nil }"},
		},
	})
}

const (
	c09Agg        = "core/sigagg.Aggregator"
	c09FnAggLower = "core/sigagg.Aggregator.aggregate"
	c09FnAggUpper = "core/sigagg.Aggregator.Aggregate"
	c09SigningPkg = "eth2util/signing"
	c09SigningDat = "github.com/attestantio/go-eth2-client/spec/phase0.SigningData"
)

// c09DomainTable is the reference type -> domain table confirmed by reading the tree against the
// consensus-spec signing domains (DESIGN §5 C09-G5).
var c09DomainTable = map[string]string{
	"core.VersionedSignedProposal":              "DomainBeaconProposer",
	"core.VersionedAttestation":                 "DomainBeaconAttester",
	"core.SignedVoluntaryExit":                  "DomainExit",
	"core.VersionedSignedValidatorRegistration": "DomainApplicationBuilder",
	"core.SignedRandao":                         "DomainRandao",
	"core.BeaconCommitteeSelection":             "DomainSelectionProof",
	"core.SignedAggregateAndProof":              "DomainAggregateAndProof",
	"core.VersionedSignedAggregateAndProof":     "DomainAggregateAndProof",
	"core.SignedSyncMessage":                    "DomainSyncCommittee",
	"core.SignedSyncContributionAndProof":       "DomainContributionAndProof",
	"core.SyncCommitteeSelection":               "DomainSyncCommitteeSelectionProof",
	// not in the `var _ Eth2SignedData` list of eth2signeddata.go, found through the method sets: the
	// unsigned contribution whose "signature" is the selection proof over SyncAggregatorSelectionData.
	"core.SyncContributionAndProof": "DomainSyncCommitteeSelectionProof",
}

// c09DomainKeys: the beacon-node spec keys the domain constants must denote (consensus-specs names).
var c09DomainKeys = map[string]string{
	"DomainBeaconProposer":              "DOMAIN_BEACON_PROPOSER",
	"DomainBeaconAttester":              "DOMAIN_BEACON_ATTESTER",
	"DomainRandao":                      "DOMAIN_RANDAO",
	"DomainExit":                        "DOMAIN_VOLUNTARY_EXIT",
	"DomainApplicationBuilder":          "DOMAIN_APPLICATION_BUILDER",
	"DomainSelectionProof":              "DOMAIN_SELECTION_PROOF",
	"DomainAggregateAndProof":           "DOMAIN_AGGREGATE_AND_PROOF",
	"DomainSyncCommittee":               "DOMAIN_SYNC_COMMITTEE",
	"DomainSyncCommitteeSelectionProof": "DOMAIN_SYNC_COMMITTEE_SELECTION_PROOF",
	"DomainContributionAndProof":        "DOMAIN_CONTRIBUTION_AND_PROOF",
}

// ---------------------------------------------------------------------------------------------
// helpers

// c09Ret is one return of a function with its result values resolved through the spill slots that
// `defer` introduces for results (`*slot = v; rundefers; t = *slot; return t`).
type c09Ret struct {
	Ret  *ssa.Return
	Vals []ssa.Value       // nil entry: not resolvable
	Sink []ssa.Instruction // instruction at which the value is committed (the store or the return)
}

func c09Returns(fn *ssa.Function) []c09Ret {
	var out []c09Ret
	for _, r := range an.Returns(fn) {
		if fn.Recover != nil && r.Block() == fn.Recover {
			continue // panic-recovery exit: returns whatever the slots hold, not a path of the logic
		}
		cr := c09Ret{Ret: r}
		for _, v := range r.Results {
			val, sink := v, ssa.Instruction(r)
			if ld, ok := v.(*ssa.UnOp); ok && ld.Op == token.MUL {
				if al, ok := ld.X.(*ssa.Alloc); ok {
					val, sink = nil, r
					instrs := r.Block().Instrs
					for i := len(instrs) - 1; i >= 0; i-- {
						if st, ok := instrs[i].(*ssa.Store); ok && st.Addr == ssa.Value(al) && an.Dominates(st, ld) {
							val, sink = st.Val, st
							break
						}
					}
				}
			}
			cr.Vals = append(cr.Vals, val)
			cr.Sink = append(cr.Sink, sink)
		}
		out = append(out, cr)
	}
	return out
}

// c09ParamOfType returns the unique parameter of fn whose type renders as short
// (module-relative package paths).
func c09ParamOfType(c *rt.Ctx, fn *ssa.Function, short string) *ssa.Parameter {
	var found *ssa.Parameter
	for _, p := range fn.Params {
		if c09TypeStr(p.Type()) == short {
			if found != nil {
				c.Bail("%s: two parameters of type %s", an.FuncName(fn), short)
			}
			found = p
		}
	}
	if found == nil {
		c.Bail("%s: no parameter of type %s", an.FuncName(fn), short)
	}
	return found
}

// c09TypeStr renders a type with module-relative package paths, keeping pointer/slice decoration.
func c09TypeStr(t types.Type) string {
	return strings.ReplaceAll(types.TypeString(t, nil), load.Mod+"/", "")
}

// c09Org describes where a value comes from after peeling conversions, tuple extraction,
// type assertions, slicing and loads of single-assignment locals.
type c09Org struct {
	Kind string // const | param | freevar | func | expr | make | call | lookup | other
	Val  ssa.Value
	Call *ssa.Call
	Idx  int
}

func (o c09Org) String() string {
	switch o.Kind {
	case "const":
		return "a constant"
	case "param":
		return "parameter " + o.Val.Name()
	case "call":
		return fmt.Sprintf("result %d of %s", o.Idx, c09CallName(o.Call))
	case "lookup":
		return "a map lookup"
	case "freevar":
		return "captured variable " + o.Val.Name()
	case "func":
		if mc, ok := o.Val.(*ssa.MakeClosure); ok {
			return "function " + mc.Fn.Name()
		}
		return "function " + o.Val.Name()
	case "expr":
		return "a computed expression"
	case "make":
		return "a value made in place"
	}
	return "an expression the checker does not follow"
}

func c09CallName(call *ssa.Call) string {
	n := an.CalleeName(&call.Call)
	if n == "" {
		return "a dynamic call"
	}
	return n
}

// c09Peel lists static callees that only re-type their argument.
var c09Peel = map[string]bool{"core.Signature.ToETH2": true}

// c09Origin returns the single origin of v ("other" when v merges several).
func c09Origin(v ssa.Value) c09Org {
	os := c09Origins(v)
	if len(os) == 1 {
		return os[0]
	}
	return c09Org{Kind: "other", Val: v}
}

// c09Origins returns every possible origin of v: phi edges and the stores into a local that is
// only loaded/sliced are all followed (flow-insensitively).
func c09Origins(v ssa.Value) []c09Org {
	var out []c09Org
	seen := map[ssa.Value]bool{}
	var walk func(v ssa.Value, depth int)
	fromAlloc := func(al *ssa.Alloc, depth int) {
		sts := c09Stores(al)
		if len(sts) == 0 {
			out = append(out, c09Org{Kind: "other", Val: al})
			return
		}
		for _, st := range sts {
			walk(st.Val, depth+1)
		}
	}
	walk = func(v ssa.Value, depth int) {
		if depth > 24 {
			out = append(out, c09Org{Kind: "other", Val: v})
			return
		}
		v = an.Unwrap(v)
		if seen[v] {
			return
		}
		seen[v] = true
		switch x := v.(type) {
		case *ssa.Const:
			out = append(out, c09Org{Kind: "const", Val: x})
		case *ssa.Parameter:
			out = append(out, c09Org{Kind: "param", Val: x})
		case *ssa.FreeVar:
			out = append(out, c09Org{Kind: "freevar", Val: x})
		case *ssa.Function, *ssa.MakeClosure:
			out = append(out, c09Org{Kind: "func", Val: x})
		case *ssa.BinOp:
			out = append(out, c09Org{Kind: "expr", Val: x})
		case *ssa.MakeMap, *ssa.MakeSlice:
			out = append(out, c09Org{Kind: "make", Val: x})
		case *ssa.Phi:
			for _, e := range x.Edges {
				walk(e, depth+1)
			}
		case *ssa.Extract:
			switch t := x.Tuple.(type) {
			case *ssa.Call:
				out = append(out, c09Org{Kind: "call", Val: x, Call: t, Idx: x.Index})
			case *ssa.TypeAssert:
				if x.Index != 0 {
					out = append(out, c09Org{Kind: "other", Val: x})
					return
				}
				walk(t.X, depth+1)
			case *ssa.Lookup:
				if x.Index != 0 {
					out = append(out, c09Org{Kind: "other", Val: x})
					return
				}
				out = append(out, c09Org{Kind: "lookup", Val: t})
			default:
				out = append(out, c09Org{Kind: "other", Val: x})
			}
		case *ssa.Call:
			if !x.Call.IsInvoke() && x.Call.StaticCallee() != nil && c09Peel[an.FuncName(x.Call.StaticCallee())] && len(x.Call.Args) == 1 {
				walk(x.Call.Args[0], depth+1)
				return
			}
			out = append(out, c09Org{Kind: "call", Val: x, Call: x, Idx: 0})
		case *ssa.TypeAssert:
			if x.CommaOk {
				out = append(out, c09Org{Kind: "other", Val: x})
				return
			}
			walk(x.X, depth+1)
		case *ssa.Lookup:
			if x.CommaOk {
				out = append(out, c09Org{Kind: "other", Val: x})
				return
			}
			out = append(out, c09Org{Kind: "lookup", Val: x})
		case *ssa.Slice:
			if al, ok := x.X.(*ssa.Alloc); ok {
				fromAlloc(al, depth)
				return
			}
			walk(x.X, depth+1)
		case *ssa.UnOp:
			if al, ok := x.X.(*ssa.Alloc); ok && x.Op == token.MUL {
				fromAlloc(al, depth)
				return
			}
			out = append(out, c09Org{Kind: "other", Val: x})
		default:
			out = append(out, c09Org{Kind: "other", Val: v})
		}
	}
	walk(v, 0)
	return out
}

// c09Stores returns the stores into a local (nil if its address escapes to anything but loads,
// slicing and stores of a value into it).
func c09Stores(al *ssa.Alloc) []*ssa.Store {
	var sts []*ssa.Store
	for _, ref := range *al.Referrers() {
		switch r := ref.(type) {
		case *ssa.Store:
			if r.Addr != ssa.Value(al) {
				return nil
			}
			sts = append(sts, r)
		case *ssa.UnOp, *ssa.Slice, *ssa.DebugRef:
		default:
			return nil
		}
	}
	return sts
}

// c09Bind records one provenance obligation: want(org) holds -> ok; a followed-but-different origin
// -> violation; an origin the checker cannot follow -> undecided.
func c09Bind(c *rt.Ctx, construct string, pos token.Pos, v ssa.Value, wantDesc string, want func(o c09Org) bool) bool {
	os := c09Origins(v)
	good, unsure := len(os) > 0, false
	var wrong *c09Org
	for i, o := range os {
		switch {
		case want(o):
		case o.Kind == "other":
			good, unsure = false, true
		default:
			good = false
			if wrong == nil {
				wrong = &os[i]
			}
		}
	}
	switch {
	case good:
		c.Good(construct, pos, wantDesc)
		return true
	case wrong != nil:
		c.Bad(construct, pos, "expected "+wantDesc+", found "+wrong.String())
	case unsure || len(os) == 0:
		c.Unsure(construct, pos, "cannot follow the argument back to "+wantDesc)
	}
	return false
}

// c09CheckedCall: every call v originates from is a checked guard of sink.
func c09CheckedCall(c *rt.Ctx, construct string, v ssa.Value, sink ssa.CallInstruction, msg string) {
	for _, o := range c09Origins(v) {
		if o.Call == nil {
			c.Unsure(construct, sink.Pos(), "origin is not a call")
			return
		}
		if g, why := an.Guarded(o.Call, sink, an.DefaultGuard); !g {
			c.Bad(construct, sink.Pos(), msg+why)
			return
		}
	}
	c.Good(construct, sink.Pos(), "")
}

func c09IsParam(p *ssa.Parameter) func(o c09Org) bool {
	return func(o c09Org) bool { return o.Kind == "param" && o.Val == ssa.Value(p) }
}

// c09IsInvokeOn: result idx of interface method `method` invoked on parameter recv.
func c09IsInvokeOn(recv *ssa.Parameter, method string, idx int) func(o c09Org) bool {
	return func(o c09Org) bool {
		return o.Kind == "call" && o.Idx == idx && o.Call.Call.IsInvoke() && o.Call.Call.Method.Name() == method &&
			an.Unwrap(o.Call.Call.Value) == ssa.Value(recv)
	}
}

// c09IsResultOf: result idx of the given call instruction.
func c09IsResultOf(call ssa.CallInstruction, idx int) func(o c09Org) bool {
	return func(o c09Org) bool { return o.Kind == "call" && o.Idx == idx && ssa.Value(o.Call) == call.Value() }
}

// c09NonNilEdge reports whether instruction at lies on a path where error value e is known non-nil
// (dominated by the non-nil successor of a branch on e).
func c09NonNilEdge(fn *ssa.Function, e ssa.Value, at ssa.Instruction) bool {
	for _, cd := range an.CondsOn(fn, e) {
		if cd.Other == nil || !an.IsNilConst(cd.Other) {
			continue
		}
		var succ *ssa.BasicBlock
		switch cd.Op {
		case token.NEQ:
			succ = cd.Succ(true)
		case token.EQL:
			succ = cd.Succ(false)
		default:
			continue
		}
		if len(succ.Preds) == 1 && (succ == at.Block() || succ.Dominates(at.Block())) {
			return true
		}
	}
	return false
}

// c09ErrStatus returns the error-typed result value(s) of a call.
func c09ErrStatus(g ssa.CallInstruction) []ssa.Value {
	errs, _ := an.StatusOf(g, -1)
	return errs
}

// c09NilOnlyVia: every return of fn whose error result may be nil is either the verdict of gate
// itself or a constant nil committed on the checked pass edge of gate. Non-nil errors (errors.New /
// errors.Wrap / a value on its own non-nil edge) carry no obligation.
func c09NilOnlyVia(c *rt.Ctx, fn *ssa.Function, gate ssa.CallInstruction, label string) {
	gateErrs := c09ErrStatus(gate)
	name := an.FuncName(fn)
	for _, r := range c09Returns(fn) {
		n := len(r.Vals)
		if n == 0 {
			continue
		}
		e, sink := r.Vals[n-1], r.Sink[n-1]
		construct := fmt.Sprintf("%s success only via %s", name, label)
		if e == nil {
			c.Unsure(construct, posOf(r.Ret), "returned error value cannot be resolved")
			continue
		}
		isGate := false
		for _, g := range gateErrs {
			if an.Unwrap(e) == g {
				isGate = true
			}
		}
		switch {
		case isGate:
			if c09NonNilEdge(fn, e, sink) {
				continue // failure pass-through
			}
			c.Good(construct, posOf(r.Ret), "returns the verdict of "+label)
		case an.IsNilConst(e):
			ok, why := an.Guarded(gate, sink, an.DefaultGuard)
			c.Check(construct, posOf(r.Ret), ok, "a nil error is returned on a path on which "+label+" did not succeed: "+why)
		default:
			if call, ok := an.Unwrap(e).(*ssa.Call); ok && an.Static("app/errors.New", "app/errors.Wrap")(&call.Call) {
				continue
			}
			if c09NonNilEdge(fn, e, sink) {
				continue
			}
			c.Unsure(construct, posOf(r.Ret), "cannot tell whether the returned error can be nil without "+label+" succeeding")
		}
	}
}

func c09IsLen(v ssa.Value, of ssa.Value) bool {
	call, ok := v.(*ssa.Call)
	if !ok {
		return false
	}
	b, ok := call.Call.Value.(*ssa.Builtin)
	return ok && b.Name() == "len" && len(call.Call.Args) == 1 && call.Call.Args[0] == of
}

// c09LenGuards returns the branches `len(of) < thr` (any spelling) with thr satisfying isThr, as
// (If, failing successor) pairs; the failing successor is the one taken when len < thr.
func c09LenGuards(fn *ssa.Function, of ssa.Value, isThr func(ssa.Value) bool) (out []struct {
	If   *ssa.If
	Fail *ssa.BasicBlock
}) {
	for _, in := range an.Instrs(fn, false) {
		lv, ok := in.(*ssa.Call)
		if !ok || !c09IsLen(lv, of) {
			continue
		}
		for _, cd := range an.CondsOn(fn, lv) {
			if cd.Other == nil || !isThr(cd.Other) {
				continue
			}
			var fail *ssa.BasicBlock
			switch cd.Op {
			case token.LSS:
				fail = cd.Succ(true)
			case token.GEQ:
				fail = cd.Succ(false)
			default:
				continue
			}
			out = append(out, struct {
				If   *ssa.If
				Fail *ssa.BasicBlock
			}{cd.If, fail})
		}
	}
	return out
}

func c09HasField(c *rt.Ctx, pkgRel, typ, field string) {
	obj := c.Pkg(pkgRel).Types.Scope().Lookup(typ)
	if obj == nil {
		c.Bail("type %s.%s not found", pkgRel, typ)
	}
	st, ok := obj.Type().Underlying().(*types.Struct)
	if !ok {
		c.Bail("%s.%s is not a struct", pkgRel, typ)
	}
	for i := 0; i < st.NumFields(); i++ {
		if st.Field(i).Name() == field {
			return
		}
	}
	c.Bail("field %s.%s.%s not found", pkgRel, typ, field)
}

// c09LoadOfRecvField: v is a load of the named field of fn's receiver.
func c09LoadOfRecvField(fn *ssa.Function, v ssa.Value, key string) bool {
	if !isLoadOfValueField(v, key) {
		return false
	}
	_, base, ok := an.FieldOf(v)
	return ok && len(fn.Params) > 0 && base == ssa.Value(fn.Params[0])
}

// ---------------------------------------------------------------------------------------------

func c09(c *rt.Ctx) {
	c.Rule("G1", 1, func() { c09G1(c) })
	c.Rule("G2", 3, func() { c09G2(c) })
	c.Rule("G3", 4, func() { c09G3(c) })
	c.Rule("G4", 28, func() { c09G4(c) })
	c.Rule("G5", 22, func() { c09G5(c) })
	c.Rule("G6", 2, func() { c09G6(c) })
}

// G1: every non-nil result of aggregate is the value verified under the pubkey parameter.
func c09G1(c *rt.Ctx) {
	fn := c.Fn(c09FnAggLower)
	c09HasField(c, "core/sigagg", "Aggregator", "verifyFunc")
	pubkeyP := c09ParamOfType(c, fn, "core.PubKey")
	verifies := an.Calls(fn, an.FieldCall(c09Agg+".verifyFunc"), false)
	nonNil := 0
	for _, r := range c09Returns(fn) {
		if len(r.Vals) != 2 {
			c.Bail("aggregate: unexpected result arity")
		}
		v, sink := r.Vals[0], r.Sink[0]
		construct := "aggregate non-nil result verified"
		if v == nil {
			c.Unsure(construct, posOf(r.Ret), "returned value cannot be resolved")
			continue
		}
		if an.IsNilConst(v) {
			continue
		}
		nonNil++
		isVerified := func(x ssa.Value) ssa.CallInstruction {
			for _, k := range verifies {
				if len(k.Common().Args) == 3 && an.Unwrap(k.Common().Args[2]) == an.Unwrap(x) {
					return k
				}
			}
			return nil
		}
		vc := isVerified(v)
		if phi, isPhi := an.Unwrap(v).(*ssa.Phi); vc == nil && isPhi {
			// a merge of separately verified values is a shape the checker does not decide
			any, all := false, true
			for _, e := range phi.Edges {
				if isVerified(e) != nil {
					any = true
				} else if _, nested := an.Unwrap(e).(*ssa.Phi); !nested && !an.IsNilConst(e) {
					all = false
				}
			}
			if any && !all {
				c.Bad(construct, posOf(r.Ret), "the returned value merges a verified aggregate with a definition that never went through a.verifyFunc (e.g. the signature re-injected into another object after verification): the published object is not the verified one")
				continue
			}
			if any {
				c.Unsure(construct, posOf(r.Ret), "returned value merges several definitions, some of them verified")
				continue
			}
		}
		if vc == nil {
			c.Bad(construct, posOf(r.Ret), "a non-nil result is returned that was not passed to a.verifyFunc")
			continue
		}
		if _, base, ok := an.FieldOf(vc.Common().Value); !ok || base != ssa.Value(fn.Params[0]) {
			c.Bad(construct, vc.Pos(), "verifyFunc is not the receiver's")
			continue
		}
		if an.Unwrap(vc.Common().Args[1]) != ssa.Value(pubkeyP) {
			c.Bad(construct, vc.Pos(), "the aggregate is verified under a key other than the pubkey parameter")
			continue
		}
		ok, why := an.Guarded(vc, sink, an.DefaultGuard)
		c.Check(construct, posOf(r.Ret), ok, "the result is returned on a path on which a.verifyFunc did not succeed: "+why)
	}
	if nonNil == 0 {
		c.Bail("aggregate never returns a non-nil result")
	}
}

// G2: all-or-nothing publication in Aggregate.
func c09G2(c *rt.Ctx) {
	fn := c.Fn(c09FnAggUpper)
	c09HasField(c, "core/sigagg", "Aggregator", "subs")
	setP := c09ParamOfType(c, fn, "map[core.PubKey][]core.ParSignedData")
	subsM := an.FieldCall(c09Agg + ".subs")
	// sweep: nobody else publishes
	var pubs []ssa.CallInstruction
	for _, f := range an.PkgFuncs(c.SSAPkg("core/sigagg")) {
		for _, k := range an.Calls(f, subsM, false) {
			root := f
			for root.Parent() != nil {
				root = root.Parent()
			}
			if root == fn && f != fn {
				c.Unsure("subscribers called from a closure of Aggregate", k.Pos(), "publication from a nested function is not followed")
				continue
			}
			if f != fn {
				// a helper that merely forwards a set it was given is not followed (undecided); one that
				// publishes a set of its own making bypasses the aggregation loop.
				forwards := false
				if a := k.Common().Args; len(a) == 3 {
					for _, o := range c09Origins(a[2]) {
						if o.Kind == "param" || o.Kind == "other" || o.Kind == "freevar" {
							forwards = true
						}
					}
				}
				if forwards {
					c.Unsure("subscribers called from "+an.FuncName(root), k.Pos(), "publication through a helper is not followed back to Aggregate")
				} else {
					c.Bad("subscribers called from "+an.FuncName(root), k.Pos(), "subscribers are called outside Aggregator.Aggregate with a set that is not the checked result of the aggregation loop")
				}
				continue
			}
			pubs = append(pubs, k)
		}
	}
	if len(pubs) == 0 {
		c.Bail("no call through Aggregator.subs in Aggregate")
	}
	aggs := c.SomeCalls(fn, an.Static(c09FnAggLower), "a.aggregate", false)
	// the published set
	var out ssa.Value
	for _, k := range pubs {
		args := k.Common().Args
		if len(args) != 3 {
			c.Bail("subscriber signature changed")
		}
		o := c09Origin(args[2])
		var m ssa.Value
		switch {
		case o.Kind == "call" && o.Idx == 0 && an.Static("core.SignedDataSet.Clone")(&o.Call.Call):
			m = an.Unwrap(o.Call.Call.Args[0])
		default:
			m = an.Unwrap(args[2])
		}
		mk, ok := m.(*ssa.MakeMap)
		if !ok {
			c.Unsure("Aggregate published set", k.Pos(), "the set handed to subscribers is not (a clone of) a map made in Aggregate")
			continue
		}
		if out != nil && out != ssa.Value(mk) {
			c.Unsure("Aggregate published set", k.Pos(), "subscribers receive different sets")
			continue
		}
		out = mk
		if o.Kind == "call" {
			ok, why := an.Guarded(o.Call, k, an.DefaultGuard)
			c.Check("Aggregate published set", k.Pos(), ok, "clone of the output set is used although Clone failed: "+why)
		} else {
			c.Good("Aggregate published set", k.Pos(), "output set")
		}
	}
	if out == nil {
		return
	}
	// writers of the set
	for _, ref := range *out.Referrers() {
		switch r := ref.(type) {
		case *ssa.MapUpdate:
			if r.Map != out {
				c.Unsure("Aggregate output set escapes", posOf(r), "output set is stored into another map")
				continue
			}
			construct := "Aggregate output[pubkey] = checked aggregate(pubkey, set[pubkey])"
			o := c09Origin(r.Value)
			var ac ssa.CallInstruction
			for _, a := range aggs {
				if o.Kind == "call" && o.Idx == 0 && ssa.Value(o.Call) == a.Value() {
					ac = a
				}
			}
			if ac == nil {
				c.Bad(construct, posOf(r), "a value that is not the result of a.aggregate is published: "+o.String())
				continue
			}
			a := ac.Common().Args
			l := an.InnermostLoop(fn, ac.Block())
			if l == nil || l.RangeColl() == nil || an.Unwrap(l.RangeColl()) != ssa.Value(setP) {
				c.Unsure(construct, ac.Pos(), "a.aggregate is not called from a range loop over the input set")
				continue
			}
			kx, ok1 := a[2].(*ssa.Extract)
			vx, ok2 := a[3].(*ssa.Extract)
			if !ok1 || !ok2 || kx.Tuple != vx.Tuple || kx.Index != 1 || vx.Index != 2 || !l.ElemOf(vx) {
				c.Bad(construct, ac.Pos(), "a.aggregate does not receive the key and the partials of one entry of the input set")
				continue
			}
			if an.Unwrap(r.Key) != ssa.Value(kx) {
				c.Bad(construct, posOf(r), "the aggregate is published under a key other than the one it was verified for")
				continue
			}
			ok, why := an.Guarded(ac, r, an.DefaultGuard)
			c.Check(construct, posOf(r), ok, "result of a.aggregate is published although it returned an error: "+why)
		case *ssa.Call:
			if c09IsLen(r, out) || an.Static("core.SignedDataSet.Clone")(&r.Call) || subsM(&r.Call) {
				continue
			}
			c.Unsure("Aggregate output set escapes", r.Pos(), "output set is passed to "+c09CallName(r))
		case *ssa.Lookup, *ssa.Range, *ssa.DebugRef, *ssa.ChangeType:
		default:
			c.Unsure("Aggregate output set escapes", posOf(ref), "output set is used by an instruction the checker does not follow")
		}
	}
	// all-or-nothing: every publication lies behind the complete aggregation loop
	for _, k := range pubs {
		for _, ac := range aggs {
			construct := "Aggregate: subscribers run only after every validator aggregated"
			l := an.InnermostLoop(fn, ac.Block())
			if l == nil {
				c.Unsure(construct, ac.Pos(), "a.aggregate is not called from a loop")
				continue
			}
			good, why := false, "the error of a.aggregate is never branched on"
			for _, e := range c09ErrStatus(ac) {
				for _, cd := range an.CondsOn(fn, e) {
					if cd.Other == nil || !an.IsNilConst(cd.Other) || (cd.Op != token.NEQ && cd.Op != token.EQL) {
						continue
					}
					fail := cd.Succ(cd.Op == token.NEQ)
					if !an.Dominates(ac, cd.If) {
						continue
					}
					ok, w := an.ForallGuard(l, cd.If, fail, k)
					if ok {
						good = true
					} else {
						why = w
					}
				}
			}
			c.Check(construct, k.Pos(), good, why)
		}
	}
}

// G3: distinct-share count tested against the threshold before threshold aggregation.
func c09G3(c *rt.Ctx) {
	fn := c.Fn(c09FnAggLower)
	c09HasField(c, "core/sigagg", "Aggregator", "threshold")
	parSigsP := c09ParamOfType(c, fn, "[]core.ParSignedData")
	ta := c.OneCall(fn, an.Static("tbls.ThresholdAggregate"), "tbls.ThresholdAggregate", false)
	m, ok := an.Unwrap(ta.Common().Args[0]).(*ssa.MakeMap)
	if !ok {
		c.Unsure("aggregate share map", ta.Pos(), "the argument of tbls.ThresholdAggregate is not a map made in aggregate")
		return
	}
	isThr := func(v ssa.Value) bool { return c09LoadOfRecvField(fn, v, c09Agg+".threshold") }
	var ups []*ssa.MapUpdate
	for _, ref := range *m.Referrers() {
		switch r := ref.(type) {
		case *ssa.MapUpdate:
			ups = append(ups, r)
		case *ssa.Call:
			if c09IsLen(r, m) || ssa.Value(r) == ta.Value() {
				continue
			}
			c.Unsure("aggregate share map", r.Pos(), "share map is passed to "+c09CallName(r))
		case *ssa.Lookup, *ssa.Range, *ssa.DebugRef:
		default:
			c.Unsure("aggregate share map", posOf(ref), "share map is used by an instruction the checker does not follow")
		}
	}
	if len(ups) == 0 {
		c.Bail("no insertion into the share map")
	}
	for _, up := range ups {
		l := an.InnermostLoop(fn, up.Block())
		if l == nil || l.RangeColl() == nil || an.Unwrap(l.RangeColl()) != ssa.Value(parSigsP) {
			c.Bad("aggregate share map filled from parSigs", posOf(up), "insertion into the share map is not inside a range loop over the partials parameter")
			continue
		}
		c.Good("aggregate share map filled from parSigs", posOf(up), "")
		// key
		key := an.Unwrap(up.Key)
		isShare := false
		switch x := key.(type) {
		case *ssa.Field:
			isShare = an.FieldKey(x.X.Type(), x.Field) == "core.ParSignedData.ShareIdx"
		case *ssa.UnOp:
			if fa, ok := x.X.(*ssa.FieldAddr); ok && x.Op == token.MUL {
				isShare = an.FieldKey(fa.X.Type(), fa.Field) == "core.ParSignedData.ShareIdx"
			}
		}
		c.Check("aggregate share map keyed by ShareIdx", posOf(up), isShare && l.ElemOf(key),
			"the share map is not keyed by the ShareIdx of the partial being added: a repeated share is counted twice")
		// value
		o := c09Origin(up.Value)
		if o.Kind == "call" && o.Idx == 0 && an.Static("tbls/tblsconv.SigFromCore")(&o.Call.Call) {
			so := c09Origin(o.Call.Call.Args[0])
			fromElem := so.Kind == "call" && so.Call.Call.IsInvoke() && so.Call.Call.Method.Name() == "Signature" && l.ElemOf(so.Call.Call.Value)
			g, why := an.Guarded(o.Call, up, an.DefaultGuard)
			switch {
			case !fromElem:
				c.Bad("aggregate share map value", posOf(up), "the signature stored is not the Signature() of the partial being added")
			default:
				c.Check("aggregate share map value", posOf(up), g, "signature conversion error is not checked: "+why)
			}
		} else if o.Kind == "other" {
			c.Unsure("aggregate share map value", posOf(up), "cannot follow the stored signature")
		} else {
			c.Bad("aggregate share map value", posOf(up), "the signature stored is not tblsconv.SigFromCore(partial.Signature()): "+o.String())
		}
	}
	// size test after filling
	good, why := false, "no test `len(share map) < a.threshold` precedes tbls.ThresholdAggregate"
	for _, g := range c09LenGuards(fn, m, isThr) {
		if !an.Dominates(g.If, ta) {
			why = "the threshold test does not dominate tbls.ThresholdAggregate"
			continue
		}
		if !an.EdgeCuts(g.Fail, ta, nil) {
			why = "with fewer than threshold distinct shares control still reaches tbls.ThresholdAggregate"
			continue
		}
		late := false
		for _, up := range ups {
			if up.Block() == g.If.Block() || an.CanReach(g.If.Block(), up.Block(), nil) {
				late = true
			}
		}
		if late {
			why = "shares are still added to the map after its size was tested"
			continue
		}
		good = true
	}
	c.Check("aggregate len(distinct shares) < threshold → no aggregation", ta.Pos(), good, why)
	// the cheap pre-check on the raw list is implied by the test above (len(map) <= len(list)); recorded when present
	pre := false
	for _, g := range c09LenGuards(fn, parSigsP, isThr) {
		if an.Dominates(g.If, ta) && an.EdgeCuts(g.Fail, ta, nil) {
			pre = true
		}
	}
	if pre {
		c.Good("aggregate len(parSigs) < threshold pre-check", fn.Pos(), "")
	} else {
		c.Note("G3: no len(parSigs) < threshold pre-check in aggregate (implied by the distinct-share test)")
	}
}

// G4: the verifier chain.
func c09G4(c *rt.Ctx) {
	// (a) NewVerifier's closure
	nv := c.Fn("core/sigagg.NewVerifier")
	var vc ssa.CallInstruction
	for _, k := range an.Calls(nv, an.Static("core.VerifyEth2SignedData"), true) {
		if vc != nil {
			c.Bail("NewVerifier: more than one call to core.VerifyEth2SignedData")
		}
		vc = k
	}
	if vc == nil {
		c.Bail("NewVerifier does not call core.VerifyEth2SignedData")
	}
	vfn := vc.Parent()
	for _, r := range an.Returns(nv) {
		if vfn == nv {
			break
		}
		mc, ok := an.Unwrap(r.Results[0]).(*ssa.MakeClosure)
		if ok && mc.Fn == ssa.Value(vfn) {
			c.Good("NewVerifier returns the verifying closure", posOf(r), "")
		} else if ok {
			c.Bad("NewVerifier returns the verifying closure", posOf(r), "the function returned is not the one calling core.VerifyEth2SignedData")
		} else {
			c.Unsure("NewVerifier returns the verifying closure", posOf(r), "returned function value cannot be resolved")
		}
	}
	{
		pubkeyP := c09ParamOfType(c, vfn, "core.PubKey")
		dataP := c09ParamOfType(c, vfn, "core.SignedData")
		a := vc.Common().Args
		// pubkey
		o := c09Origin(a[3])
		if o.Kind == "call" && an.Static("tbls/tblsconv.PubkeyFromCore")(&o.Call.Call) && o.Idx == 0 {
			same := c09Origin(o.Call.Call.Args[0])
			g, why := an.Guarded(o.Call, vc, an.DefaultGuard)
			switch {
			case !c09IsParam(pubkeyP)(same):
				c.Bad("NewVerifier→VerifyEth2SignedData pubkey", vc.Pos(), "the key converted is not the pubkey parameter: "+same.String())
			default:
				c.Check("NewVerifier→VerifyEth2SignedData pubkey", vc.Pos(), g, "pubkey conversion error is not checked: "+why)
			}
		} else if o.Kind == "other" {
			c.Unsure("NewVerifier→VerifyEth2SignedData pubkey", vc.Pos(), "cannot follow the public key argument")
		} else {
			c.Bad("NewVerifier→VerifyEth2SignedData pubkey", vc.Pos(), "expected tblsconv.PubkeyFromCore(pubkey), found "+o.String())
		}
		// data
		c09Bind(c, "NewVerifier→VerifyEth2SignedData data", vc.Pos(), a[2], "the data parameter (asserted to core.Eth2SignedData)", c09IsParam(dataP))
		c09NilOnlyVia(c, vfn, vc, "core.VerifyEth2SignedData")
	}
	// (b) core.VerifyEth2SignedData
	{
		fn := c.Fn("core.VerifyEth2SignedData")
		sv := c.OneCall(fn, an.Static(c09SigningPkg+".Verify"), "signing.Verify", false)
		dataP := c09ParamOfType(c, fn, "core.Eth2SignedData")
		pubkeyP := c09ParamOfType(c, fn, "tbls.PublicKey")
		a := sv.Common().Args
		if len(a) != 7 {
			c.Bail("signing.Verify: unexpected arity")
		}
		pre := "VerifyEth2SignedData→signing.Verify "
		c09Bind(c, pre+"domain", sv.Pos(), a[2], "data.DomainName()", c09IsInvokeOn(dataP, "DomainName", 0))
		if c09Bind(c, pre+"epoch", sv.Pos(), a[3], "data.Epoch(ctx, eth2Cl)", c09IsInvokeOn(dataP, "Epoch", 0)) {
			c09CheckedCall(c, pre+"epoch error checked", a[3], sv, "data.Epoch's error is not checked: ")
		}
		if c09Bind(c, pre+"root", sv.Pos(), a[4], "data.MessageRoot()", c09IsInvokeOn(dataP, "MessageRoot", 0)) {
			c09CheckedCall(c, pre+"root error checked", a[4], sv, "data.MessageRoot's error is not checked: ")
		}
		c09Bind(c, pre+"signature", sv.Pos(), a[5], "data.Signature()", c09IsInvokeOn(dataP, "Signature", 0))
		c09Bind(c, pre+"pubkey", sv.Pos(), a[6], "the pubkey parameter", c09IsParam(pubkeyP))
		c09NilOnlyVia(c, fn, sv, "signing.Verify")
	}
	// (c) signing.Verify
	var gdFn *ssa.Function
	{
		fn := c.Fn(c09SigningPkg + ".Verify")
		gd := c.OneCall(fn, an.Static(c09SigningPkg+".GetDataRoot"), "GetDataRoot", false)
		tv := c.OneCall(fn, an.Static("tbls.Verify"), "tbls.Verify", false)
		gdFn = gd.Common().StaticCallee()
		domP := c09ParamOfType(c, fn, c09SigningPkg+".DomainName")
		epP := c09ParamOfType(c, fn, "github.com/attestantio/go-eth2-client/spec/phase0.Epoch")
		rootP := c09ParamOfType(c, fn, "github.com/attestantio/go-eth2-client/spec/phase0.Root")
		sigP := c09ParamOfType(c, fn, "github.com/attestantio/go-eth2-client/spec/phase0.BLSSignature")
		pkP := c09ParamOfType(c, fn, "tbls.PublicKey")
		a := gd.Common().Args
		if len(a) != 5 || len(tv.Common().Args) != 3 {
			c.Bail("GetDataRoot/tbls.Verify: unexpected arity")
		}
		pre := "signing.Verify→GetDataRoot "
		c09Bind(c, pre+"domain", gd.Pos(), a[2], "the domain parameter", c09IsParam(domP))
		c09Bind(c, pre+"epoch", gd.Pos(), a[3], "the epoch parameter", c09IsParam(epP))
		c09Bind(c, pre+"root", gd.Pos(), a[4], "the sigRoot parameter", c09IsParam(rootP))
		b := tv.Common().Args
		pre = "signing.Verify→tbls.Verify "
		c09Bind(c, pre+"pubkey", tv.Pos(), b[0], "the pubkey parameter", c09IsParam(pkP))
		if c09Bind(c, pre+"message", tv.Pos(), b[1], "the signing root returned by GetDataRoot", c09IsResultOf(gd, 0)) {
			g, why := an.Guarded(gd, tv, an.DefaultGuard)
			c.Check(pre+"message error checked", tv.Pos(), g, "GetDataRoot's error is not checked: "+why)
		}
		c09Bind(c, pre+"signature", tv.Pos(), b[2], "the signature parameter", c09IsParam(sigP))
		c09NilOnlyVia(c, fn, tv, "tbls.Verify")
	}
	// (d) GetDataRoot
	var domFn *ssa.Function
	{
		fn := gdFn
		if fn == nil || fn.Blocks == nil {
			c.Bail("GetDataRoot has no body")
		}
		dom := c.OneCall(fn, an.Static(c09SigningPkg+".GetDomain"), "GetDomain", false)
		domFn = dom.Common().StaticCallee()
		nameP := c09ParamOfType(c, fn, c09SigningPkg+".DomainName")
		epP := c09ParamOfType(c, fn, "github.com/attestantio/go-eth2-client/spec/phase0.Epoch")
		rootP := c09ParamOfType(c, fn, "github.com/attestantio/go-eth2-client/spec/phase0.Root")
		a := dom.Common().Args
		if len(a) != 4 {
			c.Bail("GetDomain: unexpected arity")
		}
		c09Bind(c, "GetDataRoot→GetDomain name", dom.Pos(), a[2], "the name parameter", c09IsParam(nameP))
		c09Bind(c, "GetDataRoot→GetDomain epoch", dom.Pos(), a[3], "the epoch parameter", c09IsParam(epP))
		n := 0
		for _, r := range c09Returns(fn) {
			if len(r.Vals) != 2 || r.Vals[1] == nil || !an.IsNilConst(r.Vals[1]) {
				if len(r.Vals) == 2 && r.Vals[1] != nil {
					e := r.Vals[1]
					if call, ok := an.Unwrap(e).(*ssa.Call); ok && an.Static("app/errors.New", "app/errors.Wrap")(&call.Call) {
						continue
					}
					if c09NonNilEdge(fn, e, r.Sink[1]) {
						continue
					}
				}
				c.Unsure("GetDataRoot success value", posOf(r.Ret), "cannot tell whether this return reports success")
				continue
			}
			n++
			construct := "GetDataRoot = HashTreeRoot(SigningData{ObjectRoot: root, Domain: GetDomain(name, epoch)})"
			o := c09Origin(r.Vals[0])
			if o.Kind == "other" {
				c.Unsure(construct, posOf(r.Ret), "cannot follow the returned root")
				continue
			}
			callee := ""
			if o.Kind == "call" && o.Call.Call.StaticCallee() != nil {
				callee = o.Call.Call.StaticCallee().Name()
			}
			if callee != "HashTreeRoot" || o.Idx != 0 || len(o.Call.Call.Args) != 1 || an.TypeName(o.Call.Call.Args[0].Type()) != c09SigningDat {
				c.Bad(construct, posOf(r.Ret), "the root returned with a nil error is not phase0.SigningData.HashTreeRoot(): "+o.String())
				continue
			}
			if g, why := an.Guarded(o.Call, r.Sink[0], an.DefaultGuard); !g {
				c.Bad(construct, posOf(r.Ret), "HashTreeRoot's error is not checked: "+why)
				continue
			}
			al, ok := o.Call.Call.Args[0].(*ssa.Alloc)
			if !ok {
				c.Unsure(construct, o.Call.Pos(), "the SigningData hashed is not a literal built in GetDataRoot")
				continue
			}
			fields := map[string]ssa.Value{}
			clean := true
			for _, ref := range *al.Referrers() {
				switch x := ref.(type) {
				case *ssa.FieldAddr:
					for _, r2 := range *x.Referrers() {
						if st, ok := r2.(*ssa.Store); ok && st.Addr == ssa.Value(x) {
							k := an.FieldKey(x.X.Type(), x.Field)
							if _, dup := fields[k]; dup {
								clean = false
							}
							fields[k] = st.Val
						} else if _, ok := r2.(*ssa.DebugRef); !ok {
							clean = false
						}
					}
				case *ssa.Call:
					if ssa.Value(x) != ssa.Value(o.Call) {
						clean = false
					}
				case *ssa.DebugRef:
				default:
					clean = false
				}
			}
			if !clean {
				c.Unsure(construct, o.Call.Pos(), "the SigningData literal is modified in ways the checker does not follow")
				continue
			}
			or, dm := fields[c09SigningDat+".ObjectRoot"], fields[c09SigningDat+".Domain"]
			if or == nil || dm == nil {
				c.Bad(construct, o.Call.Pos(), "ObjectRoot or Domain of the hashed SigningData is left zero")
				continue
			}
			c09Bind(c, construct+" ObjectRoot", o.Call.Pos(), or, "the root parameter", c09IsParam(rootP))
			if c09Bind(c, construct+" Domain", o.Call.Pos(), dm, "the domain returned by GetDomain", c09IsResultOf(dom, 0)) {
				g, why := an.Guarded(dom, o.Call, an.DefaultGuard)
				c.Check(construct+" Domain error checked", o.Call.Pos(), g, "GetDomain's error is not checked: "+why)
			}
		}
		if n == 0 {
			c.Bail("GetDataRoot has no success return")
		}
	}
	// (e) GetDomain
	{
		fn := domFn
		if fn == nil || fn.Blocks == nil {
			c.Bail("GetDomain has no body")
		}
		nameP := c09ParamOfType(c, fn, c09SigningPkg+".DomainName")
		epP := c09ParamOfType(c, fn, "github.com/attestantio/go-eth2-client/spec/phase0.Epoch")
		calls := an.Calls(fn, an.Invoke("app/eth2wrap.Client.Domain", "app/eth2wrap.Client.GenesisDomain"), false)
		if len(calls) == 0 {
			c.Bail("GetDomain does not query the beacon client for a domain")
		}
		nEpoch := 0
		for _, k := range calls {
			a := k.Common().Args
			meth := k.Common().Method.Name()
			// domain type = spec[string(name)]
			construct := "GetDomain " + meth + " domain type = spec[name]"
			o := c09Origin(a[1])
			switch {
			case o.Kind == "lookup":
				lk := o.Val.(*ssa.Lookup)
				c09Bind(c, construct, k.Pos(), lk.Index, "the name parameter as spec key", c09IsParam(nameP))
			case o.Kind == "other":
				c.Unsure(construct, k.Pos(), "cannot follow the domain type")
			default:
				c.Bad(construct, k.Pos(), "the domain type is not looked up in the beacon spec: "+o.String())
			}
			if meth == "Domain" {
				nEpoch++
				c09Bind(c, "GetDomain Domain epoch", k.Pos(), a[2], "the epoch parameter", c09IsParam(epP))
			}
		}
		if nEpoch == 0 {
			c.Bad("GetDomain Domain epoch", fn.Pos(), "no epoch-dependent domain is requested: every signature is checked against the genesis domain")
		}
	}
}

// G5: type → domain table.
func c09G5(c *rt.Ctx) {
	iface := lookupIface(c, "core", "Eth2SignedData")
	// constants of signing.DomainName
	sp := c.Pkg(c09SigningPkg)
	dn := sp.Types.Scope().Lookup("DomainName")
	if dn == nil {
		c.Bail("signing.DomainName not found")
	}
	byVal := map[string][]string{}
	for _, n := range sp.Types.Scope().Names() {
		k, ok := sp.Types.Scope().Lookup(n).(*types.Const)
		if !ok || !types.Identical(k.Type(), dn.Type()) || k.Val().Kind() != constant.String {
			continue
		}
		v := constant.StringVal(k.Val())
		byVal[v] = append(byVal[v], n)
		if want, ok := c09DomainKeys[n]; ok {
			c.Check("signing."+n+" spec key", k.Pos(), v == want, "constant denotes "+v+", the consensus-spec key is "+want)
		}
	}
	var names []string
	for n := range c09DomainKeys {
		names = append(names, n)
	}
	sort.Strings(names)
	for _, n := range names {
		if _, ok := sp.Types.Scope().Lookup(n).(*types.Const); !ok {
			c.Unsure("signing."+n+" spec key", token.NoPos, "domain constant of the reference table not found")
		}
	}
	var rels []string
	for _, p := range c.P.Pkgs {
		switch {
		case p.PkgPath == load.Mod:
			rels = append(rels, ".")
		case strings.HasPrefix(p.PkgPath, load.Mod+"/"):
			rels = append(rels, strings.TrimPrefix(p.PkgPath, load.Mod+"/"))
		}
	}
	impls := implementors(c, iface, rels...)
	sort.Slice(impls, func(i, j int) bool { return an.TypeName(impls[i]) < an.TypeName(impls[j]) })
	for _, nt := range impls {
		tn := an.TypeName(nt)
		construct := tn + ".DomainName"
		obj, _, _ := types.LookupFieldOrMethod(nt, true, nt.Obj().Pkg(), "DomainName")
		m, ok := obj.(*types.Func)
		if !ok {
			c.Unsure(construct, nt.Obj().Pos(), "method not found")
			continue
		}
		fn := c.P.SSA.FuncValue(m)
		if fn == nil || fn.Blocks == nil {
			c.Unsure(construct, m.Pos(), "method has no body")
			continue
		}
		vals := map[string]bool{}
		unknown := false
		for _, r := range c09Returns(fn) {
			if len(r.Vals) != 1 || r.Vals[0] == nil {
				unknown = true
				continue
			}
			k, ok := an.Unwrap(r.Vals[0]).(*ssa.Const)
			if !ok || k.Value == nil || k.Value.Kind() != constant.String {
				unknown = true
				continue
			}
			vals[constant.StringVal(k.Value)] = true
		}
		want, listed := c09DomainTable[tn]
		switch {
		case unknown:
			c.Bad(construct, m.Pos(), "does not return a single signing.Domain* constant")
		case len(vals) != 1:
			c.Bad(construct, m.Pos(), fmt.Sprintf("returns %d different domains", len(vals)))
		case !listed:
			c.Unsure(construct, m.Pos(), "new core.Eth2SignedData implementor without an entry in the reference domain table")
		default:
			var got string
			for v := range vals {
				got = v
			}
			okv := false
			for _, n := range byVal[got] {
				if n == want {
					okv = true
				}
			}
			c.Check(construct, m.Pos(), okv, fmt.Sprintf("returns %q (%s), the reference table says signing.%s", got, strings.Join(byVal[got], "/"), want))
		}
	}
}

// G6: wiring.
func c09G6(c *rt.Ctx) {
	newFn := c.Fn("core/sigagg.New")
	c09HasField(c, "core/sigagg", "Aggregator", "verifyFunc")
	var vfP *ssa.Parameter
	for _, p := range newFn.Params {
		if _, ok := p.Type().Underlying().(*types.Signature); ok {
			if vfP != nil {
				c.Bail("sigagg.New: two function parameters")
			}
			vfP = p
		}
	}
	if vfP == nil {
		c.Bail("sigagg.New: no verify function parameter")
	}
	stores := 0
	for _, f := range an.PkgFuncs(c.SSAPkg("core/sigagg")) {
		for _, in := range an.Instrs(f, false) {
			st, ok := in.(*ssa.Store)
			if !ok {
				continue
			}
			fa, ok := st.Addr.(*ssa.FieldAddr)
			if !ok || an.FieldKey(fa.X.Type(), fa.Field) != c09Agg+".verifyFunc" {
				continue
			}
			stores++
			construct := an.FuncName(f) + " sets Aggregator.verifyFunc"
			if f != newFn {
				c.Bad(construct, posOf(st), "verifyFunc is replaced outside sigagg.New")
				continue
			}
			c.Check(construct, posOf(st), an.Unwrap(st.Val) == ssa.Value(vfP), "sigagg.New does not install the verify function it was given")
		}
	}
	if stores == 0 {
		c.Bad("core/sigagg.New sets Aggregator.verifyFunc", newFn.Pos(), "no function stores Aggregator.verifyFunc: aggregates are never verified")
	}
	// the stored aggregator is the one returned
	sites := 0
	for _, p := range c.P.Pkgs {
		rel := strings.TrimPrefix(p.PkgPath, load.Mod+"/")
		sp := c.P.SSAPkg(rel)
		if sp == nil || strings.HasPrefix(rel, "testutil") || strings.Contains(rel, "/testutil") {
			continue
		}
		for _, f := range an.PkgFuncs(sp) {
			for _, k := range an.Calls(f, an.Static("core/sigagg.New"), false) {
				sites++
				root := f
				for root.Parent() != nil {
					root = root.Parent()
				}
				construct := an.FuncName(root) + " sigagg.New verifier"
				a := k.Common().Args
				if len(a) != 2 {
					c.Bail("sigagg.New: unexpected arity")
				}
				c09Bind(c, construct, k.Pos(), a[1], "sigagg.NewVerifier(...)", func(o c09Org) bool {
					return o.Kind == "call" && o.Idx == 0 && an.Static("core/sigagg.NewVerifier")(&o.Call.Call)
				})
			}
			for _, in := range an.Instrs(f, false) {
				// sigagg.New used as a value (not called): provenance of its argument is lost
				for _, op := range an.Operands(in) {
					if op == ssa.Value(newFn) {
						if ci, ok := in.(ssa.CallInstruction); ok && ci.Common().Value == op {
							continue
						}
						c.Unsure(an.FuncName(f)+" sigagg.New verifier", posOf(in), "sigagg.New is used as a function value")
					}
				}
			}
		}
	}
	if sites == 0 {
		c.Bail("no production call of sigagg.New found")
	}
}
