package rules

import (
	"fmt"
	"go/constant"
	"go/token"
	"go/types"
	"sort"
	"strings"

	"golang.org/x/tools/go/ssa"

	"charonverif/internal/an"
	"charonverif/internal/load"
	"charonverif/internal/rt"
)

func init() {
	Register(&Prop{
		ID: "C09",
		Decides: "sigagg.Aggregator, on the paths of Aggregate with in-package helpers/closures executed in place: (G1) every value stored into the set handed to subscribers is the very instance passed to a.verifyFunc under the key it is stored for, on a path where that call returned nil; " +
			"(G2) subscribers are called only from Aggregate, after the loop over the input set is exhausted, with (a clone of) a set that holds a checked aggregate for every key of the input set, each built from the partials of that key's entry; any failure leaves without publishing (all-or-nothing); " +
			"(G3) the map given to tbls.ThresholdAggregate is keyed by ShareIdx of the partials of an entry of the input set and its size is tested against a.threshold after it was filled; " +
			"(G4) the verifier chain NewVerifier -> core.VerifyEth2SignedData -> signing.Verify -> GetDataRoot/GetDomain -> tbls.Verify passes the same pubkey, the data's own DomainName/Epoch/MessageRoot/Signature and hashes SigningData{ObjectRoot: root, Domain: GetDomain(name, epoch)}; each link reports success only through the next one; " +
			"(G5) every core.Eth2SignedData implementor returns one signing.Domain* constant, equal to the reference table; (G6) production code builds the aggregator with sigagg.NewVerifier and verifyFunc is only set by New.",
		NotDecided: "cryptographic validity (that tbls.Verify accepts only signatures of the group key, that threshold aggregation of disagreeing/invalid shares fails verification); per-type Epoch() derivations; correctness of the beacon node's domain answer.",
		Run:        c09,
		Mutants: []Mutant{
			// G1
			{ID: "C09-G1-log-not-return", File: "core/sigagg/sigagg.go", Expect: "G1",
				Old: "\t\treturn nil, err\n\t}\n\n\tspan.SetStatus(codes.Ok, \"success\")",
				New: "\t}\n\n\tspan.SetStatus(codes.Ok, \"success\")"},
			{ID: "C09-G1-verify-other-value", File: "core/sigagg/sigagg.go", Expect: "G1",
				Old: "a.verifyFunc(ctx, pubkey, aggSig)", New: "a.verifyFunc(ctx, pubkey, fullSig)"},
			{ID: "C09-G1-return-unverified", File: "core/sigagg/sigagg.go", Expect: "G1",
				Old: "return aggSig, nil", New: "return fullSig, nil"},
			{ID: "C09-G1-inverted-check", File: "core/sigagg/sigagg.go", Expect: "G1",
				Old: "a.verifyFunc(ctx, pubkey, aggSig); err != nil {", New: "a.verifyFunc(ctx, pubkey, aggSig); err == nil {"},
			{ID: "C09-G1-other-pubkey", File: "core/sigagg/sigagg.go", Expect: "G1",
				Old: "a.verifyFunc(ctx, pubkey, aggSig)", New: "a.verifyFunc(ctx, core.PubKey(\"\"), aggSig)"},
			{ID: "C09-G1-verify-only-attestations", File: "core/sigagg/sigagg.go", Expect: "G1",
				Old: "\tif err := a.verifyFunc(ctx, pubkey, aggSig); err != nil {\n\t\tspan.RecordError(err)\n\t\tspan.SetStatus(codes.Error, err.Error())\n\n\t\treturn nil, err\n\t}",
				New: "\tif _, isAtt := aggSig.(core.VersionedAttestation); isAtt {\n\tif err := a.verifyFunc(ctx, pubkey, aggSig); err != nil {\n\t\tspan.RecordError(err)\n\t\tspan.SetStatus(codes.Error, err.Error())\n\n\t\treturn nil, err\n\t}\n\t}"},
			{ID: "C09-G1-fast-path-skips-verify", File: "core/sigagg/sigagg.go", Expect: "G1",
				Old: "\tif err := a.verifyFunc(ctx, pubkey, aggSig); err != nil {",
				New: "\tif a.threshold == 1 {\n\t\treturn aggSig, nil\n\t}\n\n\tif err := a.verifyFunc(ctx, pubkey, aggSig); err != nil {"},
			// G1, added with the path-based formulation (verdict overwritten / weakened / swallowed by a followed closure / struct copy)
			{ID: "C09-G1-verdict-overwritten", File: "core/sigagg/sigagg.go", Expect: "G1",
				Old: "\tif err := a.verifyFunc(ctx, pubkey, aggSig); err != nil {",
				New: "\terr = a.verifyFunc(ctx, pubkey, aggSig)\n\t_, err = fullSig.SetSignature(tblsconv.SigToCore(sig))\n\n\tif err != nil {"},
			{ID: "C09-G1-verdict-conjunct", File: "core/sigagg/sigagg.go", Expect: "G1",
				Old: "\tif err := a.verifyFunc(ctx, pubkey, aggSig); err != nil {",
				New: "\tif err := a.verifyFunc(ctx, pubkey, aggSig); err != nil && ctx.Err() != nil {"},
			{ID: "C09-G1-closure-swallows-verdict", File: "core/sigagg/sigagg.go", Expect: "G1",
				Old: "\tif err := a.verifyFunc(ctx, pubkey, aggSig); err != nil {",
				New: "\tverify := func() error {\n\t\tif err := a.verifyFunc(ctx, pubkey, aggSig); err != nil {\n\t\t\tlog.Warn(ctx, \"verify failed\", err)\n\t\t}\n\n\t\treturn nil\n\t}\n\n\tif err := verify(); err != nil {"},
			{ID: "C09-G1-reinject-after-verify", File: "core/sigagg/sigagg.go", Expect: "G1",
				Old: "\tspan.SetStatus(codes.Ok, \"success\")\n",
				New: "\tspan.SetStatus(codes.Ok, \"success\")\n\n\tif other, err := parSigs[0].SignedData.SetSignature(tblsconv.SigToCore(sig)); err == nil {\n\t\taggSig = other\n\t}\n"},
			// G1, whole-walk formulation: the break sits in Aggregate, not in the per-validator helper
			{ID: "C09-G1-publish-partial-object", File: "core/sigagg/sigagg.go", Expect: "G1",
				Old: "\t\toutput[pubkey] = signed\n", New: "\t\t_ = signed\n\t\toutput[pubkey] = parSigs[0].SignedData\n"},
			{ID: "C09-G1-verified-under-other-key", File: "core/sigagg/sigagg.go", Expect: "G1",
				Old: "\t\tsigned, err := a.aggregate(ctx, pubkey, parSigs)\n",
				New: "\t\tsigned, err := a.aggregate(ctx, core.PubKey(duty.String()), parSigs)\n"},
			// G2
			{ID: "C09-G2-publish-on-failure", File: "core/sigagg/sigagg.go", Expect: "G2",
				Old: "\t\t\treturn errors.Wrap(err, \"threshold aggregate\", z.Any(\"pubkey\", pubkey))",
				New: "\t\t\tfor _, sub := range a.subs {\n\t\t\t\t_ = sub(ctx, duty, output)\n\t\t\t}\n\n\t\t\treturn errors.Wrap(err, \"threshold aggregate\", z.Any(\"pubkey\", pubkey))"},
			{ID: "C09-G2-stored-under-other-key", File: "core/sigagg/sigagg.go", Expect: "G2",
				Old: "\t\toutput[pubkey] = signed\n", New: "\t\toutput[core.PubKey(duty.String())] = signed\n"},
			{ID: "C09-G2-partials-of-other-entry", File: "core/sigagg/sigagg.go", Expect: "G2",
				Old: "\t\tsigned, err := a.aggregate(ctx, pubkey, parSigs)\n",
				New: "\t\t_ = parSigs\n\t\tsigned, err := a.aggregate(ctx, pubkey, set[core.PubKey(duty.String())])\n"},
			{ID: "C09-G2-skip-after-first", File: "core/sigagg/sigagg.go", Expect: "G2",
				Old: "\t\tsigned, err := a.aggregate(ctx, pubkey, parSigs)\n",
				New: "\t\tif len(output) > 0 {\n\t\t\tcontinue\n\t\t}\n\n\t\tsigned, err := a.aggregate(ctx, pubkey, parSigs)\n"},
			{ID: "C09-G2-clone-error-dropped", File: "core/sigagg/sigagg.go", Expect: "G2",
				Old: "\t\tcloned, err := output.Clone()\n\t\tif err != nil {\n\t\t\treturn err\n\t\t}\n", New: "\t\tcloned, _ := output.Clone()\n"},
			{ID: "C09-G2-publish-inside-loop", File: "core/sigagg/sigagg.go", Expect: "G2",
				Old: "\t\toutput[pubkey] = signed\n\t}",
				New: "\t\toutput[pubkey] = signed\n\n\t\tfor _, sub := range a.subs {\n\t\t\tif err := sub(ctx, duty, output); err != nil {\n\t\t\t\treturn err\n\t\t\t}\n\t\t}\n\t}"},
			{ID: "C09-G2-log-and-continue", File: "core/sigagg/sigagg.go", Expect: "G2",
				Old: "\t\t\treturn errors.Wrap(err, \"threshold aggregate\", z.Any(\"pubkey\", pubkey))",
				New: "\t\t\tlog.Warn(ctx, \"threshold aggregate\", err, z.Any(\"pubkey\", pubkey))\n\t\t\tcontinue"},
			{ID: "C09-G2-break-on-error", File: "core/sigagg/sigagg.go", Expect: "G2",
				Old: "\t\t\treturn errors.Wrap(err, \"threshold aggregate\", z.Any(\"pubkey\", pubkey))",
				New: "\t\t\tbreak"},
			{ID: "C09-G2-store-before-check", File: "core/sigagg/sigagg.go", Expect: "G2",
				Old: "\t\tsigned, err := a.aggregate(ctx, pubkey, parSigs)\n\t\tif err != nil {",
				New: "\t\tsigned, err := a.aggregate(ctx, pubkey, parSigs)\n\t\toutput[pubkey] = signed\n\t\tif err != nil && len(output) == 0 {"},
			{ID: "C09-G2-subscribe-publishes", File: "core/sigagg/sigagg.go", Expect: "G2",
				Old: "\ta.subs = append(a.subs, fn)",
				New: "\ta.subs = append(a.subs, fn)\n\t_ = a.subs[0](context.Background(), core.Duty{}, core.SignedDataSet{})"},
			// G3
			{ID: "C09-G3-threshold-minus-one", File: "core/sigagg/sigagg.go", Expect: "G3",
				Old: "\tif len(blsSigs) < a.threshold {", New: "\tif len(blsSigs) < a.threshold-1 {"},
			{ID: "C09-G3-count-with-duplicates", File: "core/sigagg/sigagg.go", Expect: "G3",
				Old: "\tif len(blsSigs) < a.threshold {", New: "\tif len(parSigs) < a.threshold {"},
			{ID: "C09-G3-only-empty", File: "core/sigagg/sigagg.go", Expect: "G3",
				Old: "\tif len(blsSigs) < a.threshold {", New: "\tif len(blsSigs) == 0 {"},
			{ID: "C09-G3-not-keyed-by-share", File: "core/sigagg/sigagg.go", Expect: "G3",
				Old: "\t\tblsSigs[parSig.ShareIdx] = sig", New: "\t\tblsSigs[len(blsSigs)+1] = sig"},
			{ID: "C09-G3-conjunct-weakened", File: "core/sigagg/sigagg.go", Expect: "G3",
				Old: "\t\tblsSigs[parSig.ShareIdx] = sig\n\t}\n\n\tif len(blsSigs) < a.threshold {",
				New: "\t\tblsSigs[parSig.ShareIdx] = sig\n\t}\n\n\tif len(blsSigs) < a.threshold && a.threshold < 0 {"},
			{ID: "C09-G3-delete-after-test", File: "core/sigagg/sigagg.go", Expect: "G3",
				Old: "\t// Aggregate signatures\n", New: "\tdelete(blsSigs, parSigs[0].ShareIdx)\n\n\t// Aggregate signatures\n"},
			{ID: "C09-G3-signature-of-other-partial", File: "core/sigagg/sigagg.go", Expect: "G3",
				Old: "tblsconv.SigFromCore(parSig.Signature())", New: "tblsconv.SigFromCore(parSigs[0].Signature())"},
			{ID: "C09-G3-local-threshold", File: "core/sigagg/sigagg.go", Expect: "G3",
				Old: "\tif len(blsSigs) < a.threshold {", New: "\tif threshold := 1; len(blsSigs) < threshold {"},
			{ID: "C09-G3-insert-after-test", File: "core/sigagg/sigagg.go", Expect: "G3",
				Old: "\t// Aggregate signatures\n", New: "\tblsSigs[parSigs[0].ShareIdx+1] = blsSigs[parSigs[0].ShareIdx]\n\n\t// Aggregate signatures\n"},
			// G4
			{ID: "C09-G4-verifier-returns-stub", File: "core/sigagg/sigagg.go", Expect: "G4",
				Old:  "\treturn func(ctx context.Context, pubkey core.PubKey, data core.SignedData) error {\n",
				New:  "\tverify := func(ctx context.Context, pubkey core.PubKey, data core.SignedData) error {\n",
				More: [][2]string{{"\t\treturn nil\n\t}\n}", "\t\treturn nil\n\t}\n\t_ = verify\n\n\treturn func(context.Context, core.PubKey, core.SignedData) error { return nil }\n}"}}},
			{ID: "C09-G4-verify-error-masked", File: "eth2util/signing/signing.go", Expect: "G4",
				Old: "\treturn tbls.Verify(pubkey, sigData[:], tbls.Signature(signature))",
				New: "\tif err := tbls.Verify(pubkey, sigData[:], tbls.Signature(signature)); err != nil && ctx.Err() == nil {\n\t\treturn err\n\t}\n\n\treturn nil"},
			{ID: "C09-G4-root-error-chained-away", File: "core/eth2signeddata.go", Expect: "G4",
				Old: "\tsigRoot, err := data.MessageRoot()\n\tif err != nil {\n\t\treturn err\n\t}",
				New: "\tsigRoot, err := data.MessageRoot()\n\tif err != nil {\n\t\t_, err = data.Epoch(ctx, eth2Cl)\n\t}\n\n\tif err != nil {\n\t\treturn err\n\t}"},
			{ID: "C09-G4-domain-of-other-epoch-var", File: "eth2util/signing/signing.go", Expect: "G4",
				Old: "\tdomain, err := GetDomain(ctx, eth2Cl, name, epoch)\n", New: "\tother := epoch\n\tother--\n\n\tdomain, err := GetDomain(ctx, eth2Cl, name, other)\n"},
			{ID: "C09-G4-constant-domain", File: "core/eth2signeddata.go", Expect: "G4",
				Old: "signing.Verify(ctx, eth2Cl, data.DomainName(), epoch,", New: "signing.Verify(ctx, eth2Cl, signing.DomainBeaconAttester, epoch,"},
			{ID: "C09-G4-epoch-shift", File: "core/eth2signeddata.go", Expect: "G4",
				Old: "signing.Verify(ctx, eth2Cl, data.DomainName(), epoch,", New: "signing.Verify(ctx, eth2Cl, data.DomainName(), epoch+1,"},
			{ID: "C09-G4-epoch-error-ignored", File: "core/eth2signeddata.go", Expect: "G4",
				Old: "\tepoch, err := data.Epoch(ctx, eth2Cl)\n\tif err != nil {\n\t\treturn err\n\t}",
				New: "\tepoch, err := data.Epoch(ctx, eth2Cl)\n\tif err != nil {\n\t\tepoch = 0\n\t}"},
			{ID: "C09-G4-verifier-logs-failure", File: "core/sigagg/sigagg.go", Expect: "G4",
				Old: "\t\t\treturn errors.Wrap(err, \"verify aggregate signature\")",
				New: "\t\t\tlog.Warn(ctx, \"verify aggregate signature\", err)"},
			{ID: "C09-G4-verifier-skips-non-eth2", File: "core/sigagg/sigagg.go", Expect: "G4",
				Old: "\t\t\treturn errors.New(\"invalid eth2 signed data\")", New: "\t\t\treturn nil"},
			{ID: "C09-G4-epoch-zero", File: "eth2util/signing/signing.go", Expect: "G4",
				Old: "GetDataRoot(ctx, eth2Cl, domain, epoch, sigRoot)", New: "GetDataRoot(ctx, eth2Cl, domain, 0, sigRoot)"},
			{ID: "C09-G4-verify-raw-root", File: "eth2util/signing/signing.go", Expect: "G4",
				Old: "\treturn tbls.Verify(pubkey, sigData[:], tbls.Signature(signature))",
				New: "\tsigData = sigRoot\n\n\treturn tbls.Verify(pubkey, sigData[:], tbls.Signature(signature))"},
			{ID: "C09-G4-dataroot-error-ignored", File: "eth2util/signing/signing.go", Expect: "G4",
				Old: "\tsigData, err := GetDataRoot(ctx, eth2Cl, domain, epoch, sigRoot)\n\tif err != nil {\n\t\treturn err\n\t}",
				New: "\tsigData, err := GetDataRoot(ctx, eth2Cl, domain, epoch, sigRoot)\n\tif err != nil && ctx.Err() != nil {\n\t\treturn err\n\t}"},
			{ID: "C09-G4-root-not-hashed", File: "eth2util/signing/signing.go", Expect: "G4",
				Old: "ObjectRoot: root, Domain: domain", New: "ObjectRoot: eth2p0.Root(domain), Domain: domain"},
			{ID: "C09-G4-domain-error-ignored", File: "eth2util/signing/signing.go", Expect: "G4",
				Old: "\tdomain, err := GetDomain(ctx, eth2Cl, name, epoch)\n\tif err != nil {\n\t\treturn [32]byte{}, err\n\t}",
				New: "\tdomain, err := GetDomain(ctx, eth2Cl, name, epoch)\n\tif err != nil && ctx.Err() != nil {\n\t\treturn [32]byte{}, err\n\t}"},
			{ID: "C09-G4-domain-epoch-zero", File: "eth2util/signing/signing.go", Expect: "G4",
				Old: "return eth2Cl.Domain(ctx, domainTyped, epoch)", New: "return eth2Cl.Domain(ctx, domainTyped, 0)"},
			{ID: "C09-G4-domain-fixed-key", File: "eth2util/signing/signing.go", Expect: "G4",
				Old: "domainType, ok := spec[string(name)]", New: "domainType, ok := spec[string(DomainBeaconAttester)]"},
			// G5
			{ID: "C09-G5-sync-message-domain", File: "core/eth2signeddata.go", Expect: "G5",
				Old: "func (SignedSyncMessage) DomainName() signing.DomainName {\n\treturn signing.DomainSyncCommittee\n",
				New: "func (SignedSyncMessage) DomainName() signing.DomainName {\n\treturn signing.DomainSyncCommitteeSelectionProof\n"},
			{ID: "C09-G5-aggregate-domain", File: "core/eth2signeddata.go", Expect: "G5",
				Old: "func (SignedAggregateAndProof) DomainName() signing.DomainName {\n\treturn signing.DomainAggregateAndProof\n",
				New: "func (SignedAggregateAndProof) DomainName() signing.DomainName {\n\treturn signing.DomainSelectionProof\n"},
			{ID: "C09-G5-domain-string", File: "eth2util/signing/signing.go", Expect: "G5",
				Old: "DomainName = \"DOMAIN_VOLUNTARY_EXIT\"", New: "DomainName = \"DOMAIN_DEPOSIT\""},
			{ID: "C09-G5-two-domains", File: "core/eth2signeddata.go", Expect: "G5",
				Old: "func (SignedRandao) DomainName() signing.DomainName {\n\treturn signing.DomainRandao\n",
				New: "func (s SignedRandao) DomainName() signing.DomainName {\n\tif s.SignedEpoch.Epoch == 0 {\n\t\treturn signing.DomainBeaconProposer\n\t}\n\n\treturn signing.DomainRandao\n"},
			// G5 domain type source (round 5): a built-in name → domain type table must equal the consensus-spec constants
			{ID: "C09-G5-domain-table-replaces-spec", File: "eth2util/signing/signing.go", Expect: "G5|domain type of DOMAIN_AGGREGATE_AND_PROOF",
				Old: "\tdomainType, ok := spec[string(name)]\n\tif !ok {\n\t\treturn eth2p0.Domain{}, errors.New(\"domain type not found\")\n\t}\n\n\tdomainTyped, ok := domainType.(eth2p0.DomainType)\n",
				New: "\t_ = spec\n\n\tdomainTyped, ok := wellKnownDomains[name]\n",
				More: [][2]string{{"// GetDomain returns the beacon domain for the provided type.\n",
					"var wellKnownDomains = map[DomainName]eth2p0.DomainType{\n\tDomainBeaconProposer:    {0x00, 0x00, 0x00, 0x00},\n\tDomainBeaconAttester:    {0x01, 0x00, 0x00, 0x00},\n\tDomainRandao:            {0x02, 0x00, 0x00, 0x00},\n\tDomainSelectionProof:    {0x05, 0x00, 0x00, 0x00},\n\tDomainAggregateAndProof: {0x05, 0x00, 0x00, 0x00},\n}\n\n// GetDomain returns the beacon domain for the provided type.\n"}}},
			{ID: "C09-G5-domain-table-overrides-spec", File: "eth2util/signing/signing.go", Expect: "G5|domain type of DOMAIN_VOLUNTARY_EXIT",
				Old: "\t\treturn eth2p0.Domain{}, errors.New(\"invalid domain type\")\n\t}\n",
				New: "\t\treturn eth2p0.Domain{}, errors.New(\"invalid domain type\")\n\t}\n\n\tif fixed, found := fixedDomainTypes[name]; found {\n\t\tdomainTyped = fixed\n\t}\n",
				More: [][2]string{{"// GetDomain returns the beacon domain for the provided type.\n",
					"var fixedDomainTypes = map[DomainName]eth2p0.DomainType{\n\t\"DOMAIN_VOLUNTARY_EXIT\": {3: 0x04},\n\t\"DOMAIN_DEPOSIT\":        {0x03, 0x00, 0x00, 0x00},\n}\n\n// GetDomain returns the beacon domain for the provided type.\n"}}},
			// G6
			{ID: "C09-G6-stub-verifier", File: "app/app.go", Expect: "G6",
				Old: "sigagg.New(lock.Threshold, sigagg.NewVerifier(eth2Cl))",
				New: "sigagg.New(lock.Threshold, func(context.Context, core.PubKey, core.SignedData) error { return nil })"},
			{ID: "C09-G6-new-drops-verifier", File: "core/sigagg/sigagg.go", Expect: "G6",
				Old: "\t\tverifyFunc: verifyFunc,\n", New: "\t\tverifyFunc: func(context.Context, core.PubKey, core.SignedData) error { return nil },\n"},
			{ID: "C09-G6-subscribe-resets-verifier", File: "core/sigagg/sigagg.go", Expect: "G6",
				Old: "\ta.subs = append(a.subs, fn)",
				New: "\ta.subs = append(a.subs, fn)\n\ta.verifyFunc = func(context.Context, core.PubKey, core.SignedData) error { return nil }"},
		},
	})
}

const (
	c09Agg        = "core/sigagg.Aggregator"
	c09FnAggLower = "core/sigagg.Aggregator.aggregate"
	c09FnAggUpper = "core/sigagg.Aggregator.Aggregate"
	c09SigningPkg = "eth2util/signing"
	c09SigningDat = "github.com/attestantio/go-eth2-client/spec/phase0.SigningData"
)

// c09DomainTable is the reference type -> domain table confirmed by reading the tree against the
// consensus-spec signing domains (DESIGN §5 C09-G5).
var c09DomainTable = map[string]string{
	"core.VersionedSignedProposal":              "DomainBeaconProposer",
	"core.VersionedAttestation":                 "DomainBeaconAttester",
	"core.SignedVoluntaryExit":                  "DomainExit",
	"core.VersionedSignedValidatorRegistration": "DomainApplicationBuilder",
	"core.SignedRandao":                         "DomainRandao",
	"core.BeaconCommitteeSelection":             "DomainSelectionProof",
	"core.SignedAggregateAndProof":              "DomainAggregateAndProof",
	"core.VersionedSignedAggregateAndProof":     "DomainAggregateAndProof",
	"core.SignedSyncMessage":                    "DomainSyncCommittee",
	"core.SignedSyncContributionAndProof":       "DomainContributionAndProof",
	"core.SyncCommitteeSelection":               "DomainSyncCommitteeSelectionProof",
	// not in the `var _ Eth2SignedData` list of eth2signeddata.go, found through the method sets: the
	// unsigned contribution whose "signature" is the selection proof over SyncAggregatorSelectionData.
	"core.SyncContributionAndProof": "DomainSyncCommitteeSelectionProof",
}

// c09DomainKeys: the beacon-node spec keys the domain constants must denote (consensus-specs names).
var c09DomainKeys = map[string]string{
	"DomainBeaconProposer":              "DOMAIN_BEACON_PROPOSER",
	"DomainBeaconAttester":              "DOMAIN_BEACON_ATTESTER",
	"DomainRandao":                      "DOMAIN_RANDAO",
	"DomainExit":                        "DOMAIN_VOLUNTARY_EXIT",
	"DomainApplicationBuilder":          "DOMAIN_APPLICATION_BUILDER",
	"DomainSelectionProof":              "DOMAIN_SELECTION_PROOF",
	"DomainAggregateAndProof":           "DOMAIN_AGGREGATE_AND_PROOF",
	"DomainSyncCommittee":               "DOMAIN_SYNC_COMMITTEE",
	"DomainSyncCommitteeSelectionProof": "DOMAIN_SYNC_COMMITTEE_SELECTION_PROOF",
	"DomainContributionAndProof":        "DOMAIN_CONTRIBUTION_AND_PROOF",
}

// ---------------------------------------------------------------------------------------------
// helpers

// c09Ret is one return of a function with its result values resolved through the spill slots that
// `defer` introduces for results (`*slot = v; rundefers; t = *slot; return t`).
type c09Ret struct {
	Ret  *ssa.Return
	Vals []ssa.Value       // nil entry: not resolvable
	Sink []ssa.Instruction // instruction at which the value is committed (the store or the return)
}

func c09Returns(fn *ssa.Function) []c09Ret {
	var out []c09Ret
	for _, r := range an.Returns(fn) {
		if fn.Recover != nil && r.Block() == fn.Recover {
			continue // panic-recovery exit: returns whatever the slots hold, not a path of the logic
		}
		cr := c09Ret{Ret: r}
		for _, v := range r.Results {
			val, sink := v, ssa.Instruction(r)
			if ld, ok := v.(*ssa.UnOp); ok && ld.Op == token.MUL {
				if al, ok := ld.X.(*ssa.Alloc); ok {
					val, sink = nil, r
					instrs := r.Block().Instrs
					for i := len(instrs) - 1; i >= 0; i-- {
						if st, ok := instrs[i].(*ssa.Store); ok && st.Addr == ssa.Value(al) && an.Dominates(st, ld) {
							val, sink = st.Val, st
							break
						}
					}
				}
			}
			cr.Vals = append(cr.Vals, val)
			cr.Sink = append(cr.Sink, sink)
		}
		out = append(out, cr)
	}
	return out
}

// c09ParamOfType returns the unique parameter of fn whose type renders as short
// (module-relative package paths).
func c09ParamOfType(c *rt.Ctx, fn *ssa.Function, short string) *ssa.Parameter {
	var found *ssa.Parameter
	for _, p := range fn.Params {
		if c09TypeStr(p.Type()) == short {
			if found != nil {
				c.Bail("%s: two parameters of type %s", an.FuncName(fn), short)
			}
			found = p
		}
	}
	if found == nil {
		c.Bail("%s: no parameter of type %s", an.FuncName(fn), short)
	}
	return found
}

// c09TypeStr renders a type with module-relative package paths, keeping pointer/slice decoration.
func c09TypeStr(t types.Type) string {
	return strings.ReplaceAll(types.TypeString(t, nil), load.Mod+"/", "")
}

// c09Org describes where a value comes from after peeling conversions, tuple extraction,
// type assertions, slicing and loads of single-assignment locals.
type c09Org struct {
	Kind string // const | param | freevar | func | expr | make | call | lookup | other
	Val  ssa.Value
	Call *ssa.Call
	Idx  int
}

func (o c09Org) String() string {
	switch o.Kind {
	case "const":
		return "a constant"
	case "param":
		return "parameter " + o.Val.Name()
	case "call":
		return fmt.Sprintf("result %d of %s", o.Idx, c09CallName(o.Call))
	case "lookup":
		return "a map lookup"
	case "freevar":
		return "captured variable " + o.Val.Name()
	case "func":
		if mc, ok := o.Val.(*ssa.MakeClosure); ok {
			return "function " + mc.Fn.Name()
		}
		return "function " + o.Val.Name()
	case "expr":
		return "a computed expression"
	case "make":
		return "a value made in place"
	}
	return "an expression the checker does not follow"
}

func c09CallName(call *ssa.Call) string {
	n := an.CalleeName(&call.Call)
	if n == "" {
		return "a dynamic call"
	}
	return n
}

// c09Peel lists static callees that only re-type their argument.
var c09Peel = map[string]bool{"core.Signature.ToETH2": true, "tbls/tblsconv.SigToCore": true}

// c09Origins returns every possible origin of v: phi edges and the stores into a local that is
// only loaded/sliced are all followed (flow-insensitively).
func c09Origins(v ssa.Value) []c09Org {
	var out []c09Org
	seen := map[ssa.Value]bool{}
	var walk func(v ssa.Value, depth int)
	fromAlloc := func(al *ssa.Alloc, depth int) {
		sts := c09Stores(al)
		if len(sts) == 0 {
			out = append(out, c09Org{Kind: "other", Val: al})
			return
		}
		for _, st := range sts {
			walk(st.Val, depth+1)
		}
	}
	walk = func(v ssa.Value, depth int) {
		if depth > 24 {
			out = append(out, c09Org{Kind: "other", Val: v})
			return
		}
		v = an.Unwrap(v)
		if seen[v] {
			return
		}
		seen[v] = true
		switch x := v.(type) {
		case *ssa.Const:
			out = append(out, c09Org{Kind: "const", Val: x})
		case *ssa.Parameter:
			out = append(out, c09Org{Kind: "param", Val: x})
		case *ssa.FreeVar:
			out = append(out, c09Org{Kind: "freevar", Val: x})
		case *ssa.Function, *ssa.MakeClosure:
			out = append(out, c09Org{Kind: "func", Val: x})
		case *ssa.BinOp:
			out = append(out, c09Org{Kind: "expr", Val: x})
		case *ssa.MakeMap, *ssa.MakeSlice:
			out = append(out, c09Org{Kind: "make", Val: x})
		case *ssa.Phi:
			for _, e := range x.Edges {
				walk(e, depth+1)
			}
		case *ssa.Extract:
			switch t := x.Tuple.(type) {
			case *ssa.Call:
				out = append(out, c09Org{Kind: "call", Val: x, Call: t, Idx: x.Index})
			case *ssa.TypeAssert:
				if x.Index != 0 {
					out = append(out, c09Org{Kind: "other", Val: x})
					return
				}
				walk(t.X, depth+1)
			case *ssa.Lookup:
				if x.Index != 0 {
					out = append(out, c09Org{Kind: "other", Val: x})
					return
				}
				out = append(out, c09Org{Kind: "lookup", Val: t})
			default:
				out = append(out, c09Org{Kind: "other", Val: x})
			}
		case *ssa.Call:
			if !x.Call.IsInvoke() && x.Call.StaticCallee() != nil && c09Peel[an.FuncName(x.Call.StaticCallee())] && len(x.Call.Args) == 1 {
				walk(x.Call.Args[0], depth+1)
				return
			}
			out = append(out, c09Org{Kind: "call", Val: x, Call: x, Idx: 0})
		case *ssa.TypeAssert:
			if x.CommaOk {
				out = append(out, c09Org{Kind: "other", Val: x})
				return
			}
			walk(x.X, depth+1)
		case *ssa.Lookup:
			if x.CommaOk {
				out = append(out, c09Org{Kind: "other", Val: x})
				return
			}
			out = append(out, c09Org{Kind: "lookup", Val: x})
		case *ssa.Slice:
			if al, ok := x.X.(*ssa.Alloc); ok {
				fromAlloc(al, depth)
				return
			}
			walk(x.X, depth+1)
		case *ssa.UnOp:
			if al, ok := x.X.(*ssa.Alloc); ok && x.Op == token.MUL {
				fromAlloc(al, depth)
				return
			}
			out = append(out, c09Org{Kind: "other", Val: x})
		default:
			out = append(out, c09Org{Kind: "other", Val: v})
		}
	}
	walk(v, 0)
	return out
}

// c09Stores returns the stores into a local (nil if its address escapes to anything but loads,
// slicing and stores of a value into it).
func c09Stores(al *ssa.Alloc) []*ssa.Store {
	var sts []*ssa.Store
	for _, ref := range *al.Referrers() {
		switch r := ref.(type) {
		case *ssa.Store:
			if r.Addr != ssa.Value(al) {
				return nil
			}
			sts = append(sts, r)
		case *ssa.UnOp, *ssa.Slice, *ssa.DebugRef:
		default:
			return nil
		}
	}
	return sts
}

// c09Bind records one provenance obligation: want(org) holds -> ok; a followed-but-different origin
// -> violation; an origin the checker cannot follow -> undecided.
func c09Bind(c *rt.Ctx, construct string, pos token.Pos, v ssa.Value, wantDesc string, want func(o c09Org) bool) bool {
	os := c09Origins(v)
	good, unsure := len(os) > 0, false
	var wrong *c09Org
	for i, o := range os {
		switch {
		case want(o):
		case o.Kind == "other":
			good, unsure = false, true
		default:
			good = false
			if wrong == nil {
				wrong = &os[i]
			}
		}
	}
	switch {
	case good:
		c.Good(construct, pos, wantDesc)
		return true
	case wrong != nil:
		c.Bad(construct, pos, "expected "+wantDesc+", found "+wrong.String())
	case unsure || len(os) == 0:
		c.Unsure(construct, pos, "cannot follow the argument back to "+wantDesc)
	}
	return false
}

// c09NonNilEdge reports whether instruction at lies on a path where error value e is known non-nil
// (dominated by the non-nil successor of a branch on e).
func c09NonNilEdge(fn *ssa.Function, e ssa.Value, at ssa.Instruction) bool {
	for _, cd := range an.CondsOn(fn, e) {
		if cd.Other == nil || !an.IsNilConst(cd.Other) {
			continue
		}
		var succ *ssa.BasicBlock
		switch cd.Op {
		case token.NEQ:
			succ = cd.Succ(true)
		case token.EQL:
			succ = cd.Succ(false)
		default:
			continue
		}
		if len(succ.Preds) == 1 && (succ == at.Block() || succ.Dominates(at.Block())) {
			return true
		}
	}
	return false
}

func c09HasField(c *rt.Ctx, pkgRel, typ, field string) {
	obj := c.Pkg(pkgRel).Types.Scope().Lookup(typ)
	if obj == nil {
		c.Bail("type %s.%s not found", pkgRel, typ)
	}
	st, ok := obj.Type().Underlying().(*types.Struct)
	if !ok {
		c.Bail("%s.%s is not a struct", pkgRel, typ)
	}
	for i := 0; i < st.NumFields(); i++ {
		if st.Field(i).Name() == field {
			return
		}
	}
	c.Bail("field %s.%s.%s not found", pkgRel, typ, field)
}

// ---------------------------------------------------------------------------------------------

func c09(c *rt.Ctx) {
	c.Rule("G1", 1, func() { c09G1(c) })
	c.Rule("G2", 3, func() { c09G2(c) })
	c.Rule("G3", 5, func() { c09G3(c) })
	c.Rule("G4", 28, func() { c09G4(c) })
	c.Rule("G5", 23, func() { c09G5(c) })
	c.Rule("G6", 2, func() { c09G6(c) })
}

// G5: type → domain table.
func c09G5(c *rt.Ctx) {
	iface := lookupIface(c, "core", "Eth2SignedData")
	// constants of signing.DomainName
	sp := c.Pkg(c09SigningPkg)
	dn := sp.Types.Scope().Lookup("DomainName")
	if dn == nil {
		c.Bail("signing.DomainName not found")
	}
	byVal := map[string][]string{}
	for _, n := range sp.Types.Scope().Names() {
		k, ok := sp.Types.Scope().Lookup(n).(*types.Const)
		if !ok || !types.Identical(k.Type(), dn.Type()) || k.Val().Kind() != constant.String {
			continue
		}
		v := constant.StringVal(k.Val())
		byVal[v] = append(byVal[v], n)
		if want, ok := c09DomainKeys[n]; ok {
			c.Check("signing."+n+" spec key", k.Pos(), v == want, "constant denotes "+v+", the consensus-spec key is "+want)
		}
	}
	var names []string
	for n := range c09DomainKeys {
		names = append(names, n)
	}
	sort.Strings(names)
	for _, n := range names {
		if _, ok := sp.Types.Scope().Lookup(n).(*types.Const); !ok {
			c.Unsure("signing."+n+" spec key", token.NoPos, "domain constant of the reference table not found")
		}
	}
	var rels []string
	for _, p := range c.P.Pkgs {
		switch {
		case p.PkgPath == load.Mod:
			rels = append(rels, ".")
		case strings.HasPrefix(p.PkgPath, load.Mod+"/"):
			rels = append(rels, strings.TrimPrefix(p.PkgPath, load.Mod+"/"))
		}
	}
	impls := implementors(c, iface, rels...)
	sort.Slice(impls, func(i, j int) bool { return an.TypeName(impls[i]) < an.TypeName(impls[j]) })
	for _, nt := range impls {
		tn := an.TypeName(nt)
		construct := tn + ".DomainName"
		obj, _, _ := types.LookupFieldOrMethod(nt, true, nt.Obj().Pkg(), "DomainName")
		m, ok := obj.(*types.Func)
		if !ok {
			c.Unsure(construct, nt.Obj().Pos(), "method not found")
			continue
		}
		fn := c.P.SSA.FuncValue(m)
		if fn == nil || fn.Blocks == nil {
			c.Unsure(construct, m.Pos(), "method has no body")
			continue
		}
		// the value of every return, on the paths of the method with in-package helpers executed in place (a switch over
		// a kind constant in a helper, a constant table indexed by a constant, a named constant local all denote one value)
		vals := map[string]bool{}
		unknown := false
		cfg := c09WalkCfg(fn)
		cfg.OnReturn = func(st *an.H09State, _ *ssa.Return, rv []an.H09SV) {
			if len(rv) != 1 {
				unknown = true
				return
			}
			k, ok := c09ConstOf(st, rv[0])
			if !ok || k.Kind() != constant.String {
				unknown = true
				return
			}
			vals[constant.StringVal(k)] = true
		}
		if res := an.H09Walk(fn, cfg); !res.Complete || res.Paths == 0 {
			unknown = true
		}
		want, listed := c09DomainTable[tn]
		switch {
		case unknown && len(vals) > 1:
			c.Bad(construct, m.Pos(), fmt.Sprintf("returns %d different domains (and a value that is not a constant)", len(vals)))
		case unknown:
			// e.g. a package-level table or variable: the value is not decided by the method body
			c.Unsure(construct, m.Pos(), "does not return a signing.Domain* constant the checker can read off the method body")
		case len(vals) != 1:
			c.Bad(construct, m.Pos(), fmt.Sprintf("returns %d different domains", len(vals)))
		case !listed:
			c.Unsure(construct, m.Pos(), "new core.Eth2SignedData implementor without an entry in the reference domain table")
		default:
			var got string
			for v := range vals {
				got = v
			}
			okv := false
			for _, n := range byVal[got] {
				if n == want {
					okv = true
				}
			}
			c.Check(construct, m.Pos(), okv, fmt.Sprintf("returns %q (%s), the reference table says signing.%s", got, strings.Join(byVal[got], "/"), want))
		}
	}
	c09G5DomainTypeSource(c)
}

// G6: wiring.
func c09G6(c *rt.Ctx) {
	newFn := c.Fn("core/sigagg.New")
	c09HasField(c, "core/sigagg", "Aggregator", "verifyFunc")
	var vfP *ssa.Parameter
	for _, p := range newFn.Params {
		if _, ok := p.Type().Underlying().(*types.Signature); ok {
			if vfP != nil {
				c.Bail("sigagg.New: two function parameters")
			}
			vfP = p
		}
	}
	if vfP == nil {
		c.Bail("sigagg.New: no verify function parameter")
	}
	stores := 0
	for _, f := range an.PkgFuncs(c.SSAPkg("core/sigagg")) {
		for _, in := range an.Instrs(f, false) {
			st, ok := in.(*ssa.Store)
			if !ok {
				continue
			}
			fa, ok := st.Addr.(*ssa.FieldAddr)
			if !ok || an.FieldKey(fa.X.Type(), fa.Field) != c09Agg+".verifyFunc" {
				continue
			}
			stores++
			construct := an.FuncName(f) + " sets Aggregator.verifyFunc"
			if f != newFn {
				c.Bad(construct, posOf(st), "verifyFunc is replaced outside sigagg.New")
				continue
			}
			c.Check(construct, posOf(st), an.Unwrap(st.Val) == ssa.Value(vfP), "sigagg.New does not install the verify function it was given")
		}
	}
	if stores == 0 {
		c.Bad("core/sigagg.New sets Aggregator.verifyFunc", newFn.Pos(), "no function stores Aggregator.verifyFunc: aggregates are never verified")
	}
	// the stored aggregator is the one returned
	sites := 0
	for _, p := range c.P.Pkgs {
		rel := strings.TrimPrefix(p.PkgPath, load.Mod+"/")
		sp := c.P.SSAPkg(rel)
		if sp == nil || strings.HasPrefix(rel, "testutil") || strings.Contains(rel, "/testutil") {
			continue
		}
		for _, f := range an.PkgFuncs(sp) {
			for _, k := range an.Calls(f, an.Static("core/sigagg.New"), false) {
				sites++
				root := f
				for root.Parent() != nil {
					root = root.Parent()
				}
				construct := an.FuncName(root) + " sigagg.New verifier"
				a := k.Common().Args
				if len(a) != 2 {
					c.Bail("sigagg.New: unexpected arity")
				}
				c09Bind(c, construct, k.Pos(), a[1], "sigagg.NewVerifier(...)", func(o c09Org) bool {
					return o.Kind == "call" && o.Idx == 0 && an.Static("core/sigagg.NewVerifier")(&o.Call.Call)
				})
			}
			for _, in := range an.Instrs(f, false) {
				// sigagg.New used as a value (not called): provenance of its argument is lost
				for _, op := range an.Operands(in) {
					if op == ssa.Value(newFn) {
						if ci, ok := in.(ssa.CallInstruction); ok && ci.Common().Value == op {
							continue
						}
						c.Unsure(an.FuncName(f)+" sigagg.New verifier", posOf(in), "sigagg.New is used as a function value")
					}
				}
			}
		}
	}
	if sites == 0 {
		c.Bail("no production call of sigagg.New found")
	}
}
