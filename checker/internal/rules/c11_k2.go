package rules

import (
	"fmt"
	"go/token"
	"go/types"
	"strings"

	"golang.org/x/tools/go/ssa"

	"charonverif/internal/an"
	"charonverif/internal/rt"
)

// K2, decided on the explored paths of the three aggregation functions and of signAndAggLockHash (in-package
// helpers and closures are stepped into, so extracting the per-signature body, the table construction or the whole
// sign→exchange→aggregate→verify sequence into helpers gives the same events):
//   - every element that is put into the input of tbls.Aggregate / tbls.ThresholdAggregate was, at the moment it is
//     put there, the third argument of an earlier tbls.Verify on the path whose error was found nil;
//   - that verification used <public shares of the validator the signature was sent for>[owner.ShareIdx], and a map
//     input is keyed by owner.ShareIdx;
//   - the threshold aggregate is verified under tblsconv.PubkeyFromCore(pk) over the root of the partials before it is
//     used and before a result is appended; the public keys returned by aggLockHashSig are the verified public shares;
//   - signAndAggLockHash stores SignatureAggregate only after a nil tbls.VerifyAggregate over the results of
//     aggLockHashSig and the hash that was aggregated, and hands aggLockHashSig a table keyed by each share's own key.

// passedToUnknown: some call that was not stepped into (before event `before`, after `after`) received a value
// whose term contains a sub-term accepted by pred.
func (q *c11Path) passedToUnknown(after, before int, pred func(x *c11X) bool, except func(e an.Ev) bool) bool {
	var has func(x *c11X) bool
	has = func(x *c11X) bool {
		if x == nil {
			return false
		}
		if pred(x) {
			return true
		}
		for _, a := range x.Args {
			if has(a) {
				return true
			}
		}
		return false
	}
	for i, e := range q.p.Evs {
		if i <= after || i >= before || (e.Kind != "call" && e.Kind != "go") {
			continue
		}
		if except != nil && except(e) {
			continue
		}
		for _, a := range e.Args {
			if a != nil && has(q.tm(a)) {
				return true
			}
		}
	}
	return false
}

// nilChecked: the error value res was found nil by a branch between the events from and to.
func (q *c11Path) nilChecked(res *an.Sym, from, to int) (bool, string) {
	if res == nil {
		return false, "the result of the verification is discarded"
	}
	why := "the result of the verification is not branched on before the value is used"
	for _, f := range q.facts {
		if f.at <= from || f.at >= to {
			continue
		}
		b := f.base
		if b.Kind != an.KBin || b.Op != token.EQL || len(b.Args) != 2 {
			continue
		}
		var v *an.Sym
		switch {
		case b.Args[0].IsNil():
			v = b.Args[1]
		case b.Args[1].IsNil():
			v = b.Args[0]
		default:
			continue
		}
		if !an.SymEq(v, res) {
			continue
		}
		if f.truth {
			return true, ""
		}
		why = "the value is used on a path on which the verification returned an error"
	}
	return false, why
}

// c11SigOwner resolves a signature term SignatureFromBytes(<owner>.Signature()) to the owning ParSignedData term.
func c11SigOwner(sx *c11X) *c11X {
	call := c11Res0(sx, "tbls/tblsconv.SignatureFromBytes")
	if call == nil || len(call.Args) != 1 {
		return nil
	}
	sc := call.Args[0]
	if sc.Op != "call" || sc.Name != "iface:core.SignedData.Signature" || len(sc.Args) != 1 {
		return nil
	}
	return c11FieldOf(sc.Args[0], "core.ParSignedData.SignedData")
}

// c11DataIter: owner is an element of the partial signatures received for one validator: elem(rval(#k; data), i) or
// elem(lookup(data, rkey(#k; data)), i); returns the iteration name "#k".
func c11DataIter(owner, dataP *c11X) string {
	if owner == nil || owner.Op != "elem" || len(owner.Args) != 2 {
		return ""
	}
	coll := owner.Args[0]
	switch coll.Op {
	case "rval":
		if len(coll.Args) == 1 && c11Same(coll.Args[0], dataP) {
			return coll.Name
		}
	case "lookup":
		if len(coll.Args) == 2 && c11Same(coll.Args[0], dataP) && coll.Args[1].Op == "rkey" && len(coll.Args[1].Args) == 1 && c11Same(coll.Args[1].Args[0], dataP) {
			return coll.Args[1].Name
		}
	}
	return ""
}

func c11IsRKey(x *c11X, iter string, dataP *c11X) bool {
	return x != nil && x.Op == "rkey" && x.Name == iter && len(x.Args) == 1 && c11Same(x.Args[0], dataP)
}

// ownKeyTable: every insertion (on the path) into the map m is keyed by core.PubKeyFromBytes(sh.PubKey[:]) and stores
// proj(sh) of the same share sh ("" = the share itself, else the named field). decided=false: a shape not understood.
func (q *c11Path) ownKeyTable(m *an.Sym, proj string, before int) (ok, decided bool, why string) {
	n := 0
	for i, e := range q.p.Evs {
		if i >= before || e.Kind != "mapupdate" || !an.SymEq(e.Args[0], m) {
			continue
		}
		n++
		call := c11Res0(q.tm(e.Args[1]), "core.PubKeyFromBytes")
		if call == nil || len(call.Args) != 1 {
			kx := q.tm(e.Args[1])
			return false, c11Resolved(kx), "map key is not core.PubKeyFromBytes(share.PubKey[:])"
		}
		arg := call.Args[0]
		if arg.Op == "slice" && len(arg.Args) == 1 {
			arg = arg.Args[0]
		}
		sh := c11FieldOf(arg, c11ShareT+".PubKey")
		if sh == nil {
			return false, c11Resolved(arg), "map key is not derived from a share's PubKey"
		}
		vx := q.tm(e.Args[2])
		if proj != "" {
			vx = c11FieldOf(vx, c11ShareT+"."+proj)
		}
		if !c11Same(vx, sh) {
			return false, vx == nil || c11Differ(vx, sh), "value stored under a validator's public key does not belong to the share with that public key"
		}
	}
	// n == 0: the table is empty on this path (no share); every lookup in it fails, nothing to decide here
	return true, true, ""
}

type c11Sink struct {
	at   int
	in   ssa.Instruction
	elem *an.Sym
	key  *an.Sym
}

func c11K2(c *rt.Ctx) {
	agg := newAgg(c)
	type spec struct {
		fn, agg string
		group   bool
	}
	for _, sp := range []spec{
		{"dkg.aggLockHashSig", "tbls.Aggregate", false},
		{"dkg.aggDepositData", "tbls.ThresholdAggregate", true},
		{"dkg.aggValidatorRegistrations", "tbls.ThresholdAggregate", true},
	} {
		fn := c.Fn(sp.fn)
		short := strings.TrimPrefix(sp.fn, "dkg.")
		if len(fn.Params) < 2 {
			c.Bail("%s: unexpected signature", sp.fn)
		}
		// every in-package helper and function literal is stepped into
		tr := &an.H11Tracer{Root: fn, MaxVisits: 3}
		paths, res := c11Trace(tr)
		if res.Truncated || len(paths) == 0 {
			c.Unsure(short+" paths", fn.Pos(), "path enumeration failed or was truncated")
			continue
		}
		nAgg := 0
		for _, q := range paths {
			dataP, sharesP := q.tm(&an.Sym{Kind: an.KParam, V: fn.Params[0]}), q.tm(&an.Sym{Kind: an.KParam, V: fn.Params[1]})
			var aggAt []int
			for i, e := range q.p.Evs {
				if e.Kind == "call" && e.Name == sp.agg {
					aggAt = append(aggAt, i)
				}
			}
			for ai, a := range aggAt {
				nAgg++
				ae := q.p.Evs[a]
				segStart := -1
				if ai > 0 {
					segStart = aggAt[ai-1]
				}
				segEnd := len(q.p.Evs)
				if ai+1 < len(aggAt) {
					segEnd = aggAt[ai+1]
				}
				apos := posOf(ae.In)
				cons := short + " partial→" + sp.agg
				if len(ae.Args) != 1 {
					agg.unsure(cons+" verified", apos, "unexpected arguments of "+sp.agg)
					continue
				}
				input := ae.Args[0]
				// a slice field of a struct built on the path that was never assigned is the nil slice
				if c11ZeroField(input) {
					input = &an.Sym{Kind: an.KConst}
				}
				// --- the elements put into the input, and when
				var sinks []c11Sink
				inputOK := true
				switch input.Kind {
				case an.KFresh:
					for i, e := range q.p.Evs[:a] {
						if e.Kind == "mapupdate" && an.SymEq(e.Args[0], input) {
							sinks = append(sinks, c11Sink{i, e.In, e.Args[2], e.Args[1]})
						}
					}
				case an.KAppend, an.KConst:
					base, elems, spread := an.AppendElems(input)
					if spread || (base != nil && !base.IsNil() && base.Kind != an.KFresh && !c11ZeroField(base)) {
						inputOK = false
						break
					}
					var callT types.Type
					if ci, ok := ae.In.(ssa.CallInstruction); ok && len(ci.Common().Args) == 1 {
						callT = ci.Common().Args[0].Type()
					}
					for i, e := range q.p.Evs[:a] {
						if e.Kind != "builtin" || e.Name != "append" || e.Res == nil || e.Res.Kind != an.KAppend {
							continue
						}
						v, isV := e.In.(ssa.Value)
						if !isV || callT == nil || !types.Identical(v.Type(), callT) {
							continue
						}
						if e.Res.Spread {
							inputOK = false
						}
						for _, el := range e.Res.Args[1:] {
							sinks = append(sinks, c11Sink{at: i, in: e.In, elem: el})
						}
					}
					for _, el := range elems {
						found := false
						for _, s := range sinks {
							if an.SymEq(s.elem, el) {
								found = true
							}
						}
						if !found {
							inputOK = false
						}
					}
				default:
					inputOK = false
				}
				if !inputOK {
					agg.unsure(cons+" verified", apos, "aggregate input is not a map/slice filled element by element on the path")
					continue
				}
				var partialRoot *c11X
				var iter string
				type verified struct {
					key *an.Sym
					at  int
				}
				var verifiedKeys []verified
				for _, sk := range sinks {
					spos := posOf(sk.in)
					sx := q.tm(sk.elem)
					v := -1
					for i := sk.at - 1; i > segStart; i-- {
						e := q.p.Evs[i]
						if e.Kind == "call" && e.Name == "tbls.Verify" && len(e.Args) == 3 && c11Same(q.tm(e.Args[2]), sx) {
							v = i
							break
						}
					}
					if v < 0 {
						if c11Debug {
							fmt.Printf("C11K2 %s: no verify for sink elem %s\n", cons, sx)
						}
						isSig := func(x *c11X) bool { return c11Same(x, sx) }
						if c11ReadsBack(sx) {
							agg.unsure(cons+" verified", spos, "the partial signature is read back from a container built on the path; the walker cannot match it with a verified signature")
						} else if q.passedToUnknown(segStart, sk.at, isSig, func(e an.Ev) bool { return e.Name == sp.agg }) || unresolvedLocalCall(q.p.Evs[:sk.at], 0) {
							agg.unsure(cons+" verified", spos, "the partial signature is handed to a function the walker cannot follow before it enters the aggregate")
						} else {
							agg.bad(cons+" verified", spos, "a partial signature enters the aggregate without an earlier tbls.Verify of that signature on the path")
						}
						continue
					}
					ve := q.p.Evs[v]
					okG, why := q.nilChecked(ve.Res, v, sk.at)
					if !okG && q.passedToUnknown(v, sk.at, func(x *c11X) bool { return c11Same(x, q.tm(ve.Res)) }, nil) {
						agg.unsure(cons+" verified", spos, "the verdict of tbls.Verify is examined by a function the walker cannot follow")
					} else {
						agg.check(cons+" verified", spos, okG, "tbls.Verify of the partial signature is not a checked guard: "+why)
					}
					partialRoot = q.tm(ve.Args[1])
					verifiedKeys = append(verifiedKeys, verified{ve.Args[0], v})

					// binding: signature owner s, pubshare = PS[s.ShareIdx], PS = public shares of validator pk
					bind := cons + " pubshare=PublicShares[s.ShareIdx] of same validator"
					owner := c11SigOwner(sx)
					it := c11DataIter(owner, dataP)
					if it == "" {
						if c11Resolved(sx) && owner != nil && c11Resolved(owner) {
							agg.bad(bind, spos, "the partial signature does not belong to the signatures received for the validator being aggregated")
						} else {
							agg.unsure(bind, spos, "cannot resolve the partial signature to an element of data[pk]")
						}
						continue
					}
					iter = it
					px := q.tm(ve.Args[0])
					good, decided, why2 := true, true, ""
					if px.Op != "lookup" {
						good, decided, why2 = false, c11Resolved(px), "verification key is not <public shares>[s.ShareIdx] of the signature being verified"
					} else if !c11Same(c11FieldOf(px.Args[1], c11ParSigIdx), owner) {
						good, decided, why2 = false, c11Differ(px.Args[1], c11mk("field", c11ParSigIdx, nil, owner)), "verification key is not <public shares>[s.ShareIdx] of the signature being verified"
					}
					if good {
						ps := px.Args[0]
						if sh := c11FieldOf(ps, c11ShareT+".PublicShares"); sh != nil {
							if !(sh.Op == "lookup" && c11Same(sh.Args[0], sharesP) && c11IsRKey(sh.Args[1], it, dataP)) && !q.sharePkEquals(sh, it, dataP, v) {
								// (sharePkEquals: the share was found by comparing its own key with pk - a linear search instead of a table)
								want := c11mk("lookup", "", nil, sharesP, c11mk("rkey", it, nil, dataP))
								good, decided, why2 = false, c11Differ(sh, want), "public shares are not those of the validator the signature was sent for"
							}
						} else if ps.Op == "lookup" && ps.Args[0].Op == "make" && c11IsRKey(ps.Args[1], it, dataP) {
							// the table: find the symbol of the map
							var m *an.Sym
							for _, e := range q.p.Evs[:v] {
								if e.Kind == "lookup" && c11Same(q.tm(e.Args[0]), ps.Args[0]) {
									m = e.Args[0]
								}
							}
							if m == nil {
								good, decided, why2 = false, false, "public-share table cannot be located on the path"
							} else if ok, dec, w := q.ownKeyTable(m, "PublicShares", v); !ok {
								good, decided, why2 = false, dec, "public-share table: "+w
							}
						} else {
							good, decided, why2 = false, c11Resolved(ps), "verification key does not come from the PublicShares of the validator the signature was sent for"
						}
					}
					if !good && !decided {
						agg.unsure(bind, spos, why2+" (value not fully resolved)")
					} else {
						agg.check(bind, spos, good, why2)
					}
					if sk.key != nil {
						kx := q.tm(sk.key)
						same := c11Same(c11FieldOf(kx, c11ParSigIdx), owner)
						if !same && !c11Differ(kx, c11mk("field", c11ParSigIdx, nil, owner)) {
							agg.unsure(cons+" keyed by s.ShareIdx", spos, "cannot resolve the key the partial signature is stored under")
						} else {
							agg.check(cons+" keyed by s.ShareIdx", spos, same,
								"partial signature is put into the threshold-aggregate input under another index than its own share index")
						}
					}
				}
				if !sp.group {
					// the public keys returned for VerifyAggregate are exactly the verified public shares
					if q.p.End != "return" || len(q.p.Results) != 3 || ai != len(aggAt)-1 {
						continue
					}
					rk := short + " returned public key = verified pubshare"
					pks := q.p.Results[1]
					if c11ZeroField(pks) {
						pks = &an.Sym{Kind: an.KConst}
					}
					if pks.IsNil() {
						if errR := q.p.Results[2]; errR != nil && errR.IsNil() && len(sinks) > 0 {
							agg.bad(rk, apos, "no public keys are returned with the aggregate signature")
						}
						continue
					}
					base, elems, spread := an.AppendElems(pks)
					if pks.Kind != an.KAppend || spread || (base != nil && !base.IsNil() && base.Kind != an.KFresh && !c11ZeroField(base)) {
						if errR := q.p.Results[2]; errR != nil && errR.IsNil() {
							agg.unsure(rk, apos, "returned key list is not a slice grown by append on the path")
						}
						continue
					}
					if errR := q.p.Results[2]; errR == nil || !errR.IsNil() {
						continue
					}
					good := len(elems) == len(sinks)
					for _, el := range elems {
						found := false
						for _, vk := range verifiedKeys {
							if an.SymEq(vk.key, el) || c11Same(q.tm(vk.key), q.tm(el)) {
								found = true
							}
						}
						if !found {
							good = false
						}
					}
					agg.check(rk, apos, good, "the public keys returned for the multi-signature check are not exactly the public shares the partial signatures were verified under")
					continue
				}
				// --- threshold aggregate verified under the group key before any other use
				gcons := short + " aggregate"
				asig := &an.Sym{Kind: an.KExtract, Args: []*an.Sym{ae.Res}, Index: 0}
				if ae.Res == nil {
					agg.unsure(gcons+" verified under group key", apos, "result of "+sp.agg+" is not used")
					continue
				}
				ax := q.tm(asig)
				isAsig := func(x *c11X) bool { return c11Same(x, ax) }
				g := -1
				for i := a + 1; i < segEnd; i++ {
					e := q.p.Evs[i]
					if e.Kind == "call" && e.Name == "tbls.Verify" && len(e.Args) == 3 && c11Same(q.tm(e.Args[2]), ax) {
						g = i
						break
					}
				}
				// uses of the aggregate on the rest of the path (symbol level: the verdict of the verification is not a use)
				type use struct {
					at  int
					pos token.Pos
				}
				var uses []use
				for i := a + 1; i < segEnd; i++ {
					if i == g {
						continue
					}
					e := q.p.Evs[i]
					switch e.Kind {
					case "call", "builtin", "store", "mapupdate", "send", "go":
					default:
						continue
					}
					if e.Kind == "store" && e.Args[0] != nil && e.Args[0].Kind == an.KAddr && strings.HasPrefix(e.Args[0].Cell, "alloc") {
						continue // spilling the value into a local variable is not a use
					}
					for _, s := range e.Args {
						if q.symContains(s, asig, 0) {
							uses = append(uses, use{i, c11EvPos(e)})
							break
						}
					}
				}
				if q.p.End == "return" && ai == len(aggAt)-1 {
					for _, r := range q.p.Results {
						if q.symContains(r, asig, 0) {
							uses = append(uses, use{len(q.p.Evs), apos})
						}
					}
				}
				resT := fn.Signature.Results().At(0).Type()
				var appends []int
				for i := a + 1; i < segEnd; i++ {
					e := q.p.Evs[i]
					if e.Kind != "builtin" || e.Name != "append" {
						continue
					}
					if v, isV := e.In.(ssa.Value); isV && types.Identical(v.Type(), resT) {
						appends = append(appends, i)
					}
				}
				if g < 0 {
					if len(uses) == 0 && len(appends) == 0 {
						continue // the path ends (with an error) before the aggregate is used
					}
					if q.passedToUnknown(a, segEnd, isAsig, nil) && len(appends) == 0 {
						agg.unsure(gcons+" verified under group key", apos, "the aggregate is handed to a function the walker cannot follow")
					} else {
						agg.bad(gcons+" verified under group key", apos, "the threshold-aggregated signature is not verified with tbls.Verify on a path that goes on using it")
					}
					continue
				}
				ge := q.p.Evs[g]
				kx := c11Res0(q.tm(ge.Args[0]), "tbls/tblsconv.PubkeyFromCore")
				keyOK := kx != nil && len(kx.Args) == 1 && kx.Args[0].Op == "rkey" && len(kx.Args[0].Args) == 1 && c11Same(kx.Args[0].Args[0], dataP) &&
					(iter == "" || kx.Args[0].Name == iter)
				rootOK := partialRoot == nil || c11Same(q.tm(ge.Args[1]), partialRoot)
				if !(keyOK && rootOK) && !(c11Resolved(q.tm(ge.Args[0])) && c11Resolved(q.tm(ge.Args[1]))) {
					agg.unsure(gcons+" verified under group key", posOf(ge.In), "cannot resolve the key or the signing root of the aggregate's verification")
				} else {
					agg.check(gcons+" verified under group key", posOf(ge.In), keyOK && rootOK,
						"aggregate is not verified under tblsconv.PubkeyFromCore(pk) of the validator being aggregated over the same signing root as the partial signatures")
				}
				// none before the verification, later ones only once the verdict was found nil
				useOK, useWhy := true, ""
				usePos := posOf(ge.In)
				for _, u := range uses {
					if u.at < g {
						useOK, useWhy, usePos = false, "the aggregate signature is used before its verification", u.pos
						continue
					}
					if okG, w := q.nilChecked(ge.Res, g, u.at); !okG {
						useOK, useWhy, usePos = false, w, u.pos
					}
				}
				if len(uses) > 0 {
					agg.check(gcons+" used only after verification", usePos, useOK, "the aggregate signature is used on a path that did not pass its verification: "+useWhy)
				}
				for _, i := range appends {
					okG, w := false, "no verification of the aggregate precedes the append"
					if g < i {
						okG, w = q.nilChecked(ge.Res, g, i)
					}
					agg.check(gcons+" result appended after verification", posOf(q.p.Evs[i].In), okG, "a result is appended without the checked group-key verification: "+w)
				}
			}
		}
		if nAgg == 0 {
			c.Unsure(short+" input of "+sp.agg, fn.Pos(), "no explored path of "+sp.fn+" (helpers included) calls "+sp.agg)
		}
	}
	c11K2Lock(c, agg)
	agg.flush()
}

// symContains: the symbol s is, or is built from (without passing through a call), the symbol x; the address of a
// path-local variable contains what was stored into the variable.
func (q *c11Path) symContains(s, x *an.Sym, d int) bool {
	if s == nil || x == nil || d > 10 {
		return false
	}
	if an.SymEq(s, x) {
		return true
	}
	if s.Kind == an.KAddr {
		for _, i := range q.stores[s.Cell] {
			if q.symContains(q.p.Evs[i].Args[1], x, d+1) {
				return true
			}
		}
	}
	for _, a := range s.Args {
		if q.symContains(a, x, d+1) {
			return true
		}
	}
	for _, f := range s.Fields {
		if q.symContains(f, x, d+1) {
			return true
		}
	}
	return false
}

// errTruth: decided truth of (component idx of tuple res == nil) between from and to.
func (q *c11Path) errTruth(res *an.Sym, idx int, from, to int) (truth, known bool) {
	if res == nil {
		return false, false
	}
	for _, f := range q.facts {
		if f.at <= from || f.at >= to {
			continue
		}
		b := f.base
		if b.Kind != an.KBin || b.Op != token.EQL || len(b.Args) != 2 {
			continue
		}
		var v *an.Sym
		switch {
		case b.Args[0].IsNil():
			v = b.Args[1]
		case b.Args[1].IsNil():
			v = b.Args[0]
		default:
			continue
		}
		if v.Kind == an.KExtract && v.Index == idx && an.SymEq(v.Args[0], res) {
			return f.truth, true
		}
	}
	return false, false
}

// usedAsResult: an append to the result slice of fn in (from, to) mentions the value.
func (q *c11Path) usedAsResult(from, to int, fn *ssa.Function, pred func(x *c11X) bool) bool {
	resT := fn.Signature.Results().At(0).Type()
	for i := from + 1; i < to && i < len(q.p.Evs); i++ {
		e := q.p.Evs[i]
		if e.Kind != "builtin" || e.Name != "append" {
			continue
		}
		if v, isV := e.In.(ssa.Value); !isV || !types.Identical(v.Type(), resT) {
			continue
		}
		return true
	}
	return false
}

// c11K2Lock: signAndAggLockHash (and the helpers it is split into).
func c11K2Lock(c *rt.Ctx, agg *h1617Agg) {
	fn := c.Fn("dkg.signAndAggLockHash")
	aggFn := c.Fn("dkg.aggLockHashSig")
	const sigField = "cluster.Lock.SignatureAggregate"
	isSigStore := func(in ssa.Instruction) bool {
		st, ok := in.(*ssa.Store)
		if !ok {
			return false
		}
		fa, ok := st.Addr.(*ssa.FieldAddr)
		return ok && an.FieldKey(fa.X.Type(), fa.Field) == sigField
	}
	relevant := c11Reaches(c.SSAPkg("dkg"), func(in ssa.Instruction) bool {
		if ci, ok := in.(ssa.CallInstruction); ok {
			switch an.CalleeName(ci.Common()) {
			case "tbls.VerifyAggregate", "dkg.aggLockHashSig":
				return true
			}
		}
		// helpers that fill a table of the type aggLockHashSig takes (map[core.PubKey]share.Share)
		if mu, ok := in.(*ssa.MapUpdate); ok && len(aggFn.Params) > 1 && types.Identical(mu.Map.Type(), aggFn.Params[1].Type()) {
			return true
		}
		return isSigStore(in)
	})
	tr := &an.H11Tracer{Root: fn, MaxVisits: 3, Inline: func(f *ssa.Function) bool {
		return f != aggFn && (relevant[f] || f.Parent() != nil)
	}}
	paths, res := c11Trace(tr)
	if res.Truncated || len(paths) == 0 {
		c.Unsure("signAndAggLockHash paths", fn.Pos(), "path enumeration failed or was truncated")
		return
	}
	nStores, nCalls := 0, 0
	for _, q := range paths {
		for s, e := range q.p.Evs {
			switch {
			case e.Kind == "store" && e.Args[0] != nil && e.Args[0].Kind == an.KAddr && e.Args[0].Field == sigField:
				nStores++
				cons := "signAndAggLockHash SignatureAggregate set after VerifyAggregate"
				pos := posOf(e.In)
				vx := q.tm(e.Args[1])
				if e.Args[1].IsNil() || (vx.Op == "const") {
					continue // resetting the field is not publishing a signature
				}
				// the aggLockHashSig call whose first result is stored
				call := -1
				for i := s - 1; i >= 0; i-- {
					ce := q.p.Evs[i]
					if ce.Kind == "call" && ce.Name == "dkg.aggLockHashSig" && ce.Res != nil {
						sigX := q.tm(&an.Sym{Kind: an.KExtract, Args: []*an.Sym{ce.Res}, Index: 0})
						if c11Contains(vx, sigX) {
							call = i
							break
						}
					}
				}
				if call < 0 {
					if c11Resolved(vx) {
						agg.bad(cons, pos, "lock.SignatureAggregate is set to a value that is not the aggregate returned by aggLockHashSig")
					} else {
						agg.unsure(cons, pos, "cannot resolve the value stored into lock.SignatureAggregate")
					}
					continue
				}
				ce := q.p.Evs[call]
				sigX := q.tm(&an.Sym{Kind: an.KExtract, Args: []*an.Sym{ce.Res}, Index: 0})
				pkX := q.tm(&an.Sym{Kind: an.KExtract, Args: []*an.Sym{ce.Res}, Index: 1})
				va := -1
				for i := call + 1; i < s; i++ {
					ve := q.p.Evs[i]
					if ve.Kind == "call" && ve.Name == "tbls.VerifyAggregate" && len(ve.Args) == 3 {
						va = i
					}
				}
				if va < 0 {
					if q.passedToUnknown(call, s, func(x *c11X) bool { return c11Same(x, sigX) }, nil) {
						agg.unsure(cons, pos, "the aggregate is handed to a function the walker cannot follow before it is stored")
					} else {
						agg.bad(cons, pos, "lock.SignatureAggregate is set without a tbls.VerifyAggregate on the path")
					}
					continue
				}
				ve := q.p.Evs[va]
				bind := len(ce.Args) == 3 && c11Same(q.tm(ve.Args[0]), pkX) && c11Same(q.tm(ve.Args[1]), sigX) && c11Same(q.tm(ve.Args[2]), q.tm(ce.Args[2]))
				agg.check("signAndAggLockHash VerifyAggregate(aggLockHashSig results, lock hash)", posOf(ve.In), bind,
					"VerifyAggregate is not applied to the signature and public shares returned by aggLockHashSig over the hash that was aggregated")
				okG, why := q.nilChecked(ve.Res, va, s)
				agg.check(cons, pos, okG, "lock.SignatureAggregate is set without the checked tbls.VerifyAggregate: "+why)
			case e.Kind == "call" && e.Name == "dkg.aggLockHashSig" && len(e.Args) == 3:
				nCalls++
				cons := "signAndAggLockHash share table keyed by own PubKey"
				if e.Args[1].Kind != an.KFresh {
					agg.unsure(cons, posOf(e.In), "share table passed to aggLockHashSig is not a map made on the path")
					continue
				}
				ok, decided, why := q.ownKeyTable(e.Args[1], "", s)
				if !ok && !decided {
					agg.unsure(cons, posOf(e.In), why+" (value not fully resolved)")
				} else {
					agg.check(cons, posOf(e.In), ok, why)
				}
			}
		}
	}
	if nStores == 0 {
		c.Unsure("signAndAggLockHash SignatureAggregate", fn.Pos(), "no assignment of lock.SignatureAggregate found on the explored paths")
	}
	if nCalls == 0 {
		c.Unsure("signAndAggLockHash share table", fn.Pos(), "no call of aggLockHashSig found on the explored paths")
	}
}

var _ = fmt.Sprint

// c11ReadsBack: the term reads an element out of a container that was built on the path (a made map/slice or an
// append chain); what it reads is whatever was put there, which the term does not show.
func c11ReadsBack(x *c11X) bool {
	if x == nil {
		return false
	}
	if (x.Op == "elem" || x.Op == "lookup") && len(x.Args) >= 1 {
		switch x.Args[0].Op {
		case "make", "append", "var":
			return true
		}
	}
	for _, a := range x.Args {
		if c11ReadsBack(a) {
			return true
		}
	}
	return false
}

// sharePkEquals: a branch before event `before` found core.PubKeyFromBytes(sh.PubKey[:]) equal to the validator key
// of iteration it.
func (q *c11Path) sharePkEquals(sh *c11X, it string, dataP *c11X, before int) bool {
	isOwnKey := func(x *c11X) bool {
		call := c11Res0(x, "core.PubKeyFromBytes")
		if call == nil || len(call.Args) != 1 {
			return false
		}
		arg := call.Args[0]
		if arg.Op == "slice" && len(arg.Args) == 1 {
			arg = arg.Args[0]
		}
		return c11Same(c11FieldOf(arg, c11ShareT+".PubKey"), sh)
	}
	t, known := q.eqFact(before, isOwnKey, func(x *c11X) bool { return c11IsRKey(x, it, dataP) })
	return known && t
}

// c11ZeroField: the symbol of a field that was never assigned in a struct value built on the path (its zero value).
func c11ZeroField(s *an.Sym) bool {
	return s != nil && s.Kind == an.KPure && strings.HasPrefix(s.Name, "zerofield") && len(s.Args) == 0
}
