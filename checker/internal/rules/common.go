package rules

import (
	"fmt"
	"go/token"
	"go/types"
	"sort"
	"strings"

	"golang.org/x/tools/go/ssa"
	"golang.org/x/tools/go/ssa/ssautil"

	"charonverif/internal/an"
	"charonverif/internal/rt"
)

// lockRule runs the E2 lockset analysis over the packages and records one obligation per
// (function, field, read|write) group of accesses.
func lockRule(c *rt.Ctx, pkgs []string, table an.LockTable) {
	var funcs []*ssa.Function
	for _, p := range pkgs {
		funcs = append(funcs, an.PkgFuncs(c.SSAPkg(p))...)
	}
	ls := &an.Lockset{Table: table, Funcs: funcs}
	ls.Run()
	type agg struct {
		pos    token.Pos
		n      int
		bad    string
		unsure string
	}
	groups := map[string]*agg{}
	var order []string
	seenField := map[string]bool{}
	for _, f := range ls.Findings {
		seenField[f.Field] = true
		mode := "read"
		if f.Write {
			mode = "write"
		}
		k := fmt.Sprintf("%s %s %s", an.FuncName(f.Fn), f.Field, mode)
		g := groups[k]
		if g == nil {
			g = &agg{pos: f.Instr.Pos()}
			groups[k] = g
			order = append(order, k)
		}
		g.n++
		if f.Unsure && g.unsure == "" {
			g.unsure = f.Detail
			g.pos = f.Instr.Pos()
		} else if !f.OK && !f.Unsure && g.bad == "" {
			g.bad = f.Detail
			g.pos = f.Instr.Pos()
		}
	}
	sort.Strings(order)
	for _, k := range order {
		g := groups[k]
		switch {
		case g.bad != "":
			c.Bad(k, g.pos, g.bad)
		case g.unsure != "":
			c.Unsure(k, g.pos, g.unsure)
		default:
			c.Good(k, g.pos, fmt.Sprintf("%d access(es) under the guarding mutex", g.n))
		}
	}
	// check-then-act: a read of a guarded field followed, in the same function, by a write of that field must not
	// have an explicit unlock of the mutex in between (the duplicate scan / lookup and the insertion are one
	// critical section)
	nPairs, splits := ls.AtomicRMW()
	splitKey := map[string]bool{}
	for _, sp := range splits {
		k := fmt.Sprintf("%s %s read→write atomic", an.FuncName(sp.Fn), sp.Field)
		splitKey[k] = true
		c.Bad(k, sp.Unlock.Pos(), "the mutex is released between reading "+sp.Field+" and writing it: the write acts on a stale read (two concurrent callers both pass the check)")
	}
	if nPairs > 0 && len(splits) == 0 {
		c.Good("read→write sequences of guarded fields are atomic", token.NoPos, fmt.Sprintf("%d function/field pairs, no unlock between a read and a dependent write", nPairs))
	}

	// entry requirements: only *Unsafe-style internal helpers may need a lock on entry, and
	// they must never be used as values or started as goroutines.
	inSet := map[*ssa.Function]bool{}
	for _, f := range funcs {
		inSet[f] = true
	}
	reqs := ls.EntryRequirements()
	var rfns []*ssa.Function
	for fn := range reqs {
		rfns = append(rfns, fn)
	}
	sort.Slice(rfns, func(i, j int) bool { return an.FuncName(rfns[i]) < an.FuncName(rfns[j]) })
	for _, fn := range rfns {
		name := an.FuncName(fn)
		k := "entry-requirement " + name
		if fn.Parent() != nil {
			// closure: every use of its MakeClosure must be a direct call or defer (checked at the call site)
			ok := true
			for _, in := range an.Instrs(fn.Parent(), false) {
				mc, isMC := in.(*ssa.MakeClosure)
				if !isMC || mc.Fn != ssa.Value(fn) {
					continue
				}
				for _, ref := range *mc.Referrers() {
					ci, isCall := ref.(ssa.CallInstruction)
					if !isCall || ci.Common().Value != ssa.Value(mc) {
						ok = false
					}
					if _, isGo := ref.(*ssa.Go); isGo {
						ok = false
					}
				}
			}
			if ok {
				c.Good(k, fn.Pos(), "closure needs "+strings.Join(reqs[fn], ", ")+"; only called directly (call sites checked)")
			} else {
				c.Unsure(k, fn.Pos(), "closure touching guarded state escapes; needs "+strings.Join(reqs[fn], ", "))
			}
			continue
		}
		exported := fn.Object() != nil && fn.Object().Exported()
		if exported && !strings.HasSuffix(fn.Name(), "Unsafe") {
			c.Bad(k, fn.Pos(), "exported entry point touches guarded state without taking the lock: "+strings.Join(reqs[fn], ", "))
			continue
		}
		// address taken?
		taken := false
		for _, g := range funcs {
			for _, in := range an.Instrs(g, false) {
				for _, op := range an.Operands(in) {
					if op == ssa.Value(fn) {
						if ci, ok := in.(ssa.CallInstruction); ok && ci.Common().Value == op {
							continue
						}
						taken = true
					}
				}
			}
		}
		// method values / method expressions go through synthetic wrappers ($bound, $thunk) that are
		// created on demand: the existence of one that calls fn means fn escapes as a value.
		for g := range ssautil.AllFunctions(c.P.SSA) {
			if g.Synthetic == "" || g.Blocks == nil {
				continue
			}
			for _, in := range an.Instrs(g, false) {
				if ci, ok := in.(ssa.CallInstruction); ok && an.Orig(ci.Common().StaticCallee()) == fn {
					taken = true
				}
			}
		}
		if taken {
			c.Unsure(k, fn.Pos(), "function needing a lock on entry is used as a value")
			continue
		}
		c.Good(k, fn.Pos(), "internal helper; needs "+strings.Join(reqs[fn], ", ")+" on entry; all static call sites checked")
	}
	var missing []string
	for f := range table {
		if !seenField[f] && !ls.SeenFields[f] {
			missing = append(missing, f)
		}
	}
	sort.Strings(missing)
	for _, f := range missing {
		c.Unsure("table "+f, token.NoPos, "guarded field of the frozen table is never accessed (renamed or removed?)")
	}
}

// callsIn returns calls matching m in fn (with closures) or none.
func callsIn(fn *ssa.Function, m an.Matcher) []ssa.CallInstruction { return an.Calls(fn, m, true) }

// isLoadOfField reports whether in is a load of the named struct field (*(&x.f) or x.f).
func isLoadOfField(in ssa.Instruction, key string) bool {
	switch x := in.(type) {
	case *ssa.UnOp:
		if x.Op == token.MUL {
			if fa, ok := x.X.(*ssa.FieldAddr); ok {
				return an.FieldKey(fa.X.Type(), fa.Field) == key
			}
		}
	case *ssa.Field:
		return an.FieldKey(x.X.Type(), x.Field) == key
	}
	return false
}

// mapUpdatesOn returns the MapUpdate instructions in fn whose map satisfies pred.
func mapUpdates(fn *ssa.Function, pred func(m ssa.Value) bool) []*ssa.MapUpdate {
	var out []*ssa.MapUpdate
	for _, in := range an.Instrs(fn, true) {
		if mu, ok := in.(*ssa.MapUpdate); ok && pred(mu.Map) {
			out = append(out, mu)
		}
	}
	return out
}

// isFieldMap returns a predicate: the map is (loaded from) the given struct field.
func isFieldMap(key string) func(ssa.Value) bool {
	return func(m ssa.Value) bool {
		k, _, ok := an.FieldOf(m)
		return ok && k == key
	}
}

// lenZeroPrune makes `len(m) == 0` (and `len(m) != 0`, `len(m) > 0` ...) branches path-sensitive for a map
// that has just been written: after an insertion the map is non-empty.
func lenZeroPrune(m ssa.Value) func(b *ssa.BasicBlock, succ int) bool {
	return func(b *ssa.BasicBlock, succ int) bool {
		iff, ok := b.Instrs[len(b.Instrs)-1].(*ssa.If)
		if !ok {
			return false
		}
		bin, ok := iff.Cond.(*ssa.BinOp)
		if !ok {
			return false
		}
		isLen := func(v ssa.Value) bool {
			call, ok := v.(*ssa.Call)
			if !ok {
				return false
			}
			bi, ok := call.Call.Value.(*ssa.Builtin)
			return ok && bi.Name() == "len" && len(call.Call.Args) == 1 && call.Call.Args[0] == m
		}
		zero := func(v ssa.Value) bool { n, ok := an.ConstInt(v); return ok && n == 0 }
		if !(isLen(bin.X) && zero(bin.Y)) {
			return false
		}
		switch bin.Op {
		case token.EQL, token.LEQ: // len==0 is false: true edge (succ 0) infeasible
			return succ == 0
		case token.NEQ, token.GTR: // len!=0 true: false edge infeasible
			return succ == 1
		}
		return false
	}
}

// namedType reports whether t (pointers stripped) is the named type with the short name.
func namedType(t types.Type, short string) bool { return an.TypeName(t) == short }

// implementors returns the named (non-interface) types declared in the given repo packages whose
// method set (value or pointer) implements iface.
func implementors(c *rt.Ctx, iface *types.Interface, pkgs ...string) []*types.Named {
	var out []*types.Named
	for _, rel := range pkgs {
		p := c.Pkg(rel)
		sc := p.Types.Scope()
		for _, n := range sc.Names() {
			tn, ok := sc.Lookup(n).(*types.TypeName)
			if !ok || tn.IsAlias() {
				continue
			}
			nt, ok := tn.Type().(*types.Named)
			if !ok || types.IsInterface(nt) || nt.TypeParams().Len() > 0 {
				continue
			}
			if types.Implements(nt, iface) || types.Implements(types.NewPointer(nt), iface) {
				out = append(out, nt)
			}
		}
	}
	return out
}

// lookupIface resolves an interface type "core.Eth2SignedData".
func lookupIface(c *rt.Ctx, pkgRel, name string) *types.Interface {
	obj := c.Pkg(pkgRel).Types.Scope().Lookup(name)
	if obj == nil {
		c.Bail("interface %s.%s not found", pkgRel, name)
	}
	it, ok := obj.Type().Underlying().(*types.Interface)
	if !ok {
		c.Bail("%s.%s is not an interface", pkgRel, name)
	}
	return it
}

// posOf returns the position of an instruction, falling back to its block / function.
func posOf(in ssa.Instruction) token.Pos {
	if in.Pos().IsValid() {
		return in.Pos()
	}
	for _, x := range in.Block().Instrs {
		if x.Pos().IsValid() {
			return x.Pos()
		}
	}
	return in.Parent().Pos()
}

// checkInsertIfAbsent decides, for one function and one data-map field: every write to the map
// lies on the absent edge of a comma-ok lookup of the same key (and cannot be reached from the
// existing-key edge); the existing-key branch never writes the map and contains a comparison
// whose failing edge rejects (returns or sends a non-nil error).
func checkInsertIfAbsent(c *rt.Ctx, fn *ssa.Function, field string) {
	lookups := func() []*ssa.Lookup {
		var out []*ssa.Lookup
		for _, in := range an.Instrs(fn, false) {
			if lk, ok := in.(*ssa.Lookup); ok && lk.CommaOk && an.IsMapType(lk.X.Type()) {
				if k, _, ok := an.FieldOf(lk.X); ok && k == field {
					out = append(out, lk)
				}
			}
		}
		return out
	}()
	okOf := func(lk *ssa.Lookup) ssa.Value {
		for _, ref := range *lk.Referrers() {
			if ex, ok := ref.(*ssa.Extract); ok && ex.Index == 1 {
				return ex
			}
		}
		return nil
	}
	ups := mapUpdates(fn, isFieldMap(field))
	if len(ups) == 0 || len(lookups) == 0 {
		c.Unsure(an.FuncName(fn)+" "+field, fn.Pos(), "expected a comma-ok lookup and an insertion into "+field)
		return
	}
	for _, up := range ups {
		good := false
		for _, lk := range lookups {
			okv := okOf(lk)
			if okv == nil || !an.Equiv(lk.Index, up.Key) {
				continue
			}
			for _, cd := range an.CondsOn(fn, okv) {
				if cd.Other == nil && cd.Succ(false).Dominates(up.Block()) && !an.CanReach(cd.Succ(true), up.Block(), nil) {
					good = true
				}
			}
		}
		c.Check(an.FuncName(fn)+" insert "+field, posOf(up), good, "write to the data map is not confined to the absent edge of a comma-ok lookup of the same key: an existing value can be replaced")
	}
	rejectsIn := func(b *ssa.BasicBlock) bool {
		for i := 0; i < 4 && b != nil; i++ {
			for _, in := range b.Instrs {
				switch x := in.(type) {
				case *ssa.Send:
					if an.IsErrorType(x.X.Type()) && !an.IsNilConst(x.X) {
						return true
					}
				case *ssa.Return:
					for _, v := range x.Results {
						if an.IsErrorType(v.Type()) && !an.IsNilConst(v) {
							return true
						}
					}
					return false
				}
			}
			if len(b.Succs) != 1 {
				return false
			}
			b = b.Succs[0]
		}
		return false
	}
	for _, lk := range lookups {
		okv := okOf(lk)
		if okv == nil {
			continue
		}
		for _, cd := range an.CondsOn(fn, okv) {
			if cd.Other != nil {
				continue
			}
			exist := cd.Succ(true)
			wrote, rejects := false, false
			for b := range an.ReachBlocks(exist, nil) {
				if !exist.Dominates(b) {
					continue
				}
				for _, in := range b.Instrs {
					if mu, ok := in.(*ssa.MapUpdate); ok && isFieldMap(field)(mu.Map) {
						wrote = true
					}
				}
				iff, ok := b.Instrs[len(b.Instrs)-1].(*ssa.If)
				if !ok {
					continue
				}
				if bin, ok := iff.Cond.(*ssa.BinOp); ok && (an.IsNilConst(bin.X) || an.IsNilConst(bin.Y)) {
					continue // error plumbing, not a content comparison
				}
				for _, s := range b.Succs {
					if rejectsIn(s) {
						rejects = true
					}
				}
			}
			c.Check(an.FuncName(fn)+" existing-key branch of "+field+" never writes", lk.Pos(), !wrote,
				"the branch taken when the key already exists assigns the data map: stored data can be replaced")
			c.Check(an.FuncName(fn)+" existing-key branch of "+field+" rejects mismatches", lk.Pos(), rejects,
				"no content comparison with a rejecting edge in the existing-key branch: conflicting data is silently accepted")
		}
	}
}

// returnValues resolves the values a return yields, looking through the spill slots that go/ssa
// introduces for functions with defer (`*slot = v; rundefers; t = *slot; return t`).
func returnValues(r *ssa.Return) []ssa.Value {
	out := make([]ssa.Value, len(r.Results))
	for i, v := range r.Results {
		out[i] = v
		ld, ok := v.(*ssa.UnOp)
		if !ok || ld.Op != token.MUL {
			continue
		}
		al, ok := ld.X.(*ssa.Alloc)
		if !ok {
			continue
		}
		var last ssa.Value
		for b := r.Block(); b != nil && last == nil; {
			for _, in := range b.Instrs {
				if in == ssa.Instruction(ld) {
					break
				}
				if st, ok := in.(*ssa.Store); ok && st.Addr == ssa.Value(al) {
					last = st.Val
				}
			}
			if last == nil && len(b.Preds) == 1 {
				b = b.Preds[0]
			} else {
				break
			}
		}
		if last != nil {
			out[i] = last
		}
	}
	return out
}
