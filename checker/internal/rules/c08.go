package rules

import (
	"go/token"
	"go/types"
	"strings"

	"golang.org/x/tools/go/ssa"

	"charonverif/internal/an"
	"charonverif/internal/rt"
)

// C08 — threshold BLS algebra (thin). The algebra itself lives in the cgo library; what the Go code
// contributes, and what is decided here, is (S1) that the share identifier handed to the library is
// exactly the decimal rendering of the share's index (loop variable on the split side, map key on
// the recover side), paired with the value of the same iteration, over ids 1..total, for a
// polynomial of degree threshold-1 whose constant term is the secret; and (S2) that the verify
// functions report success only on the true edge of the library's verdict.

const (
	c08File    = "tbls/herumi.go"
	c08BLS     = "github.com/herumi/bls-eth-go-binary/bls"
	c08SplitA  = "func (Herumi) ThresholdSplit(secret PrivateKey, total uint, threshold uint) (map[int]PrivateKey, error) {\n\tvar p bls.SecretKey\n\n\tif threshold <= 1 {\n\t\treturn nil, errors.New(\"threshold has to be greater than 1\")\n\t}\n\n\tif err := p.Deserialize(secret[:]); err != nil {\n\t\treturn nil, errors.Wrap(err, \"unmarshal bytes into Herumi secret key\")\n\t}\n\n\t// master key Polynomial\n\tpoly := make([]bls.SecretKey, "
	c08SplitLp = "\t\tpoly[i] = sk\n\t}\n\n\tret := make(map[int]PrivateKey)\n\n\tfor i := "
	c08InsecLp = "\t\tpoly[i] = secret\n\t}\n\n\tret := make(map[int]PrivateKey)\n\n\tfor i := 1; i <= int(total); i++ {\n\t\tvar blsID bls.ID\n\n\t\terr := blsID.SetDecString(strconv.Itoa("
)

func init() {
	Register(&Prop{
		ID: "C08",
		Decides: "tbls (Herumi backend): (S1) in ThresholdSplit/ThresholdSplitInsecure the bls.ID given to SecretKey.Set is SetDecString(strconv.Itoa(i)) of exactly the loop variable, " +
			"the loop runs i = 1, 2, .. total (identifier 0 would be the secret), the share is stored under key i and is the serialisation of the key evaluated with that identifier, " +
			"the polynomial has `threshold` coefficients with the deserialised secret as constant term which the coefficient loop (starting at 1) never overwrites; " +
			"in RecoverSecret/RecoverPubkey/ThresholdAggregate the identifier list and the value list handed to Recover are filled in the same iteration of the range over the input map, " +
			"the identifier being SetDecString(strconv.Itoa(key)) of exactly the map key and the value the checked Deserialize of the map value, and the result is the serialisation of the " +
			"receiver of the checked Recover; the package-level tbls functions forward their parameters unpermuted to the Implementation held in `impl`, which is Herumi and is not replaced by production code. " +
			"(S2) Herumi.Verify / Herumi.VerifyAggregate return nil only on the true edge of Sign.VerifyByte / Sign.FastAggregateVerify applied to the checked deserialisation of exactly their " +
			"signature / public key(s) / message parameters (every public key of the list, none skipped); tbls.Verify/VerifyAggregate return the implementation's verdict; " +
			"eth2util/signing.Verify rejects the all-zero signature before tbls.Verify (that it returns tbls.Verify's verdict for the same pubkey/root/signature is C09-G4).",
		NotDecided: "everything algebraic in the statement: that any t shares recover the same secret / group key / group signature, and that a foreign share, wrong index or different message never verifies " +
			"(field arithmetic inside the herumi C library); that strconv.Itoa/SetDecString are injective renderings (library semantics, trusted).",
		Run: c08,
		Mutants: []Mutant{
			{ID: "C08-S1-recover-secret-contiguous-counter", File: "tbls/herumi.go", Expect: "S1",
				Old: "\tfor idx, key := range shares {\n\t\tvar kpk bls.SecretKey\n\t\tif err := kpk.Deserialize(key[:]); err != nil {\n\t\t\treturn PrivateKey{}, errors.Wrap(\n\t\t\t\terr,\n\t\t\t\t\"unmarshal key with into Herumi secret key\",",
				New: "\tfor idx := 1; idx <= len(shares); idx++ {\n\t\tkey := shares[idx]\n\n\t\tvar kpk bls.SecretKey\n\t\tif err := kpk.Deserialize(key[:]); err != nil {\n\t\t\treturn PrivateKey{}, errors.Wrap(\n\t\t\t\terr,\n\t\t\t\t\"unmarshal key with into Herumi secret key\","},
			// ---- S1 split side
			{ID: "C08-S1-split-from-zero", File: c08File, Expect: "S1|ThresholdSplit identifiers start at 1",
				Old: c08SplitLp + "1; i <= int(total); i++ {", New: c08SplitLp + "0; i <= int(total); i++ {"},
			{ID: "C08-S1-split-bound-excludes-last", File: c08File, Expect: "S1|ThresholdSplit identifiers run to total",
				Old: c08SplitLp + "1; i <= int(total); i++ {", New: c08SplitLp + "1; i < int(total); i++ {"},
			{ID: "C08-S1-split-bound-threshold", File: c08File, Expect: "S1|ThresholdSplit identifiers run to total",
				Old: c08SplitLp + "1; i <= int(total); i++ {", New: c08SplitLp + "1; i <= int(threshold); i++ {"},
			{ID: "C08-S1-insecure-id-minus-one", File: c08File, Expect: "S1|ThresholdSplitInsecure identifier is the loop variable",
				Old: c08InsecLp + "i))", New: c08InsecLp + "i - 1))"},
			{ID: "C08-S1-split-key-zero-based", File: c08File, Expect: "S1|ThresholdSplit share stored under its identifier",
				Old: "\t\tret[i] = *(*PrivateKey)(sk.Serialize())\n\t}\n\n\treturn ret, nil\n}\n\nfunc (Herumi) RecoverSecret(",
				New: "\t\tret[i-1] = *(*PrivateKey)(sk.Serialize())\n\t}\n\n\treturn ret, nil\n}\n\nfunc (Herumi) RecoverSecret("},
			{ID: "C08-S1-insecure-share-is-master", File: c08File, Expect: "S1|ThresholdSplitInsecure stored share is the evaluated key",
				Old: "\t\tret[i] = *(*PrivateKey)(sk.Serialize())\n\t}\n\n\treturn ret, nil\n}\n\nfunc (Herumi) ThresholdSplit(",
				New: "\t\tret[i] = *(*PrivateKey)(p.Serialize())\n\t}\n\n\treturn ret, nil\n}\n\nfunc (Herumi) ThresholdSplit("},
			{ID: "C08-S1-split-degree-total", File: c08File, Expect: "S1|ThresholdSplit polynomial has threshold coefficients",
				Old: c08SplitA + "threshold)", New: c08SplitA + "total)"},
			{ID: "C08-S1-split-coeff-loop-from-zero", File: c08File, Expect: "S1|ThresholdSplit constant term is the secret",
				Old: "\tfor i := 1; i < int(threshold); i++ {\n\t\tvar sk bls.SecretKey", New: "\tfor i := 0; i < int(threshold); i++ {\n\t\tvar sk bls.SecretKey"},
			{ID: "C08-S1-split-set-error-ignored", File: c08File, Expect: "S1|ThresholdSplitInsecure stored share is the evaluated key",
				Old: "\t\t\treturn nil, errors.Wrap(err, \"set ID on polynomial\", z.Int(\"id_number\", i))\n\t\t}\n\n\t\tret[i] = *(*PrivateKey)(sk.Serialize())\n\t}\n\n\treturn ret, nil\n}\n\nfunc (Herumi) ThresholdSplit(",
				New: "\t\t\tt.Log(errors.Wrap(err, \"set ID on polynomial\", z.Int(\"id_number\", i)))\n\t\t}\n\n\t\tret[i] = *(*PrivateKey)(sk.Serialize())\n\t}\n\n\treturn ret, nil\n}\n\nfunc (Herumi) ThresholdSplit("},
			// ---- S1 recover side
			{ID: "C08-S1-aggregate-idx-plus-one", File: c08File, Expect: "S1|ThresholdAggregate identifier is the map key",
				Old: "\t\tif err := id.SetDecString(strconv.Itoa(idx)); err != nil {\n\t\t\treturn Signature{},",
				New: "\t\tif err := id.SetDecString(strconv.Itoa(idx + 1)); err != nil {\n\t\t\treturn Signature{},"},
			{ID: "C08-S1-recoverpub-id-is-counter", File: c08File, Expect: "S1|RecoverPubkey identifier is the map key",
				Old: "\t\tif err := id.SetDecString(strconv.Itoa(idx)); err != nil {\n\t\t\treturn PublicKey{},",
				New: "\t\tif err := id.SetDecString(strconv.Itoa(len(rawIDs) + 1)); err != nil {\n\t\t\treturn PublicKey{},"},
			{ID: "C08-S1-recoversecret-continue-misaligns", File: c08File, Expect: "S1|RecoverSecret identifier and value appended in the same iteration",
				Old: "\t\t\treturn PrivateKey{}, errors.Wrap(\n\t\t\t\terr,\n\t\t\t\t\"private key isn't a number\",\n\t\t\t\tz.Int(\"key_number\", idx),\n\t\t\t)\n",
				New: "\t\t\tcontinue\n"},
			{ID: "C08-S1-recoversecret-id-error-ignored", File: c08File, Expect: "S1|RecoverSecret identifier is the map key",
				Old: "\t\tif err := id.SetDecString(strconv.Itoa(idx)); err != nil {\n\t\t\treturn PrivateKey{}, errors.Wrap(\n\t\t\t\terr,\n\t\t\t\t\"private key isn't a number\",\n\t\t\t\tz.Int(\"key_number\", idx),\n\t\t\t)\n\t\t}\n",
				New: "\t\t_ = id.SetDecString(strconv.Itoa(idx))\n"},
			{ID: "C08-S1-recoverpub-recover-error-dropped", File: c08File, Expect: "S1|RecoverPubkey result is the recovered value",
				Old: "\tif err := pk.Recover(rawKeys, rawIDs); err != nil {\n\t\treturn PublicKey{}, errors.Wrap(err, \"recover public key from shares\")\n\t}\n",
				New: "\t_ = pk.Recover(rawKeys, rawIDs)\n"},
			{ID: "C08-S1-aggregate-skip-undecodable", File: c08File, Expect: "S1|ThresholdAggregate value is the checked deserialisation",
				Old: "\t\tif err := signature.Deserialize(rawSignature[:]); err != nil {\n\t\t\treturn Signature{}, errors.Wrap(\n\t\t\t\terr,\n\t\t\t\t\"unmarshal signature into Herumi signature\",\n\t\t\t\tz.Int(\"signature_number\", idx),\n\t\t\t)\n\t\t}\n\n\t\trawSigns = append(rawSigns, signature)\n\n\t\tvar id bls.ID",
				New: "\t\t_ = signature.Deserialize(rawSignature[:])\n\n\t\trawSigns = append(rawSigns, signature)\n\n\t\tvar id bls.ID"},
			// ---- S1 wiring
			{ID: "C08-S1-forward-total-threshold-swapped", File: "tbls/tbls.go", Expect: "S1|tbls.ThresholdSplit forwards",
				Old: "return impl.ThresholdSplit(secret, total, threshold)", New: "return impl.ThresholdSplit(secret, threshold, total)"},
			{ID: "C08-S1-forward-insecure-swapped", File: "tbls/tbls.go", Expect: "S1|tbls.ThresholdSplitInsecure forwards",
				Old: "return impl.ThresholdSplitInsecure(t, secret, total, threshold, random)", New: "return impl.ThresholdSplitInsecure(t, secret, threshold, total, random)"},
			{ID: "C08-S1-impl-not-herumi", File: "tbls/tbls.go", Expect: "S1|tbls.impl is Herumi",
				Old: "\timpl     Implementation = Herumi{}\n", New: "\timpl     Implementation\n"},
			// ---- S2
			{ID: "C08-S2-verify-zero-pubkey-accepted", File: c08File, Expect: "S2|Herumi.Verify nil only on the true edge",
				Old: "\tif !signature.VerifyByte(&pubKey, data) {\n\t\treturn ErrSigNotVerified",
				New: "\tif !signature.VerifyByte(&pubKey, data) {\n\t\tif compressedPublicKey == (PublicKey{}) {\n\t\t\treturn nil\n\t\t}\n\n\t\treturn ErrSigNotVerified"},
			{ID: "C08-S2-verify-polarity", File: c08File, Expect: "S2|Herumi.Verify nil only on the true edge",
				Old: "\tif !signature.VerifyByte(&pubKey, data) {", New: "\tif signature.VerifyByte(&pubKey, data) {"},
			{ID: "C08-S2-verify-undecodable-sig-accepted", File: c08File, Expect: "S2|Herumi.Verify nil only on the true edge",
				Old: "\tif err := signature.Deserialize(rawSignature[:]); err != nil {\n\t\treturn errors.Wrap(err, \"unmarshal signature into Herumi signature\")",
				New: "\tif err := signature.Deserialize(rawSignature[:]); err != nil {\n\t\treturn nil"},
			{ID: "C08-S2-verify-pubkey-from-signature-bytes", File: c08File, Expect: "S2|Herumi.Verify public key operand",
				Old: "pubKey.Deserialize(compressedPublicKey[:])", New: "pubKey.Deserialize(rawSignature[:48])"},
			{ID: "C08-S2-aggverify-verdict-dropped", File: c08File, Expect: "S2|Herumi.VerifyAggregate nil only on the true edge",
				Old: "\tif !sig.FastAggregateVerify(rawShares, data) {\n\t\treturn errors.New(\"signature verification failed\")\n\t}\n",
				New: "\t_ = sig.FastAggregateVerify(rawShares, data)\n"},
			{ID: "C08-S2-aggverify-skip-bad-share", File: c08File, Expect: "S2|Herumi.VerifyAggregate public key operand",
				Old: "\t\tif err := pubKey.Deserialize(share[:]); err != nil {\n\t\t\treturn errors.Wrap(err, \"set compressed public key in Herumi format\")\n\t\t}",
				New: "\t\tif err := pubKey.Deserialize(share[:]); err != nil {\n\t\t\tcontinue\n\t\t}"},
			{ID: "C08-S2-aggverify-break-after-first", File: c08File, Expect: "S2|Herumi.VerifyAggregate public key operand",
				Old: "\t\trawShares = append(rawShares, pubKey)\n\t}", New: "\t\trawShares = append(rawShares, pubKey)\n\n\t\tif len(rawShares) == len(data) {\n\t\t\tbreak\n\t\t}\n\t}"},
			{ID: "C08-S2-forward-verify-verdict-dropped", File: "tbls/tbls.go", Expect: "S2|tbls.Verify forwards",
				Old: "\treturn impl.Verify(compressedPublicKey, data, signature)", New: "\t_ = impl.Verify(compressedPublicKey, data, signature)\n\n\treturn nil"},
			{ID: "C08-S2-signing-zero-check-weakened", File: "eth2util/signing/signing.go", Expect: "S2|signing.Verify rejects the zero signature",
				Old: "\tif signature == zeroSig {", New: "\tif signature == zeroSig && epoch == 0 {"},
			{ID: "C08-S2-signing-zero-check-logged", File: "eth2util/signing/signing.go", Expect: "S2|signing.Verify rejects the zero signature",
				Old: "\tif signature == zeroSig {\n\t\treturn errors.New(\"no signature found\")\n\t}",
				New: "\tif signature == zeroSig {\n\t\t_ = errors.New(\"no signature found\")\n\t}"},
		},
	})
}

func c08(c *rt.Ctx) {
	c.Rule("S1", 40, func() {
		for _, name := range []string{"ThresholdSplit", "ThresholdSplitInsecure"} {
			c08Split(c, name)
		}
		c08Recover(c, "RecoverSecret", "SecretKey")
		c08Recover(c, "RecoverPubkey", "PublicKey")
		c08Recover(c, "ThresholdAggregate", "Sign")
		for _, name := range []string{"ThresholdSplit", "ThresholdSplitInsecure", "RecoverSecret", "RecoverPubkey", "ThresholdAggregate"} {
			c08Forward(c, name)
		}
		c08Impl(c)
	})
	c.Rule("S2", 11, func() {
		c08VerifyGate(c, "Verify", "VerifyByte")
		c08VerifyGate(c, "VerifyAggregate", "FastAggregateVerify")
		c08Forward(c, "Verify")
		c08Forward(c, "VerifyAggregate")
		c08ZeroSig(c)
	})
}

// ---------------------------------------------------------------------------------------------
// small SSA helpers

func c08BLSName(typ, method string) string { return c08BLS + "." + typ + "." + method }

// c08IsBLSMethod reports the method name if call is a static call of a method of a herumi bls type.
func c08BLSMethod(cc *ssa.CallCommon) (typ, method string, ok bool) {
	f := cc.StaticCallee()
	if f == nil || cc.IsInvoke() {
		return "", "", false
	}
	n := an.FuncName(f)
	if !strings.HasPrefix(n, c08BLS+".") {
		return "", "", false
	}
	parts := strings.Split(strings.TrimPrefix(n, c08BLS+"."), ".")
	if len(parts) != 2 {
		return "", "", false
	}
	return parts[0], parts[1], true
}

// methods of the herumi value types that overwrite / only read their receiver. Anything else
// touching a tracked local makes the obligation undecided (never a violation).
var c08Writers = map[string]bool{"Deserialize": true, "SetDecString": true, "SetHexString": true, "SetLittleEndian": true,
	"Set": true, "Recover": true, "SetByCSPRNG": true, "DeserializeHexStr": true, "Aggregate": true, "Add": true, "Sub": true,
	"Neg": true, "DeserializeUncompressed": true, "SetLittleEndianMod": true}
var c08Readers = map[string]bool{"Serialize": true, "SerializeToHexStr": true, "GetDecString": true, "GetHexString": true,
	"GetLittleEndian": true, "IsEqual": true, "IsZero": true, "VerifyByte": true, "FastAggregateVerify": true, "Verify": true,
	"SignByte": true, "GetPublicKey": true, "GetSafePublicKey": true, "SerializeUncompressed": true}

// c08Local describes how a stack/heap local of a herumi value type is written.
type c08Local struct {
	Writers []*ssa.Call       // calls overwriting it (receiver position)
	Unknown []ssa.Instruction // uses that cannot be classified
	Stores  []*ssa.Store
}

func c08LocalOf(al *ssa.Alloc) c08Local {
	var l c08Local
	for _, ref := range *al.Referrers() {
		switch x := ref.(type) {
		case *ssa.DebugRef:
		case *ssa.UnOp:
			if x.Op != token.MUL {
				l.Unknown = append(l.Unknown, x)
			}
		case *ssa.Store:
			if x.Addr == ssa.Value(al) {
				l.Stores = append(l.Stores, x)
			} else {
				l.Unknown = append(l.Unknown, x) // address escapes
			}
		case *ssa.Call:
			_, m, ok := c08BLSMethod(&x.Call)
			if !ok || len(x.Call.Args) == 0 {
				l.Unknown = append(l.Unknown, x)
				continue
			}
			if x.Call.Args[0] == ssa.Value(al) {
				switch {
				case c08Writers[m]:
					l.Writers = append(l.Writers, x)
				case c08Readers[m]:
				default:
					l.Unknown = append(l.Unknown, x)
				}
				// the same local may also be passed as an operand of its own method: a read
				continue
			}
			// operand position of another herumi value's method (Set(poly, &id), VerifyByte(&pub, msg)): read
		default:
			l.Unknown = append(l.Unknown, ref)
		}
	}
	return l
}

func c08Alloc(v ssa.Value) *ssa.Alloc {
	al, _ := v.(*ssa.Alloc)
	return al
}

// c08LoadOf: v is a load *al of a local.
func c08LoadOf(v ssa.Value) *ssa.Alloc {
	if ld, ok := v.(*ssa.UnOp); ok && ld.Op == token.MUL {
		return c08Alloc(ld.X)
	}
	return nil
}

// c08SoleWriter resolves the single call that gives local al its value and checks that it is a
// checked guard of use. status: "ok", "bad" (definite defect, why says what), "unsure".
func c08SoleWriter(al *ssa.Alloc, use ssa.Instruction, method string) (w *ssa.Call, status, why string) {
	if al == nil {
		return nil, "unsure", "operand is not a local variable of the function"
	}
	l := c08LocalOf(al)
	if len(l.Unknown) > 0 || len(l.Stores) > 0 {
		return nil, "unsure", "the local is also assigned or used in a way this rule does not model"
	}
	if len(l.Writers) == 0 {
		return nil, "bad", "the value is used without ever being set (zero value)"
	}
	if len(l.Writers) > 1 {
		return nil, "unsure", "the local is written by several calls"
	}
	w = l.Writers[0]
	_, m, _ := c08BLSMethod(&w.Call)
	if m != method {
		return w, "unsure", "the local is set by " + m + ", expected " + method
	}
	if !an.Dominates(w, use) {
		return w, "bad", method + " does not precede the use on every path"
	}
	if res := w.Call.Signature().Results(); res.Len() == 1 && an.IsErrorType(res.At(0).Type()) {
		if ok, g := an.Guarded(w, use, an.DefaultGuard); !ok {
			return w, "bad", "the error of " + method + " is not checked before the value is used: " + g
		}
	}
	return w, "ok", ""
}

// c08BytesSrc resolves the []byte operand `x[:]` of a Deserialize call to the value stored in the
// sliced array local; full reports whether the whole array is passed.
func c08BytesSrc(v ssa.Value) (src ssa.Value, full bool) {
	sl, ok := v.(*ssa.Slice)
	if !ok {
		return nil, false
	}
	al := c08Alloc(sl.X)
	if al == nil {
		return nil, false
	}
	src = an.UniqueStore(al)
	if src == nil {
		return nil, false
	}
	return src, sl.Low == nil && sl.High == nil && sl.Max == nil
}

// c08SerializedRecv: v is `*(*T)(x.Serialize())`; returns the local x.
func c08SerializedRecv(v ssa.Value) *ssa.Alloc {
	ld, ok := v.(*ssa.UnOp)
	if !ok || ld.Op != token.MUL {
		return nil
	}
	sp, ok := ld.X.(*ssa.SliceToArrayPointer)
	if !ok {
		return nil
	}
	call, ok := sp.X.(*ssa.Call)
	if !ok {
		return nil
	}
	if _, m, ok := c08BLSMethod(&call.Call); !ok || m != "Serialize" || len(call.Call.Args) != 1 {
		return nil
	}
	return c08Alloc(call.Call.Args[0])
}

// c08Mentions: v is an expression (arithmetic, conversions) over want.
func c08Mentions(v, want ssa.Value, d int) bool {
	if v == want {
		return true
	}
	if d > 6 {
		return false
	}
	switch x := v.(type) {
	case *ssa.BinOp:
		return c08Mentions(x.X, want, d+1) || c08Mentions(x.Y, want, d+1)
	case *ssa.UnOp:
		return x.Op != token.MUL && c08Mentions(x.X, want, d+1)
	case *ssa.Convert:
		return c08Mentions(x.X, want, d+1)
	case *ssa.ChangeType:
		return c08Mentions(x.X, want, d+1)
	}
	return false
}

// c08IsLenCall: v is len(..).
func c08IsLenCall(v ssa.Value) bool {
	call, ok := v.(*ssa.Call)
	if !ok {
		return false
	}
	b, ok := call.Call.Value.(*ssa.Builtin)
	return ok && (b.Name() == "len" || b.Name() == "cap")
}

// c08DefinitelyNot: x is visibly something other than want (constant, arithmetic, a counter).
func c08DefinitelyNot(x, want ssa.Value) (bool, string) {
	switch y := x.(type) {
	case *ssa.Const:
		return true, "the identifier is the constant " + y.Name()
	case *ssa.BinOp:
		if want != nil && c08Mentions(x, want, 0) {
			return true, "arithmetic is applied to the index before it becomes the identifier (" + y.Op.String() + ")"
		}
		if c08IsLenCall(y.X) || c08IsLenCall(y.Y) {
			return true, "the identifier is a position counter, not the share index"
		}
		return true, "the identifier is computed (" + y.Op.String() + ") instead of being the share index itself"
	case *ssa.Call:
		if c08IsLenCall(x) {
			return true, "the identifier is a position counter, not the share index"
		}
	case *ssa.Extract:
		if w, ok := want.(*ssa.Extract); ok && w.Tuple == y.Tuple && w.Index != y.Index {
			return true, "the identifier is taken from the map value, not the map key"
		}
	case *ssa.Parameter:
		return true, "the identifier is the parameter " + y.Name() + ", the same for every share"
	}
	return false, ""
}

// c08DecID checks that the bls.ID local idA, as used by `use`, is SetDecString(strconv.Itoa(x)) with a
// checked error, and returns x (conversions stripped). A nil return means the finding was recorded.
func c08DecID(c *rt.Ctx, construct string, idA *ssa.Alloc, use ssa.Instruction) ssa.Value {
	w, st, why := c08SoleWriter(idA, use, "SetDecString")
	switch st {
	case "bad":
		c.Bad(construct, posOf(use), "share identifier: "+why)
		return nil
	case "unsure":
		c.Unsure(construct, posOf(use), "share identifier: "+why)
		return nil
	}
	if len(w.Call.Args) != 2 {
		c.Unsure(construct, w.Pos(), "SetDecString: unexpected arity")
		return nil
	}
	conv, ok := w.Call.Args[1].(*ssa.Call)
	if !ok {
		c.Unsure(construct, w.Pos(), "the decimal string of the identifier is not produced by a call this rule knows")
		return nil
	}
	switch an.CalleeName(&conv.Call) {
	case "strconv.Itoa":
		return an.Unwrap(conv.Call.Args[0])
	case "strconv.FormatInt", "strconv.FormatUint":
		if b, ok := an.ConstInt(conv.Call.Args[1]); ok && b == 10 {
			return an.Unwrap(conv.Call.Args[0])
		}
		c.Bad(construct, w.Pos(), "the identifier string handed to SetDecString is not rendered in base 10")
		return nil
	}
	c.Unsure(construct, w.Pos(), "the decimal string of the identifier is produced by "+an.CalleeName(&conv.Call)+", which this rule does not model")
	return nil
}

// c08ParamsOf returns the parameters of fn whose type satisfies pred, in order.
func c08ParamsOf(fn *ssa.Function, pred func(types.Type) bool) []*ssa.Parameter {
	var out []*ssa.Parameter
	for _, p := range fn.Params {
		if pred(p.Type()) {
			out = append(out, p)
		}
	}
	return out
}

func c08IsUint(t types.Type) bool {
	b, ok := t.(*types.Basic)
	return ok && b.Kind() == types.Uint
}

func c08LoopAt(fn *ssa.Function, header *ssa.BasicBlock) *an.Loop {
	for _, l := range an.Loops(fn) {
		if l.Header == header {
			return l
		}
	}
	return nil
}

// c08Counter describes a header phi `for i := start; ...; i++`.
type c08Counter struct {
	Phi      *ssa.Phi
	Loop     *an.Loop
	Start    ssa.Value // entry value (single)
	StepsOne bool      // every back edge carries phi+1
}

func c08CounterOf(fn *ssa.Function, v ssa.Value) *c08Counter {
	phi, ok := v.(*ssa.Phi)
	if !ok {
		return nil
	}
	l := c08LoopAt(fn, phi.Block())
	if l == nil {
		return nil
	}
	ct := &c08Counter{Phi: phi, Loop: l, StepsOne: true}
	for i, e := range phi.Edges {
		pred := phi.Block().Preds[i]
		if !l.Body[pred] {
			if ct.Start != nil && ct.Start != e {
				return nil
			}
			ct.Start = e
			continue
		}
		bin, ok := e.(*ssa.BinOp)
		one := false
		if ok && bin.Op == token.ADD {
			if k, isK := an.ConstInt(bin.Y); isK && k == 1 && bin.X == ssa.Value(phi) {
				one = true
			}
			if k, isK := an.ConstInt(bin.X); isK && k == 1 && bin.Y == ssa.Value(phi) {
				one = true
			}
		}
		if !one {
			ct.StepsOne = false
		}
	}
	if ct.Start == nil {
		return nil
	}
	return ct
}

// ---------------------------------------------------------------------------------------------
// S1: split side

func c08Split(c *rt.Ctx, name string) {
	fn := c.Fn("tbls.Herumi." + name)
	pre := name + " "
	uints := c08ParamsOf(fn, c08IsUint)
	secrets := c08ParamsOf(fn, func(t types.Type) bool { return an.TypeName(t) == "tbls.PrivateKey" })
	if len(uints) != 2 || len(secrets) != 1 {
		c.Bail("%s: expected parameters (secret PrivateKey, total uint, threshold uint)", an.FuncName(fn))
	}
	total, threshold, secret := uints[0], uints[1], secrets[0]
	set := c.OneCall(fn, an.Static(c08BLSName("SecretKey", "Set")), "bls.SecretKey.Set", false).(*ssa.Call)
	if len(set.Call.Args) != 3 {
		c.Bail("%s: bls.SecretKey.Set: unexpected arity", an.FuncName(fn))
	}
	skA, poly, idA := c08Alloc(set.Call.Args[0]), set.Call.Args[1], c08Alloc(set.Call.Args[2])

	// (1) identifier = Itoa(loop variable), loop 1..total step 1
	var ctr *c08Counter
	if x := c08DecID(c, pre+"identifier is the loop variable", idA, set); x != nil {
		ctr = c08CounterOf(fn, x)
		inner := an.InnermostLoop(fn, set.Block())
		switch {
		case ctr != nil && inner != nil && ctr.Loop.Header == inner.Header:
			c.Good(pre+"identifier is the loop variable", set.Pos(), "SetDecString(strconv.Itoa(i)) of the loop variable, error checked")
		case ctr != nil:
			c.Bad(pre+"identifier is the loop variable", set.Pos(), "the identifier is the counter of an outer loop: several shares of the inner loop get the same identifier")
			ctr = nil
		default:
			var want ssa.Value
			if inner != nil {
				for _, in := range inner.Header.Instrs {
					if p, ok := in.(*ssa.Phi); ok && c08Mentions(x, p, 0) {
						want = p
					}
				}
			}
			if bad, why := c08DefinitelyNot(x, want); bad {
				c.Bad(pre+"identifier is the loop variable", set.Pos(), why)
			} else {
				c.Unsure(pre+"identifier is the loop variable", set.Pos(), "cannot relate the identifier to the loop variable of the share loop")
			}
		}
	}
	if ctr != nil {
		k, isK := an.ConstInt(ctr.Start)
		switch {
		case isK && k == 1:
			c.Good(pre+"identifiers start at 1", ctr.Phi.Pos(), "")
		case isK:
			c.Bad(pre+"identifiers start at 1", ctr.Phi.Pos(), "the share loop starts at "+ctr.Start.Name()+
				": identifiers must be 1..total (identifier 0 evaluates the polynomial at 0, i.e. hands out the secret itself)")
		default:
			c.Unsure(pre+"identifiers start at 1", ctr.Phi.Pos(), "the first identifier is not a constant")
		}
		c.Check(pre+"identifiers are consecutive", ctr.Phi.Pos(), ctr.StepsOne, "the share loop does not advance the identifier by exactly 1")
		// bound: stays in the loop exactly while i <= total
		decided := false
		for _, cd := range an.CondsOn(fn, ctr.Phi) {
			if cd.If.Block() != ctr.Loop.Header || cd.Other == nil {
				continue
			}
			decided = true
			other := an.Unwrap(cd.Other)
			var stay *ssa.BasicBlock
			op := cd.Op
			switch op {
			case token.LEQ, token.LSS:
				stay = cd.Succ(true)
			case token.GTR, token.GEQ:
				stay = cd.Succ(false)
			}
			switch {
			case stay == nil || !ctr.Loop.Body[stay]:
				c.Unsure(pre+"identifiers run to total", posOf(cd.If), "loop condition has an unexpected shape")
			case other == ssa.Value(total) && (op == token.LEQ || op == token.GTR):
				c.Good(pre+"identifiers run to total", posOf(cd.If), "")
			case other == ssa.Value(total):
				c.Bad(pre+"identifiers run to total", posOf(cd.If), "the share loop stops before identifier `total`: fewer than total shares are produced")
			case other == ssa.Value(threshold):
				c.Bad(pre+"identifiers run to total", posOf(cd.If), "the share loop is bounded by threshold instead of total")
			default:
				if _, isConst := other.(*ssa.Const); isConst {
					c.Bad(pre+"identifiers run to total", posOf(cd.If), "the share loop is bounded by a constant instead of total")
				} else {
					c.Unsure(pre+"identifiers run to total", posOf(cd.If), "cannot relate the loop bound to the total parameter")
				}
			}
		}
		if !decided {
			c.Unsure(pre+"identifiers run to total", ctr.Phi.Pos(), "no loop condition on the identifier found in the loop header")
		}
	}

	// (2) the share is stored under its identifier and is the evaluated key
	var retMap ssa.Value
	for _, r := range an.Returns(fn) {
		if len(r.Results) == 2 && an.IsNilConst(r.Results[1]) {
			if retMap != nil && retMap != r.Results[0] {
				c.Bail("%s: several result maps", an.FuncName(fn))
			}
			retMap = r.Results[0]
		}
	}
	if retMap == nil {
		c.Bail("%s: no successful return found", an.FuncName(fn))
	}
	ups := mapUpdates(fn, func(m ssa.Value) bool { return m == retMap })
	if len(ups) == 0 {
		c.Unsure(pre+"share stored under its identifier", fn.Pos(), "no insertion into the returned map found")
	}
	for _, up := range ups {
		if ctr != nil {
			key := an.Unwrap(up.Key)
			if key == ssa.Value(ctr.Phi) {
				c.Good(pre+"share stored under its identifier", posOf(up), "")
			} else if bad, why := c08DefinitelyNot(key, ctr.Phi); bad {
				c.Bad(pre+"share stored under its identifier", posOf(up), "map key differs from the identifier the share was evaluated at: "+why)
			} else {
				c.Unsure(pre+"share stored under its identifier", posOf(up), "cannot relate the map key to the identifier")
			}
		}
		recv := c08SerializedRecv(up.Value)
		switch {
		case recv == nil:
			c.Unsure(pre+"stored share is the evaluated key", posOf(up), "stored value is not the serialisation of a local key")
		case recv != skA:
			c.Bad(pre+"stored share is the evaluated key", posOf(up), "the stored share is the serialisation of `"+recv.Comment+"`, not of the key evaluated by Set with this identifier")
		default:
			_, st, why := c08SoleWriter(skA, up, "Set")
			c08Record(c, pre+"stored share is the evaluated key", posOf(up), st, why)
		}
	}

	// (3) polynomial: `threshold` coefficients, constant term the secret, never overwritten
	mk, ok := poly.(*ssa.MakeSlice)
	if !ok {
		c.Unsure(pre+"polynomial has threshold coefficients", set.Pos(), "polynomial operand of Set is not a slice made in this function")
		return
	}
	switch ln := an.Unwrap(mk.Len); {
	case ln == ssa.Value(threshold):
		c.Good(pre+"polynomial has threshold coefficients", mk.Pos(), "")
	case ln == ssa.Value(total):
		c.Bad(pre+"polynomial has threshold coefficients", mk.Pos(), "the polynomial has `total` coefficients: total (not threshold) shares are needed to recover")
	default:
		if bad, why := c08DefinitelyNot(ln, threshold); bad {
			c.Bad(pre+"polynomial has threshold coefficients", mk.Pos(), "polynomial length is not the threshold parameter: "+why)
		} else {
			c.Unsure(pre+"polynomial has threshold coefficients", mk.Pos(), "cannot relate the polynomial length to the threshold parameter")
		}
	}
	constTerm := 0
	for _, ref := range *mk.Referrers() {
		ia, ok := ref.(*ssa.IndexAddr)
		if !ok {
			continue
		}
		for _, r2 := range *ia.Referrers() {
			st, ok := r2.(*ssa.Store)
			if !ok || st.Addr != ssa.Value(ia) {
				continue
			}
			cons := pre + "constant term is the secret"
			if k, isK := an.ConstInt(ia.Index); isK {
				if k != 0 {
					continue
				}
				constTerm++
				pA := c08LoadOf(st.Val)
				w, stt, why := c08SoleWriter(pA, st, "Deserialize")
				if stt != "ok" {
					c08Record(c, cons, st.Pos(), stt, "poly[0]: "+why)
					continue
				}
				src, full := c08BytesSrc(w.Call.Args[1])
				switch {
				case src == ssa.Value(secret) && full && an.Dominates(st, set):
					c.Good(cons, st.Pos(), "")
				case src == ssa.Value(secret) && full:
					c.Bad(cons, st.Pos(), "poly[0] is not set on every path to the evaluation")
				case src == nil:
					c.Unsure(cons, st.Pos(), "cannot resolve the bytes poly[0] is deserialised from")
				default:
					c.Bad(cons, st.Pos(), "poly[0] is not deserialised from the whole secret parameter")
				}
				continue
			}
			// coefficient loop: must not touch index 0
			ct := c08CounterOf(fn, an.Unwrap(ia.Index))
			if ct == nil {
				c.Unsure(cons+" (coefficient loop)", st.Pos(), "polynomial is written at an index this rule cannot resolve")
				continue
			}
			k, isK := an.ConstInt(ct.Start)
			switch {
			case isK && k >= 1 && ct.StepsOne:
				c.Good(cons+" (coefficient loop)", st.Pos(), "")
			case isK && k < 1:
				c.Bad(cons+" (coefficient loop)", st.Pos(), "the coefficient loop starts at "+ct.Start.Name()+" and overwrites poly[0]: the shares no longer belong to the given secret")
			default:
				c.Unsure(cons+" (coefficient loop)", st.Pos(), "cannot bound the indices written by the coefficient loop")
			}
		}
	}
	if constTerm == 0 {
		c.Bad(pre+"constant term is the secret", mk.Pos(), "poly[0] is never assigned: the shares do not belong to the given secret")
	}
}

func c08Record(c *rt.Ctx, construct string, pos token.Pos, status, why string) {
	switch status {
	case "ok":
		c.Good(construct, pos, "")
	case "bad":
		c.Bad(construct, pos, why)
	default:
		c.Unsure(construct, pos, why)
	}
}

// ---------------------------------------------------------------------------------------------
// S1: recover side

// c08RangeNext returns the Next instruction of a map range loop and the ranged collection.
func c08RangeNext(l *an.Loop) *ssa.Next {
	for _, in := range l.Header.Instrs {
		if nx, ok := in.(*ssa.Next); ok {
			return nx
		}
	}
	return nil
}

// c08EmptyList: nil, or make([]T, 0[, cap]).
func c08EmptyList(v ssa.Value) bool {
	switch x := v.(type) {
	case *ssa.Const:
		return x.Value == nil
	case *ssa.MakeSlice:
		n, ok := an.ConstInt(x.Len)
		return ok && n == 0
	}
	return false
}

func c08IsAppendTo(v ssa.Value, base ssa.Value) (*ssa.Call, []ssa.Value) {
	call, ok := v.(*ssa.Call)
	if !ok {
		return nil, nil
	}
	b, ok := call.Call.Value.(*ssa.Builtin)
	if !ok || b.Name() != "append" || len(call.Call.Args) != 2 || call.Call.Args[0] != base {
		return nil, nil
	}
	return call, appendedElems(call)
}

// c08AccumPhi resolves a list operand to the loop-header phi that accumulates it. When the operand is
// a merge of the accumulator with a value leaving the loop body (`break` after an append), early is set.
func c08AccumPhi(fn *ssa.Function, v ssa.Value) (hdr *ssa.Phi, early bool) {
	phi, ok := v.(*ssa.Phi)
	if !ok {
		return nil, false
	}
	if c08LoopAt(fn, phi.Block()) != nil {
		return phi, false
	}
	for _, e := range phi.Edges {
		for i := 0; i < 8; i++ { // strip append(base, ...) chains
			call, ok := e.(*ssa.Call)
			if !ok {
				break
			}
			b, ok := call.Call.Value.(*ssa.Builtin)
			if !ok || b.Name() != "append" {
				break
			}
			e = call.Call.Args[0]
		}
		p, ok := e.(*ssa.Phi)
		if !ok || c08LoopAt(fn, p.Block()) == nil || (hdr != nil && hdr != p) {
			return nil, false
		}
		hdr = p
	}
	return hdr, hdr != nil
}

func c08Recover(c *rt.Ctx, name, typ string) {
	fn := c.Fn("tbls.Herumi." + name)
	pre := name + " "
	maps := c08ParamsOf(fn, an.IsMapType)
	if len(maps) != 1 {
		c.Bail("%s: expected exactly one map parameter", an.FuncName(fn))
	}
	input := maps[0]
	rec := c.OneCall(fn, an.Static(c08BLSName(typ, "Recover")), "bls."+typ+".Recover", false).(*ssa.Call)
	if len(rec.Call.Args) != 3 {
		c.Bail("%s: Recover: unexpected arity", an.FuncName(fn))
	}
	pv, earlyV := c08AccumPhi(fn, rec.Call.Args[1])
	pi, earlyI := c08AccumPhi(fn, rec.Call.Args[2])
	pair := pre + "identifier and value appended in the same iteration"
	if pv == nil || pi == nil || pv.Block() != pi.Block() {
		c.Unsure(pair, rec.Pos(), "the two lists handed to Recover are not accumulated by one loop")
		return
	}
	if earlyV || earlyI {
		c.Bad(pre+"every input share is used", rec.Pos(), "the loop over the input shares can be left early towards Recover: only a prefix (in random map order) is combined")
		return
	}
	l := c08LoopAt(fn, pv.Block())
	if l == nil {
		c.Unsure(pair, rec.Pos(), "the two lists handed to Recover are not accumulated by one loop")
		return
	}
	nx := c08RangeNext(l)
	if nx == nil || l.RangeColl() != ssa.Value(input) {
		// a counting loop that reads input[counter] assumes the share identifiers are exactly 1..len(input):
		// any subset with a gap silently uses zero values / skips real shares and recovers a wrong result
		for b := range l.Body {
			for _, in := range b.Instrs {
				if lk, ok := in.(*ssa.Lookup); ok && lk.X == ssa.Value(input) {
					c.Bad(pre+"every input share is used", lk.Pos(), "the shares are fetched by a counter (input[i] for i = 1..len) instead of ranging over the map: identifiers are assumed contiguous from 1, subsets with gaps combine zero values under wrong identifiers")
					return
				}
			}
		}
		c.Unsure(pair, rec.Pos(), "the accumulating loop does not range over the input map")
		return
	}
	if l.Body[rec.Block()] || !l.Header.Dominates(rec.Block()) {
		c.Unsure(pair, rec.Pos(), "Recover is not executed after the accumulating loop")
		return
	}
	if b := an.C05LoopLeavesOnlyAtHeader(l, rec); b != nil {
		c.Bad(pre+"every input share is used", posOf(b.Instrs[len(b.Instrs)-1]), "the loop over the input shares can be left early towards Recover: only a prefix (in random map order) is combined")
	} else {
		c.Good(pre+"every input share is used", rec.Pos(), "")
	}
	var keyEx, valEx ssa.Value
	for _, ref := range *nx.Referrers() {
		if ex, ok := ref.(*ssa.Extract); ok {
			switch ex.Index {
			case 1:
				keyEx = ex
			case 2:
				valEx = ex
			}
		}
	}
	for j, pred := range l.Header.Preds {
		ev, ei := pv.Edges[j], pi.Edges[j]
		if !l.Body[pred] {
			if !c08EmptyList(ev) || !c08EmptyList(ei) {
				c.Unsure(pair, rec.Pos(), "the lists are not empty when the loop starts")
			}
			continue
		}
		selfV, selfI := ev == ssa.Value(pv), ei == ssa.Value(pi)
		if selfV && selfI {
			continue // iteration skipped for both lists alike
		}
		av, elemsV := c08IsAppendTo(ev, pv)
		ai, elemsI := c08IsAppendTo(ei, pi)
		pos := posOf(pred.Instrs[len(pred.Instrs)-1])
		switch {
		case (selfV && ai != nil) || (selfI && av != nil):
			c.Bad(pair, pos, "an iteration can extend one of the two lists without the other: every later identifier is paired with the wrong share")
			continue
		case av == nil || ai == nil || len(elemsV) != 1 || len(elemsI) != 1:
			c.Unsure(pair, pos, "a back edge of the loop does not carry append(list, one element) for both lists")
			continue
		}
		c.Good(pair, pos, "")
		// identifier
		cons := pre + "identifier is the map key"
		if x := c08DecID(c, cons, c08LoadOf(elemsI[0]), ai); x != nil {
			if keyEx != nil && x == keyEx {
				c.Good(cons, ai.Pos(), "SetDecString(strconv.Itoa(key)) of the ranged map key, error checked")
			} else if bad, why := c08DefinitelyNot(x, keyEx); bad {
				c.Bad(cons, ai.Pos(), why)
			} else {
				c.Unsure(cons, ai.Pos(), "cannot relate the identifier to the key of the ranged map")
			}
		}
		// value
		cons = pre + "value is the checked deserialisation of the map value"
		w, st, why := c08SoleWriter(c08LoadOf(elemsV[0]), av, "Deserialize")
		if st != "ok" {
			c08Record(c, cons, av.Pos(), st, why)
			continue
		}
		src, full := c08BytesSrc(w.Call.Args[1])
		switch {
		case src != nil && src == valEx && full:
			c.Good(cons, av.Pos(), "")
		case src == nil:
			c.Unsure(cons, av.Pos(), "cannot resolve the bytes the share is deserialised from")
		default:
			c.Bad(cons, av.Pos(), "the share is not deserialised from the whole map value of this iteration")
		}
	}
	// result
	cons := pre + "result is the recovered value"
	n := 0
	for _, r := range an.Returns(fn) {
		if len(r.Results) != 2 || !an.IsNilConst(r.Results[1]) {
			continue
		}
		n++
		recv := c08SerializedRecv(r.Results[0])
		switch {
		case recv == nil:
			c.Unsure(cons, posOf(r), "the value returned with a nil error is not the serialisation of a local")
		case recv != c08Alloc(rec.Call.Args[0]):
			c.Bad(cons, posOf(r), "the value returned with a nil error is not the receiver of Recover")
		default:
			_, st, why := c08SoleWriter(recv, r, "Recover")
			c08Record(c, cons, posOf(r), st, why)
		}
	}
	if n == 0 {
		c.Unsure(cons, fn.Pos(), "no return with a nil error found")
	}
}

// ---------------------------------------------------------------------------------------------
// wiring: package-level functions forward to impl, impl is Herumi

func c08Forward(c *rt.Ctx, name string) {
	fn := c.Fn("tbls." + name)
	cons := "tbls." + name + " forwards to impl." + name
	calls := an.Calls(fn, func(cc *ssa.CallCommon) bool {
		return cc.IsInvoke() && an.TypeName(cc.Value.Type()) == "tbls.Implementation"
	}, false)
	if len(calls) != 1 {
		c.Unsure(cons, fn.Pos(), "expected exactly one call through the Implementation interface")
		return
	}
	call := calls[0]
	cc := call.Common()
	if cc.Method.Name() != name {
		c.Bad(cons, call.Pos(), "calls impl."+cc.Method.Name()+" instead of impl."+name)
		return
	}
	if g := c08GlobalLoad(cc.Value); g == nil || g.Name() != "impl" || g.Pkg != fn.Pkg {
		c.Unsure(cons, call.Pos(), "the implementation called is not the package variable impl")
		return
	}
	if len(cc.Args) != len(fn.Params) {
		c.Unsure(cons, call.Pos(), "argument count differs from the parameter count")
		return
	}
	// parameters the Herumi method ignores (RecoverSecret's total/threshold) carry no obligation
	target := c.FnOpt("tbls.Herumi." + name)
	for i, a := range cc.Args {
		if target != nil && len(target.Params) == len(cc.Args)+1 {
			if refs := target.Params[i+1].Referrers(); refs != nil && len(*refs) == 0 {
				continue
			}
		}
		if a != ssa.Value(fn.Params[i]) {
			if p, ok := a.(*ssa.Parameter); ok {
				c.Bad(cons, call.Pos(), "argument "+fn.Params[i].Name()+" is replaced by parameter "+p.Name()+": the arguments reach the implementation permuted")
			} else {
				c.Bad(cons, call.Pos(), "argument "+fn.Params[i].Name()+" is not forwarded unchanged")
			}
			return
		}
	}
	nres := fn.Signature.Results().Len()
	for _, r := range c09Returns(fn) {
		for i, v := range r.Vals {
			good := false
			if nres == 1 {
				good = v == call.Value()
			} else if ex, ok := v.(*ssa.Extract); ok {
				good = ex.Tuple == call.Value() && ex.Index == i
			}
			if !good {
				c.Bad(cons, posOf(r.Ret), "a result is not the implementation's result")
				return
			}
		}
	}
	c.Good(cons, call.Pos(), "")
}

func c08GlobalLoad(v ssa.Value) *ssa.Global {
	if ld, ok := v.(*ssa.UnOp); ok && ld.Op == token.MUL {
		g, _ := ld.X.(*ssa.Global)
		return g
	}
	return nil
}

func c08Impl(c *rt.Ctx) {
	pkg := c.SSAPkg("tbls")
	g, ok := pkg.Members["impl"].(*ssa.Global)
	if !ok {
		c.Bail("tbls.impl not found")
	}
	setter := c.Fn("tbls.SetImplementation")
	initFn := pkg.Func("init")
	if initFn == nil {
		c.Bail("tbls: no package initialiser")
	}
	cons := "tbls.impl is Herumi"
	inits := 0
	fns := append(an.PkgFuncs(pkg), initFn)
	for _, fn := range fns {
		for _, in := range an.Instrs(fn, false) {
			st, ok := in.(*ssa.Store)
			if !ok || st.Addr != ssa.Value(g) {
				continue
			}
			switch {
			case fn == initFn:
				inits++
				mi, ok := st.Val.(*ssa.MakeInterface)
				c.Check(cons, posOf(st), ok && an.TypeName(mi.X.Type()) == "tbls.Herumi", "the default implementation is not Herumi")
			case fn == setter:
			default:
				c.Bad(cons, posOf(st), "impl is reassigned in "+an.FuncName(fn))
			}
		}
	}
	if inits == 0 {
		c.Bad(cons, g.Pos(), "impl has no initial value: every tbls function panics on a nil implementation")
	}
	// nobody in the production program swaps the implementation (tests are not loaded)
	cons = "tbls.SetImplementation not called by production code"
	var pos token.Pos
	var who string
	for _, sp := range c.P.SSAPkgs {
		for _, fn := range an.PkgFuncs(sp) {
			for _, call := range an.Calls(fn, an.Static("tbls.SetImplementation"), false) {
				if who == "" {
					who, pos = an.FuncName(fn), call.Pos()
				}
			}
			for _, in := range an.Instrs(fn, false) {
				for _, op := range an.Operands(in) {
					if op == ssa.Value(setter) {
						if ci, ok := in.(ssa.CallInstruction); !ok || ci.Common().Value != op {
							who, pos = an.FuncName(fn)+" (as a value)", in.Pos()
						}
					}
				}
			}
		}
	}
	if who != "" {
		c.Bad(cons, pos, "the threshold-BLS backend is replaced by "+who+": the identifier rules above no longer describe what runs")
	} else {
		c.Good(cons, setter.Pos(), "")
	}
}

// ---------------------------------------------------------------------------------------------
// S2

// c08NonNilErr: v is an error value that is non-nil by construction.
func c08NonNilErr(c *rt.Ctx, fn *ssa.Function, v ssa.Value) bool {
	if call, ok := v.(*ssa.Call); ok && an.Static("app/errors.New", "app/errors.Wrap")(&call.Call) {
		return true
	}
	if g := c08GlobalLoad(v); g != nil {
		// a sentinel: assigned once, in the package initialiser, from errors.New
		n := 0
		initFn := g.Pkg.Func("init")
		for _, f := range append(an.PkgFuncs(g.Pkg), initFn) {
			for _, in := range an.Instrs(f, false) {
				if st, ok := in.(*ssa.Store); ok && st.Addr == ssa.Value(g) {
					call, isCall := st.Val.(*ssa.Call)
					if f != initFn || !isCall || !an.Static("app/errors.New", "app/errors.NewSentinel")(&call.Call) {
						return false
					}
					n++
				}
			}
		}
		return n == 1
	}
	return false
}

// c08NilEdge: e is an error value known to be nil at `at` (at lies on the nil edge of a test of e),
// e.g. `if err = f(); err != nil { return .. }; ...; return err`.
func c08NilEdge(fn *ssa.Function, e ssa.Value, at ssa.Instruction) bool {
	for _, cd := range an.CondsOn(fn, e) {
		if cd.Other == nil || !an.IsNilConst(cd.Other) || (cd.Op != token.EQL && cd.Op != token.NEQ) {
			continue
		}
		succ := cd.Succ(cd.Op == token.EQL)
		if len(succ.Preds) == 1 && (succ == at.Block() || succ.Dominates(at.Block())) {
			return true
		}
	}
	return false
}

func c08VerifyGate(c *rt.Ctx, name, libFn string) {
	fn := c.Fn("tbls.Herumi." + name)
	pre := "Herumi." + name + " "
	gate := c.OneCall(fn, an.Static(c08BLSName("Sign", libFn)), "bls.Sign."+libFn, false).(*ssa.Call)
	if len(gate.Call.Args) != 3 {
		c.Bail("%s: %s: unexpected arity", an.FuncName(fn), libFn)
	}
	cons := pre + "nil only on the true edge of " + libFn
	nils := 0
	for _, r := range c09Returns(fn) {
		if len(r.Vals) != 1 {
			c.Bail("%s: unexpected result count", an.FuncName(fn))
		}
		e, sink := r.Vals[0], r.Sink[0]
		switch {
		case e == nil:
			c.Unsure(cons, posOf(r.Ret), "returned error value cannot be resolved")
		case an.IsNilConst(e) || c08NilEdge(fn, e, sink):
			nils++
			ok, why := an.Guarded(gate, sink, an.GuardOpt{BoolIdx: 0, BoolWant: true, NoErr: true})
			c.Check(cons, posOf(r.Ret), ok, "nil (signature accepted) is returned on a path on which "+libFn+" did not return true: "+why)
		case c08NonNilErr(c, fn, e):
		case c09NonNilEdge(fn, e, sink):
		default:
			c.Unsure(cons, posOf(r.Ret), "cannot tell whether the returned error can be nil without "+libFn+" succeeding")
		}
	}
	if nils == 0 {
		c.Unsure(cons, fn.Pos(), "no return of a nil error found")
	}
	sigP := c08ParamsOf(fn, func(t types.Type) bool { return an.TypeName(t) == "tbls.Signature" })
	msgP := c08ParamsOf(fn, func(t types.Type) bool { return types.TypeString(t, nil) == "[]byte" })
	if len(sigP) != 1 || len(msgP) != 1 {
		c.Bail("%s: expected one Signature and one []byte parameter", an.FuncName(fn))
	}
	// signature operand
	cons = pre + "signature operand"
	if w, st, why := c08SoleWriter(c08Alloc(gate.Call.Args[0]), gate, "Deserialize"); st != "ok" {
		c08Record(c, cons, gate.Pos(), st, why)
	} else {
		src, full := c08BytesSrc(w.Call.Args[1])
		switch {
		case src == ssa.Value(sigP[0]) && full:
			c.Good(cons, gate.Pos(), "")
		case src == nil:
			c.Unsure(cons, gate.Pos(), "cannot resolve the bytes the signature is deserialised from")
		default:
			c.Bad(cons, gate.Pos(), "the signature checked is not deserialised from the whole signature parameter")
		}
	}
	// message operand
	c.Check(pre+"message operand", gate.Pos(), gate.Call.Args[2] == ssa.Value(msgP[0]), "the message checked is not the data parameter")
	// public key operand(s)
	cons = pre + "public key operand"
	if pkA := c08Alloc(gate.Call.Args[1]); pkA != nil {
		pkP := c08ParamsOf(fn, func(t types.Type) bool { return an.TypeName(t) == "tbls.PublicKey" })
		if len(pkP) != 1 {
			c.Bail("%s: expected one PublicKey parameter", an.FuncName(fn))
		}
		w, st, why := c08SoleWriter(pkA, gate, "Deserialize")
		if st != "ok" {
			c08Record(c, cons, gate.Pos(), st, why)
			return
		}
		src, full := c08BytesSrc(w.Call.Args[1])
		switch {
		case src == ssa.Value(pkP[0]) && full:
			c.Good(cons, gate.Pos(), "")
		case src == nil:
			c.Unsure(cons, gate.Pos(), "cannot resolve the bytes the public key is deserialised from")
		default:
			c.Bad(cons, gate.Pos(), "the public key checked against is not deserialised from the whole public key parameter")
		}
		return
	}
	// list of public keys accumulated over the whole parameter slice
	listP := c08ParamsOf(fn, func(t types.Type) bool {
		s, ok := t.Underlying().(*types.Slice)
		return ok && an.TypeName(s.Elem()) == "tbls.PublicKey"
	})
	phi, early := c08AccumPhi(fn, gate.Call.Args[1])
	if len(listP) != 1 || phi == nil {
		c.Unsure(cons, gate.Pos(), "public key operand is neither a local key nor a list accumulated by a loop")
		return
	}
	if early && c08LoopAt(fn, phi.Block()).RangeColl() == ssa.Value(listP[0]) {
		c.Bad(cons, gate.Pos(), "the loop over the public keys can be left early towards the check: only a prefix of the keys is verified against")
		return
	}
	l := c08LoopAt(fn, phi.Block())
	if l == nil || l.RangeColl() != ssa.Value(listP[0]) || l.Body[gate.Block()] || !l.Header.Dominates(gate.Block()) {
		c.Unsure(cons, gate.Pos(), "the key list is not accumulated by a loop over the public key parameter that precedes the check")
		return
	}
	if b := an.C05LoopLeavesOnlyAtHeader(l, gate); b != nil {
		c.Bad(cons, posOf(b.Instrs[len(b.Instrs)-1]), "the loop over the public keys can be left early towards the check: only a prefix of the keys is verified against")
		return
	}
	for j, pred := range l.Header.Preds {
		e := phi.Edges[j]
		pos := posOf(pred.Instrs[len(pred.Instrs)-1])
		if !l.Body[pred] {
			if !c08EmptyList(e) {
				c.Unsure(cons, pos, "the key list is not empty when the loop starts")
			}
			continue
		}
		if e == ssa.Value(phi) {
			c.Bad(cons, pos, "an iteration can skip its public key: the aggregate is verified against a subset of the given keys")
			continue
		}
		ap, elems := c08IsAppendTo(e, phi)
		if ap == nil || len(elems) != 1 {
			c.Unsure(cons, pos, "a back edge of the loop does not carry append(list, one key)")
			continue
		}
		w, st, why := c08SoleWriter(c08LoadOf(elems[0]), ap, "Deserialize")
		if st != "ok" {
			c08Record(c, cons, ap.Pos(), st, why)
			continue
		}
		sl, isSl := w.Call.Args[1].(*ssa.Slice)
		switch {
		case isSl && sl.Low == nil && sl.High == nil && l.ElemOf(sl.X):
			c.Good(cons, ap.Pos(), "")
		case !isSl:
			c.Unsure(cons, ap.Pos(), "cannot resolve the bytes the public key is deserialised from")
		default:
			c.Bad(cons, ap.Pos(), "the key appended is not deserialised from the whole element of this iteration")
		}
	}
}

func c08ZeroSig(c *rt.Ctx) {
	fn := c.Fn(c09SigningPkg + ".Verify")
	cons := "signing.Verify rejects the zero signature before tbls.Verify"
	tv := c.OneCall(fn, an.Static("tbls.Verify"), "tbls.Verify", false)
	sigP := c09ParamOfType(c, fn, "github.com/attestantio/go-eth2-client/spec/phase0.BLSSignature")
	isZero := func(v ssa.Value) bool {
		if k, ok := v.(*ssa.Const); ok {
			return k.Value == nil
		}
		if al := c08LoadOf(v); al != nil { // `var zeroSig T` kept in memory and never assigned
			l := c08LocalOf(al)
			return len(l.Stores) == 0 && len(l.Writers) == 0 && len(l.Unknown) == 0
		}
		return false
	}
	found := false
	why := "no comparison of the signature parameter with the zero signature guards tbls.Verify"
	for _, cd := range an.CondsOn(fn, sigP) {
		if cd.Other == nil || !isZero(cd.Other) || (cd.Op != token.EQL && cd.Op != token.NEQ) {
			continue
		}
		eq := cd.Succ(cd.Op == token.EQL)
		if !an.Dominates(cd.If, tv) {
			why = "the zero-signature test does not precede tbls.Verify on every path"
			continue
		}
		if !an.EdgeCuts(eq, tv, nil) {
			why = "tbls.Verify is still reached when the signature is all zero"
			continue
		}
		// the zero edge must fail: every return reachable from it carries a non-nil error
		fails := true
		reach := an.ReachBlocks(eq, nil)
		for _, r := range c09Returns(fn) {
			if !reach[r.Ret.Block()] {
				continue
			}
			e := r.Vals[len(r.Vals)-1]
			if e == nil || !(c08NonNilErr(c, fn, e) || c09NonNilEdge(fn, e, r.Sink[len(r.Sink)-1])) {
				fails = false
			}
		}
		if !fails {
			why = "the zero-signature edge can return a nil error"
			continue
		}
		found = true
	}
	c.Check(cons, tv.Pos(), found, why)
}
